------------------------------- MODULE CsgRing -------------------------------
(* Model of the threaded frame distribution in csg/src/libcsg/csgapplication.cc       *)
(* (CsgApplication::Run, ProcessData, Worker::Run) as driven by harness/C05_ring.cc.  *)
(* ONE ACTION = ONE SEGMENT between two vsched scheduling points of one thread, so a  *)
(* model behaviour is exactly a sequence of (thread, resumed-op) pairs of the real    *)
(* code under the controlled scheduler; `last` records that pair (paths never merge   *)
(* silently) and `out` the observable event of the segment.  The model is bound to    *)
(* the code by lib/conform_c05.py (both directions).                                  *)
EXTENDS Naturals, Integers, Sequences, FiniteSets, TLC

CONSTANTS NT,    \* number of worker threads
          F,     \* frames in the trajectory file (>= 1)
          N,     \* --nframes (99 = absent; the cfg syntax has no negative literals)
          ORD    \* TRUE = ordered mode (token rings), FALSE = unordered

Workers == 0 .. NT-1
Thr     == 0 .. NT                 \* 0 = main, w+1 = worker w
Nxt(w)  == (w + 1) % NT

VARIABLES pc,        \* [Thr -> <<label, k>>]  pending operation of each thread
          inTok, outTok, rd, mg,   \* modelled mutexes: TRUE = locked
          budget, isFirst, cursor, \* nframes_, is_first_frame_, reader cursor
          loc,       \* [Thr -> Nat] cursor value a thread took inside NextFrame
          held,      \* [Workers -> Nat] frame currently in the worker's topology
          frames,    \* [Workers -> Seq] evaluated, not yet merged
          merged,    \* shared result
          tmpN, tmpM,\* [Thr -> ...] locals of the read-modify-write in MergeWorker
          evalLog, readLog, inReader, inMerge,
          last, out

vars == <<pc, inTok, outTok, rd, mg, budget, isFirst, cursor, loc, held, frames, merged,
          tmpN, tmpM, evalLog, readLog, inReader, inMerge, last, out>>

Min(a, b) == IF a < b THEN a ELSE b
LastSel   == IF N = 99 THEN F ELSE Min(F, N)
Selected  == [i \in 1 .. LastSel |-> i]

Init ==
  /\ pc = [t \in Thr |-> IF t = 0 THEN <<"Y100", 0>> ELSE <<"NONE", 0>>]
  /\ inTok = [w \in Workers |-> FALSE] /\ outTok = [w \in Workers |-> FALSE]
  /\ rd = FALSE /\ mg = FALSE
  /\ budget = (IF N = 99 THEN -1 ELSE N) /\ isFirst = FALSE /\ cursor = 0
  /\ loc = [t \in Thr |-> 0]
  /\ held = [w \in Workers |-> 0]
  /\ frames = [w \in Workers |-> <<>>]
  /\ merged = <<>>
  /\ tmpN = [t \in Thr |-> 0] /\ tmpM = [t \in Thr |-> <<>>]
  /\ evalLog = <<>> /\ readLog = <<>>
  /\ inReader = 1 /\ inMerge = 0          \* main is inside FirstFrame at its first point
  /\ last = <<-1, "INIT">> /\ out = <<"none">>

(* ---------------------------------------------------------------- main thread *)
MainStep ==
  LET p == pc[0] IN
  \/ /\ p[1] = "Y100"                     \* FirstFrame: F >= 1, so the frame exists
     /\ held' = [held EXCEPT ![0] = loc[0] + 1]
     /\ pc' = [pc EXCEPT ![0] = <<"Y101", 0>>]
     /\ out' = <<"none">>
     /\ UNCHANGED <<inTok, outTok, rd, mg, budget, isFirst, cursor, loc, frames, merged, tmpN, tmpM, evalLog, readLog, inReader, inMerge>>
  \/ /\ p[1] = "Y101"
     /\ cursor' = loc[0] + 1
     /\ readLog' = Append(readLog, loc[0] + 1)
     /\ inReader' = inReader - 1
     /\ isFirst' = TRUE
     /\ IF ORD THEN pc' = [pc EXCEPT ![0] = <<"PL", 1>>]
               ELSE pc' = [pc EXCEPT ![0] = <<"CR", 1>>, ![1] = <<"START", 0>>]
     /\ out' = <<"read", loc[0] + 1>>
     /\ UNCHANGED <<inTok, outTok, rd, mg, budget, loc, held, frames, merged, tmpN, tmpM, evalLog, inMerge>>
  \/ /\ p[1] = "PL"                       \* pre-lock In0,Out0,In1,Out1,... (fresh mutexes)
     /\ LET k == p[2]  w == (k - 1) \div 2 IN
        /\ IF k % 2 = 1 THEN inTok' = [inTok EXCEPT ![w] = TRUE] /\ UNCHANGED outTok
                        ELSE outTok' = [outTok EXCEPT ![w] = TRUE] /\ UNCHANGED inTok
        /\ IF k < 2 * NT THEN pc' = [pc EXCEPT ![0] = <<"PL", k + 1>>]
                         ELSE pc' = [pc EXCEPT ![0] = <<"CR", 1>>, ![1] = <<"START", 0>>]
     /\ out' = <<"none">>
     /\ UNCHANGED <<rd, mg, budget, isFirst, cursor, loc, held, frames, merged, tmpN, tmpM, evalLog, readLog, inReader, inMerge>>
  \/ /\ p[1] = "CR"                       \* point right after pthread_create of worker k-1
     /\ LET k == p[2] IN
        IF k < NT
          THEN /\ pc' = [pc EXCEPT ![0] = <<"CR", k + 1>>, ![k + 1] = <<"START", 0>>]
               /\ UNCHANGED <<inTok, outTok>>
          ELSE /\ pc' = [pc EXCEPT ![0] = <<"J", 1>>]
               /\ IF ORD THEN inTok' = [inTok EXCEPT ![0] = FALSE] /\ outTok' = [outTok EXCEPT ![0] = FALSE]
                         ELSE UNCHANGED <<inTok, outTok>>
     /\ out' = <<"none">>
     /\ UNCHANGED <<rd, mg, budget, isFirst, cursor, loc, held, frames, merged, tmpN, tmpM, evalLog, readLog, inReader, inMerge>>
  \/ /\ p[1] = "J"                        \* WaitDone of worker k-1
     /\ pc[p[2]][1] = "DONE"
     /\ IF ORD THEN pc' = [pc EXCEPT ![0] = IF p[2] < NT THEN <<"J", p[2] + 1>> ELSE <<"JA", 0>>]
               ELSE pc' = [pc EXCEPT ![0] = <<"ML", p[2]>>]
     /\ out' = <<"none">>
     /\ UNCHANGED <<inTok, outTok, rd, mg, budget, isFirst, cursor, loc, held, frames, merged, tmpN, tmpM, evalLog, readLog, inReader, inMerge>>
  \/ /\ p[1] = "ML"                       \* unordered: mergeMutex.Lock(); MergeWorker up to its first yield
     /\ ~mg
     /\ mg' = TRUE /\ inMerge' = inMerge + 1
     /\ tmpN' = [tmpN EXCEPT ![0] = Len(merged)]
     /\ pc' = [pc EXCEPT ![0] = <<"MY300", p[2]>>]
     /\ out' = <<"none">>
     /\ UNCHANGED <<inTok, outTok, rd, budget, isFirst, cursor, loc, held, frames, merged, tmpM, evalLog, readLog, inReader>>
  \/ /\ p[1] = "MY300"
     /\ tmpM' = [tmpM EXCEPT ![0] = SubSeq(merged, 1, tmpN[0]) \o frames[p[2] - 1]]
     /\ frames' = [frames EXCEPT ![p[2] - 1] = <<>>]
     /\ pc' = [pc EXCEPT ![0] = <<"MY301", p[2]>>]
     /\ out' = <<"mergedframes", frames[p[2] - 1]>>
     /\ UNCHANGED <<inTok, outTok, rd, mg, budget, isFirst, cursor, loc, held, merged, tmpN, evalLog, readLog, inReader, inMerge>>
  \/ /\ p[1] = "MY301"
     /\ merged' = tmpM[0] /\ inMerge' = inMerge - 1 /\ mg' = FALSE
     /\ pc' = [pc EXCEPT ![0] = IF p[2] < NT THEN <<"J", p[2] + 1>> ELSE <<"JA", 0>>]
     /\ out' = <<"none">>
     /\ UNCHANGED <<inTok, outTok, rd, budget, isFirst, cursor, loc, held, frames, tmpN, tmpM, evalLog, readLog, inReader>>
  \/ /\ p[1] = "JA"                       \* vs_end: join-all
     /\ \A w \in Workers : pc[w + 1][1] = "DONE"
     /\ pc' = [pc EXCEPT ![0] = <<"END", 0>>]
     /\ out' = <<"final", merged>>
     /\ UNCHANGED <<inTok, outTok, rd, mg, budget, isFirst, cursor, loc, held, frames, merged, tmpN, tmpM, evalLog, readLog, inReader, inMerge>>

(* ---------------------------------------------------------------- worker w (thread w+1) *)
\* end of ProcessData's reading part: unlock reader and next input token, enter EvalConfiguration
AfterRead(w, rdL) ==
  /\ rd' = FALSE
  /\ IF ORD THEN inTok' = [inTok EXCEPT ![Nxt(w)] = FALSE] ELSE UNCHANGED inTok

WorkerStep(w) ==
  LET t == w + 1  p == pc[t] IN
  \/ /\ p[1] = "START"
     /\ pc' = [pc EXCEPT ![t] = IF ORD THEN <<"L_IN", 0>> ELSE <<"L_RD", 0>>]
     /\ out' = <<"none">>
     /\ UNCHANGED <<inTok, outTok, rd, mg, budget, isFirst, cursor, loc, held, frames, merged, tmpN, tmpM, evalLog, readLog, inReader, inMerge>>
  \/ /\ p[1] = "L_IN" /\ ~inTok[w]
     /\ inTok' = [inTok EXCEPT ![w] = TRUE]
     /\ pc' = [pc EXCEPT ![t] = <<"L_RD", 0>>]
     /\ out' = <<"none">>
     /\ UNCHANGED <<outTok, rd, mg, budget, isFirst, cursor, loc, held, frames, merged, tmpN, tmpM, evalLog, readLog, inReader, inMerge>>
  \/ /\ p[1] = "L_RD" /\ ~rd
     /\ LET firstPending == isFirst /\ w # 0 IN
        IF budget = 0 \/ (firstPending /\ budget = 1)
          THEN \* no frame budget left: release and finish (thread exit)
               /\ UNCHANGED rd
               /\ IF ORD THEN inTok' = [inTok EXCEPT ![Nxt(w)] = FALSE] ELSE UNCHANGED inTok
               /\ pc' = [pc EXCEPT ![t] = <<"DONE", 0>>]
               /\ out' = <<"exit">>
               /\ UNCHANGED <<budget, isFirst, loc, inReader, held, evalLog>>
          ELSE /\ budget' = IF budget > 0 THEN budget - 1 ELSE budget
               /\ IF ~(isFirst /\ w = 0)
                    THEN \* NextFrame up to its first yield, reader mutex held
                         /\ rd' = TRUE /\ UNCHANGED inTok
                         /\ loc' = [loc EXCEPT ![t] = cursor]
                         /\ inReader' = inReader + 1
                         /\ pc' = [pc EXCEPT ![t] = <<"Y100", 0>>]
                         /\ out' = <<"none">>
                         /\ UNCHANGED <<isFirst, held, evalLog>>
                    ELSE \* worker 0 takes the frame the master has already read
                         /\ isFirst' = FALSE
                         /\ UNCHANGED rd
                         /\ IF ORD THEN inTok' = [inTok EXCEPT ![Nxt(w)] = FALSE] ELSE UNCHANGED inTok
                         /\ evalLog' = Append(evalLog, <<w, held[w]>>)
                         /\ pc' = [pc EXCEPT ![t] = <<"Y200", 0>>]
                         /\ out' = <<"eval", w, held[w]>>
                         /\ UNCHANGED <<loc, inReader, held>>
     /\ UNCHANGED <<outTok, mg, cursor, frames, merged, tmpN, tmpM, readLog, inMerge>>
  \/ /\ p[1] = "Y100"
     /\ IF loc[t] >= F
          THEN \* end of trajectory
               /\ inReader' = inReader - 1
               /\ AfterRead(w, TRUE)
               /\ pc' = [pc EXCEPT ![t] = <<"DONE", 0>>]
               /\ out' = <<"exit">>
               /\ UNCHANGED held
          ELSE /\ held' = [held EXCEPT ![w] = loc[t] + 1]
               /\ pc' = [pc EXCEPT ![t] = <<"Y101", 0>>]
               /\ out' = <<"none">>
               /\ UNCHANGED <<rd, inTok, inReader>>
     /\ UNCHANGED <<outTok, mg, budget, isFirst, cursor, loc, frames, merged, tmpN, tmpM, evalLog, readLog, inMerge>>
  \/ /\ p[1] = "Y101"
     /\ cursor' = loc[t] + 1
     /\ readLog' = Append(readLog, loc[t] + 1)
     /\ inReader' = inReader - 1
     /\ isFirst' = IF w = 0 THEN FALSE ELSE isFirst
     /\ AfterRead(w, TRUE)
     /\ evalLog' = Append(evalLog, <<w, held[w]>>)
     /\ pc' = [pc EXCEPT ![t] = <<"Y200", 0>>]
     /\ out' = <<"readeval", w, held[w]>>
     /\ UNCHANGED <<outTok, mg, budget, loc, held, frames, merged, tmpN, tmpM, inMerge>>
  \/ /\ p[1] = "Y200"
     /\ frames' = [frames EXCEPT ![w] = Append(frames[w], held[w])]
     /\ pc' = [pc EXCEPT ![t] = IF ORD THEN <<"L_OUT", 0>> ELSE <<"L_RD", 0>>]
     /\ out' = <<"none">>
     /\ UNCHANGED <<inTok, outTok, rd, mg, budget, isFirst, cursor, loc, held, merged, tmpN, tmpM, evalLog, readLog, inReader, inMerge>>
  \/ /\ p[1] = "L_OUT" /\ ~outTok[w]
     /\ outTok' = [outTok EXCEPT ![w] = TRUE]
     /\ inMerge' = inMerge + 1
     /\ tmpN' = [tmpN EXCEPT ![t] = Len(merged)]
     /\ pc' = [pc EXCEPT ![t] = <<"Y300", 0>>]
     /\ out' = <<"none">>
     /\ UNCHANGED <<inTok, rd, mg, budget, isFirst, cursor, loc, held, frames, merged, tmpM, evalLog, readLog, inReader>>
  \/ /\ p[1] = "Y300"
     /\ tmpM' = [tmpM EXCEPT ![t] = SubSeq(merged, 1, tmpN[t]) \o frames[w]]
     /\ frames' = [frames EXCEPT ![w] = <<>>]
     /\ pc' = [pc EXCEPT ![t] = <<"Y301", 0>>]
     /\ out' = <<"mergedframes", frames[w]>>
     /\ UNCHANGED <<inTok, outTok, rd, mg, budget, isFirst, cursor, loc, held, merged, tmpN, evalLog, readLog, inReader, inMerge>>
  \/ /\ p[1] = "Y301"
     /\ merged' = tmpM[t] /\ inMerge' = inMerge - 1
     /\ outTok' = [outTok EXCEPT ![Nxt(w)] = FALSE]
     /\ pc' = [pc EXCEPT ![t] = <<"L_IN", 0>>]
     /\ out' = <<"none">>
     /\ UNCHANGED <<inTok, rd, mg, budget, isFirst, cursor, loc, held, frames, tmpN, tmpM, evalLog, readLog, inReader>>

AllDone == pc[0][1] = "END"

Next ==
  \/ /\ MainStep /\ last' = <<0, pc[0][1]>>
  \/ \E w \in Workers : WorkerStep(w) /\ last' = <<w + 1, pc[w + 1][1]>>
  \/ /\ AllDone /\ UNCHANGED vars          \* terminated: stutter (so that TLC's deadlock check means deadlock)

Spec == Init /\ [][Next]_vars

(* ---------------------------------------------------------------- properties *)
MutexReader == inReader <= 1
MutexMerge  == inMerge <= 1
ReadsInOrder == \A i \in 1 .. Len(readLog) : readLog[i] = i
EvalFrames == [i \in 1 .. Len(evalLog) |-> evalLog[i][2]]
Count(s, x) == Cardinality({i \in 1 .. Len(s) : s[i] = x})
NoDoubleEval == \A f \in 1 .. F : Count(EvalFrames, f) <= 1
AtEnd ==
  AllDone =>
    /\ \A f \in 1 .. F : Count(EvalFrames, f) = (IF f <= LastSel THEN 1 ELSE 0)
    /\ IF ORD THEN merged = Selected
              ELSE /\ Len(merged) = LastSel
                   /\ \A f \in 1 .. LastSel : Count(merged, f) = 1
=============================================================================
