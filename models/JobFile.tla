------------------------------- MODULE JobFile -------------------------------
(* Model of the shared job file protocol of xtp ProgObserver (progressobserver.cc,     *)
(* job.cc: InitFromProgFile, RequestNextJob, SyncWithProgFile, ReportJobDone,          *)
(* UPDATE_JOBS) for K processes (one worker thread each; the thread mutex is covered   *)
(* by the direct exploration), J jobs, cache size C, with process crashes.             *)
(* One action = one ABSTRACT step of a process: lock, load, truncate/write backup,     *)
(* truncate/write job file, unlock, exec, report.  `last` records <<process, step>>.   *)
(* Bound to the code by harness/C10_model.py (projection of implementation executions  *)
(* onto these steps, and model paths forced onto the implementation).                  *)
EXTENDS Naturals, Sequences, FiniteSets, TLC

CONSTANTS K,        \* processes 1..K
          J,        \* jobs 1..J
          C,        \* cache size
          EXCL,     \* TRUE: exclusive inter-process lock (fixed code); FALSE: shared lock (the defect that was repaired)
          CRASH     \* TRUE: a process may crash at any step

Procs == 1 .. K
Jobs  == 1 .. J
\* job record: st in {"A","S","C"} (AVAILABLE, ASSIGNED, COMPLETE), h = owning process (0 none), o = result of process (0 none)
Fresh == [j \in Jobs |-> [st |-> "A", h |-> 0, o |-> 0]]

VARIABLES file, backup,     \* [ok |-> BOOLEAN, jobs |-> ...]; ok = FALSE: torn / absent
          lock,             \* set of processes holding the file lock
          pc, ret,          \* step of each process, and where a synchronisation returns to
          mem, scan, todo, cur, more,
          execLog,          \* set of <<p, j>>
          committed,        \* set of <<j, o>>: results that were in the job file after a completed rewrite
          last

vars == <<file, backup, lock, pc, ret, mem, scan, todo, cur, more, execLog, committed, last>>

Init ==
  /\ file = [ok |-> TRUE, jobs |-> Fresh]
  /\ backup = [ok |-> FALSE, jobs |-> Fresh]
  /\ lock = {}
  /\ pc = [p \in Procs |-> "ilock"] /\ ret = [p \in Procs |-> "req"]
  /\ mem = [p \in Procs |-> Fresh]
  /\ scan = [p \in Procs |-> 1]
  /\ todo = [p \in Procs |-> <<>>]
  /\ cur = [p \in Procs |-> 0]
  /\ more = [p \in Procs |-> FALSE]
  /\ execLog = {} /\ committed = {}
  /\ last = <<0, "init">>

CanLock(p) == IF EXCL THEN lock = {} ELSE TRUE

\* UPDATE_JOBS: take the external record of jobs owned by another process
Merge(p, int, ext) ==
  [j \in Jobs |-> IF ext[j].h # 0 /\ ext[j].h # p
                    THEN [st |-> ext[j].st, h |-> ext[j].h, o |-> IF ext[j].o # 0 THEN ext[j].o ELSE int[j].o]
                    ELSE int[j]]

\* the assignment loop of SyncWithProgFile, as a recursive scan from position s
RECURSIVE Assign(_, _, _, _)
Assign(p, m, s, t) ==
  IF Len(t) >= C \/ s > J THEN <<m, s, t>>
  ELSE IF m[s].st = "A"
         THEN Assign(p, [m EXCEPT ![s] = [st |-> "S", h |-> p, o |-> 0]], s + 1, Append(t, s))
         ELSE Assign(p, m, s + 1, t)

Goto(p, l) == pc' = [pc EXCEPT ![p] = l]

Step(p) ==
  LET l == pc[p] IN
  \/ /\ l \in {"ilock", "slock"} /\ CanLock(p)                          \* LockProgFile
     /\ lock' = lock \cup {p}
     /\ Goto(p, IF l = "ilock" THEN "iload" ELSE "sload")
     /\ UNCHANGED <<file, backup, ret, mem, scan, todo, cur, more, execLog, committed>>
  \/ /\ l = "iload"                                                       \* InitFromProgFile: LOAD_JOBS
     /\ IF file.ok THEN mem' = [mem EXCEPT ![p] = file.jobs] /\ Goto(p, "itruncB")
                   ELSE UNCHANGED mem /\ Goto(p, "failed")
     /\ UNCHANGED <<file, backup, lock, ret, scan, todo, cur, more, execLog, committed>>
  \/ /\ l = "sload"                                                       \* SyncWithProgFile: LOAD_JOBS + UPDATE_JOBS
     /\ IF file.ok THEN mem' = [mem EXCEPT ![p] = Merge(p, mem[p], file.jobs)] /\ Goto(p, "struncB")
                   ELSE UNCHANGED mem /\ Goto(p, "failed")
     /\ UNCHANGED <<file, backup, lock, ret, scan, todo, cur, more, execLog, committed>>
  \/ /\ l \in {"itruncB", "struncB"}                                      \* WRITE_JOBS(backup): open truncates
     /\ backup' = [backup EXCEPT !.ok = FALSE]
     /\ Goto(p, IF l = "itruncB" THEN "iwriteB" ELSE "swriteB")
     /\ UNCHANGED <<file, lock, ret, mem, scan, todo, cur, more, execLog, committed>>
  \/ /\ l = "iwriteB"
     /\ backup' = [ok |-> TRUE, jobs |-> mem[p]]
     /\ Goto(p, "iunlock")
     /\ UNCHANGED <<file, lock, ret, mem, scan, todo, cur, more, execLog, committed>>
  \/ /\ l = "swriteB"                                                     \* backup written, then the assignment loop
     /\ backup' = [ok |-> TRUE, jobs |-> mem[p]]
     /\ LET r == Assign(p, mem[p], scan[p], <<>>) IN
          /\ mem' = [mem EXCEPT ![p] = r[1]]
          /\ scan' = [scan EXCEPT ![p] = r[2]]
          /\ todo' = [todo EXCEPT ![p] = r[3]]
     /\ Goto(p, "struncF")
     /\ UNCHANGED <<file, lock, ret, cur, more, execLog, committed>>
  \/ /\ l = "struncF"                                                     \* WRITE_JOBS(job file): open truncates
     /\ file' = [file EXCEPT !.ok = FALSE]
     /\ Goto(p, "swriteF")
     /\ UNCHANGED <<backup, lock, ret, mem, scan, todo, cur, more, execLog, committed>>
  \/ /\ l = "swriteF"
     /\ file' = [ok |-> TRUE, jobs |-> mem[p]]
     /\ committed' = committed \cup {<<j, mem[p][j].o>> : j \in {i \in Jobs : mem[p][i].st = "C"}}
     /\ Goto(p, "sunlock")
     /\ UNCHANGED <<backup, lock, ret, mem, scan, todo, cur, more, execLog>>
  \/ /\ l = "iunlock"                                                     \* ReleaseProgFile
     /\ lock' = lock \ {p}
     /\ more' = [more EXCEPT ![p] = TRUE]
     /\ Goto(p, "req")
     /\ UNCHANGED <<file, backup, ret, mem, scan, todo, cur, execLog, committed>>
  \/ /\ l = "sunlock"
     /\ lock' = lock \ {p}
     /\ Goto(p, ret[p])
     /\ UNCHANGED <<file, backup, ret, mem, scan, todo, cur, more, execLog, committed>>
  \/ /\ l = "req"                                                         \* RequestNextJob: need a new chunk?
     /\ IF todo[p] = <<>> /\ more[p]
          THEN /\ Goto(p, "slock") /\ ret' = [ret EXCEPT ![p] = "take"]
               /\ UNCHANGED <<todo, cur, more>>
          ELSE IF todo[p] = <<>>
                 THEN /\ Goto(p, "slock") /\ ret' = [ret EXCEPT ![p] = "done"]      \* worker ends; master's final sync
                      /\ UNCHANGED <<todo, cur, more>>
                 ELSE /\ cur' = [cur EXCEPT ![p] = Head(todo[p])]
                      /\ todo' = [todo EXCEPT ![p] = Tail(todo[p])]
                      /\ Goto(p, "exec") /\ UNCHANGED <<ret, more>>
     /\ UNCHANGED <<file, backup, lock, mem, scan, execLog, committed>>
  \/ /\ l = "take"                                                        \* after the sync inside RequestNextJob
     /\ IF todo[p] = <<>>
          THEN /\ more' = [more EXCEPT ![p] = FALSE]
               /\ Goto(p, "slock") /\ ret' = [ret EXCEPT ![p] = "done"]
               /\ UNCHANGED <<todo, cur>>
          ELSE /\ cur' = [cur EXCEPT ![p] = Head(todo[p])]
               /\ todo' = [todo EXCEPT ![p] = Tail(todo[p])]
               /\ Goto(p, "exec") /\ UNCHANGED <<ret, more>>
     /\ UNCHANGED <<file, backup, lock, mem, scan, execLog, committed>>
  \/ /\ l = "exec"                                                        \* EvalJob
     /\ execLog' = execLog \cup {<<p, cur[p]>>}
     /\ Goto(p, "report")
     /\ UNCHANGED <<file, backup, lock, ret, mem, scan, todo, cur, more, committed>>
  \/ /\ l = "report"                                                      \* ReportJobDone
     /\ mem' = [mem EXCEPT ![p][cur[p]] = [st |-> "C", h |-> p, o |-> p]]
     /\ Goto(p, "req")
     /\ UNCHANGED <<file, backup, lock, ret, scan, todo, cur, more, execLog, committed>>

Crash(p) ==
  /\ CRASH /\ pc[p] \notin {"done", "crashed", "failed"}
  /\ pc' = [pc EXCEPT ![p] = "crashed"]
  /\ lock' = lock \ {p}                    \* the kernel drops the lock; a half-written file stays torn
  /\ UNCHANGED <<file, backup, ret, mem, scan, todo, cur, more, execLog, committed>>

Finished == \A p \in Procs : pc[p] \in {"done", "crashed", "failed"}

Next ==
  \/ \E p \in Procs : Step(p) /\ last' = <<p, pc[p]>>
  \/ \E p \in Procs : Crash(p) /\ last' = <<p, "crash">>
  \/ Finished /\ UNCHANGED vars

Spec == Init /\ [][Next]_vars

(* ---------------------------------------------------------------- properties *)
ExecOnce == \A j \in Jobs : Cardinality({p \in Procs : <<p, j>> \in execLog}) <= 1
CompleteCopy == file.ok \/ backup.ok
Good == IF file.ok THEN file.jobs ELSE backup.jobs
Durable == \A c \in committed : Good[c[1]].st = "C" /\ Good[c[1]].o = c[2]
NoTornRead == CRASH \/ \A p \in Procs : pc[p] # "failed"
AtEnd ==
  Finished =>
    \* what a process that finished normally has executed is in the surviving complete copy (the job file itself
    \* unless another process crashed while rewriting it)
    /\ \A e \in execLog : pc[e[1]] = "done" => ((CRASH \/ file.ok) /\ Good[e[2]] = [st |-> "C", h |-> e[1], o |-> e[1]])
    /\ (~CRASH) => \A j \in Jobs : \E p \in Procs : <<p, j>> \in execLog
=============================================================================
