// vsched runtime: see vsched.h.  One translation unit, no dependencies beyond libc.
// All scheduler state is touched only by the thread that holds the baton, so it needs
// no locking of its own; hand-off is a per-thread futex word.
#ifndef _GNU_SOURCE
#define _GNU_SOURCE
#endif
#include "vsched.h"

#include <dlfcn.h>
#include <errno.h>
#include <linux/futex.h>
#include <pthread.h>
#include <stdio.h>
#include <stdlib.h>
#include <string.h>
#include <sys/syscall.h>
#include <unistd.h>


namespace {

typedef int (*create_fn)(pthread_t *, const pthread_attr_t *, void *(*)(void *), void *);
typedef int (*join_fn)(pthread_t, void **);
typedef void (*exit_fn)(void *);
typedef int (*cwait_fn)(pthread_cond_t *, pthread_mutex_t *);
typedef int (*csig_fn)(pthread_cond_t *);
typedef int (*minit_fn)(pthread_mutex_t *, const pthread_mutexattr_t *);
typedef int (*mdest_fn)(pthread_mutex_t *);

create_fn real_create;
join_fn real_join;
exit_fn real_exit;
cwait_fn real_cwait;
csig_fn real_csignal, real_cbroadcast;
minit_fn real_minit;
mdest_fn real_mdestroy;
typedef int (*mlock_fn)(pthread_mutex_t *);
mlock_fn real_mlock, real_munlock, real_mtrylock;
int g_resolving = 0;

void resolve() {
  static int done = 0;
  if (done) return;
  done = 1;
  g_resolving = 1;
  real_mlock = (mlock_fn)dlsym(RTLD_NEXT, "pthread_mutex_lock");
  real_munlock = (mlock_fn)dlsym(RTLD_NEXT, "pthread_mutex_unlock");
  real_mtrylock = (mlock_fn)dlsym(RTLD_NEXT, "pthread_mutex_trylock");
  real_create = (create_fn)dlsym(RTLD_NEXT, "pthread_create");
  real_join = (join_fn)dlsym(RTLD_NEXT, "pthread_join");
  real_exit = (exit_fn)dlsym(RTLD_NEXT, "pthread_exit");
  real_cwait = (cwait_fn)dlsym(RTLD_NEXT, "pthread_cond_wait");
  real_csignal = (csig_fn)dlsym(RTLD_NEXT, "pthread_cond_signal");
  real_cbroadcast = (csig_fn)dlsym(RTLD_NEXT, "pthread_cond_broadcast");
  real_minit = (minit_fn)dlsym(RTLD_NEXT, "pthread_mutex_init");
  real_mdestroy = (mdest_fn)dlsym(RTLD_NEXT, "pthread_mutex_destroy");
  g_resolving = 0;
}
// calls that arrive while the real entry points are being looked up (single-threaded start-up,
// or dlsym's own locking) are answered without locking
#define PASS_LOCK(fnptr, m)          \
  do {                               \
    if (!fnptr) {                    \
      if (g_resolving) return 0;     \
      resolve();                     \
    }                                \
    return fnptr(m);                 \
  } while (0)

enum { T_UNUSED = 0, T_ATPOINT = 1, T_RUNNING = 2, T_FINISHED = 3 };

struct Thr {
  int state;
  pthread_t pt;
  int go;  // futex word
  int op, obj;
  void *ptr;   // mutex for LOCK/CONDWAIT
  void *cond;  // cond for CONDWAIT
  int signalled;
  int (*en_fn)(void *);
  void *en_arg;
  void *(*fn)(void *);
  void *arg;
  int exited;  // EXIT already published
  int simpid;
};

struct Mtx {
  pthread_mutex_t *addr;
  int owner;  // -1 free
};

int g_active = 0;
vs_shared *g_shm = nullptr;
const int *g_choices = nullptr;
const int *g_tids = nullptr;
int g_ntids = 0;
int g_nchoices = 0, g_horizon = VS_MAXPOINTS - 1;
Thr T[VS_MAXT];
int g_nthr = 0;
Mtx M[512];
int g_nmtx = 0;
void *C[128];
int g_ncond = 0;
uint64_t (*g_digest)(void) = nullptr;
static int g_unlock_points = 0;
int (*g_chooser)(int, const int *, int, void *) = nullptr;
void *g_chooser_arg = nullptr;
__thread int tls_tid = -1;
__thread int tls_simpid = 0;

long futex(int *addr, int op, int val) { return syscall(SYS_futex, addr, op, val, nullptr, nullptr, 0); }
void wake(int t) {
  __atomic_store_n(&T[t].go, 1, __ATOMIC_SEQ_CST);
  futex(&T[t].go, FUTEX_WAKE, 1);
}
void waitgo(int t) {
  while (__atomic_load_n(&T[t].go, __ATOMIC_SEQ_CST) == 0) futex(&T[t].go, FUTEX_WAIT, 0);
  __atomic_store_n(&T[t].go, 0, __ATOMIC_SEQ_CST);
}

[[noreturn]] void finish(int verdict, const char *msg) {
  if (g_shm) {
    snprintf(g_shm->message, sizeof g_shm->message, "%s", msg);
    g_shm->nthreads = g_nthr;
    __atomic_store_n(&g_shm->verdict, verdict, __ATOMIC_SEQ_CST);
  }
  _exit(0);
}

int mtx_id(pthread_mutex_t *m) {
  for (int i = 0; i < g_nmtx; i++)
    if (M[i].addr == m) return i;
  if (g_nmtx >= 512) finish(VS_INTERNAL, "too many mutexes");
  M[g_nmtx].addr = m;
  M[g_nmtx].owner = -1;
  return g_nmtx++;
}
int cond_id(void *c) {
  for (int i = 0; i < g_ncond; i++)
    if (C[i] == c) return i;
  if (g_ncond >= 128) finish(VS_INTERNAL, "too many condvars");
  C[g_ncond] = c;
  return g_ncond++;
}

bool enabled(int t) {
  Thr &x = T[t];
  if (x.state != T_ATPOINT) return false;
  switch (x.op) {
    case VS_OP_LOCK: return M[x.obj].owner == -1;
    case VS_OP_JOIN:
      if (x.obj < 0) {  // join-all (vs_end)
        for (int i = 0; i < g_nthr; i++)
          if (i != t && T[i].state != T_FINISHED) return false;
        return true;
      }
      return T[x.obj].state == T_FINISHED;
    case VS_OP_CONDWAIT: return x.signalled && M[x.obj].owner == -1;
    case VS_OP_FLOCK: return x.en_fn ? x.en_fn(x.en_arg) != 0 : true;
    default: return true;
  }
}

// Decide who runs next.  `me` is the thread at the point (state ATPOINT or FINISHED).
void schedule_from(int me) {
  int list[VS_MAXT], n = 0;
  bool me_enabled = enabled(me);
  if (me_enabled) list[n++] = me;
  for (int t = 0; t < g_nthr; t++)
    if (t != me && enabled(t)) list[n++] = t;
  int np = g_shm->npoints;
  if (np >= g_horizon || np >= VS_MAXPOINTS - 1) finish(VS_HORIZON, "step horizon exceeded");
  if (n == 0) {
    bool all_done = true;
    for (int t = 0; t < g_nthr; t++)
      if (T[t].state != T_FINISHED) all_done = false;
    if (all_done) return;  // last thread exiting (only possible after vs_end bookkeeping)
    char msg[256];
    int off = snprintf(msg, sizeof msg, "deadlock: no enabled thread;");
    for (int t = 0; t < g_nthr && off < 230; t++)
      if (T[t].state == T_ATPOINT) off += snprintf(msg + off, sizeof msg - off, " t%d:op%d(obj%d)", t, T[t].op, T[t].obj);
    finish(VS_DEADLOCK, msg);
  }
  int idx = np < g_nchoices ? g_choices[np] : 0;
  if (np < g_ntids) {
    idx = -1;
    for (int i = 0; i < n; i++)
      if (list[i] == g_tids[np]) idx = i;
    if (idx < 0) {
      char msg[128];
      snprintf(msg, sizeof msg, "forced thread t%d is not enabled at point %d", g_tids[np], np);
      finish(VS_DIVERGED, msg);
    }
  }
  if (g_chooser && np >= g_nchoices && np >= g_ntids) {
    idx = g_chooser(me, list, n, g_chooser_arg);
    if (idx < 0 || idx >= n) finish(VS_DIVERGED, "scheduling oracle found no enabled thread for the next expected step");
  }
  if (idx < 0 || idx >= n) finish(VS_DIVERGED, "forced choice index not available at this point");
  int chosen = list[idx];
  vs_point &p = g_shm->points[np];
  p.running = (int16_t)me;
  p.chosen = (int16_t)chosen;
  p.running_enabled = me_enabled;
  p.nenabled = (uint8_t)n;
  p.op = (uint8_t)T[me].op;
  p.obj = T[me].obj;
  p.chosen_op = (uint8_t)T[chosen].op;
  p.chosen_obj = T[chosen].obj;
  p.choice = idx;
  uint16_t mask = 0;
  for (int i = 0; i < n; i++) mask |= (uint16_t)(1u << list[i]);
  p.enabled_mask = mask;
  __atomic_store_n(&g_shm->npoints, np + 1, __ATOMIC_SEQ_CST);
  bool exiting = T[me].state == T_FINISHED;
  T[chosen].state = T_RUNNING;
  if (chosen == me) return;
  wake(chosen);
  if (!exiting) waitgo(me);
}

void apply_effect(int me) {
  Thr &x = T[me];
  if (x.op == VS_OP_LOCK || x.op == VS_OP_CONDWAIT) M[x.obj].owner = me;
}

void point(int op, int obj, void *ptr = nullptr, int (*fn)(void *) = nullptr, void *arg = nullptr) {
  int me = tls_tid;
  Thr &x = T[me];
  x.op = op;
  x.obj = obj;
  x.ptr = ptr;
  x.en_fn = fn;
  x.en_arg = arg;
  x.state = T_ATPOINT;
  schedule_from(me);
  apply_effect(me);
}

void do_exit() {
  int me = tls_tid;
  if (me < 0 || !g_active || T[me].exited) return;
  T[me].exited = 1;
  T[me].op = VS_OP_EXIT;
  T[me].obj = me;
  T[me].state = T_FINISHED;
  schedule_from(me);
}

void *tramp(void *a) {
  Thr *t = (Thr *)a;
  int id = (int)(t - T);
  tls_tid = id;
  tls_simpid = t->simpid;
  waitgo(id);  // START point: wait until scheduled for the first time
  void *r = t->fn(t->arg);
  do_exit();
  return r;
}

bool controlled() { return g_active && tls_tid >= 0; }

}  // namespace

extern "C" {

void vs_begin(vs_shared *shm, const int *choices, int nchoices, int horizon) {
  resolve();
  g_shm = shm;
  g_choices = choices;
  g_nchoices = nchoices;
  g_tids = nullptr;
  g_ntids = 0;
  g_horizon = horizon > 0 ? horizon : VS_MAXPOINTS - 1;
  memset(T, 0, sizeof T);
  g_nthr = 1;
  g_nmtx = 0;
  g_ncond = 0;
  T[0].state = T_RUNNING;
  T[0].pt = pthread_self();
  T[0].simpid = tls_simpid;
  tls_tid = 0;
  shm->npoints = 0;
  shm->nevents = 0;
  shm->verdict = VS_RUNNING;
  g_active = 1;
}

void vs_begin_tids(vs_shared *shm, const int *tids, int ntids, int horizon) {
  vs_begin(shm, nullptr, 0, horizon);
  g_tids = tids;
  g_ntids = ntids;
}

void vs_end(void) {
  if (!controlled()) return;
  point(VS_OP_JOIN, -1);
  g_shm->nthreads = g_nthr;
  g_active = 0;
  tls_tid = -1;
  if (g_shm->verdict == VS_RUNNING) g_shm->verdict = VS_COMPLETED;
}

int vs_active(void) { return g_active; }
int vs_tid(void) { return tls_tid; }
void vs_set_simpid(int pid) {
  tls_simpid = pid;
  if (tls_tid >= 0) T[tls_tid].simpid = pid;
}
int vs_simpid(void) { return tls_simpid; }

void vs_yield(int tag) {
  if (controlled()) point(VS_OP_YIELD, tag);
}
void vs_point_cond(int op, int obj, int (*enabled_fn)(void *), void *arg) {
  if (controlled()) point(op, obj, nullptr, enabled_fn, arg);
}
void vs_set_digest_fn(uint64_t (*fn)(void)) { g_digest = fn; }
void vs_set_unlock_points(int on) { g_unlock_points = on; }
void vs_set_chooser(int (*fn)(int, const int *, int, void *), void *arg) { g_chooser = fn; g_chooser_arg = arg; }
int vs_thread_simpid(int tid) { return (tid >= 0 && tid < g_nthr) ? T[tid].simpid : 0; }

void vs_log(int kind, int64_t a, int64_t b) {
  if (!g_shm) return;
  int n = g_shm->nevents;
  if (n >= VS_MAXEVENTS) return;
  g_shm->events[n].kind = kind;
  g_shm->events[n].tid = tls_tid;
  g_shm->events[n].a = a;
  g_shm->events[n].b = b;
  __atomic_store_n(&g_shm->nevents, n + 1, __ATOMIC_SEQ_CST);
}

// ------------------------------------------------------------------ interposed libc entry points
int pthread_mutex_lock(pthread_mutex_t *m) {
  if (!controlled()) PASS_LOCK(real_mlock, m);
  int id = mtx_id(m);
  point(VS_OP_LOCK, id, m);
  return 0;
}
int pthread_mutex_trylock(pthread_mutex_t *m) {
  if (!controlled()) PASS_LOCK(real_mtrylock, m);
  int id = mtx_id(m);
  point(VS_OP_TRYLOCK, id, m);
  if (M[id].owner != -1) return EBUSY;
  M[id].owner = tls_tid;
  return 0;
}
int pthread_mutex_unlock(pthread_mutex_t *m) {
  if (!controlled()) PASS_LOCK(real_munlock, m);
  int id = mtx_id(m);
  M[id].owner = -1;  // any caller may release (VOTCA's token rings unlock from another thread)
  if (g_unlock_points && vs_tid() >= 0) point(VS_OP_UNLOCK, id);
  return 0;
}
int pthread_mutex_init(pthread_mutex_t *m, const pthread_mutexattr_t *a) {
  resolve();
  if (controlled()) M[mtx_id(m)].owner = -1;
  return real_minit(m, a);
}
int pthread_mutex_destroy(pthread_mutex_t *m) {
  resolve();
  if (controlled()) {
    // forget the address (it may be reused by a later mutex); keep ids dense and deterministic
    for (int i = 0; i < g_nmtx; i++)
      if (M[i].addr == m) { M[i].addr = nullptr; M[i].owner = -1; }
    // a modelled mutex was never really locked, so the real destroy is safe
  }
  return real_mdestroy(m);
}

int pthread_create(pthread_t *th, const pthread_attr_t *attr, void *(*fn)(void *), void *arg) {
  resolve();
  if (!controlled()) return real_create(th, attr, fn, arg);
  if (g_nthr >= VS_MAXT) finish(VS_INTERNAL, "too many threads");
  int id = g_nthr++;
  Thr &t = T[id];
  memset(&t, 0, sizeof t);
  t.fn = fn;
  t.arg = arg;
  t.op = VS_OP_START;
  t.obj = id;
  t.state = T_ATPOINT;
  t.simpid = tls_simpid;
  int rc = real_create(&t.pt, attr, tramp, &t);
  if (rc) finish(VS_INTERNAL, "real pthread_create failed");
  *th = t.pt;
  point(VS_OP_CREATE, id);
  return 0;
}

int pthread_join(pthread_t th, void **ret) {
  resolve();
  if (!controlled()) return real_join(th, ret);
  int id = -1;
  for (int i = 0; i < g_nthr; i++)
    if (pthread_equal(T[i].pt, th)) id = i;
  if (id < 0) return real_join(th, ret);
  point(VS_OP_JOIN, id);
  return real_join(th, ret);
}

void pthread_exit(void *ret) {
  resolve();
  do_exit();
  real_exit(ret);
  __builtin_unreachable();
}

int pthread_cond_wait(pthread_cond_t *c, pthread_mutex_t *m) {
  resolve();
  if (!controlled()) return real_cwait(c, m);
  int mid = mtx_id(m);
  int me = tls_tid;
  M[mid].owner = -1;
  T[me].cond = c;
  T[me].signalled = 0;
  (void)cond_id(c);
  point(VS_OP_CONDWAIT, mid, m);
  T[me].cond = nullptr;
  return 0;
}
int pthread_cond_signal(pthread_cond_t *c) {
  resolve();
  if (!controlled()) return real_csignal(c);
  for (int t = 0; t < g_nthr; t++)
    if (T[t].state == T_ATPOINT && T[t].op == VS_OP_CONDWAIT && T[t].cond == c && !T[t].signalled) {
      T[t].signalled = 1;  // lowest id waiter (deterministic choice; stated limitation)
      break;
    }
  return 0;
}
int pthread_cond_broadcast(pthread_cond_t *c) {
  resolve();
  if (!controlled()) return real_cbroadcast(c);
  for (int t = 0; t < g_nthr; t++)
    if (T[t].state == T_ATPOINT && T[t].op == VS_OP_CONDWAIT && T[t].cond == c) T[t].signalled = 1;
  return 0;
}

}  // extern "C"
