// vsched — controlled scheduler for exhaustive, preemption-bounded exploration of
// real multi-threaded code (DESIGN.md §1 E1, Appendix A).
//
// The runtime interposes the libc entry points the code under test bottoms out in
// (pthread_create/join/exit, pthread_mutex_*, pthread_cond_*) by DEFINING them in the
// harness executable (linked -rdynamic), so shared libraries resolve to them.
// Outside controlled mode (or on threads the scheduler does not know) every
// wrapper calls the real function.
#pragma once
#include <stddef.h>
#include <stdint.h>

#ifdef __cplusplus
extern "C" {
#endif

enum {
  VS_OP_START = 1,   // first point of a new thread
  VS_OP_LOCK = 2,    // pthread_mutex_lock(obj)
  VS_OP_JOIN = 3,    // pthread_join(thread obj)
  VS_OP_YIELD = 4,   // vs_yield(tag=obj)
  VS_OP_EXIT = 5,    // thread end (no continuation for the running thread)
  VS_OP_CREATE = 6,  // right after pthread_create (obj = new tid)
  VS_OP_TRYLOCK = 7,
  VS_OP_CONDWAIT = 8,  // blocked in pthread_cond_wait until signalled, then needs the mutex
  VS_OP_IO = 9,        // watched I/O call / harness defined point that is always enabled
  VS_OP_FLOCK = 10,    // file lock acquisition (enabledness decided by a harness callback)
  VS_OP_UNLOCK = 11,   // right after pthread_mutex_unlock(obj), only with vs_set_unlock_points(1)
};

enum {
  VS_RUNNING = 0,
  VS_COMPLETED = 1,
  VS_DEADLOCK = 2,
  VS_HORIZON = 3,      // step horizon exceeded (livelock suspicion)
  VS_DIVERGED = 4,     // forced choice not available: replay diverged (machinery error)
  VS_INTERNAL = 5,
};

#define VS_MAXT 16
#define VS_MAXPOINTS 4096
#define VS_MAXEVENTS 8192

struct vs_point {
  int16_t running;          // thread that reached the point
  int16_t chosen;           // thread that was scheduled
  uint8_t running_enabled;  // 1 if the running thread could have continued
  uint8_t nenabled;
  uint8_t op;               // op published by the running thread
  uint8_t chosen_op;        // op of the chosen thread (what happens next)
  uint16_t enabled_mask;    // bit t = thread t enabled
  int32_t obj;              // small object id of the running thread's op (mutex #, tid, tag)
  int32_t chosen_obj;
  int32_t choice;           // index of `chosen` in the canonical enabled order
};

struct vs_event {
  int32_t kind, tid;
  int64_t a, b;
};

struct vs_shared {
  volatile int verdict;
  volatile int npoints;
  volatile int nevents;
  volatile int nthreads;
  char message[256];
  struct vs_point points[VS_MAXPOINTS];
  struct vs_event events[VS_MAXEVENTS];
  // harness area
  volatile int hverdict;  // 0 = ok, 1 = property violated
  char hkey[96];
  char hwhat[512];
  char hobs[4096];        // canonical observation string of this execution
  volatile uint64_t state_digest_at[1];  // unused placeholder (keeps layout explicit)
};

// Enter controlled mode: the calling thread becomes thread 0.  `choices[i]` is the index into the
// canonical enabled list (running thread first if enabled, then ascending ids) taken at point i;
// after the prefix choice 0 is taken.  `horizon` = max number of points.
void vs_begin(struct vs_shared *shm, const int *choices, int nchoices, int horizon);
// Same, but the prefix is given as THREAD IDS (used to force model traces onto the implementation);
// a forced thread that is not enabled at its point ends the run with VS_DIVERGED.
void vs_begin_tids(struct vs_shared *shm, const int *tids, int ntids, int horizon);
// Leave controlled mode (every other controlled thread must have finished; otherwise waits for
// them under the scheduler as a JOIN-all).
void vs_end(void);
int vs_active(void);
int vs_tid(void);  // -1 for threads unknown to the scheduler
// Always-enabled scheduling point owned by the harness.
void vs_yield(int tag);
// Harness event log (shared memory, survives a crash of the child).
void vs_log(int kind, int64_t a, int64_t b);
// Generic conditional point: blocks (thread disabled) while enabled_fn(arg)==0.
void vs_point_cond(int op, int obj, int (*enabled_fn)(void *), void *arg);
// Optional digest of harness-visible state, sampled at every point (for state-hash pruning).
void vs_set_digest_fn(uint64_t (*fn)(void));
// Optional scheduling oracle: when set, it is asked at every point (after the forced prefix) which of the
// enabled threads runs next (list in canonical order, returns an index, or -1 = diverged).
void vs_set_chooser(int (*fn)(int running, const int *enabled, int n, void *arg), void *arg);
// Also make the instant right after every pthread_mutex_unlock a scheduling point (always enabled).  Redundant for
// data-race-free code (a preemption there is equivalent to one before the thread's next synchronisation operation), but
// it lets the explorer itself exhibit the consequences of an access that was moved out of a critical section.
void vs_set_unlock_points(int on);
int vs_thread_simpid(int tid);
// process-level simulated pid for the calling thread (C10); 0 = not set
void vs_set_simpid(int pid);
int vs_simpid(void);

#ifdef __cplusplus
}
#endif
