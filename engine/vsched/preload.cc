// LD_PRELOAD front end of vsched: lets an UNMODIFIED executable (csg_stat, csg_reupdate, ...)
// run under the controlled scheduler.  The explorer passes
//   VS_SHM      path of a file (on tmpfs) holding a struct vs_shared, mapped MAP_SHARED
//   VS_CHOICES  comma separated choice prefix
//   VS_HORIZON  max number of scheduling points
// Controlled mode starts in a constructor (the initial thread becomes thread 0) and ends in an
// atexit handler of the initial thread.
#include <fcntl.h>
#include <stdio.h>
#include <stdlib.h>
#include <string.h>
#include <sys/mman.h>
#include <unistd.h>

#include "vsched.h"

static int g_choices[VS_MAXPOINTS];
static int g_n = 0;

static void at_exit_handler(void) {
  if (vs_active() && vs_tid() == 0) vs_end();
}

__attribute__((constructor(65000))) static void vs_preload_init(void) {
  const char *path = getenv("VS_SHM");
  if (!path || !*path) return;
  int fd = open(path, O_RDWR);
  if (fd < 0) return;
  void *m = mmap(nullptr, sizeof(vs_shared), PROT_READ | PROT_WRITE, MAP_SHARED, fd, 0);
  close(fd);
  if (m == MAP_FAILED) return;
  const char *c = getenv("VS_CHOICES");
  if (c) {
    while (*c && g_n < VS_MAXPOINTS) {
      g_choices[g_n++] = atoi(c);
      const char *q = strchr(c, ',');
      if (!q) break;
      c = q + 1;
    }
  }
  const char *h = getenv("VS_HORIZON");
  const char *ul = getenv("VS_UNLOCK_POINTS");
  if (ul && *ul == '1') vs_set_unlock_points(1);
  // children of this process (none expected) must not inherit the control channel
  unsetenv("VS_SHM");
  unsetenv("LD_PRELOAD");
  atexit(at_exit_handler);
  vs_begin((vs_shared *)m, g_choices, g_n, h ? atoi(h) : 0);
}
