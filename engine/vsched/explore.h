// explore.h — stateless, preemption-bounded depth-first explorer on top of vsched.
// Every execution runs in a fresh forked child of the (single-threaded) explorer process;
// the child reports through a MAP_SHARED region that survives its death.
#pragma once
#include <fcntl.h>
#include <signal.h>
#include <sys/mman.h>
#include <sys/wait.h>
#include <unistd.h>

#include <functional>
#include <string>
#include <vector>

#include "vsched.h"

namespace vsx {

struct Exec {
  std::vector<int> choices;  // full choice sequence actually taken (index per point)
  int verdict = 0;
  bool crashed = false;
  int status = 0;
  std::string message;
  const vs_shared *shm = nullptr;  // valid until the next run()
  int npoints() const { return shm->npoints; }
};

struct Explorer {
  vs_shared *shm = nullptr;
  int horizon = 2000;
  int child_timeout_s = 30;
  long long executions = 0;
  // body runs in the child: must call vs_begin(shm, choices.data(), n, horizon) ... vs_end()
  std::function<void(vs_shared *, const std::vector<int> &)> body;

  Explorer() {
    shm = (vs_shared *)mmap(nullptr, sizeof(vs_shared), PROT_READ | PROT_WRITE, MAP_SHARED | MAP_ANONYMOUS, -1, 0);
  }
  // file-backed control block (for children that exec another program with the preload library)
  explicit Explorer(const std::string &path) {
    int fd = open(path.c_str(), O_RDWR | O_CREAT | O_TRUNC, 0600);
    if (fd >= 0 && ftruncate(fd, sizeof(vs_shared)) == 0)
      shm = (vs_shared *)mmap(nullptr, sizeof(vs_shared), PROT_READ | PROT_WRITE, MAP_SHARED, fd, 0);
    if (fd >= 0) close(fd);
    if (shm == MAP_FAILED) shm = nullptr;
  }
  ~Explorer() {
    if (shm) munmap(shm, sizeof(vs_shared));
  }

  Exec run(const std::vector<int> &prefix) {
    // only the header needs clearing; arrays are bounded by the counters
    shm->verdict = VS_RUNNING;
    shm->npoints = 0;
    shm->nevents = 0;
    shm->nthreads = 0;
    shm->message[0] = 0;
    shm->hverdict = 0;
    shm->hkey[0] = shm->hwhat[0] = shm->hobs[0] = 0;
    fflush(stdout);
    fflush(stderr);
    pid_t pid = fork();
    if (pid == 0) {
      alarm(child_timeout_s);
      body(shm, prefix);
      _exit(0);
    }
    int st = 0;
    waitpid(pid, &st, 0);
    executions++;
    Exec x;
    x.shm = shm;
    x.verdict = shm->verdict;
    x.status = st;
    x.message = shm->message;
    x.crashed = !(WIFEXITED(st) && WEXITSTATUS(st) == 0);
    x.choices.resize(shm->npoints);
    for (int i = 0; i < shm->npoints; i++) x.choices[i] = shm->points[i].choice;
    return x;
  }

  // DFS over all schedules with at most `bound` preemptions below `prefix`.
  // on_exec is called for every execution; return false to stop the whole search.
  bool dfs(const std::vector<int> &prefix, int cost, int bound, const std::function<bool(const Exec &)> &on_exec) {
    Exec x = run(prefix);
    if (!on_exec(x)) return false;
    // copy what we need: the shm is overwritten by recursive runs
    int np = x.npoints();
    std::vector<vs_point> pts(shm->points, shm->points + np);
    std::vector<int> ch = x.choices;
    for (int i = (int)prefix.size(); i < np; i++) {
      int altcost = pts[i].running_enabled ? 1 : 0;
      if (cost + altcost > bound) continue;
      for (int alt = 1; alt < pts[i].nenabled; alt++) {
        std::vector<int> p2(ch.begin(), ch.begin() + i);
        p2.push_back(alt);
        if (!dfs(p2, cost + altcost, bound, on_exec)) return false;
      }
    }
    return true;
  }

  struct Branch { std::vector<int> prefix; int cost; };
  // first-level branches of the root execution (for sharding)
  std::vector<Branch> branches(const Exec &root, int bound) {
    std::vector<Branch> out;
    int np = root.npoints();
    for (int i = 0; i < np; i++) {
      int altcost = shm->points[i].running_enabled ? 1 : 0;
      if (altcost > bound) continue;
      for (int alt = 1; alt < shm->points[i].nenabled; alt++) {
        Branch b;
        b.prefix.assign(root.choices.begin(), root.choices.begin() + i);
        b.prefix.push_back(alt);
        b.cost = altcost;
        out.push_back(b);
      }
    }
    return out;
  }
};

inline std::string sched_str(const std::vector<int> &c) {
  // trailing zeros are the default and are dropped
  size_t n = c.size();
  while (n > 0 && c[n - 1] == 0) n--;
  std::string s;
  for (size_t i = 0; i < n; i++) s += (i ? "," : "") + std::to_string(c[i]);
  return s;
}
inline std::vector<int> parse_sched(const std::string &s) {
  std::vector<int> v;
  if (s.empty()) return v;
  size_t p = 0;
  while (p <= s.size()) {
    size_t q = s.find(',', p);
    if (q == std::string::npos) q = s.size();
    v.push_back(atoi(s.substr(p, q - p).c_str()));
    p = q + 1;
  }
  return v;
}
inline std::string trace_str(const vs_shared *shm, int maxp = 400) {
  static const char *opn[] = {"?", "START", "LOCK", "JOIN", "YIELD", "EXIT", "CREATE", "TRYLOCK", "CONDWAIT", "IO", "FLOCK", "UNLOCK"};
  std::string s;
  for (int i = 0; i < shm->npoints && i < maxp; i++) {
    const vs_point &p = shm->points[i];
    char b[96];
    snprintf(b, sizeof b, "%st%d@%s(%d)->t%d:%s(%d)", i ? " " : "", p.running, opn[p.op <= 11 ? p.op : 0], p.obj, p.chosen,
             opn[p.chosen_op <= 11 ? p.chosen_op : 0], p.chosen_obj);
    s += b;
  }
  return s;
}

}  // namespace vsx
