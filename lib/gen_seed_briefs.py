#!/usr/bin/env python3
"""Generate the briefs handed to seeding sub-agents (one per property) for a seeding round.

usage: gen_seed_briefs.py <round-number> <outdir> [ID ...]
A brief contains ONLY the property text, the path of the agent's own scratch worktree and how to build / test there
(nothing from /verif); the mechanisms used by earlier rounds are listed (from seeded/needs.json) so that they are not repeated.
The template of an earlier round (outdir/w3_<ID>.md or outdir/<ID>.md) is not needed.
"""
import json, os, sys

ROOT = os.path.dirname(os.path.dirname(os.path.abspath(__file__)))
CLASSES = {
 4: """## This is the FOURTH seeding round: aim for what the earlier rounds did not try

Earlier rounds already used these mechanisms for this property -- do not repeat them (pick a different function / code path):
%(used)s
This time the change must belong to one of these classes (say which one in the README):
 (d) SECOND CODE PATH: the property is implemented more than once (another reader/writer/format, another executable or
     script -- C++ tool, Perl/Python/bash script under csg/share/scripts or xtp/share -- another overload, the vectorised
     vs. the scalar variant, the grid vs. the simple variant, the triclinic vs. the orthorhombic variant, the copy
     constructor / assignment / Clone vs. the constructor); break a path that is NOT the obvious main one;
 (e) ENVIRONMENT / RARE BRANCH: wrong only when the environment answers unusually: empty or truncated input, a missing
     optional section, CRLF or trailing blanks, a zero-sized container, a value exactly on a boundary, an error path (the
     error is swallowed, reported too late, or leaves partial state behind), an early return that skips cleanup;
 (f) NUMERIC CORNER: sign, rounding direction, integer division, overflow of an index computation, a tolerance that is
     absolute where it must be relative, a unit factor applied twice or not at all on one branch;
 (g) for properties quantified over schedules or crash points: a break that needs a SPECIFIC interleaving of >= 2 threads /
     processes or a fault at a specific point (NOT the mechanisms listed above), and that a plain stress run would hit rarely.
Never use `git stash` (it is shared between all worktrees of /repo and other agents are working concurrently); switch
between changed and unchanged state with `git diff > SEED/patch.diff; git checkout -- .; ...; git apply SEED/patch.diff`.
""",
 5: """## This is the FIFTH seeding round: aim for what the earlier rounds did not try

Earlier rounds already used these mechanisms for this property -- do not repeat them (pick a different function / code path):
%(used)s
This time the change must belong to one of these classes (say which one in the README):
 (h) RARELY USED OPTION / CONFIGURATION: wrong only under a non-default option value or a combination of two options
     (command-line flag, XML option, attribute, optional argument with a default, environment variable);
 (i) SHARED HELPER: the edit is in a helper that the anchored code merely USES (tools/: Table, Property, Tokenizer, getline,
     lexical casts, linalg, random, Graph; csg/: Topology, Bead, Molecule, BoundaryCondition, NBList, readers/writers;
     xtp/: Job, QMState, checkpoint helpers, ...) and changes its behaviour only for a specific argument shape that this
     property's code produces in special situations;
 (j) ERROR CONTRACT: an input that must be rejected/reported is silently accepted (or a valid one rejected, or the wrong
     thing reported, or the error comes after a partial side effect) -- only for a specific shape of input;
 (k) SIZE / COUNT BOUNDARY: wrong only from a certain size on (more than N elements, frames, threads, jobs, digits, columns,
     characters in a name or line; a count crossing a power of two or a buffer/cache/chunk size; an index needing more
     than 5 digits in a fixed-width format);
 (l) ORDER DEPENDENCE: wrong only when independent items arrive in an unusual order (unsorted ids, descending grid,
     interactions declared in another order than used, a later item referring to an earlier one).
Never use `git stash` (it is shared between all worktrees of /repo and other agents are working concurrently); switch
between changed and unchanged state with `git diff > SEED/patch.diff; git checkout -- .; ...; git apply SEED/patch.diff`.
When you wait for a build, run ninja synchronously; do NOT write wait loops with pgrep (they match other agents' shells).
""",
 6: """## This is the SIXTH seeding round: aim for what the earlier rounds did not try

Earlier rounds already used these mechanisms for this property -- do not repeat them (pick a different function / code path):
%(used)s
This time the change must belong to one of these classes (say which one in the README):
 (m) TEXT I/O DETAILS: number formatting on output (precision, width, scientific notation, a value that needs more
     digits/columns than the field has, -0, very small/large magnitudes) or tokenising on input (tabs, several blanks,
     CRLF, comment or blank lines in unusual places, missing final newline, upper/lower case of keywords, a locale with a
     decimal comma) -- so that something written is not read back as written, or a legal file is misread;
 (n) DEFAULTS AND ABSENT PARTS: wrong only when an optional part is ABSENT (an omitted option takes a changed default, an
     optional column/section/attribute is missing, an empty selection, zero frames/rows/beads/jobs, one element only);
 (o) PROCESS-WIDE STATE: a static/global/singleton (factory registries, element/unit tables, random generators, lazily
     built caches, library-wide settings of Eigen/HDF5/expat/OpenMP, the working directory, environment variables) that
     is set by one call and changes what a later, unrelated call in the same process does;
 (p) COPY / MOVE / ASSIGN / CLONE / SWAP of an object that takes part in the property: the copy shares or loses part of
     the state (pointer members, cached quantities, flags), visible only when the copy (or the original afterwards) is used;
 (q) ACCUMULATION OVER MANY STEPS: counters, running sums/averages, offsets or indices that are right for the first few
     steps and drift or overflow later (second block, frame 2+, after a restart/resume, after N > typical items).
Never use `git stash` (it is shared between all worktrees of /repo and other agents are working concurrently); switch
between changed and unchanged state with `git diff > SEED/patch.diff; git checkout -- .; ...; git apply SEED/patch.diff`.
When you wait for a build, run ninja synchronously; do NOT write wait loops with pgrep (they match other agents' shells).
""",
 7: """## This is the SEVENTH seeding round: aim for what the earlier rounds did not try

Earlier rounds already used these mechanisms for this property -- do not repeat them (pick a different function / code path):
%(used)s
This time the change must belong to one of these classes (say which one in the README):
 (r) INTERACTION OF TWO FEATURES that each work alone: wrong only when two options / modes / input properties are combined
     (each of them alone, and the default, stay right);
 (s) CONVENTION AT A MODULE BOUNDARY: units (nm / Angstrom / bohr, degrees / radians, kJ/mol / eV / hartree), 0- vs 1-based
     numbering, row- vs column-major, inclusive vs exclusive end, sign or order convention of a pair -- converted twice, not
     at all, or the wrong way round on ONE path between two modules;
 (t) LIFETIME / ALIASING: a reference, pointer, iterator, string_view or Eigen expression that outlives or aliases what it
     refers to (container growth, erase while iterating, returning a reference to a temporary, a = f(a) aliasing, use
     after move) and gives wrong results only from a certain size on or for a particular argument pattern;
 (u) INNER-LOOP BOUND UNDER A SECONDARY CONDITION: the first/last element of an inner loop is skipped or visited twice only
     when a second condition holds (an empty neighbour, equal keys, a wrap-around, the last block being shorter);
 (v) SILENT FALLBACK: a situation that must be reported (or handled exactly) now silently takes a default, the first of
     several matches, a clamped value or the previous value.
Never use `git stash` (it is shared between all worktrees of /repo and other agents are working concurrently); switch
between changed and unchanged state with `git diff > SEED/patch.diff; git checkout -- .; ...; git apply SEED/patch.diff`.
When you wait for a build, run ninja synchronously; do NOT write wait loops with pgrep (they match other agents' shells).
The machine is shared: build with `nice ninja -j4`.
""",
 8: """## This is the EIGHTH seeding round: aim for what the earlier rounds did not try

Earlier rounds already used these mechanisms for this property -- do not repeat them (pick a different function / code path):
%(used)s
This time the change must belong to one of these classes (say which one in the README):
 (w) STATE AFTER A REPORTED ERROR: an operation that (rightly) throws / reports an error leaves the object, file or
     accumulator half-modified, so that the NEXT valid operation on the same object / file gives a wrong result (the error
     path itself, and a fresh object, stay right);
 (x) DUPLICATES AND DEGENERATE STRUCTURE: repeated names / ids / keys, identical or coincident elements, zero-length or
     zero-weight items, an item referring to itself, two items comparing equal in a sort or tie-break, a structure that is
     legal but degenerate (one bin, one grid point, a ring of two, a molecule of one bead, a box dimension equal to another);
 (y) INTEGER TYPE / SIGNEDNESS / NARROWING: Index vs int vs size_t vs unsigned, float vs double on one path, a negative
     value in an unsigned comparison, truncation toward zero where floor is needed, a product that is computed in the
     narrower type -- wrong only for negative, large or fractional values that typical data does not contain;
 (z) COMPOUND GUARD: a condition with && / || / ! or a chained comparison (< vs <=, first vs last, min vs max) whose rare
     combination of truth values now takes the wrong branch (the common combinations stay right);
 (A) RESOURCE / HANDLE ORDER: flush / close / reopen / rename / truncate order, a file opened for output before the input
     was validated, a stream state (eof/fail bits, position) carried over to the next use, a handle or buffer reused after
     a short read -- visible only in a specific sequence of calls or with a particular file size;
 (B) for properties quantified over schedules or crash points only: a check-then-act window, a condition tested outside the
     lock that protects it, state published before it is complete, a hand-over that skips a participant in one
     configuration -- needing a SPECIFIC interleaving or crash instant that a plain stress run hits rarely.
Never use `git stash` (it is shared between all worktrees of /repo and other agents are working concurrently); switch
between changed and unchanged state with `git diff > SEED/patch.diff; git checkout -- .; ...; git apply SEED/patch.diff`.
When you wait for a build, run ninja synchronously; do NOT write wait loops with pgrep (they match other agents' shells).
The machine is shared: build with `nice ninja -j6`.  Your worktree ALREADY contains a configured and fully built `_build`
(unchanged tree, configured exactly as shown above, compiler launcher ccache): do not delete or reconfigure it, just re-run
ninja after your edit (incremental).  Keep the whole task under about 35 minutes.
""",
}


def main():
    rnd = int(sys.argv[1]); outdir = sys.argv[2]; ids = sys.argv[3:]
    props = {}
    for l in open(os.path.join(ROOT, "properties.jsonl")):
        d = json.loads(l); props[d["id"]] = d
    needs = json.load(open(os.path.join(ROOT, "seeded", "needs.json")))
    os.makedirs(outdir, exist_ok=True)
    for pid in (ids or sorted(props)):
        p = props[pid]
        wt = "/tmp/seed%d_%s" % (rnd, pid)
        used = ["  - " + v for k, v in needs.items() if k.split("-")[-1].rstrip("b") == pid and v]
        a = p["anchors"]
        mech = "; ".join("%s (%s)" % (m["name"], m.get("where", "")) for m in a.get("mechanism", []))
        txt = f"""# Task: seed ONE realistic property-breaking change into votca/votca

You work ONLY inside your scratch git worktree `{wt}` (a worktree of the repository at /repo; first run
`git -C {wt} checkout --detach $(git -C /repo rev-parse HEAD)` so that you start from the current main) and, for build output, `{wt}/_build*`.  Do NOT read or write anything under
/verif, do NOT modify /repo itself, do NOT look at other directories under /tmp.  The sandbox is offline.

## The property (this text is all you get about what is being verified)

**{pid} — {p['title']}**

Statement: {p['statement']}

Quantified over: {p['quantifier']['text']}

Why the existing tests cannot settle it: {p['why_tests_cant']}

Code it is anchored in (relative to the repository root): {', '.join(a.get('files', []))}
Mechanisms: {mech}

## What to produce

A change to the repository source (C++/Perl/Python/bash/XML under csg/, tools/, xtp/ …; NOT to tests) that
1. makes the property FALSE for some inputs / schedules / histories,
2. still compiles, and the repository's existing test suite still passes with it (see below how to run it),
3. is REALISTIC: the kind of slip a maintainer could make in a refactor or "optimisation" (off-by-one, wrong
   operand, dropped term, reordered steps, stale cache, missing reset, wrong branch for a rare case, a lock taken
   a line too late, …) — not sabotage that ordinary use exposes at once,
4. needs something SPECIFIC to manifest: a particular thread interleaving, a crash/fault at a particular point,
   a multi-step sequence of operations, an unusual input shape or boundary value, or two cooperating sites that
   each look fine alone.  Prefer changes that the obvious happy-path example does NOT expose.
5. comes with a DEMONSTRATION: a small program or script that exits 0 on the unchanged tree and non-zero with
   your change applied (it may build against the libraries you built in `{wt}/_build`, or drive the built
   executables).  For schedule-dependent breaks a demonstration that forces the interleaving (sleep/yield
   injected by the demo's own subclass, many repetitions, …) is fine.

Produce exactly one change (the best one you found).  If your first idea gets caught by the existing tests,
pick another.

## How to build and run the existing tests (do this with your change applied)

    cd {wt}
    cmake -S . -B _build -G Ninja -DBUILD_TESTING=ON -DENABLE_REGRESSION_TESTING=ON -DENABLE_EXPERIMENTAL_TESTS=ON \\
          -DBUILD_XTP=OFF -DBUILD_MANPAGES=OFF -DCMAKE_BUILD_TYPE=Release -DCMAKE_CXX_COMPILER_LAUNCHER=ccache -DCMAKE_CXX_FLAGS="-O1 -Wno-error" > _build.cfg.log 2>&1
    nice ninja -C _build -j8 > _build.log 2>&1        # several minutes; the machine is shared, keep -j8 and nice
    (cd _build && ctest -j4 --timeout 900 > ../_ctest.log 2>&1); grep -E "tests passed|Failed" _ctest.log | grep -v memory_test_
    # tests named memory_test_* (if registered) ALWAYS fail in this sandbox (valgrind); every other test (134) must pass.

xtp is NOT built by this configuration (its dependencies are absent), so changes under xtp/ cannot break the
test suite; for those, the demonstration must compile the needed xtp sources itself, e.g.
`g++ -std=c++17 -O1 -DNDEBUG -fopenmp -I{wt}/xtp/include -I<dir with an empty votca/xtp/votca_xtp_config.h and votca_xtp_config.h>
 -I{wt}/tools/include -I{wt}/_build/tools/include -I{wt}/_build/tools/include/votca/tools -isystem /usr/include/eigen3
 -I/usr/include/hdf5/serial demo.cc {wt}/xtp/src/libxtp/<needed>.cc -L{wt}/_build/tools/src/libtools -lvotca_tools
 -L/usr/lib/x86_64-linux-gnu/hdf5/serial -lhdf5_cpp -lhdf5 -lboost_program_options -lboost_filesystem -lboost_system -lpthread`
(build only the `votca_tools` target then: `ninja -C _build votca_tools`).  Stand-alone compilable xtp sources include
davidsonsolver.cc, matrixfreeoperator.cc, progressobserver.cc, job.cc, gnode.cc, rate_engine.cc, qmpair.cc, segment.cc, atom.cc,
qmstate.cc, eeinteractor.cc, staticsite.cc, polarsite.cc, checkpoint.cc, IndexParser.cc, kmccalculator.cc (with stubs).

## Deliverables (all inside `{wt}/SEED/`)

* `patch.diff` — `git -C {wt} diff` of your change (source files only; no build output, no SEED/ content),
* `demo/` — the demonstration sources/scripts and `demo/run.sh` (takes the tree root as $1 and a built tree under $1/_build;
  exit 0 = property holds, non-zero = broken; it must print what it observed),
* `README.md` — which clause of the property breaks, for which inputs / schedule / history, why ordinary use and the
  existing tests do not notice, and the exact commands you ran with their outcome (tests with the change: pass;
  demo without the change: exit 0; demo with the change: non-zero).

Finally remove the big build directories you no longer need EXCEPT `{wt}/_build` if the demo needs it (say so), and reply
with a 15-line summary: the change (file, function, one-line diff description), what it needs to manifest, test-suite
result, demo results.

""" + CLASSES[rnd] % dict(used="\n".join(used) or "  (none)")
        open(os.path.join(outdir, "w%d_%s.md" % (rnd, pid)), "w").write(txt)
        print("wrote", pid, len(used), "earlier mechanisms")


if __name__ == "__main__":
    main()
