#!/usr/bin/env python3
"""Regenerates MANIFEST.json from lib/props.py + lib/manifest_text.py (single source of truth)."""
import json, os, sys
ROOT = os.path.dirname(os.path.dirname(os.path.abspath(__file__)))
sys.path.insert(0, os.path.join(ROOT, "lib"))
import props, manifest_text as T
ready = set(open(os.path.join(ROOT, 'lib', 'ready.txt')).read().split())
allp = [json.loads(l)["id"] for l in open(os.path.join(ROOT, "properties.jsonl"))]
checks = []
for pid in allp:
    if pid not in props.PROPS or pid in T.NOT_APPLICABLE or pid not in ready:
        continue
    t = props.TEXT[pid]
    checks.append(dict(property_id=pid, quick_cmd="./check %s --tier quick" % pid,
                       thorough_cmd="./check %s --tier thorough" % pid,
                       evidence_file="evidence/%s.json" % pid,
                       replay_cmd_template="./check %s --replay {path}" % pid,
                       engine=t["engine"],
                       level_claimed=dict(category=props.PROPS[pid]["level"], text=t["level_text"], design_ref=t["design_ref"]),
                       level_note=t["level_note"], technique=t["technique"]))
na = [dict(property_id=p, reason=T.NOT_APPLICABLE.get(p, "check not built yet in this round (see DESIGN.md); no claim is made")) for p in allp
      if p not in [c["property_id"] for c in checks]]
m = dict(version=1, setup_cmd="bin/setup",
         hooks=dict(guard="VOTCA_VERIF", enable="checks build /repo with -DVOTCA_VERIF into /verif/build/votca (bin/build); the define currently guards nothing: all scheduling points are obtained by libc interposition",
                    baseline_off_cmd="bin/baseline", source_commits=[], add_only=True),
         engines=T.ENGINES, checks=checks, notes=T.NOTES, not_applicable=na)
json.dump(m, open(os.path.join(ROOT, "MANIFEST.json"), "w"), indent=1)
print("MANIFEST.json: %d checks, %d not_applicable" % (len(checks), len(na)))
