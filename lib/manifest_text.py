ENGINES = [
 dict(name="vsched", path="engine/vsched/", serves_properties=["C05", "C10"],
      kind_free_text="controlled scheduler (libc interposition of pthread create/join/exit/mutex/cond, futex baton hand-off) + stateless preemption-bounded DFS explorer, one forked child per execution; replay of a schedule is deterministic and checked twice"),
 dict(name="bsx", path="harness/", serves_properties=["C13"],
      kind_free_text="bounded-scope exhaustive enumeration / explicit-state BFS over op histories of the real code against a boring reference model (C++ harnesses linked to the code built from /repo)"),
]
NOTES = "All checks go through ./check <ID> --tier quick|thorough; see DESIGN.md. known_findings.json lists repaired and known defects."
NOT_APPLICABLE = {}
