ENGINES = [
 dict(name="bsx", path="harness/", serves_properties=["C13"],
      kind_free_text="bounded-scope exhaustive enumeration / explicit-state BFS over op histories of the real code against a boring reference model (C++ harnesses linked to the code built from /repo)"),
]
NOTES = "All checks go through ./check <ID> --tier quick|thorough; see DESIGN.md. known_findings.json lists repaired and known defects."
NOT_APPLICABLE = {}
