ENGINES = [
 dict(name="bsx", path="harness/", serves_properties=["C13"],
      kind_free_text="bounded-scope exhaustive enumeration / explicit-state BFS over op histories of the real code against a boring reference model (C++ harnesses linked to the code built from /repo)"),
]
NOTES = "All checks go through ./check <ID> --tier quick|thorough; see DESIGN.md. known_findings.json lists repaired and known defects."
NOT_APPLICABLE = {}
TEXT = {
 "C13": dict(engine="bsx", design_ref="DESIGN.md §3 C13",
   technique="explicit-state BFS over operation histories of the real HistogramNew vs reference model; exhaustive small-scope enumeration for the legacy Histogram",
   level_text="Every operation history up to the stated depth over the stated value/weight alphabet on 12 (min,max,nbins,periodic) configurations is executed on the real object and compared, transition by transition, with a reference histogram; index assertions + ASan/UBSan decide the memory clause. States/transitions are counted; every transition is a trace validated on the implementation.",
   level_note="Trusted: the 15-line reference model, Eigen/libstdc++ index assertions and ASan as memory oracle; values off the alphabet are not covered."),
}
