ENGINES = [
 dict(name="vsched", path="engine/vsched/", serves_properties=["C05", "C10"],
      kind_free_text="controlled scheduler (libc interposition of pthread create/join/exit/mutex/cond in the harness executable, or LD_PRELOAD for unmodified executables; futex baton hand-off) + stateless preemption-bounded DFS explorer (engine/vsched/explore.h), one forked child per execution; a schedule is a choice sequence, replayed twice before any failure is believed; forced thread-id schedules for model conformance"),
 dict(name="tlc", path="models/", serves_properties=["C05", "C10"],
      kind_free_text="TLA+ model (one action per scheduler segment) checked exhaustively by TLC without preemption bound; state graph dumped and bound to the implementation by two-way trace conformance (harness/C05_model.py on models/CsgRing.tla, harness/C10_model.py on models/JobFile.tla)"),
 dict(name="bsx", path="harness/", serves_properties=["C01", "C02", "C03", "C04", "C06", "C07", "C08", "C09", "C11", "C12", "C13", "C14", "C15", "C16", "C17", "C18", "C19", "C20"],
      kind_free_text="bounded-scope exhaustive enumeration of inputs / explicit-state search over operation histories of the real code against a boring reference model or metamorphic relation (C++ harnesses linked to or compiled from the source tree, Python harnesses driving the built executables and scripts); sharded, failures confirmed by single-case replay"),
]
NOTES = ("All checks go through ./check <ID> --tier quick|thorough (driver lib/vcheck.py); DESIGN.md describes engines, per-property alphabets/bounds/oracles, "
         "the defects found (fixed by 'fix:' commits in /repo or listed as known) and the seeded changes each check catches. known_findings.json and "
         "known_findings.d/*.json are the committed known-findings files; notes/Cxx.md are the per-property working notes.")
NOT_APPLICABLE = {}
