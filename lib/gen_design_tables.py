#!/usr/bin/env python3
"""Rewrites the generated blocks of DESIGN.md (between <!-- BEGIN:x --> and <!-- END:x -->):
findings table from known_findings*.json, seeded-change table from seeded/*/meta.json."""
import json, glob, os, re
ROOT = os.path.dirname(os.path.dirname(os.path.abspath(__file__)))
def findings():
    rows = []
    for p in [os.path.join(ROOT, "known_findings.json")] + sorted(glob.glob(os.path.join(ROOT, "known_findings.d", "*.json"))):
        for f in json.load(open(p))["findings"]:
            rows.append(f)
    rows.sort(key=lambda f: (f["property"], f.get("commit", ""), f["key"]))
    out = ["| property | key (narrow class) | status | /repo commit | what |", "|---|---|---|---|---|"]
    for f in rows:
        what = re.sub(r"^fixed: property=\S+ \S+ ", "", f["what"]).replace("|", "\\|").replace("\n", " ")
        out.append("| %s | `%s` | %s | %s | %s |" % (f["property"], f["key"], f["status"], f.get("commit", "-"), what[:400]))
    return "\n".join(out)
def seeded():
    out = ["| seeded change | property | needs to manifest | caught by (quick) | caught by (thorough) |", "|---|---|---|---|---|"]
    for m in sorted(glob.glob(os.path.join(ROOT, "seeded", "*", "meta.json"))):
        d = json.load(open(m))
        out.append("| `%s` | %s | %s | %s | %s |" % (os.path.basename(os.path.dirname(m)), d.get("property", ""), d.get("needs", "").replace("|", "/")[:300],
                                                   d.get("caught_quick", ""), d.get("caught_thorough", "")))
    return "\n".join(out)
def coverage():
    import sys
    sys.path.insert(0, os.path.join(ROOT, "lib"))
    import props
    out = ["| property | level | parts (harness) | quick: evaluations / distinct classes / states | notes |", "|---|---|---|---|---|"]
    for pid in sorted(props.PROPS):
        spec = props.PROPS[pid]
        parts = ", ".join("%s (%s)" % (q["name"], q["harness"]) for q in spec["parts"])
        ev = os.path.join(ROOT, "evidence", pid + ".json")
        cov = ""
        if os.path.exists(ev):
            d = json.load(open(ev))
            c = d["coverage"]
            cov = "%s / %s / %s (%s tier, %.0f s)" % (c.get("evaluations"), c.get("distinct_nontrivial"), c.get("states", "-"), d["tier"], d["wall_s"])
        out.append("| %s | %s | %s | %s | notes/%s.md |" % (pid, spec["level"], parts, cov, pid))
    return "\n".join(out)
p = os.path.join(ROOT, "DESIGN.md")
s = open(p).read()
for name, fn in (("findings", findings), ("seeded", seeded), ("coverage", coverage)):
    b, e = "<!-- BEGIN:%s -->" % name, "<!-- END:%s -->" % name
    if b in s and e in s:
        s = s[:s.index(b) + len(b)] + "\n" + fn() + "\n" + s[s.index(e):]
open(p, "w").write(s)
print("DESIGN.md tables regenerated")
