"""Registry: property id -> level + harness parts.  Read by check, bin/setup."""

def cxx(name, harness, ninja=(), shards=(1, 1), **kw):
    d = dict(name=name, kind="cxx", harness=harness, ninja=list(ninja), shards=dict(quick=shards[0], thorough=shards[1]))
    d.update(kw)
    return d

def py(name, harness, ninja=(), shards=(1, 1), **kw):
    d = dict(name=name, kind="py", harness=harness, ninja=list(ninja), shards=dict(quick=shards[0], thorough=shards[1]))
    d.update(kw)
    return d

TOOLS = ["votca_tools"]
CSG = ["votca_tools", "votca_csg"]

PROPS = {
    "C13": dict(level="model_checking", parts=[
        cxx("hist", "C13_hist", ninja=TOOLS, shards=(12, 12)),
    ]),
}
