"""Registry: property id -> level + harness parts + manifest text.
One file per property in lib/props.d/Cxx.py defining PROP (dict) and TEXT (dict)."""
import glob, os, importlib.util

def cxx(name, harness, ninja=(), shards=(1, 1), **kw):
    d = dict(name=name, kind="cxx", harness=harness, ninja=list(ninja), shards=dict(quick=shards[0], thorough=shards[1]))
    d.update(kw)
    return d

def py(name, harness, ninja=(), shards=(1, 1), **kw):
    d = dict(name=name, kind="py", harness=harness, ninja=list(ninja), shards=dict(quick=shards[0], thorough=shards[1]))
    d.update(kw)
    return d

TOOLS = ["votca_tools"]
CSG = ["votca_tools", "votca_csg"]

PROPS, TEXT = {}, {}
_here = os.path.dirname(os.path.abspath(__file__))
for _f in sorted(glob.glob(os.path.join(_here, "props.d", "C*.py"))):
    _pid = os.path.basename(_f)[:-3]
    _spec = importlib.util.spec_from_file_location("props_d_" + _pid, _f)
    _m = importlib.util.module_from_spec(_spec)
    _m.cxx, _m.py, _m.TOOLS, _m.CSG = cxx, py, TOOLS, CSG
    _spec.loader.exec_module(_m)
    PROPS[_pid] = _m.PROP
    TEXT[_pid] = _m.TEXT
