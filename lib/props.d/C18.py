PROP = dict(level="exploration", parts=[
    cxx("glob", "C18_glob", ninja=CSG, shards=(4, 16), timeout=dict(quick=120, thorough=3600)),
    cxx("range", "C18_range", ninja=TOOLS, shards=(2, 8), timeout=dict(quick=120, thorough=3600)),
    cxx("index", "C18_index", ninja=TOOLS, shards=(2, 8), timeout=dict(quick=120, thorough=3600)),
])
TEXT = dict(engine="bsx", design_ref="DESIGN.md §3 C18",
   technique="exhaustive enumeration of bounded pattern/string, range-expression and index-set spaces against a DP glob matcher, a strict reference range parser with direct enumeration (iteration under a step budget in a forked child) and set semantics",
   level_text="Complete products patterns x strings over small alphabets for wildcmp (both overloads) and BeadList::Generate (type and 'name:' selection on a 6-bead topology); every range expression of a bounded grammar window (single, double, triple blocks; zero/negative strides; malformed forms) parsed, iterated under a step budget, printed and re-parsed; every subset / small unsorted vector / small token list through IndexParser in both directions.",
   level_note="Trusted: the 15-line DP matcher, the reference range/index readers. Off-alphabet inputs (longer patterns, other characters, integers beyond the windows) are not covered; 'random longer ones' of the quantifier are replaced by exhaustive longer universes over smaller alphabets.")
