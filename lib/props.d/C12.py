PROP = dict(level="exploration", parts=[
    cxx("spline", "C12_spline", ninja=TOOLS, shards=(12, 16)),
    py("resample", "C12_resample.py", ninja=CSG + ["csg_resample"], shards=(8, 8)),
])
TEXT = dict(engine="bsx", design_ref="DESIGN.md §3 C12",
   technique="exhaustive enumeration of small grids x ordinate vectors x spline type x boundary condition on the real spline classes (ASan/UBSan build) against relational oracles and a long-double reference spline; the real csg_resample executable over input tables x output grids x flag patterns",
   level_text="All grids of spacings {0.5,1,2} with 2..6 knots (two offsets), all ordinate vectors over {-1,0,1,2} up to 4 (thorough 5) knots plus lines/unit vectors, linear/cubic/Akima x natural/periodic: data at knots, one-sided limits of value and slope at every knot, straight lines, superposition, end curvature, periodic joins, comparison with a reference natural cubic / piecewise-linear interpolant; cubic/linear fits: spline-space reproduction, normal equations, grid generation; Table::Smooth; csg_resample: input values and flags returned on coinciding points, derivative file = derivative of the value file, lines reproduced.",
   level_note="Trusted: the 20-line reference spline, the assumption that the reported spline is a polynomial of degree <= 3 inside a knot interval, Eigen/libstdc++ assertions and ASan as memory oracle. Data sets off the alphabet and grids beyond 6 knots are not covered.")
