PROP = dict(level="exploration", parts=[
    cxx("mpole", "C15_mpole", ninja=TOOLS, shards=(16, 16), env={"OMP_NUM_THREADS": "1"}),
])
TEXT = dict(engine="bsx", design_ref="DESIGN.md §3 C15",
   technique="exhaustive enumeration of the bilinear basis (all 9x9 unit spherical components) on a lattice of separation vectors, against explicit point-charge clusters with Richardson extrapolation and metamorphic relations (exchange, translation, rotation, derivative)",
   level_text="For every separation vector of the stated lattice the real eeInteractor is evaluated on all 81 pairs of unit multipole components (all rank combinations, minimal and padded declared ranks) plus fixed mixed vectors; each energy is compared with the Coulomb energy of point-charge clusters that realise the same moments (independent of the tensor formulas), with the exchanged, translated and rotated evaluation, and the field terms accumulated on PolarSites with finite differences of the pair energy; the Thole tensor is checked for symmetry, tracelessness and its undamped limits.",
   level_note="Trusted: the 60-line point-charge cluster construction (Stone convention) and the Richardson error estimate; separations/directions/moment values off the lattice are covered only through bilinearity and scale invariance, not enumerated.")
