PROP = dict(level="exploration", parts=[
    cxx("kmc", "C14_kmc", ninja=TOOLS, shards=(8, 16), env={"OMP_NUM_THREADS": "1"}),
])
TEXT = dict(engine="bsx", design_ref="DESIGN.md §3 C14",
   technique="exhaustive enumeration of event lists with exact reconstruction of the lookup's partition of [0,1] from the tree's decision thresholds; lattice of Marcus-rate inputs against the detailed-balance relation; inverse-CDF identity on scripted uniform numbers",
   level_text="Every ordered event list up to length 7 over a rate alphabet spanning 12 decades (plus long lists up to 100 events) is fed to the real huffmanTree<T> and GNode; the measure of each event's preimage under findHoppingDestination is computed exactly from all decision thresholds and compared with rate/escape rate. Rate_Engine::Rate is evaluated on constructed Segment/QMPair objects over a lattice of energies, reorganisation energies, couplings, fields, temperatures and carriers; KMCCalculator::Promotetime is evaluated on chosen uniform numbers.",
   level_note="Trusted: thresholds read through -fno-access-control are the only numbers the lookup compares with (checked at three points per gap); scripted replacement of tools::Random; the exponential law is implied through the inverse-CDF identity, not observed; inputs off the lattices are not covered.")
