PROP = dict(level="exploration", parts=[
    cxx("minimg", "C02_minimg", ninja=CSG, shards=(16, 16), timeout=dict(quick=900, thorough=10800)),
])
TEXT = dict(engine="bsx", design_ref="DESIGN.md §3 C02",
   technique="exhaustive enumeration of (box, box-type mode, base point, difference, whole-box offsets) on dyadic fractional lattices against a brute-force 7^3 image search in long double",
   level_text="Every combination of the stated boxes (3^3 edge triples x tilt factors on and inside the GROMACS reduction bounds, tiny tilts, open), box-type modes, base points, differences (incl. exact and near half-box ties) and whole-box offsets (up to +-1000 images) is evaluated through Topology::setBox/BCShortestConnection/getDist and compared with the reference; BoxVolume/ShortestBoxSize are compared with independent formulas.",
   level_note="Trusted: the 30-line brute-force reference and the derived rounding tolerance. Points off the lattices and boxes off the edge/tilt alphabet are not covered.")
