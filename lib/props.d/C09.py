PROP = dict(level="exploration", parts=[
    cxx("davidson", "C09_davidson", ninja=TOOLS, shards=(16, 16), env={"OMP_NUM_THREADS": "1"},
        timeout=dict(quick=300, thorough=1200)),
])
TEXT = dict(engine="bsx", design_ref="DESIGN.md §3 C09",
   technique="exhaustive enumeration of deterministic matrix families x all solver option combinations on the real DavidsonSolver (xtp sources compiled stand-alone) vs dense diagonalisation; exact rational computation of the reachable subspace to classify 'success on a non-lowest root'",
   level_text="Every member of four stated matrix families (fixed-Q spectra alphabet, strictly diagonally dominant, the complete integer lattice of symmetric 4x4 matrices, BSE block form incl. complete 2x2-block lattice) times every combination of correction, update size, tolerance, search-space limit, neigen and dense/matrix-free operator is solved by the real code and compared with Eigen's dense solvers: order, values, norms, orthogonality, residuals, required success on diagonally dominant members, flagged roots on NoConvergence, lowest positive values in HAM mode.",
   level_note="Trusted: Eigen dense solvers as reference. Coverage is over the stated families (n <= 120), not over all real symmetric matrices; exceptions out of solve() are counted as honest non-success.")
