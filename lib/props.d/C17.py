PROP = dict(level="model_checking", parts=[
    cxx("cpt", "C17_cpt", ninja=TOOLS, shards=(16, 16),
        env={"ASAN_OPTIONS": "detect_leaks=0:abort_on_error=0:exitcode=97:symbolize=0"}),
    # overlapping handles (several CheckpointFile objects + derived objects outliving them) on ONE file in one process
    # process-wide libhdf5 state left behind by a (compact) table creation vs later large writes; one process per history
    cxx("prc", "C17_cpt", ninja=TOOLS, shards=(8, 16), args=["--family", "proc"],
        env={"ASAN_OPTIONS": "detect_leaks=0:abort_on_error=0:exitcode=97:symbolize=0"}),
    cxx("ovl", "C17_cpt", ninja=TOOLS, shards=(4, 16), args=["--family", "overlap"],
        env={"ASAN_OPTIONS": "detect_leaks=0:abort_on_error=0:exitcode=97:symbolize=0"}),
    # all call histories (whole-table / row / chunk / out-of-range, read and write) on ONE CptTable object
    cxx("tob", "C17_cpt", ninja=TOOLS, shards=(16, 16), args=["--family", "tableobj"],
        env={"ASAN_OPTIONS": "detect_leaks=0:abort_on_error=0:exitcode=97:symbolize=0"}),
])
TEXT = dict(engine="bsx", design_ref="DESIGN.md §3 C17",
   technique="explicit-state BFS over operation histories (write / reopen with each access level / read; several overlapping handles plus derived objects on one file in one process; all call sequences on one CptTable object) on real HDF5 checkpoint files vs a std::map reference model, ASan on harness + xtp sources",
   level_text="Every history up to the stated depth over the stated typed value alphabet, group paths and names is replayed on its own HDF5 file through CheckpointFile/Writer/Reader/CptTable; afterwards a fresh read-only handle reads every slot and is compared bit for bit with the reference map (never-written names must raise, read-only handles must reject writes and leave the file bytes unchanged). A sizes phase writes, overwrites and re-reads every container kind with 0..101 (thorough 1001) distinct elements, tables also row by row. An expression phase hands every Eigen expression shape (rows, columns, blocks, strips, transposes, strided Maps, segments; both storage orders; double/float/Index) to the MatrixBase overloads. A process-state family creates a table with compact=true|false (openTable or the public CptTable constructor) and then writes values above 64 KiB anywhere in the same process, and writes every value kind under one global C++ locale (classic / thousands grouping / decimal comma) and reads it under another. A further family explores 2-3 simultaneously open CheckpointFile slots (and readers/writers/tables outliving them) on one file: a READ-level handle must refuse getWriter whatever else is open, every handle reads the last write. A table-object family replays ALL call sequences of length <= 3 (thorough 4) on ONE CptTable object (from the writer, and from a reader on a MODIFY and on a READ file; 1/2/3/6 rows) over whole-table, single-row, chunk and out-of-range read/write calls against a plain vector of rows, checking every read target entry by entry and the file after every write. States/transitions are counted; every transition is a trace validated on the implementation.",
   level_note="Trusted: the reference map and canonical byte strings; system HDF5 1.10 (not instrumented; ASan sees its memcpy traffic); values/paths off the alphabet and reads with a type other than the one written are not covered.")
