PROP = dict(level="model_checking", parts=[
    cxx("sched", "C10_jobs", ninja=TOOLS, shards=(16, 16), args=["--part", "sched"], timeout=dict(quick=300, thorough=1500)),
    py("model", "C10_model.py", ninja=TOOLS, make=["C10_jobs"], shards=(5, 8), timeout=dict(quick=300, thorough=1700)),
    cxx("crash", "C10_jobs", ninja=TOOLS, shards=(6, 8), args=["--part", "crash"], timeout=dict(quick=300, thorough=1500)),
])
TEXT = dict(engine="vsched", design_ref="DESIGN.md §3 C10, Appendix A",
   technique="stateless model checking of the real code under a controlled scheduler (exhaustive preemption-bounded DFS over thread/process interleavings at lock, I/O and yield points) + exhaustive crash-point enumeration of the write history with recovery",
   level_text="K simulated processes x T threads run the real ProgObserver/Job code; every interleaving with <= k preemptions at thread-mutex, file-lock, open/read/write points is executed and judged (exactly-once execution, final file = executors' results, restart patterns). At every crash instant (each truncation, byte boundaries of each write) 'job file or backup complete' is evaluated with the real parser; for one process every I/O event x byte offset is turned into a real crash followed by a restart run.",
   level_note="Trusted: vsched runtime; POSIX record-lock model per simulated pid; transcribed 10-line JobOperator::Run / Evaluate glue; crash = process crash (written bytes survive); <=3 processes, <=2 threads, <=4 jobs.")
