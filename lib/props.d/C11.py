PROP = dict(level="exploration", parts=[
    py("opts", "C11_opts.py", ninja=TOOLS, make=["C11_drv"], shards=(16, 16)),
    cxx("roundtrip", "C11_prop", ninja=TOOLS, shards=(8, 16), args=["--mode", "rt"]),
    cxx("cast", "C11_prop", ninja=TOOLS, shards=(4, 8), args=["--mode", "cast"]),
    cxx("reuse", "C11_prop", ninja=TOOLS, shards=(4, 12), args=["--mode", "reuse"]),
])
TEXT = dict(engine="bsx", design_ref="DESIGN.md §3 C11",
   technique="exhaustive enumeration of user option trees per shipped calculator description against an independent interpreter of the description format; exhaustive small-scope enumeration of property trees (XML write/load) and of literals (as<T>)",
   level_text="Every user option tree of the stated families (single leaves x value classes, sections, list multiplicities, undeclared names, REQUIRED removal, leaf pairs, leaf subsets, additional choices) for each of the 28 shipped xtp calculator descriptions (+5 descriptions of tools' test data) is run through the real OptionsHandler::ProcessUserInput and the complete resolved tree or the rejection message is compared with the prediction of an independent Python interpreter of the description format. All property trees up to 4 nodes over a value alphabet with XML metacharacters are written with operator<< and re-read with LoadFromXML; all short strings over type-specific alphabets are converted with Property::as<T> and compared with the documented accept sets.",
   level_note="Trusted: the ~100-line reference interpreter and literal grammars; Python's expat binding for reading the descriptions. User trees outside the stated families (e.g. three or more simultaneously changed leaves far apart, duplicate non-list sections, text given to a section) are not covered.")
