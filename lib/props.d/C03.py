PROP = dict(level="exploration", parts=[
    cxx("pair2", "C03_nblist", ninja=CSG, shards=(16, 16), args=["--part", "pair2"], timeout=dict(quick=900, thorough=10800)),
    cxx("triple3", "C03_nblist", ninja=CSG, shards=(16, 16), args=["--part", "triple3"], timeout=dict(quick=900, thorough=10800)),
    cxx("dense", "C03_nblist", ninja=CSG, shards=(8, 16), args=["--part", "dense"], timeout=dict(quick=900, thorough=10800)),
    cxx("excl", "C03_nblist", ninja=CSG, shards=(4, 8), args=["--part", "excl"]),
    cxx("reuse", "C03_reuse", ninja=CSG, shards=(4, 8)),
    cxx("prochist", "C03_nblist", ninja=CSG, shards=(8, 16), args=["--part", "prochist"], timeout=dict(quick=900, thorough=10800)),
])
TEXT = dict(engine="bsx", design_ref="DESIGN.md §3 C03",
   technique="exhaustive placement of 2 and 3 beads on fractional lattices x boxes x cutoffs, dense 64-bead blocks, and all small molecule/interaction topologies, against O(N^2)/O(N^3) brute force with an independent image search",
   level_text="Every placement of 2 beads (8 per axis) and 3 beads (4 per axis) on lattices containing negative coordinates, faces, cell boundaries and far images is run through NBList, NBListGrid (one and two lists) and the one/two/three-type NBList_3Body, NBListGrid_3Body for boxes and cutoffs giving every combination of 2, 3, 4 (and 7) cells per direction, orthorhombic and reduced triclinic; reported pair/triple sets, callback multiplicity, stored vectors and distances are compared with the brute force; exclusions over all topologies of <= 4 beads in 2 molecules with <= 3 bonded interactions.",
   level_note="Trusted: the brute-force reference (fractional reduction + 5^3 image search in long double). N <= 3 exhaustively plus 64-bead blocks for multiplicity; positions off the lattices are not covered; a single grid cell per direction cannot occur for cutoffs below half the box height and is not exercised.")
