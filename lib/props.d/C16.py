PROP = dict(level="exploration", parts=[
    cxx("graph", "C16_graph", ninja=CSG, shards=(16, 16), timeout=dict(quick=600, thorough=3000)),
])
TEXT = dict(engine="bsx", design_ref="DESIGN.md §3 C16",
   technique="exhaustive enumeration of all simple graphs on <=5 labelled vertices (all 6-vertex graphs, named classes on 7..12) under all relabellings / edge and vertex insertion orders / id sets / name-mass assignments, real libvotca_tools + libvotca_csg answers vs reference BFS, union-find and isomorphism by construction",
   level_text="Every graph of the stated alphabet is built through the public API (Graph, BeadStructure, BeadMotif) in every stated presentation and each answer (GraphDistVisitor labels, decoupleIsolatedSubGraphs, reduceGraph+expandGraph, singleNetwork, isSingleStructure, breakIntoStructures/Motifs, isStructureEquivalent, findStructureId, breakIntoSimpleMotifs) is compared in full with a boring reference model; crashes/hangs are attributed to the exact case by per-case process containment.",
   level_note="Trusted: the 40-line reference (adjacency-matrix BFS, union-find). Graphs beyond 6 vertices only by named class; random larger graphs of the quantifier text are not covered (no sampling in this technique family); attribute alphabet is 2 names x 2 masses.")
