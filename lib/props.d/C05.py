PROP = dict(level="model_checking", parts=[
    cxx("ring", "C05_ring", ninja=CSG, shards=(12, 14), timeout=dict(quick=300, thorough=1500)),
    cxx("tools", "C05_tools", ninja=CSG + ["csg_stat", "csg_orientcorr", "csg_reupdate"], make=["libvsched_preload.so"], shards=(6, 12), timeout=dict(quick=300, thorough=1500)),
    cxx("race", "C05_race", ninja=CSG + ["tsan:votca_tools", "tsan:votca_csg"], shards=(6, 6), tiers=["thorough"],
        env={"LD_LIBRARY_PATH": "{BUILD}/votca-tsan/csg/src/libcsg:{BUILD}/votca-tsan/tools/src/libtools",
             "TSAN_OPTIONS": "exitcode=66 halt_on_error=0 report_signal_unsafe=0 report_mutex_bugs=0 report_destroy_locked=0 history_size=4"}, timeout=dict(thorough=1500)),
    py("model", "C05_model.py", ninja=CSG, make=["C05_ring"], shards=(4, 8), timeout=dict(quick=300, thorough=1700)),
])
TEXT = dict(engine="vsched", design_ref="DESIGN.md §3 C05, Appendix A",
   technique="stateless model checking of the real code: exhaustive preemption-bounded DFS over thread schedules under a controlled scheduler (libc interposition), fork per execution",
   level_text="Every schedule with at most k preemptions (k=1 quick; 3/2/1 for 2/3/4 workers thorough) of the real CsgApplication::Run/ProcessData/Worker::Run, driven through Application::Exec with stub readers, is executed for every (threads, frames, first-frame, nframes, ordered/unordered) configuration and judged by invariants on the observed read/evaluate/merge events; deadlock and livelock are detected by the scheduler.",
   level_note="Trusted: the vsched runtime (scheduling points at pthread create/join/exit, mutex acquire, harness yields), sequential consistency for data-race-free code, stub readers/evaluator; <=4 workers, preemption bound as stated.")
