FM = ["votca_tools", "votca_csg", "csg_fmatch"]
IMC = ["votca_tools", "votca_csg", "csg_imc_solve"]
PROP = dict(level="exploration", parts=[
    cxx("qrsolve", "C06_qrsolve", ninja=TOOLS, shards=(16, 16), timeout=dict(quick=600, thorough=3000)),
    py("imc", "C06_imc.py", ninja=IMC, shards=(16, 16), timeout=dict(quick=600, thorough=3000)),
    py("fmatch", "C06_fmatch.py", ninja=FM, shards=(16, 16), timeout=dict(quick=600, thorough=3000)),
])
TEXT = dict(engine="bsx", design_ref="DESIGN.md §3 C06",
   technique="exhaustive enumeration of small integer least-squares problems (library), of generated matrix/index/vector files (csg_imc_solve executable) and of synthetic force-matching systems whose forces are generated from functions inside the spline space (csg_fmatch executable), each against an exact / closed-form reference",
   level_text="Three parts, each a complete enumeration of a stated finite space. qrsolve: every problem min|Ax-b| s.t. Bx=0 over small integer alphabets (n<=4, m<=5, all full-row-rank B) is solved by the real linalg_constrained_qrsolve and judged by the KKT residuals with an exactly computed integer null-space basis and by comparison with the exact rational minimiser. imc: the built csg_imc_solve is run on every 2x2 matrix over {-1,0,1,2}, every 3x3 (and, thorough, 4x4) 0/1 matrix, three regularisations and all listed index splits; outputs are compared with the exact rational solution of the normal equations and with the index ranges. fmatch: the built csg_fmatch is run on the full product of interaction mixes x generating functions x grids x cells x neighbour search x LS variant x block sizes; every written table is compared with the generating function.",
   level_note="Trusted: exact rational reference solvers (30 lines each), closed-form distance/angle/dihedral gradients (self-tested against central differences at every start), the DL_POLY/XML readers as transport. Not covered: inputs off the stated alphabets/lattices, three-body non-bonded force matching, periodic (dihedral) splines, mapped (non --no-map) trajectories, non-square or ill-posed (r=0, rank deficient) solver inputs.")
