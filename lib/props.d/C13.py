PROP = dict(level="model_checking", parts=[
    cxx("hist", "C13_hist", ninja=TOOLS, shards=(12, 12)),
    py("density", "C13_density.py", ninja=CSG + ["csg_density"], shards=(8, 12)),
    py("boltzmann", "C13_boltzmann.py", ninja=CSG + ["csg_boltzmann"], shards=(8, 12)),
])
TEXT = dict(engine="bsx", design_ref="DESIGN.md §3 C13",
   technique="explicit-state BFS over operation histories of the real HistogramNew vs reference model; exhaustive small-scope enumeration for the legacy Histogram",
   level_text="Every operation history up to the stated depth over the stated value/weight alphabet on 12 (min,max,nbins,periodic) configurations is executed on the real object and compared, transition by transition, with a reference histogram; index assertions + ASan/UBSan decide the memory clause. States/transitions are counted; every transition is a trace validated on the implementation.",
   level_note="Trusted: the 15-line reference model, Eigen/libstdc++ index assertions and ASan as memory oracle; values off the alphabet are not covered.")
