PROP = dict(level="exploration", parts=[
    py("tables", "C19_tables.py", shards=(16, 16), timeout=dict(quick=3600, thorough=10800), case_timeout=1500),
    py("direct", "C19_tables.py", args=["--mode", "direct"], shards=(4, 4), timeout=dict(quick=3600, thorough=3600), case_timeout=1500),
    py("calculus", "C19_calculus.py", ninja=["votca_tools", "votca_csg", "csg_resample"], shards=(8, 8),
       timeout=dict(quick=3600, thorough=7200), case_timeout=3000),
])
TEXT = dict(engine="bsx", design_ref="DESIGN.md §3 C19",
   technique="exhaustive enumeration of small tables x documented script options; the unmodified Perl scripts of the source tree (and the built csg_resample for differentiation) are executed and compared with closed-form Python oracles derived from their help texts",
   level_text="Every table of 3 rows (and of 4 rows in the thorough tier; 7/10/13-row tables within 2 cells of base tables) over y in {0,1e-11,0.5,1,2} x flag in {i,o,u} is fed to table_linearop, table_scale, table_integrate, potential_shift, table_smooth, table_extrapolate, dist_boltzmann_invert, update_ibi_pot (all target/current/potential-flag triples) and table_combine (all pairs of value vectors, 8 operations) under each documented option; values, grid and flag column of the output are compared with the formula of the help text (allowed sets where the text leaves a choice). integrate/differentiate (csg_resample linear, cubic, akima) are checked to be inverse within derived discretisation bounds.",
   level_note="Trusted: the Python oracles (one short function per script), perl's %.15g printing (1e-12 relative tolerance). Coverage is over the stated alphabets and sizes only (the statement's sizes up to 1000 and arbitrary reals are not enumerated); the bulk runs the script text through `do FILE` in a persistent perl, a reduced set and every replay through a fresh `perl script` process.")
