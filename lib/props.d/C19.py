PROP = dict(level="exploration", parts=[
    py("tables", "C19_tables.py", shards=(16, 16), timeout=dict(quick=900, thorough=3000)),
    py("direct", "C19_tables.py", args=["--mode", "direct"], shards=(4, 4)),
])
TEXT = dict(engine="bsx", design_ref="DESIGN.md §3 C19",
   technique="exhaustive enumeration of small tables x documented options; the unmodified Perl scripts of the source tree are executed and compared with closed-form Python oracles derived from their help texts",
   level_text="placeholder",
   level_note="placeholder")
