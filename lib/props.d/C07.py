PROP = dict(level="exploration", parts=[
    cxx("deriv", "C07_deriv", ninja=CSG, shards=(16, 16)),
])
TEXT = dict(engine="bsx", design_ref="DESIGN.md §3 C07",
   technique="exhaustive enumeration of a geometry / parameter / spline-data lattice; analytic derivatives of the real code compared with Richardson-extrapolated central differences of the real value functions",
   level_text="Every bond/angle/dihedral geometry of the stated lattice (bond lengths {0.5,1,2}, angles 15..165 deg, dihedrals -165..165 deg) under rigid motions, in open/cubic/orthorhombic/triclinic boxes and under single-bead image shifts; every LJ126/LJG/CBSPL parameter vector over 3-value alphabets on a 9-point r grid incl. both ends; every C12 spline data set: Grad/DF/D2F/CalculateDerivative are compared with finite differences of EvaluateVar/CalculateF/Calculate, gradient sums, D2F symmetry, motion/shift invariance and SavePotTab rows are checked.",
   level_note="Trusted: finite differences with a derived tolerance (difference of two Richardson levels + rounding bound). Geometries off the lattice, in particular within 15 degrees of the singular ones, are not covered.")
