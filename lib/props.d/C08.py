PROP = dict(level="exploration", parts=[
    cxx("trj", "C08_trj", ninja=CSG, shards=(16, 16)),
    cxx("tab", "C08_tab", ninja=CSG, shards=(4, 8)),
    py("chain", "C08_chain.py", ninja=CSG + ["csg_map"], shards=(8, 16)),
])
TEXT = dict(engine="bsx", design_ref="DESIGN.md §3 C08",
   technique="exhaustive enumeration of small topologies / frame sequences / tables / matrices over per-format alphabets; real writer -> real reader round trips through the csg factories and through chains of csg_map --no-map processes, compared with the originals to half a unit of the last printed digit",
   level_text="Every (format, bead count, frame count, coordinate pattern, box, velocity/force presence, naming scheme) combination of the stated alphabets is written with the real writer and read back with the real trajectory and topology readers; every atom-count mismatch (frame vs topology, at frame 0 or 1) must raise; every table (flags, error column, comment), IMC matrix shape 1x1..4x5 (non-square, non-symmetric, sub-selection lists) and index file is written and read back by the library; csg_map --no-map chains a->b->a run in fresh processes.",
   level_note="Trusted: the harness' topology builder and tolerance table (half a unit of the last printed digit per format). Coordinates off the alphabets, h5md/GROMACS binary formats (not built here) and pdb topologies whose atom names are not element symbols (refused by design) are not covered.")
