"""Driver behind /verif/check: build, run harness parts (sharded), merge, confirm
failures by re-running their case, apply known_findings.json, write replays and
evidence, print the interface lines."""
import json, os, subprocess, sys, time, hashlib, shutil, concurrent.futures as cf

ROOT = os.path.dirname(os.path.dirname(os.path.abspath(__file__)))
BUILD = os.environ.get("VERIF_BUILD") or os.path.join(ROOT, "build")
REPO = os.environ.get("VERIF_REPO") or "/repo"
# evidence/replays of runs against a scratch tree (VERIF_REPO/VERIF_BUILD set) go under that build dir
OUT = ROOT if BUILD == os.path.join(ROOT, "build") and REPO == "/repo" else BUILD
sys.path.insert(0, os.path.join(ROOT, "lib"))
import props  # noqa: E402


def eprint(*a):
    print(*a, file=sys.stderr, flush=True)


def machinery_error(msg):
    print("MACHINERY-ERROR " + msg, flush=True)
    return 2


def load_known():
    import glob
    out = []
    for p in [os.path.join(ROOT, "known_findings.json")] + sorted(glob.glob(os.path.join(ROOT, "known_findings.d", "*.json"))):
        if os.path.exists(p):
            out += json.load(open(p))["findings"]
    return out


def harness_cmd(part):
    if part["kind"] == "cxx":
        return [os.path.join(BUILD, "harness", part["harness"])]
    if part["kind"] == "py":
        return [sys.executable, os.path.join(ROOT, "harness", part["harness"])]
    raise ValueError(part["kind"])


def env_for(part):
    env = dict(os.environ)
    v = os.path.join(BUILD, "votca")
    env["VERIF_ROOT"] = ROOT
    env["VOTCA_BUILD"] = v
    env["LD_LIBRARY_PATH"] = ":".join(
        [os.path.join(v, "tools/src/libtools"), os.path.join(v, "csg/src/libcsg"),
         "/usr/lib/x86_64-linux-gnu/hdf5/serial", env.get("LD_LIBRARY_PATH", "")])
    env["OMP_NUM_THREADS"] = "1"
    env["VERIF_REPO"] = REPO
    env["VERIF_BUILD"] = BUILD
    env["VOTCASHARE"] = REPO + "/csg/share"  # scripts/xml are read from the working tree
    env.setdefault("ASAN_OPTIONS", "detect_leaks=0:abort_on_error=0:exitcode=97")
    env.setdefault("UBSAN_OPTIONS", "print_stacktrace=1:halt_on_error=1:exitcode=97")
    env.update({k: v.replace("{BUILD}", BUILD) for k, v in part.get("env", {}).items()})
    return env


def run_shard(pid, part, tier, shard, nshards, rundir, timeout):
    out = os.path.join(rundir, "%s.%d.json" % (part["name"], shard))
    log = os.path.join(rundir, "%s.%d.log" % (part["name"], shard))
    wd = os.path.join(rundir, "%s.%d.wd" % (part["name"], shard))
    os.makedirs(wd, exist_ok=True)
    cmd = harness_cmd(part) + ["--tier", tier, "--out", out, "--shard", str(shard), "--nshards", str(nshards)]
    cmd += part.get("args", [])
    t0 = time.time()
    with open(log, "w") as lf:
        try:
            rc = subprocess.run(cmd, stdout=lf, stderr=subprocess.STDOUT, cwd=wd, env=env_for(part),
                                timeout=timeout).returncode
        except subprocess.TimeoutExpired:
            rc = "timeout"
    res = None
    if os.path.exists(out):
        try:
            res = json.load(open(out))
        except Exception as e:  # torn result file
            res = None
    if not part.get("keep_wd"):
        shutil.rmtree(wd, ignore_errors=True)
    return dict(shard=shard, nshards=nshards, rc=rc, res=res, log=log, wall=time.time() - t0)


def confirm_case(part, case, rundir, idx):
    """Re-run one failing case alone, in a fresh process. True = fails again."""
    wd = os.path.join(rundir, "confirm.%s.%d.wd" % (part["name"], idx))
    os.makedirs(wd, exist_ok=True)
    cmd = harness_cmd(part) + ["--case", case] + part.get("args", [])
    try:
        r = subprocess.run(cmd, stdout=subprocess.PIPE, stderr=subprocess.STDOUT, cwd=wd, env=env_for(part),
                           timeout=part.get("case_timeout", 300))
        rc, out = r.returncode, r.stdout.decode(errors="replace")
    except subprocess.TimeoutExpired:
        rc, out = "timeout", ""
    shutil.rmtree(wd, ignore_errors=True)
    return rc, out


def write_replay(pid, part, f, confirm_out):
    d = os.path.join(OUT, "replays", pid)
    os.makedirs(d, exist_ok=True)
    h = hashlib.sha1((part["name"] + f["key"] + f["case"]).encode()).hexdigest()[:10]
    safe = "".join(c if c.isalnum() or c in "-_." else "_" for c in f["key"])[:60]
    p = os.path.join(d, "%s-%s-%s.json" % (part["name"], safe, h))
    json.dump(dict(property=pid, part=part["name"], harness=part["harness"], kind=part["kind"], key=f["key"],
                   what=f["what"], case=f["case"], output_when_replayed=confirm_out[-4000:],
                   how="./check %s --replay %s" % (pid, os.path.relpath(p, ROOT))), open(p, "w"), indent=1)
    return p


def do_replay(pid, path):
    rp = json.load(open(path))
    spec = props.PROPS[pid]
    part = [p for p in spec["parts"] if p["name"] == rp["part"]][0]
    rc = build(pid, spec)
    if rc:
        return rc
    rundir = os.path.join(BUILD, "run", pid + ".replay")
    os.makedirs(rundir, exist_ok=True)
    if rp.get("history_dependent"):
        rr = run_shard(pid, part, rp["tier"], rp["shard"], rp["nshards"], rundir, part.get("timeout", {}).get(rp["tier"], 3600))
        again = rr["res"] and any(g["key"] == rp["key"] for g in rr["res"].get("failures", []))
        if again:
            print("VIOLATION property=%s replay=%s" % (pid, path))
            return 1
        if rr["res"] is None:
            return machinery_error("replay of %s: shard ended with rc=%s" % (path, rr["rc"]))
        print("replay: the work unit holds on this tree")
        return 0
    rc, out = confirm_case(part, rp["case"], rundir, 0)
    print(out)
    if rc == 3 or rc == 97 or (isinstance(rc, int) and rc < 0):
        print("VIOLATION property=%s replay=%s" % (pid, path))
        return 1
    if rc == 0:
        print("replay: case holds on this tree")
        return 0
    return machinery_error("replay of %s ended with rc=%s" % (path, rc))


def build(pid, spec):
    targets = sorted({t for p in spec["parts"] for t in p.get("ninja", [])})
    harn = sorted({p["harness"] for p in spec["parts"] if p["kind"] == "cxx"})
    extra = sorted({t for p in spec["parts"] for t in p.get("make", [])})
    cmd = [os.path.join(ROOT, "bin", "build")] + targets + ["--"] + harn + extra
    r = subprocess.run(cmd, stdout=subprocess.PIPE, stderr=subprocess.STDOUT)
    if r.returncode != 0:
        sys.stdout.write(r.stdout.decode(errors="replace")[-6000:])
        return machinery_error("build failed for %s (rc=%d)" % (pid, r.returncode))
    return 0


def main(argv):
    if not argv:
        eprint(__doc__)
        return 2
    pid = argv[0]
    tier = os.environ.get("VERIF_TIER", "quick")
    replay = None
    i = 1
    while i < len(argv):
        if argv[i] == "--tier":
            tier = argv[i + 1]; i += 2
        elif argv[i] == "--replay":
            replay = argv[i + 1]; i += 2
        else:
            eprint("unknown argument", argv[i]); return 2
    if pid not in props.PROPS:
        return machinery_error("unknown property " + pid)
    os.chdir(ROOT)
    if replay:
        return do_replay(pid, replay)
    seed = int(os.environ.get("VERIF_SEED", "0") or 0)
    spec = props.PROPS[pid]
    t0 = time.time()
    rc = build(pid, spec)
    if rc:
        return rc
    t_build = time.time() - t0
    rundir = os.path.join(BUILD, "run", pid)
    shutil.rmtree(rundir, ignore_errors=True)
    os.makedirs(rundir)

    known = [k for k in load_known() if k["property"] == pid]
    known_keys = {k["key"]: k for k in known if k["status"] == "known"}

    merged = dict(evaluations=0, classes=set(), class_count_floor=0, samples=[], failures=[], failcount={},
                  counters={}, caps=[], assumptions=[], rules=[], exhaustive=True, states=0, transitions=0,
                  traces=0, have_states=False, parts={})
    jobs = []
    ncpu = int(os.environ.get("VERIF_JOBS", "16"))
    with cf.ThreadPoolExecutor(max_workers=ncpu) as ex:
        for part in spec["parts"]:
            if tier not in part.get("tiers", ["quick", "thorough"]):
                continue
            n = part.get("shards", {}).get(tier, 1)
            tmo = part.get("timeout", {}).get(tier, 900 if tier == "quick" else 3600)
            for s in range(n):
                jobs.append((part, ex.submit(run_shard, pid, part, tier, s, n, rundir, tmo)))
        results = [(p, j.result()) for p, j in jobs]

    crashes = []
    for part, r in results:
        res = r["res"]
        pm = merged["parts"].setdefault(part["name"], dict(evaluations=0, wall_s=0.0, shards=0))
        pm["shards"] += 1
        pm["wall_s"] = max(pm["wall_s"], round(r["wall"], 2))
        if r["rc"] == "timeout":
            return machinery_error("part %s shard %d timed out (log %s)" % (part["name"], r["shard"], r["log"]))
        if r["rc"] == 2:  # the harness itself reports a failure of the machinery (never a violation)
            tail = open(r["log"]).read()[-600:] if os.path.exists(r["log"]) else ""
            return machinery_error("harness %s shard %d reported a machinery failure: %s" % (part["name"], r["shard"], tail.replace("\n", " / ")))
        if res is None or r["rc"] != 0:
            crashes.append((part, r))
            continue
        pm["evaluations"] += res["evaluations"]
        merged["evaluations"] += res["evaluations"]
        hs = set(part["name"] + ":" + h for h in res.get("class_hashes", []))
        merged["classes"] |= hs
        if len(res.get("class_hashes", [])) < res["distinct_nontrivial"]:
            merged["class_count_floor"] = max(merged["class_count_floor"], res["distinct_nontrivial"])
        if r["shard"] == 0:
            merged["rules"].append("[%s] %s" % (part["name"], res["rule"]))
            merged["assumptions"] += [a for a in res.get("assumptions", []) if a not in merged["assumptions"]]
        for smp in res.get("samples", [])[: (3 if r["shard"] == (seed % max(1, pm["shards"])) or r["shard"] == 0 else 0)]:
            merged["samples"].append("[%s] %s" % (part["name"], smp))
        for f in res.get("failures", []):
            f = dict(f); f["part"] = part; f["shard"] = r["shard"]; f["nshards"] = r.get("nshards")
            merged["failures"].append(f)
        for k, v in res.get("failcount", {}).items():
            merged["failcount"][k] = merged["failcount"].get(k, 0) + v
        for k, v in res.get("counters", {}).items():
            kk = part["name"] + "." + k
            merged["counters"][kk] = merged["counters"].get(kk, 0) + v
        for c in res.get("caps", []):
            if c not in merged["caps"]:
                merged["caps"].append(c)
        merged["exhaustive"] = merged["exhaustive"] and res.get("exhaustive", True)
        if "states" in res:
            merged["have_states"] = True
            merged["states"] += res["states"]; merged["transitions"] += res["transitions"]
            merged["traces"] += res.get("traces", 0)

    violations = []   # (key, replay path, what)
    knownhits = {}
    # harness crashes: the code under test died outside any per-case containment
    for part, r in crashes:
        tail = open(r["log"]).read()[-3000:] if os.path.exists(r["log"]) else ""
        d = os.path.join(OUT, "replays", pid); os.makedirs(d, exist_ok=True)
        p = os.path.join(d, "%s-crash-shard%d.json" % (part["name"], r["shard"]))
        json.dump(dict(property=pid, part=part["name"], key="harness-crashed", rc=str(r["rc"]),
                       what="harness process died (rc=%s) while exploring; log tail attached" % r["rc"],
                       log_tail=tail, case="", how="./check %s --tier %s" % (pid, tier)), open(p, "w"), indent=1)
        violations.append(("harness-crashed", p, "harness %s shard %d died rc=%s" % (part["name"], r["shard"], r["rc"])))

    # Determinism gate: a failure is only believed after it failed again when re-run alone, in a fresh
    # process, from its case string.  Up to 5 recorded failures per key are tried until one is confirmed.
    # Keys for which none could be confirmed are listed as unconfirmed (the case string does not carry the
    # whole history that produced them); they raise MACHINERY-ERROR only if nothing at all was confirmed.
    confirmed_keys, tried_per_key, unconfirmed = set(), {}, {}
    idx = 0
    for f in merged["failures"]:
        key = f["key"]
        part = f["part"]
        pk = (part["name"], key)
        if pk in confirmed_keys or tried_per_key.get(pk, 0) >= 5:
            continue
        tried_per_key[pk] = tried_per_key.get(pk, 0) + 1
        idx += 1
        rc, out = confirm_case(part, f["case"], rundir, idx)
        failing = rc == 3 or rc == 97 or (isinstance(rc, int) and rc < 0)
        if not failing:
            unconfirmed.setdefault(pk, "rc=%s case=%s" % (rc, f["case"][:300]))
            continue
        confirmed_keys.add(pk)
        unconfirmed.pop(pk, None)
        if key in known_keys:
            knownhits.setdefault(key, f["what"])
            continue
        p = write_replay(pid, part, f, out)
        violations.append((key, p, f["what"]))
    # Second stage for history-dependent failures (state left behind by earlier cases of the same process, e.g. a process-wide
    # cache): the case string alone does not carry the history, but the work unit (shard) does.  The shard is run again; a key
    # that fails again in it is believed, and its replay artefact is the shard invocation.
    shard_rerun = {}
    for (pname, key) in sorted(unconfirmed):
        fl = [f for f in merged["failures"] if f["part"]["name"] == pname and f["key"] == key and f.get("nshards")]
        if not fl:
            continue
        f = fl[0]
        sk = (pname, f["shard"])
        if sk not in shard_rerun:
            if len(shard_rerun) >= 6:
                continue
            os.makedirs(os.path.join(rundir, "rerun"), exist_ok=True)
            shard_rerun[sk] = run_shard(pid, f["part"], tier, f["shard"], f["nshards"], os.path.join(rundir, "rerun"),
                                        f["part"].get("timeout", {}).get(tier, 900 if tier == "quick" else 3600))
        rr = shard_rerun[sk]
        again = rr and rr["res"] and any(g["key"] == key for g in rr["res"].get("failures", []))
        if not again:
            continue
        confirmed_keys.add((pname, key))
        why = unconfirmed.pop((pname, key))
        if key in known_keys:
            knownhits.setdefault(key, f["what"])
            continue
        d = os.path.join(OUT, "replays", pid); os.makedirs(d, exist_ok=True)
        safe = "".join(c if c.isalnum() or c in "-_." else "_" for c in key)[:60]
        rp = os.path.join(d, "%s-%s-shard%d.json" % (pname, safe, f["shard"]))
        json.dump(dict(property=pid, part=pname, harness=f["part"]["harness"], kind=f["part"]["kind"], key=key, what=f["what"], case=f["case"],
                       history_dependent=True, tier=tier, shard=f["shard"], nshards=f["nshards"],
                       note="the case fails as part of its work unit (shard) and not when run alone: it depends on state left by earlier cases of the same process; the whole shard was re-run and failed again with this key",
                       how="./check %s --replay %s" % (pid, os.path.relpath(rp, ROOT))), open(rp, "w"), indent=1)
        violations.append((key, rp, f["what"] + "  [history-dependent: reproduces when shard %d/%d is re-run, not from the case alone]" % (f["shard"], f["nshards"])))
    for (pname, key), why in sorted(unconfirmed.items()):
        print("UNCONFIRMED (not reported as violation): part=%s key=%s did not fail again when re-run alone: %s" % (pname, key, why[:200]))
    if unconfirmed and not confirmed_keys and not crashes:
        (pname, key), why = sorted(unconfirmed.items())[0]
        return machinery_error("failure did not reproduce when re-run alone: part=%s key=%s %s" % (pname, key, why))

    for key, what in sorted(knownhits.items()):
        print("KNOWN-FINDING: property=%s %s [%s] (%d occurrence(s) in this run)" %
              (pid, known_keys[key]["what"], key, merged["failcount"].get(key, 1)))
    for key, p, what in violations:
        print("VIOLATION property=%s replay=%s" % (pid, os.path.relpath(p, ROOT)))
        print("  key=%s: %s" % (key, what))

    distinct = max(len(merged["classes"]), merged["class_count_floor"])
    wall = time.time() - t0
    cov = dict(evaluations=merged["evaluations"], distinct_nontrivial=distinct,
               rule=" || ".join(merged["rules"]), samples=merged["samples"][:12] or ["(none)"],
               exhaustive=merged["exhaustive"] and not merged["caps"], caps_hit=merged["caps"],
               counters=merged["counters"], parts=merged["parts"], build_s=round(t_build, 2),
               known_findings_seen=sorted(knownhits), failure_classes={k: v for k, v in merged["failcount"].items()})
    if merged["have_states"]:
        cov["states"] = merged["states"]; cov["transitions"] = merged["transitions"]
        cov["traces_validated_against_impl"] = merged["traces"]
    ev = dict(property_id=pid, tier=tier, seed=seed, level=spec["level"], coverage=cov,
              assumptions=spec.get("assumptions", []) + merged["assumptions"], wall_s=round(wall, 2),
              violations=len(violations))
    os.makedirs(os.path.join(OUT, "evidence"), exist_ok=True)
    tmp = os.path.join(OUT, "evidence", pid + ".json.tmp")
    json.dump(ev, open(tmp, "w"), indent=1)
    os.replace(tmp, os.path.join(OUT, "evidence", pid + ".json"))

    print("%s tier=%s evaluations=%d distinct=%d exhaustive=%s violations=%d known=%d wall=%.1fs" %
          (pid, tier, merged["evaluations"], distinct, cov["exhaustive"], len(violations), len(knownhits), wall))
    if violations:
        return 1
    if merged["evaluations"] < 1 or distinct < 2:
        return machinery_error("vacuous exploration: evaluations=%d distinct=%d" % (merged["evaluations"], distinct))
    return 0
