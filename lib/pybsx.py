"""Python counterpart of harness/bsx.h for executable-driven harnesses.

A harness script is run as
    python3 harness/Cxx_name.py --tier quick|thorough --out result.json --shard i --nshards n
    python3 harness/Cxx_name.py --case "<case string>"      -> exit 0 holds / 3 fails
Environment (set by the driver): VERIF_ROOT, VERIF_REPO (source tree), VERIF_BUILD
(build dir; executables under $VERIF_BUILD/votca/...), LD_LIBRARY_PATH, VOTCASHARE.
cwd is a private scratch directory that is deleted afterwards.
"""
import argparse, hashlib, json, os, sys, time


class Report:
    def __init__(self, prop, part, tier):
        self.property, self.part, self.tier = prop, part, tier
        self.rule = ""
        self.evaluations = 0
        self.classes = set()
        self.samples, self.failures, self.caps, self.assumptions = [], [], [], []
        self.failcount, self.counters = {}, {}
        self.exhaustive = True
        self.states = self.transitions = self.traces = None
        self.t0 = time.time()
        self.max_fail_per_key, self.max_samples = 5, 8

    def eval(self, n=1):
        self.evaluations += n

    def cls(self, x):
        self.classes.add(hashlib.sha1(repr(x).encode()).hexdigest()[:16])

    def sample(self, s):
        if len(self.samples) < self.max_samples:
            self.samples.append(s)

    def cap(self, s):
        self.exhaustive = False
        if s not in self.caps:
            self.caps.append(s)

    def count(self, k, n=1):
        self.counters[k] = self.counters.get(k, 0) + n

    def fail(self, key, what, case):
        n = self.failcount[key] = self.failcount.get(key, 0) + 1
        if n <= self.max_fail_per_key:
            self.failures.append(dict(key=key, what=what, case=case))

    def write(self, path):
        d = dict(property=self.property, part=self.part, tier=self.tier, rule=self.rule,
                 evaluations=self.evaluations, distinct_nontrivial=len(self.classes), exhaustive=self.exhaustive,
                 wall_s=round(time.time() - self.t0, 3), class_hashes=sorted(self.classes)[:200000],
                 samples=self.samples, caps=self.caps, assumptions=self.assumptions, counters=self.counters,
                 failcount=self.failcount, failures=self.failures)
        if self.states is not None:
            d.update(states=self.states, transitions=self.transitions, traces=self.traces or 0)
        json.dump(d, open(path, "w"), indent=1)


def parse(argv=None):
    ap = argparse.ArgumentParser()
    ap.add_argument("--tier", default="quick")
    ap.add_argument("--out")
    ap.add_argument("--case")
    ap.add_argument("--shard", type=int, default=0)
    ap.add_argument("--nshards", type=int, default=1)
    a, rest = ap.parse_known_args(argv)
    a.rest = rest
    a.mine = lambda i: a.nshards <= 1 or (i % a.nshards) == a.shard
    return a


REPO = os.environ.get("VERIF_REPO", "/repo")
BUILD = os.environ.get("VERIF_BUILD", "/verif/build")
VOTCA = os.path.join(BUILD, "votca")


def exe(name):
    """path of a built csg executable (csg_map, csg_stat, ...)"""
    for sub in ("csg/src/tools", "csg/src/csg_boltzmann", "tools/src/tools", "csg/share/template"):
        p = os.path.join(VOTCA, sub, name)
        if os.path.exists(p):
            return p
    for root, dirs, files in os.walk(os.path.join(VOTCA, "csg/src/csgapps")):
        if name in files:
            return os.path.join(root, name)
    raise FileNotFoundError(name)
