HARNESSES += C16_graph
C16_graph_SRCS  :=
C16_graph_FLAGS := -O2
C16_graph_LIBS  := $(LIBCSG) $(LIBTOOLS)
C16_graph_DEPS  := $(TOOLSSO) $(CSGSO)
