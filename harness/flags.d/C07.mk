HARNESSES += C07_deriv
# the anchored sources are compiled INTO the harness (Eigen index assertions thrown as exceptions);
# Topology, boundary conditions, Table come from the shared libraries
C07_deriv_SRCS  := csg/src/libcsg/potentialfunctions/potentialfunction.cc \
                   csg/src/libcsg/potentialfunctions/potentialfunctionlj126.cc \
                   csg/src/libcsg/potentialfunctions/potentialfunctionljg.cc \
                   csg/src/libcsg/potentialfunctions/potentialfunctioncbspl.cc \
                   tools/src/libtools/cubicspline.cc tools/src/libtools/akimaspline.cc \
                   tools/src/libtools/linspline.cc tools/src/libtools/spline.cc
C07_deriv_FLAGS := $(EIGEN_THROW) -include stdexcept
C07_deriv_LIBS  := $(LIBCSG) $(LIBTOOLS)
C07_deriv_DEPS  := $(CSGSO) $(TOOLSSO)
