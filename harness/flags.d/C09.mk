HARNESSES += C09_davidson
C09_davidson_SRCS  := xtp/src/libxtp/davidsonsolver.cc xtp/src/libxtp/matrixfreeoperator.cc
C09_davidson_XTP   := 1
C09_davidson_FLAGS := -O2 $(EIGEN_THROW) -include stdexcept -fno-access-control
C09_davidson_LIBS  := $(LIBTOOLS)
C09_davidson_DEPS  := $(TOOLSSO)
