HARNESSES += C17_cpt
C17_cpt_SRCS  := xtp/src/libxtp/checkpoint.cc xtp/src/libxtp/staticsite.cc
C17_cpt_XTP   := 1
C17_cpt_FLAGS := $(EIGEN_THROW) -include stdexcept $(SAN) -fno-sanitize=float-cast-overflow
C17_cpt_LIBS  := $(LIBTOOLS) -L/usr/lib/x86_64-linux-gnu/hdf5/serial -lhdf5_cpp -lhdf5
C17_cpt_DEPS  := $(TOOLSSO)
