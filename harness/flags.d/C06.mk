HARNESSES += C06_qrsolve
C06_qrsolve_SRCS  := tools/src/libtools/linalg.cc
C06_qrsolve_FLAGS := $(EIGEN_THROW) -include stdexcept -include algorithm -O2
C06_qrsolve_LIBS  := $(LIBTOOLS)
C06_qrsolve_DEPS  := $(TOOLSSO)
