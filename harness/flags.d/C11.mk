HARNESSES += C11_drv C11_prop
# C11_drv: batch driver around the real OptionsHandler (no oracle inside; driven by C11_opts.py)
C11_drv_LIBS  := $(LIBTOOLS)
C11_drv_DEPS  := $(TOOLSSO)
# C11_prop: Property XML write/load round trip + as<T> literal acceptance (bsx harness, --mode rt|cast)
C11_prop_LIBS := $(LIBTOOLS)
C11_prop_DEPS := $(TOOLSSO)
