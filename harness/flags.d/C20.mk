HARNESSES += C20_units
C20_units_FLAGS := -fno-access-control
C20_units_LIBS  := $(LIBCSG) $(LIBTOOLS)
C20_units_DEPS  := $(TOOLSSO) $(CSGSO)
