HARNESSES += C05_ring
C05_ring_ENGINE  := vsched/vsched.cc
C05_ring_FLAGS   := -fno-access-control
C05_ring_LDFLAGS := -rdynamic
C05_ring_LIBS    := $(LIBCSG) $(LIBTOOLS)
C05_ring_DEPS    := $(CSGSO) $(TOOLSSO)

HARNESSES += C05_tools
C05_tools_FLAGS :=
C05_tools_LIBS  :=
