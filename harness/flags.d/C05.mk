HARNESSES += C05_ring
C05_ring_ENGINE  := vsched/vsched.cc
C05_ring_FLAGS   := -fno-access-control
C05_ring_LDFLAGS := -rdynamic
C05_ring_LIBS    := $(LIBCSG) $(LIBTOOLS)
C05_ring_DEPS    := $(CSGSO) $(TOOLSSO)

HARNESSES += C05_tools
C05_tools_FLAGS :=
C05_tools_LIBS  := -L/usr/lib/x86_64-linux-gnu/hdf5/serial -lhdf5

# free-running ThreadSanitizer pass (thorough tier): linked against the TSan build of the libraries
HARNESSES += C05_race
C05_race_FLAGS   := -fno-access-control -fsanitize=thread -g1
C05_race_LDFLAGS := -fsanitize=thread -rdynamic
C05_race_LIBS    := -L$(B)/votca-tsan/csg/src/libcsg -lvotca_csg -L$(B)/votca-tsan/tools/src/libtools -lvotca_tools -Wl,-rpath,$(B)/votca-tsan/csg/src/libcsg:$(B)/votca-tsan/tools/src/libtools
C05_race_DEPS    := $(B)/votca-tsan/csg/src/libcsg/libvotca_csg.so $(B)/votca-tsan/tools/src/libtools/libvotca_tools.so
