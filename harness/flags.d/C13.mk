HARNESSES += C13_hist
C13_hist_SRCS  := tools/src/libtools/histogramnew.cc tools/src/libtools/histogram.cc tools/src/libtools/table.cc
C13_hist_FLAGS := $(EIGEN_THROW) -D_GLIBCXX_ASSERTIONS -include stdexcept $(SAN) -fno-sanitize=float-cast-overflow
C13_hist_LIBS  := $(LIBTOOLS)
C13_hist_DEPS  := $(TOOLSSO)
