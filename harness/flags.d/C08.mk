HARNESSES += C08_trj C08_tab
# pdbreader/lammpsdumpreader are compiled INTO the harness with assertions on (-UNDEBUG) so that an
# out-of-range Topology::getBead (boost deque BOOST_ASSERT) aborts deterministically instead of being silent UB
C08_trj_SRCS  := csg/src/libcsg/modules/io/pdbreader.cc csg/src/libcsg/modules/io/lammpsdumpreader.cc csg/src/libcsg/modules/io/lammpsdatareader.cc
C08_trj_FLAGS := -include stdexcept -UNDEBUG
C08_trj_LIBS  := $(LIBCSG) $(LIBTOOLS)
C08_trj_DEPS  := $(CSGSO) $(TOOLSSO)
C08_tab_FLAGS := -include stdexcept
C08_tab_LIBS  := $(LIBCSG) $(LIBTOOLS)
C08_tab_DEPS  := $(CSGSO) $(TOOLSSO)
