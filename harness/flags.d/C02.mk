HARNESSES += C02_minimg
C02_minimg_FLAGS := -O2
C02_minimg_LIBS  := $(LIBCSG) $(LIBTOOLS)
C02_minimg_DEPS  := $(CSGSO) $(TOOLSSO)
