HARNESSES += C03_nblist
C03_nblist_SRCS  := csg/src/libcsg/nblist.cc csg/src/libcsg/nblistgrid.cc csg/src/libcsg/nblist_3body.cc csg/src/libcsg/nblistgrid_3body.cc csg/src/libcsg/exclusionlist.cc csg/src/libcsg/beadlist.cc
C03_nblist_FLAGS := -O2 -D_GLIBCXX_ASSERTIONS
C03_nblist_LIBS  := $(LIBCSG) $(LIBTOOLS)
C03_nblist_DEPS  := $(CSGSO) $(TOOLSSO)
