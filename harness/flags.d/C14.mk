HARNESSES += C14_kmc
C14_kmc_XTP   := 1
C14_kmc_SRCS  := xtp/src/libxtp/gnode.cc xtp/src/libxtp/rate_engine.cc xtp/src/libxtp/qmpair.cc xtp/src/libxtp/segment.cc \
                 xtp/src/libxtp/atom.cc xtp/src/libxtp/qmstate.cc xtp/src/libxtp/kmccalculator.cc
# -include C14_random_seam.h: scripted uniform source instead of tools::Random (see the header)
C14_kmc_FLAGS := -fno-access-control -D_GLIBCXX_ASSERTIONS -include C14_random_seam.h $(SAN) -fno-sanitize=float-cast-overflow,vptr
C14_kmc_LIBS  := $(LIBTOOLS) -L/usr/lib/x86_64-linux-gnu/hdf5/serial -lhdf5_cpp -lhdf5
C14_kmc_DEPS  := $(TOOLSSO)
