HARNESSES += C10_jobs
C10_jobs_ENGINE  := vsched/vsched.cc
C10_jobs_SRCS    := xtp/src/libxtp/progressobserver.cc xtp/src/libxtp/job.cc
C10_jobs_XTP     := 1
C10_jobs_FLAGS   := -fno-access-control
C10_jobs_LDFLAGS := -rdynamic
C10_jobs_LIBS    := $(LIBTOOLS)
C10_jobs_DEPS    := $(TOOLSSO)
