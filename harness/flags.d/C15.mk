HARNESSES += C15_mpole
C15_mpole_XTP   := 1
C15_mpole_SRCS  := xtp/src/libxtp/eeinteractor.cc xtp/src/libxtp/staticsite.cc xtp/src/libxtp/polarsite.cc xtp/src/libxtp/classicalsegment.cc xtp/src/libxtp/checkpoint.cc
C15_mpole_FLAGS := -fno-access-control
C15_mpole_LIBS  := $(LIBTOOLS) -L/usr/lib/x86_64-linux-gnu/hdf5/serial -lhdf5_cpp -lhdf5
C15_mpole_DEPS  := $(TOOLSSO)
