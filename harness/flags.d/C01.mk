HARNESSES += C01_map
# the anchored mapping sources are compiled INTO the harness (libstdc++ assertions make the
# out-of-range vector accesses of Map_Ellipsoid deterministic); the rest comes from the libraries
C01_map_SRCS  := csg/src/libcsg/map.cc csg/src/libcsg/topologymap.cc csg/src/libcsg/cgmoleculedef.cc csg/src/libcsg/cgengine.cc
C01_map_FLAGS := -D_GLIBCXX_ASSERTIONS
C01_map_LIBS  := $(LIBCSG) $(LIBTOOLS)
C01_map_DEPS  := $(CSGSO) $(TOOLSSO)
