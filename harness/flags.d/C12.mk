HARNESSES += C12_spline
# the anchored library sources are compiled INTO the harness with index assertions and sanitizers
C12_spline_SRCS  := tools/src/libtools/spline.cc tools/src/libtools/cubicspline.cc tools/src/libtools/akimaspline.cc \
                    tools/src/libtools/linspline.cc tools/src/libtools/table.cc tools/src/libtools/linalg.cc
C12_spline_FLAGS := $(EIGEN_THROW) -D_GLIBCXX_ASSERTIONS -include stdexcept $(SAN)
C12_spline_LIBS  := $(LIBTOOLS)
C12_spline_DEPS  := $(TOOLSSO)

# process histories: NO sanitizers on purpose (the allocator must be free to reuse a destroyed spline's buffer)
HARNESSES += C12_proc
C12_proc_SRCS  := tools/src/libtools/spline.cc tools/src/libtools/cubicspline.cc tools/src/libtools/akimaspline.cc \
                  tools/src/libtools/linspline.cc tools/src/libtools/linalg.cc
C12_proc_FLAGS := $(EIGEN_THROW) -include stdexcept
C12_proc_LIBS  := $(LIBTOOLS)
C12_proc_DEPS  := $(TOOLSSO)
