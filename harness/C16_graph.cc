// C16 — structure comparison and graph decomposition are label-independent and lossless.
//
// Bounded-scope exhaustive enumeration (E3): every simple undirected graph on <= 5 labelled
// vertices (and all 32768 on 6, named classes on 7..12) is presented to the REAL votca code
// (libvotca_tools graph algorithms, libvotca_csg BeadStructure / BeadMotif) under vertex
// relabellings into several id sets, edge insertion orders, vertex insertion orders and node
// attribute assignments, and every answer is compared with a boring reference model
// (adjacency-matrix BFS hop counts, union-find components, isomorphism by construction).
//
// case families (first token of a case string):
//   G  full battery on one relabelled instance B of a base graph A:
//        dist      exploreGraph + GraphDistVisitor from every start vertex: Dist == hop count
//        decouple  decoupleIsolatedSubGraphs == connected components, each vertex/edge once
//        reduce    reduceGraph(g).expandGraph(): same vertex set and edge set as g
//        single    singleNetwork (BF and DF visitor, every start) and
//                  BeadStructure::isSingleStructure <=> connected and no isolated vertex
//        break     breakIntoStructures / breakIntoMotifs == connected components
//        equiv     A.isStructureEquivalent(B) and B.isStructureEquivalent(A) (B is a relabelled
//                  copy by construction); findStructureId<GraphDistVisitor> equal on both
//   A  equiv only, for ALL name/mass assignments (2 names x 2 masses per vertex, n <= 4) and for molecule-like
//      structures with several distinct non-dyadic masses under many relabellings x 5 id sets x insertion orders
//   D  one structure X against every other structure Y of a universe: if the multisets of
//      (name,mass) differ, isStructureEquivalent must be false (both directions)
//   H  reuse history on ONE BeadStructure: beads/bonds added in stages, after every stage one query out of
//      {isSingleStructure, isStructureEquivalent (vs fresh / self / earlier content), breakIntoStructures, copy};
//      oracle: reused object == fresh object with the current content (stale caches show here)
//   T  reuse history on ONE tools::Graph: pairs/triples of {findStructureId, Dist exploration, decouple,
//      reduce+expand, singleNetwork}; each answer == answer on a fresh graph, by-value calls leave the graph alone
//   M  breakIntoSimpleMotifs on connected graphs: beads partitioned, every bond either inside
//      exactly one simple motif or recorded exactly once in the connector (lossless)
//   J  history with REJECTED operations on ONE BeadStructure / BeadMotif ("state after a reported error"): the
//      construction event list of a small molecule with up to 2 calls the API must refuse (ConnectBeads with one /
//      both ids unknown or a self connection, AddBead with an id that exists, getSubStructure with an unknown bead /
//      bond, getNeighBeadIds of an unknown id) placed at every position, queries before / directly after the
//      rejected call / after the next valid operation; oracle: the refusal is reported (exception) and the object is
//      observably the FRESH object built from the successful operations only
//   T  (lower-case letters) the same for ONE tools::Graph / ReducedGraph: exploreGraph / singleNetwork from an
//      unknown start vertex, getDegree / getNode of an unknown vertex, exploreBranch with unknown start / unknown
//      edge / edge not containing the start, ReducedGraph::expandEdge of an unknown edge, ReducedGraph constructed
//      with a missing node
#include <algorithm>
#include <cstring>
#include <numeric>
#include <stdexcept>

#include "bsx.h"
#include "votca/csg/beadmotif.h"
#include "votca/csg/beadmotifalgorithms.h"
#include "votca/csg/beadmotifconnector.h"
#include "votca/csg/beadstructure.h"
#include "votca/csg/beadstructurealgorithms.h"
#include "votca/tools/graph.h"
#include "votca/tools/graph_bf_visitor.h"
#include "votca/tools/graph_df_visitor.h"
#include "votca/tools/graphalgorithm.h"
#include "votca/tools/graphdistvisitor.h"
#include "votca/tools/reducedgraph.h"

using namespace votca::tools;
using namespace votca::csg;
using votca::Index;
typedef std::pair<int, int> IP;
typedef std::pair<Index, Index> EP;

// ------------------------------------------------------------------ alphabet
static const int NIDSETS = 5;
static const Index IDSET[NIDSETS][12] = {
    {0, 1, 2, 3, 4, 5, 6, 7, 8, 9, 10, 11},
    // large sparse ids
    {1000000007LL, 5, 4294967299LL, 77, 123456789012LL, 31, 2147483647LL, 600, 9007199254740993LL, 42,
     8589934592LL, 19},
    // multiples of 13 (all collide in a 13-bucket libstdc++ hash table): iteration order != insertion order
    {26, 0, 169, 13, 377, 39, 52, 2197, 65, 338, 91, 130},
    // stride 7 from 5: scattered over the 13 buckets in an order unrelated to the insertion order
    {5, 12, 19, 26, 33, 40, 47, 54, 61, 68, 75, 82},
    // shifted block, descending
    {1000014, 1000013, 1000012, 1000011, 1000010, 1000009, 1000008, 1000007, 1000006, 1000005, 1000004, 1000003}};
// per-bead attributes = what BeadStructure::AddBead stores (BeadInfo: name and mass; nothing else of a Bead is kept).
// one character per bead; different characters = different (name,mass) pairs
struct BeadAttr { const char *name; double mass; };
static BeadAttr attrOf(char a) {
  switch (a) {
    case '0': return {"A", 1.0};
    case '1': return {"B", 1.0};
    case '2': return {"A", 12.011};
    case '3': return {"B", 12.011};
    case '4': return {"H", 1.008};     // element-like, non-dyadic masses
    case '5': return {"C", 12.011};
    case '6': return {"O", 15.999};
    case '7': return {"N", 14.007};
    case '8': return {"CG1", 56.108};  // coarse-grained bead masses
    case '9': return {"CG2", 72.11};
    case 'a': return {"CG3", 44.05};
    case 'b': return {"C", 13.003};    // same name as '5', other mass
    default: throw std::runtime_error("harness: bad attribute character");
  }
}
static const std::string ATTRCHARS = "0123456789ab";

struct Base {  // base graph in its own labelling 0..n-1, edges (i<j) in canonical order
  int n = 0;
  std::vector<IP> e;
  std::string attr;  // one digit 0..3 per vertex: bit0 name, bit1 mass
};
struct Xf {  // presentation of the base graph to the code
  std::vector<int> perm;   // vertex i gets id IDSET[ids][perm[i]]
  int ids = 0;
  std::vector<int> eo;     // insertion order of the edges (indices into Base::e)
  int vo = 0;              // 0: vertices inserted 0..n-1, 1: n-1..0
};
struct Case {
  char kind = 'G';
  Base g;
  Xf x;
  Base g2;          // D (explicit pair) only
  char scope = 0;   // D enumeration: '3' universe n<=3, '4' universe n<=4, 'S' same graph
  std::vector<int> cuts;  // H: positions in the construction event list after which a query is made (a final query follows the last event)
  std::string q;          // H: one query letter per cut + final (S,E,B,C);  T: operation letters (F,X,Y,D,R,N) applied to ONE Graph object
  // J: rejected calls placed into the construction event list
  struct Rej { int pos; char type; int i, j; };  // before valid event number pos; vertex index >= n = an id that is never added
  std::vector<Rej> rej;
  int sched = 0;     // J: bit0 query before every rejected call, bit1 directly after it, bit2 after the next valid operation
  char obj = 'S';    // J: S BeadStructure, M BeadMotif
};
static std::string rejstr(const std::vector<Case::Rej> &r) {
  std::string s;
  for (size_t k = 0; k < r.size(); k++)
    s += (k ? "," : "") + std::to_string(r[k].pos) + ":" + r[k].type + ":" + std::to_string(r[k].i) + ":" + std::to_string(r[k].j);
  return s;
}

static Base fromMask(int n, unsigned mask) {
  Base b;
  b.n = n;
  int k = 0;
  for (int i = 0; i < n; i++)
    for (int j = i + 1; j < n; j++, k++)
      if (mask >> k & 1) b.e.push_back({i, j});
  b.attr = std::string(n, '0');
  return b;
}
static std::string estr(const std::vector<IP> &e) {
  std::string s;
  for (size_t i = 0; i < e.size(); i++) s += (i ? "," : "") + std::to_string(e[i].first) + "-" + std::to_string(e[i].second);
  return s;
}
static std::string vstr(const std::vector<int> &v) {
  std::string s;
  for (size_t i = 0; i < v.size(); i++) s += (i ? "." : "") + std::to_string(v[i]);
  return s;
}
static std::vector<IP> parseE(const std::string &s) {
  std::vector<IP> e;
  if (s.empty()) return e;
  for (auto &t : bsx::split(s, ',')) {
    auto f = bsx::split(t, '-');
    e.push_back({atoi(f[0].c_str()), atoi(f[1].c_str())});
  }
  return e;
}
static std::vector<int> parseV(const std::string &s) {
  std::vector<int> v;
  if (s.empty()) return v;
  for (auto &t : bsx::split(s, '.')) v.push_back(atoi(t.c_str()));
  return v;
}
static std::string casestr(const Case &c) {
  if (c.kind == 'D')
    return "D;n=" + std::to_string(c.g.n) + ";e=" + estr(c.g.e) + ";a=" + c.g.attr + ";n2=" + std::to_string(c.g2.n) +
           ";e2=" + estr(c.g2.e) + ";a2=" + c.g2.attr;
  return std::string(1, c.kind) + ";n=" + std::to_string(c.g.n) + ";e=" + estr(c.g.e) + ";a=" + c.g.attr +
         ";p=" + vstr(c.x.perm) + ";ids=" + std::to_string(c.x.ids) + ";eo=" + vstr(c.x.eo) + ";vo=" + std::to_string(c.x.vo) +
         (c.kind == 'H' ? ";cuts=" + vstr(c.cuts) + ";q=" + c.q : c.kind == 'T' ? ";q=" + c.q :
          c.kind == 'J' ? std::string(";obj=") + c.obj + ";rej=" + rejstr(c.rej) + ";sched=" + std::to_string(c.sched) + ";q=" + c.q : "");
}
static Case parsecase(const std::string &s) {
  Case c;
  c.kind = s.empty() ? 'G' : s[0];
  auto m = bsx::kvs(s);
  c.g.n = atoi(m["n"].c_str());
  c.g.e = parseE(m["e"]);
  c.g.attr = m["a"];
  if (c.kind == 'D') {
    c.g2.n = atoi(m["n2"].c_str());
    c.g2.e = parseE(m["e2"]);
    c.g2.attr = m["a2"];
  } else {
    c.x.perm = parseV(m["p"]);
    c.x.ids = atoi(m["ids"].c_str());
    c.x.eo = parseV(m["eo"]);
    c.x.vo = atoi(m["vo"].c_str());
    c.cuts = parseV(m["cuts"]);
    c.q = m["q"];
    if (c.kind == 'J') {
      c.obj = m["obj"].empty() ? 'S' : m["obj"][0];
      c.sched = atoi(m["sched"].c_str());
      if (!m["rej"].empty())
        for (auto &t : bsx::split(m["rej"], ',')) {
          auto f = bsx::split(t, ':');
          if (f.size() != 4 || f[1].size() != 1) throw std::runtime_error("harness: bad rej= field");
          c.rej.push_back({atoi(f[0].c_str()), f[1][0], atoi(f[2].c_str()), atoi(f[3].c_str())});
        }
    }
  }
  return c;
}

// ------------------------------------------------------------------ reference model
struct Ref {
  int n, m, ncomp = 0, maxdeg = 0;
  std::vector<std::vector<int>> hop;  // -1 unreachable
  std::vector<int> comp, deg;
  bool connected, isolated = false;
  explicit Ref(const Base &b) : n(b.n), m((int)b.e.size()), hop(b.n, std::vector<int>(b.n, -1)), comp(b.n), deg(b.n, 0) {
    std::vector<std::vector<char>> adj(n, std::vector<char>(n, 0));
    std::vector<int> uf(n);
    std::iota(uf.begin(), uf.end(), 0);
    std::function<int(int)> find = [&](int v) { return uf[v] == v ? v : uf[v] = find(uf[v]); };
    for (auto &e : b.e) {
      adj[e.first][e.second] = adj[e.second][e.first] = 1;
      deg[e.first]++; deg[e.second]++;
      uf[find(e.first)] = find(e.second);
    }
    std::map<int, int> cid;
    for (int v = 0; v < n; v++) {
      int r = find(v);
      if (!cid.count(r)) { int k = (int)cid.size(); cid[r] = k; }
      comp[v] = cid[r];
      maxdeg = std::max(maxdeg, deg[v]);
      if (deg[v] == 0) isolated = true;
    }
    ncomp = (int)cid.size();
    connected = ncomp == 1;
    for (int s = 0; s < n; s++) {  // plain BFS on the adjacency matrix
      std::vector<int> q{s};
      hop[s][s] = 0;
      for (size_t h = 0; h < q.size(); h++)
        for (int t = 0; t < n; t++)
          if (adj[q[h]][t] && hop[s][t] < 0) { hop[s][t] = hop[s][q[h]] + 1; q.push_back(t); }
    }
  }
  // narrow input class used in failure keys
  std::string cls() const {
    int mu = m - n + ncomp;
    return std::string(mu == 0 ? "acyclic" : mu == 1 ? "unicyclic" : "multicyclic") + (connected ? "-conn" : "-disc") +
           (maxdeg >= 3 ? "-junction" : "-nojunction");
  }
};
static std::string multiset(const std::string &attr) {
  std::string s = attr;
  std::sort(s.begin(), s.end());
  return s;
}

// ------------------------------------------------------------------ building the real objects
struct TB {
  Index id; double mass; std::string name;
  Index getId() const { return id; }
  double getMass() const { return mass; }
  std::string getName() const { return name; }
};
struct Inst {  // concrete presentation
  std::vector<Index> id;   // per base vertex
  std::vector<IP> e;       // in insertion order (base vertex indices)
  std::vector<int> vorder;
  std::string attr;
  std::set<EP> eset;       // expected edges on ids
  std::set<Index> vset;
};
static Inst present(const Base &b, const Xf &x) {
  Inst I;
  I.attr = b.attr;
  for (int i = 0; i < b.n; i++) I.id.push_back(IDSET[x.ids][x.perm[i]]);
  for (int k : x.eo) I.e.push_back(b.e[k]);
  for (int i = 0; i < b.n; i++) I.vorder.push_back(x.vo ? b.n - 1 - i : i);
  for (auto &e : b.e) I.eset.insert({std::min(I.id[e.first], I.id[e.second]), std::max(I.id[e.first], I.id[e.second])});
  for (Index v : I.id) I.vset.insert(v);
  return I;
}
static Xf identityXf(const Base &b) {
  Xf x;
  x.perm.resize(b.n); std::iota(x.perm.begin(), x.perm.end(), 0);
  x.eo.resize(b.e.size()); std::iota(x.eo.begin(), x.eo.end(), 0);
  return x;
}
static GraphNode mkNode(char a) {
  GraphNode gn;
  gn.setDouble({{"Mass", attrOf(a).mass}});
  gn.setStr({{"Name", attrOf(a).name}});
  return gn;
}
static Graph mkGraph(const Inst &I) {
  std::unordered_map<Index, GraphNode> nodes;
  for (int v : I.vorder) nodes[I.id[v]] = mkNode(I.attr[v]);
  std::vector<Edge> edges;
  for (size_t k = 0; k < I.e.size(); k++)
    edges.push_back(k % 2 ? Edge(I.id[I.e[k].second], I.id[I.e[k].first]) : Edge(I.id[I.e[k].first], I.id[I.e[k].second]));
  return Graph(edges, nodes);
}
static BeadStructure mkBS(const Inst &I) {
  BeadStructure bs;
  for (int v : I.vorder) {
    bs.AddBead(TB{I.id[v], attrOf(I.attr[v]).mass, attrOf(I.attr[v]).name});
  }
  for (size_t k = 0; k < I.e.size(); k++) {
    if (k % 2) bs.ConnectBeads(I.id[I.e[k].second], I.id[I.e[k].first]);
    else bs.ConnectBeads(I.id[I.e[k].first], I.id[I.e[k].second]);
  }
  return bs;
}
static EP ep(const Edge &e) { return {e.getEndPoint1(), e.getEndPoint2()}; }
static std::string epstr(const EP &e) { return std::to_string(e.first) + "-" + std::to_string(e.second); }

// ------------------------------------------------------------------ checks
struct Fail { std::string key, what; };
#define FAIL(k, w) throw Fail{std::string(k) + "/" + R.cls(), w}

// every part = (vertex set, edge multiset); must be exactly the connected components
static void checkPartition(const char *api, const Inst &I, const Ref &R,
                           const std::vector<std::pair<std::vector<Index>, std::vector<EP>>> &parts) {
  std::map<Index, int> compOf;
  for (int v = 0; v < R.n; v++) compOf[I.id[v]] = R.comp[v];
  std::map<Index, int> vcount;
  std::map<EP, int> ecount;
  std::set<int> seenComp;
  for (auto &p : parts) {
    if (p.first.empty()) FAIL(std::string(api) + "-empty-part", "a part without vertices was returned");
    int c = -1;
    for (Index v : p.first) {
      if (!compOf.count(v)) FAIL(std::string(api) + "-foreign-vertex", "part contains vertex " + std::to_string(v) + " that is not in the graph");
      if (c < 0) c = compOf[v];
      if (compOf[v] != c) FAIL(std::string(api) + "-merged-components", "vertices " + std::to_string(p.first[0]) + " and " + std::to_string(v) + " of different components are in one part");
      vcount[v]++;
    }
    if (!seenComp.insert(c).second) FAIL(std::string(api) + "-split-component", "a connected component was returned in more than one part");
    for (auto &e : p.second) {
      if (!I.eset.count(e)) FAIL(std::string(api) + "-foreign-edge", "part contains edge " + epstr(e) + " that is not in the graph");
      if (compOf[e.first] != c) FAIL(std::string(api) + "-misplaced-edge", "edge " + epstr(e) + " is in the part of another component");
      ecount[e]++;
    }
  }
  for (Index v : I.vset) {
    if (vcount[v] == 0) FAIL(std::string(api) + (R.deg[std::find(I.id.begin(), I.id.end(), v) - I.id.begin()] == 0 ? "-lost-isolated-vertex" : "-lost-vertex"),
                             "vertex " + std::to_string(v) + " is in no part");
    if (vcount[v] > 1) FAIL(std::string(api) + "-duplicated-vertex", "vertex " + std::to_string(v) + " is in " + std::to_string(vcount[v]) + " parts");
  }
  for (auto &e : I.eset) {
    if (ecount[e] == 0) FAIL(std::string(api) + "-lost-edge", "edge " + epstr(e) + " is in no part");
    if (ecount[e] > 1) FAIL(std::string(api) + "-duplicated-edge", "edge " + epstr(e) + " occurs " + std::to_string(ecount[e]) + " times");
  }
  if ((int)parts.size() != R.ncomp) FAIL(std::string(api) + "-part-count", std::to_string(parts.size()) + " parts for " + std::to_string(R.ncomp) + " components");
}

struct Summary { std::string sid; int ncomp = 0, nred = 0; bool single = false; int dupedges = 0, leak = 0; };

static void checkDist(const Graph &g, const Inst &I, const Ref &R) {
  for (int s = 0; s < R.n; s++) {
    Graph gc = g;
    GraphDistVisitor v;
    v.setStartingVertex(I.id[s]);
    exploreGraph(gc, v);
    for (int t = 0; t < R.n; t++) {
      if (R.hop[s][t] < 0) continue;  // the statement only speaks about reachable vertices
      GraphNode nd = gc.getNode(I.id[t]);
      Index d;
      try { d = nd.getInt("Dist"); } catch (const std::invalid_argument &) {
        FAIL("dist-label-missing", "start " + std::to_string(I.id[s]) + ": reachable vertex " + std::to_string(I.id[t]) + " (hops " + std::to_string(R.hop[s][t]) + ") got no Dist label");
      }
      if (d != R.hop[s][t])
        FAIL("dist-label-wrong", "start " + std::to_string(I.id[s]) + ": vertex " + std::to_string(I.id[t]) + " labelled Dist=" + std::to_string(d) + ", shortest path has " + std::to_string(R.hop[s][t]) + " hops");
    }
  }
}
static void checkDecouple(const Graph &g, const Inst &I, const Ref &R, const std::string &pre = "") {
  std::vector<Graph> subs = decoupleIsolatedSubGraphs(g);
  std::vector<std::pair<std::vector<Index>, std::vector<EP>>> parts;
  for (Graph &s : subs) {
    std::vector<EP> es;
    for (Edge &e : s.getEdges()) es.push_back(ep(e));
    parts.push_back({s.getVertices(), es});
  }
  checkPartition((pre + "decouple").c_str(), I, R, parts);
}
static void checkReduce(const Graph &g, const Inst &I, const Ref &R, Summary &S, const std::string &pre = "") {
  ReducedGraph rg = reduceGraph(g);
  S.nred = (int)rg.getEdges().size();
  Graph ex = rg.expandGraph();
  std::set<Index> vs;
  for (Index v : ex.getVertices()) vs.insert(v);
  std::map<EP, int> es;
  for (Edge &e : ex.getEdges()) es[ep(e)]++;
  for (Index v : I.vset)
    if (!vs.count(v)) FAIL(pre + "reduce-expand-lost-vertex", "vertex " + std::to_string(v) + " missing after reduceGraph+expandGraph");
  for (Index v : vs)
    if (!I.vset.count(v)) FAIL(pre + "reduce-expand-extra-vertex", "vertex " + std::to_string(v) + " appeared after reduceGraph+expandGraph");
  for (auto &e : I.eset)
    if (!es.count(e)) FAIL(pre + "reduce-expand-lost-edge", "edge " + epstr(e) + " missing after reduceGraph+expandGraph");
  for (auto &kv : es) {
    if (!I.eset.count(kv.first)) FAIL(pre + "reduce-expand-extra-edge", "edge " + epstr(kv.first) + " appeared after reduceGraph+expandGraph");
    if (kv.second > 1) S.dupedges++;  // same edge SET; multiplicity is only counted (the statement speaks of sets)
  }
}
static void checkSingle(const Graph &g, const Inst &I, const Ref &R, Summary &S) {
  bool expect = R.connected && !R.isolated;
  S.single = expect;
  for (int s = 0; s < R.n; s++) {
    {
      Graph gc = g;
      Graph_BF_Visitor bf;
      bf.setStartingVertex(I.id[s]);
      if (singleNetwork(gc, bf) != expect)
        FAIL("single-network-bf", "singleNetwork(BF from " + std::to_string(I.id[s]) + ") = " + (expect ? "false" : "true") + ", graph is " + (R.connected ? "connected" : "disconnected") + (R.isolated ? " with isolated vertex" : ""));
    }
    {
      Graph gc = g;
      Graph_DF_Visitor df;
      df.setStartingVertex(I.id[s]);
      if (singleNetwork(gc, df) != expect)
        FAIL("single-network-df", "singleNetwork(DF from " + std::to_string(I.id[s]) + ") = " + (expect ? "false" : "true") + ", graph is " + (R.connected ? "connected" : "disconnected") + (R.isolated ? " with isolated vertex" : ""));
    }
  }
  BeadStructure bs = mkBS(I);
  for (int rep = 0; rep < 2; rep++)
    if (bs.isSingleStructure() != expect)
      FAIL("beadstructure-single", std::string("isSingleStructure() = ") + (expect ? "false" : "true") + " (call " + std::to_string(rep + 1) + "), graph is " + (R.connected ? "connected" : "disconnected") + (R.isolated ? " with isolated vertex" : ""));
}
static void checkBreak(const Inst &I, const Ref &R, Summary &S) {
  {
    BeadStructure bs = mkBS(I);
    std::vector<BeadStructure> st = breakIntoStructures(bs);
    std::vector<std::pair<std::vector<Index>, std::vector<EP>>> parts;
    for (BeadStructure &b : st) {
      std::vector<EP> es;
      for (Edge &e : b.getGraph().getEdges()) es.push_back(ep(e));
      parts.push_back({b.getBeadIds(), es});
    }
    checkPartition("break-structures", I, R, parts);
    S.ncomp = (int)parts.size();
  }
  {
    BeadStructure bs = mkBS(I);
    std::vector<BeadMotif> st = breakIntoMotifs<std::vector<BeadMotif>>(bs);
    std::vector<std::pair<std::vector<Index>, std::vector<EP>>> parts;
    for (BeadMotif &b : st) {
      std::vector<EP> es;
      for (Edge &e : b.getGraph().getEdges()) es.push_back(ep(e));
      parts.push_back({b.getBeadIds(), es});
    }
    checkPartition("break-motifs", I, R, parts);
  }
}
// A = base graph in canonical presentation, B = relabelled presentation of the SAME graph
static void checkEquiv(const Base &b, const Inst &IB, const Ref &R, Summary &S, bool toolsLevel) {
  static std::string cacheKey;
  static BeadStructure cacheA;
  static std::string cacheSid;
  std::string key = std::to_string(b.n) + "|" + estr(b.e) + "|" + b.attr;
  if (key != cacheKey) {
    Inst IA = present(b, identityXf(b));
    cacheA = mkBS(IA);
    Graph ga = mkGraph(IA);
    cacheSid = findStructureId<GraphDistVisitor>(ga);
    if (!cacheA.isStructureEquivalent(cacheA)) FAIL("equiv-not-reflexive", "a structure is not equivalent to itself");
    cacheKey = key;
  }
  BeadStructure B = mkBS(IB);
  if (!cacheA.isStructureEquivalent(B)) FAIL("equiv-relabelled-rejected", "A.isStructureEquivalent(B) = false for a relabelled copy B of A");
  if (!B.isStructureEquivalent(cacheA)) FAIL("equiv-relabelled-rejected-reverse", "B.isStructureEquivalent(A) = false for a relabelled copy B of A");
  if (toolsLevel) {
    Graph gb = mkGraph(IB);
    std::string sid = findStructureId<GraphDistVisitor>(gb);
    if (sid != cacheSid) FAIL("structure-id-label-dependent", "findStructureId differs for a relabelled copy: '" + cacheSid + "' vs '" + sid + "'");
    S.sid = sid;
  }
}
static void checkSimpleMotifs(const Inst &I, const Ref &R, Summary &S) {
  BeadStructure bs = mkBS(I);
  BeadMotif motif(bs);
  auto res = breakIntoSimpleMotifs(motif);
  std::map<Index, int> owner;
  std::map<EP, int> ecount;
  int k = 0;
  std::string types;
  for (auto &im : res.first) {
    BeadMotif m = im.second;
    if (!m.isMotifSimple()) FAIL("simple-motifs-not-simple", "a returned motif has a complex type");
    types += std::to_string((int)m.getType());
    for (Index v : m.getBeadIds()) {
      if (!I.vset.count(v)) FAIL("simple-motifs-foreign-bead", "bead " + std::to_string(v) + " is not in the structure");
      if (owner.count(v)) FAIL("simple-motifs-duplicated-bead", "bead " + std::to_string(v) + " is in two simple motifs");
      owner[v] = k;
    }
    for (Edge &e : m.getGraph().getEdges()) {
      if (!I.eset.count(ep(e))) FAIL("simple-motifs-foreign-edge", "edge " + epstr(ep(e)) + " is not in the structure");
      ecount[ep(e)]++;
    }
    k++;
  }
  for (Index v : I.vset)
    if (!owner.count(v)) FAIL("simple-motifs-lost-bead", "bead " + std::to_string(v) + " is in no simple motif");
  for (Edge &e : res.second.getBeadEdges()) {
    if (!I.eset.count(ep(e))) FAIL("simple-motifs-foreign-connector-edge", "connector edge " + epstr(ep(e)) + " is not in the structure");
    ecount[ep(e)]++;
  }
  for (auto &e : I.eset) {
    if (ecount[e] == 0) FAIL("simple-motifs-lost-edge", "bond " + epstr(e) + " is neither inside a simple motif nor in the connector");
    if (ecount[e] > 1) FAIL("simple-motifs-duplicated-edge", "bond " + epstr(e) + " is recorded " + std::to_string(ecount[e]) + " times");
  }
  std::sort(types.begin(), types.end());
  S.sid = "motifs:" + types;
  S.ncomp = k;
}

// ---- H: reuse histories on ONE BeadStructure: beads/bonds are added in stages, a query is made after every stage;
//         oracle: reused object == fresh object built from the current content (and the reference model)
struct Ev { bool bead; int v; IP e; };
static std::vector<Ev> events(const Inst &I) {  // grow vertex by vertex: bead, then its bonds to beads already present
  std::vector<Ev> ev;
  std::set<int> have;
  std::vector<char> done(I.e.size(), 0);
  for (int v : I.vorder) {
    ev.push_back({true, v, {0, 0}});
    have.insert(v);
    for (size_t k = 0; k < I.e.size(); k++)
      if (!done[k] && have.count(I.e[k].first) && have.count(I.e[k].second)) { ev.push_back({false, 0, I.e[k]}); done[k] = 1; }
  }
  return ev;
}
// content after the first c events as a base graph (vertices numbered in order of appearance) + its presentation
static void partial(const Inst &I, const std::vector<Ev> &ev, size_t c, Base &pb, Inst &PI) {
  std::map<int, int> idx;
  pb = Base(); PI = Inst();
  for (size_t k = 0; k < c; k++) {
    if (ev[k].bead) {
      int i = (int)idx.size();
      idx[ev[k].v] = i;
      pb.attr += I.attr[ev[k].v];
      PI.id.push_back(I.id[ev[k].v]);
      PI.vorder.push_back(i);
      PI.vset.insert(I.id[ev[k].v]);
    } else {
      int a = idx[ev[k].e.first], b = idx[ev[k].e.second];
      pb.e.push_back({std::min(a, b), std::max(a, b)});
      PI.e.push_back({a, b});
      PI.eset.insert({std::min(PI.id[a], PI.id[b]), std::max(PI.id[a], PI.id[b])});
    }
  }
  pb.n = (int)idx.size();
  PI.attr = pb.attr;
}
static bool differ(BeadStructure &x, BeadStructure &y);
static void checkHistory(const Case &c, Summary &S) {
  Inst I = present(c.g, c.x);
  std::vector<Ev> ev = events(I);
  std::vector<int> cuts = c.cuts;
  cuts.push_back((int)ev.size());
  if (c.q.size() != cuts.size()) throw std::runtime_error("harness: bad history case");
  BeadStructure H;
  size_t pos = 0;
  bool havePrev = false, haveCopy = false;
  Inst prevI, copyI;
  std::string prevMs, copyMs;
  BeadStructure copyH;
  for (size_t st = 0; st < cuts.size(); st++) {
    for (; pos < (size_t)cuts[st] && pos < ev.size(); pos++) {
      if (ev[pos].bead) {
        H.AddBead(TB{I.id[ev[pos].v], attrOf(I.attr[ev[pos].v]).mass, attrOf(I.attr[ev[pos].v]).name});
      } else if (pos % 2) H.ConnectBeads(I.id[ev[pos].e.second], I.id[ev[pos].e.first]);
      else H.ConnectBeads(I.id[ev[pos].e.first], I.id[ev[pos].e.second]);
    }
    Base pb; Inst PI;
    partial(I, ev, pos, pb, PI);
    Ref R(pb);
    std::string ms = multiset(pb.attr), at = " (query " + std::to_string(st + 1) + " '" + c.q[st] + "' after " + std::to_string(pos) + " construction events)";
    if (haveCopy) {  // a copy taken at an earlier stage must not follow the edits of the original
      BeadStructure F = mkBS(copyI);
      if (!copyH.isStructureEquivalent(F) || !F.isStructureEquivalent(copyH)) FAIL("reuse-copy-changed-by-edit-of-original", "an earlier copy no longer equals a fresh structure with the content it was copied from" + at);
      if (copyMs != ms && !differ(copyH, H)) FAIL("reuse-copy-vs-edited-original-accepted", "an earlier copy is reported equivalent to the original after beads were added to the original" + at);
      haveCopy = false;
    }
    bool expectSingle = R.n > 0 && R.connected && !R.isolated;
    switch (c.q[st]) {
      case 'S':
        for (int rep = 0; rep < 2; rep++)
          if (H.isSingleStructure() != expectSingle) FAIL("reuse-beadstructure-single", std::string("isSingleStructure() = ") + (expectSingle ? "false" : "true") + " on a reused structure" + at);
        S.sid += expectSingle ? "S1" : "S0";
        break;
      case 'E': {
        BeadStructure F = mkBS(PI);
        if (!H.isStructureEquivalent(F) || !F.isStructureEquivalent(H)) FAIL("reuse-equiv-fresh-rejected", "a reused structure is not equivalent to a fresh structure with the same content" + at);
        if (!H.isStructureEquivalent(H)) FAIL("reuse-equiv-not-reflexive", "a reused structure is not equivalent to itself" + at);
        if (havePrev && prevMs != ms) {
          BeadStructure Fp = mkBS(prevI);
          if (!differ(H, Fp)) FAIL("reuse-equiv-stale-accepted", "after adding beads the structure is still equivalent to a fresh structure with its EARLIER content (multisets " + prevMs + " vs " + ms + ")" + at);
        }
        S.sid += "E";
        break;
      }
      case 'B': {
        std::vector<BeadStructure> st2 = breakIntoStructures(H);
        std::vector<std::pair<std::vector<Index>, std::vector<EP>>> parts;
        for (BeadStructure &b : st2) {
          std::vector<EP> es;
          for (Edge &e : b.getGraph().getEdges()) es.push_back(ep(e));
          parts.push_back({b.getBeadIds(), es});
        }
        checkPartition("reuse-break-structures", PI, R, parts);
        S.sid += "B" + std::to_string(parts.size());
        break;
      }
      case 'C':
        copyH = H;
        if (!copyH.isStructureEquivalent(H) || !H.isStructureEquivalent(copyH)) FAIL("reuse-copy-rejected", "a copy of a reused structure is not equivalent to it" + at);
        haveCopy = true; copyI = PI; copyMs = ms;
        S.sid += "C";
        break;
      default: throw std::runtime_error("harness: bad query letter");
    }
    havePrev = true; prevI = PI; prevMs = ms;
  }
}
// ---- J: histories with REJECTED operations on ONE BeadStructure / BeadMotif.  The rejected calls are removed to get the
//         reference: after [valid and rejected operations] the object must be observably the FRESH object built from the
//         valid operations only, and every call the unchanged API refuses must be reported (exception).
static std::string rejClass(const Case::Rej &r, const std::set<int> &have) {
  switch (r.type) {
    case 'c': return r.i == r.j ? (have.count(r.i) ? "connect-self" : "connect-self-unknown")
                                : (have.count(r.i) || have.count(r.j)) ? "connect-one-unknown" : "connect-both-unknown";
    case 'a': return "add-duplicate-id";
    case 'g': return "neighbours-of-unknown";
    case 's': return "substructure-unknown-bead";
    case 't': return "substructure-unknown-bond";
    default: throw std::runtime_error("harness: bad rejected operation type");
  }
}
template <class BS>
static void checkErrHistory(const Case &c, Summary &S, std::string &counts) {
  Inst I = present(c.g, c.x);
  std::vector<Ev> ev = events(I);
  const int n = c.g.n;
  auto idOf = [&](int v) -> Index {
    if (v < 0 || v >= 12) throw std::runtime_error("harness: bad vertex index in rejected operation");
    return v < n ? I.id[v] : IDSET[c.x.ids][v];  // perm maps 0..n-1 onto entries 0..n-1 of the id row: entries >= n are never added
  };
  if (c.q.size() != 1 || std::string("SEBN").find(c.q[0]) == std::string::npos) throw std::runtime_error("harness: bad query letter");
  BS H;
  size_t pos = 0;
  std::set<int> have;             // base vertices whose bead has been added
  std::set<IP> bonds;             // bonds added so far (base vertex indices, i<j)
  std::set<std::string> opcl;     // classes of the rejected calls made so far (part of the failure key)
  int nrej = 0, reported = 0, neighEmpty = 0, neighThrew = 0, neighOther = 0, queries = 0;
  auto tag = [&]() { std::string t; for (auto &k : opcl) t += (t.empty() ? "" : "+") + k; return "errhist[" + t + "]-"; };

  // full or partial observation of H against the reference content after the first `pos` valid events
  auto observe = [&](const std::string &which, const std::string &when) {
    Base pb; Inst PI;
    partial(I, ev, pos, pb, PI);
    if (pb.n == 0) return;  // nothing is asked of an empty structure
    Ref R(pb);
    std::string at = " (" + when + ", " + std::to_string(pos) + " valid construction events and " + std::to_string(nrej) + " rejected calls made)";
    queries++;
    try {
      for (char w : which) switch (w) {
        case 'S': {
          bool expectSingle = R.connected && !R.isolated;
          for (int rep = 0; rep < 2; rep++)
            if (H.isSingleStructure() != expectSingle)
              FAIL(tag() + "single-structure", std::string("isSingleStructure() = ") + (expectSingle ? "false" : "true") + ", the structure built from the successful operations only is " + (R.connected ? "connected" : "disconnected") + (R.isolated ? " with isolated bead" : "") + at);
          S.sid += expectSingle ? "S1" : "S0";
          break;
        }
        case 'E': {
          BeadStructure F = mkBS(PI);
          if (!H.isStructureEquivalent(F)) FAIL(tag() + "equiv-fresh-rejected", "H.isStructureEquivalent(F) = false, F = fresh structure built from the successful operations only" + at);
          if (!F.isStructureEquivalent(H)) FAIL(tag() + "equiv-fresh-rejected-reverse", "F.isStructureEquivalent(H) = false, F = fresh structure built from the successful operations only" + at);
          if (!H.isStructureEquivalent(H)) FAIL(tag() + "equiv-not-reflexive", "the structure is not equivalent to itself" + at);
          BS copy = H;
          if (!copy.isStructureEquivalent(F) || !F.isStructureEquivalent(copy)) FAIL(tag() + "copy-differs-from-fresh", "a copy of the structure is not equivalent to the fresh structure" + at);
          S.sid += "E";
          break;
        }
        case 'B': {
          std::vector<BeadStructure> st2 = breakIntoStructures(H);
          std::vector<std::pair<std::vector<Index>, std::vector<EP>>> parts;
          for (BeadStructure &b : st2) {
            std::vector<EP> es;
            for (Edge &e : b.getGraph().getEdges()) es.push_back(ep(e));
            parts.push_back({b.getBeadIds(), es});
          }
          checkPartition((tag() + "break-structures").c_str(), PI, R, parts);
          S.sid += "B" + std::to_string(parts.size());
          break;
        }
        case 'N': {
          if ((int)H.BeadCount() != pb.n) FAIL(tag() + "bead-count", "BeadCount() = " + std::to_string(H.BeadCount()) + ", " + std::to_string(pb.n) + " beads were added successfully" + at);
          std::set<Index> ids;
          for (Index v : H.getBeadIds()) ids.insert(v);
          if (ids != PI.vset) FAIL(tag() + "bead-ids", "getBeadIds() is not the set of successfully added beads" + at);
          for (int v = 0; v < 12; v++) {
            bool in = v < n && have.count(v);
            if (H.BeadExist(idOf(v)) != in) FAIL(tag() + "bead-exist", "BeadExist(" + std::to_string(idOf(v)) + ") = " + (in ? "false" : "true") + at);
          }
          for (int v = 0; v < pb.n; v++) {
            std::set<Index> expect, got;
            for (auto &e : PI.eset) { if (e.first == PI.id[v]) expect.insert(e.second); if (e.second == PI.id[v]) expect.insert(e.first); }
            std::vector<Index> nb = H.getNeighBeadIds(PI.id[v]);
            for (Index x : nb) got.insert(x);
            if (got != expect || nb.size() != expect.size()) {
              std::string g, x;
              for (Index i : nb) g += " " + std::to_string(i);
              for (Index i : expect) x += " " + std::to_string(i);
              FAIL(tag() + "neighbours", "getNeighBeadIds(" + std::to_string(PI.id[v]) + ") = {" + g + " }, bonds made successfully give {" + x + " }" + at);
            }
          }
          Graph g = H.getGraph();
          std::set<Index> vs;
          for (Index v : g.getVertices()) vs.insert(v);
          std::vector<EP> es;
          for (Edge &e : g.getEdges()) es.push_back(ep(e));
          std::sort(es.begin(), es.end());
          if (vs != PI.vset) FAIL(tag() + "graph-vertices", "getGraph() has a vertex set different from the successfully added beads" + at);
          if (es != std::vector<EP>(PI.eset.begin(), PI.eset.end())) {
            std::string g2;
            for (auto &e : es) g2 += " " + epstr(e);
            FAIL(tag() + "graph-edges", "getGraph() has edges {" + g2 + " }, successfully made bonds are {" + [&]() { std::string x; for (auto &e : PI.eset) x += " " + epstr(e); return x; }() + " }" + at);
          }
          S.sid += "N";
          break;
        }
        case 'Y': {  // BeadMotif only: the cached motif type equals the type of a fresh motif with the same content
          BeadStructure F = mkBS(PI);
          BeadMotif FM(F);
          BeadMotif::MotifType tf = FM.getType();
          BeadMotif::MotifType th = static_cast<BeadMotif &>(static_cast<BeadStructure &>(H)).getType();
          if (tf != th) FAIL(tag() + "motif-type", "getType() = " + std::to_string((int)th) + ", a fresh motif built from the successful operations only has type " + std::to_string((int)tf) + at);
          S.sid += "Y" + std::to_string((int)th);
          break;
        }
        default: throw std::runtime_error("harness: bad query letter");
      }
    } catch (const Fail &) {
      throw;
    } catch (const std::exception &e) {
      if (std::string(e.what()).rfind("harness:", 0) == 0) throw;
      FAIL(tag() + "query-threw", std::string("a query on the structure threw: ") + e.what() + at);
    }
  };
  const bool motif = std::is_same<BS, BeadMotif>::value;
  const std::string q = c.q + (motif && c.q == "E" ? "Y" : "");
  std::string all = c.q;
  for (char w : std::string("SEBN")) if (w != c.q[0]) all += w;
  if (motif) all += "Y";

  auto doRejected = [&](const Case::Rej &r) {
    Ref R(c.g);
    std::string cl = rejClass(r, have), what;
    bool in_i = r.i < n && have.count(r.i), in_j = r.j < n && have.count(r.j);
    bool threw = false;
    std::string exc;
    nrej++;
    try {
      switch (r.type) {
        case 'c':
          if (r.i != r.j && in_i && in_j) throw std::runtime_error("harness: ConnectBeads call would be valid");
          what = "ConnectBeads(" + std::to_string(idOf(r.i)) + "," + std::to_string(idOf(r.j)) + ")";
          opcl.insert(cl);
          H.ConnectBeads(idOf(r.i), idOf(r.j));
          break;
        case 'a': {
          if (!in_i) throw std::runtime_error("harness: AddBead call would be valid");
          char other = I.attr[r.i] == '9' ? '6' : '9';  // other name AND other mass than the stored bead
          what = "AddBead(id " + std::to_string(idOf(r.i)) + " again, name " + attrOf(other).name + ")";
          opcl.insert(cl);
          H.AddBead(TB{idOf(r.i), attrOf(other).mass, attrOf(other).name});
          break;
        }
        case 'g': {
          if (in_j) throw std::runtime_error("harness: getNeighBeadIds call would be valid");
          what = "getNeighBeadIds(" + std::to_string(idOf(r.j)) + ")";
          opcl.insert(cl);
          std::vector<Index> nb = H.getNeighBeadIds(idOf(r.j));
          (nb.empty() ? neighEmpty : neighOther)++;  // the unchanged tree returns an empty list; no demand is made on the answer
          return;
        }
        case 's': {
          if (in_j) throw std::runtime_error("harness: getSubStructure call would be valid");
          what = "getSubStructure({" + std::to_string(idOf(r.i)) + "," + std::to_string(idOf(r.j)) + "},{})";
          opcl.insert(cl);
          std::vector<Index> ids{idOf(r.i)};
          if (r.j != r.i) ids.push_back(idOf(r.j));
          BeadStructure sub = H.getSubStructure(ids, {});
          break;
        }
        case 't': {
          if (!in_i || !in_j || r.i == r.j || bonds.count({std::min(r.i, r.j), std::max(r.i, r.j)})) throw std::runtime_error("harness: getSubStructure call would be valid");
          what = "getSubStructure({" + std::to_string(idOf(r.i)) + "," + std::to_string(idOf(r.j)) + "},{" + std::to_string(idOf(r.i)) + "-" + std::to_string(idOf(r.j)) + "})";
          opcl.insert(cl);
          BeadStructure sub = H.getSubStructure({idOf(r.i), idOf(r.j)}, {Edge(idOf(r.i), idOf(r.j))});
          break;
        }
        default: throw std::runtime_error("harness: bad rejected operation type");
      }
    } catch (const std::exception &e) {
      if (std::string(e.what()).rfind("harness:", 0) == 0) throw;
      threw = true;
      exc = e.what();
    }
    if (r.type == 'g') { neighThrew++; return; }
    if (!threw)
      FAIL(tag() + "rejected-call-not-reported", what + " returned normally after " + std::to_string(pos) + " valid construction events and " + std::to_string(nrej - 1) + " earlier rejected calls; the call cannot be carried out and the unchanged library throws");
    reported++;
    S.sid += std::string("!") + r.type;
  };

  bool afterNext = false;
  for (;;) {
    for (size_t k = 0; k < c.rej.size(); k++) {
      if (c.rej[k].pos != (int)pos) continue;
      if (c.sched & 1) observe(q, "query before rejected call " + std::to_string(k + 1));
      doRejected(c.rej[k]);
      if (c.sched & 2) observe(q, "query directly after rejected call " + std::to_string(k + 1));
      if (c.sched & 4) afterNext = true;
    }
    if (pos >= ev.size()) break;
    if (ev[pos].bead) {
      H.AddBead(TB{I.id[ev[pos].v], attrOf(I.attr[ev[pos].v]).mass, attrOf(I.attr[ev[pos].v]).name});
      have.insert(ev[pos].v);
    } else {
      if (pos % 2) H.ConnectBeads(I.id[ev[pos].e.second], I.id[ev[pos].e.first]);
      else H.ConnectBeads(I.id[ev[pos].e.first], I.id[ev[pos].e.second]);
      bonds.insert({std::min(ev[pos].e.first, ev[pos].e.second), std::max(ev[pos].e.first, ev[pos].e.second)});
    }
    pos++;
    if (afterNext) { observe(q, "query after the valid operation that followed a rejected call"); afterNext = false; }
  }
  for (auto &r : c.rej) if (r.pos < 0 || r.pos > (int)ev.size()) throw std::runtime_error("harness: rejected call placed outside the history");
  observe(all, "final queries");
  counts = " rejected_reported=" + std::to_string(reported) + " neigh_unknown_empty=" + std::to_string(neighEmpty) + " neigh_unknown_threw=" + std::to_string(neighThrew) +
           " neigh_unknown_nonempty=" + std::to_string(neighOther) + " queries=" + std::to_string(queries);
}
// ---- T: several operations applied to ONE tools::Graph object; every answer must equal the answer on a fresh graph
static void checkToolsHistory(const Case &c, Summary &S) {
  Inst I = present(c.g, c.x);
  Ref R(c.g);
  Graph g = mkGraph(I);
  Graph f = g;
  const std::string freshId = findStructureId<GraphDistVisitor>(f);
  int step = 0, nrejected = 0;
  bool foreignLabels = false;  // a Dist exploration left labels on the graph; on a DISCONNECTED graph the vertices it cannot reach
                               // keep older labels, and what findStructureId makes of such node contents is not specified
  for (char op : c.q) {
    step++;
    std::string at = " (operation " + std::to_string(step) + " '" + op + "' of " + c.q + " on the same Graph object)";
    std::string before = g.getId();
    switch (op) {
      case 'F': {
        std::string sid = findStructureId<GraphDistVisitor>(g);
        if (sid != freshId) {
          if (R.connected || !foreignLabels) FAIL("reuse-structure-id-differs", "findStructureId = '" + sid + "', on a fresh graph '" + freshId + "'" + at);
          S.leak++;  // only counted: stale Dist labels of unreachable components are node content
        }
        break;
      }
      case 'X': case 'Y': {
        int s = op == 'X' ? 0 : R.n - 1;
        GraphDistVisitor v;
        v.setStartingVertex(I.id[s]);
        exploreGraph(g, v);
        foreignLabels = true;
        for (int t = 0; t < R.n; t++) {
          if (R.hop[s][t] < 0) continue;
          GraphNode nd = g.getNode(I.id[t]);
          Index d;
          try { d = nd.getInt("Dist"); } catch (const std::invalid_argument &) { FAIL("reuse-dist-label-missing", "reachable vertex " + std::to_string(I.id[t]) + " has no Dist label" + at); }
          if (d != R.hop[s][t]) FAIL("reuse-dist-label-wrong", "start " + std::to_string(I.id[s]) + ": vertex " + std::to_string(I.id[t]) + " labelled Dist=" + std::to_string(d) + ", hops " + std::to_string(R.hop[s][t]) + at);
        }
        break;
      }
      case 'D': checkDecouple(g, I, R, "reuse-"); break;
      case 'R': checkReduce(g, I, R, S, "reuse-"); break;
      case 'N': {
        Graph_BF_Visitor bf;
        bf.setStartingVertex(I.id[0]);
        bool expect = R.connected && !R.isolated;
        if (singleNetwork(g, bf) != expect) FAIL("reuse-single-network", std::string("singleNetwork = ") + (expect ? "false" : "true") + at);
        break;
      }
      // ---- calls the API must refuse: reported (exception) and the Graph object stays exactly as it was
      case 'x': case 'n': case 'g': case 'o': case 'b': case 'c': case 'e': case 'r': {
        const Index F1 = IDSET[c.x.ids][R.n], F2 = IDSET[c.x.ids][R.n + 1];  // ids that are not in the graph
        std::string call;
        bool threw = false;
        try {
          switch (op) {
            case 'x': { call = "exploreGraph from unknown start vertex"; GraphDistVisitor v; v.setStartingVertex(F1); exploreGraph(g, v); break; }
            case 'n': { call = "singleNetwork from unknown start vertex"; Graph_BF_Visitor bf; bf.setStartingVertex(F1); singleNetwork(g, bf); break; }
            case 'g': { call = "getDegree(unknown vertex)"; g.getDegree(F1); break; }
            case 'o': { call = "getNode(unknown vertex)"; g.getNode(F1); break; }
            case 'b': { call = "exploreBranch(unknown start vertex)"; Edge e = I.e.empty() ? Edge(I.id[0], F1) : Edge(I.id[I.e[0].first], I.id[I.e[0].second]); exploreBranch(g, F1, e); break; }
            case 'c': { call = "exploreBranch(edge that is not in the graph)"; exploreBranch(g, I.id[0], Edge(I.id[0], F1)); break; }
            case 'e': {
              call = "exploreBranch(edge that does not contain the start vertex)";
              int v = -1;
              if (!I.e.empty())
                for (int t = 0; t < R.n; t++) if (t != I.e[0].first && t != I.e[0].second) { v = t; break; }
              if (v < 0) throw std::runtime_error("harness: operation e needs an edge and a third vertex");
              exploreBranch(g, I.id[v], Edge(I.id[I.e[0].first], I.id[I.e[0].second]));
              break;
            }
            case 'r': {
              call = "ReducedGraph::expandEdge(unknown edge)";
              ReducedGraph rg = reduceGraph(g);
              bool t1 = false;
              try { rg.expandEdge(Edge(F1, F2)); } catch (const std::exception &) { t1 = true; }
              if (!t1) FAIL("rejected-graph-call-not-reported/expand-edge", call + " returned normally" + at);
              // the reduced graph is still the reduced graph: expanding gives the original vertex and edge sets
              Graph ex = rg.expandGraph();
              std::set<Index> vs; for (Index v : ex.getVertices()) vs.insert(v);
              std::set<EP> es; for (Edge &e : ex.getEdges()) es.insert(ep(e));
              if (vs != I.vset || es != I.eset) FAIL("errhist-reduced-graph-changed-by-rejected-call", "expandGraph() after a rejected expandEdge() no longer returns the original vertex and edge sets" + at);
              call = "ReducedGraph(edges, nodes) with fewer nodes than vertices";
              std::unordered_map<Index, GraphNode> nodes;
              nodes[I.id[0]] = mkNode(I.attr[0]);
              t1 = false;
              try { ReducedGraph bad(std::vector<ReducedEdge>{ReducedEdge(I.id[0], F1)}, nodes); } catch (const std::exception &) { t1 = true; }
              if (!t1) FAIL("rejected-graph-call-not-reported/reduced-graph-fewer-nodes", call + " returned normally" + at);
              call = "ReducedGraph(edges, nodes) with a vertex that has no node";
              nodes[F2] = mkNode(I.attr[0]);
              ReducedGraph bad2(std::vector<ReducedEdge>{ReducedEdge(I.id[0], F1)}, nodes);
              break;
            }
          }
        } catch (const Fail &) {
          throw;
        } catch (const std::exception &e) {
          if (std::string(e.what()).rfind("harness:", 0) == 0) throw;
          threw = true;
        }
        if (!threw) FAIL(std::string("rejected-graph-call-not-reported/") + (op == 'x' ? "explore-graph" : op == 'n' ? "single-network" : op == 'g' ? "get-degree" : op == 'o' ? "get-node" : op == 'r' ? "reduced-graph-missing-node" : "explore-branch"), call + " returned normally" + at);
        nrejected++;
        break;
      }
      default: throw std::runtime_error("harness: bad operation letter");
    }
    if (op >= 'a' && op <= 'z' && g.getId() != before) FAIL("errhist-graph-node-contents-changed-by-rejected-call", "node contents (labels) of the graph changed although the call was refused" + at);
    if ((op == 'D' || op == 'R' || op == 'N') && g.getId() != before) FAIL("reuse-input-graph-modified", "node contents of the caller's graph changed" + at);
    std::set<Index> vs;
    for (Index v : g.getVertices()) vs.insert(v);
    std::set<EP> es;
    for (Edge &e : g.getEdges()) es.insert(ep(e));
    if (vs != I.vset || es != I.eset) FAIL("reuse-graph-structure-modified", "vertex or edge set of the graph object changed" + at);
  }
  S.sid = "T" + c.q + "|" + freshId + (S.leak ? " labelleak=1" : "") + (nrejected ? " rejected_reported=" + std::to_string(nrejected) : "");
}

// ---- D: different (name,mass) multisets must be reported different
struct DEntry { Base b; std::string ms; BeadStructure bs; };
struct Universe { std::vector<DEntry> u; std::map<std::string, size_t> index; };
static std::string dkey(const Base &b) { return std::to_string(b.n) + "|" + estr(b.e) + "|" + b.attr; }
// scope '3' / '4': every (graph, attribute assignment) with n <= 3 / 4; scope 'S': all assignments on the graph of g
static Universe &universe(char scope, const Base &g) {
  static std::map<std::string, Universe> U;
  std::string name = scope == 'S' ? "S" + std::to_string(g.n) + "|" + estr(g.e) : std::string(1, scope);
  if (U.count(name)) return U[name];
  if (scope == 'S') U.clear();  // keep only one per-graph universe
  Universe &un = U[name];
  auto addGraph = [&](Base b) {
    std::vector<int> d(b.n, 0), radix(b.n, 4);
    do {
      for (int i = 0; i < b.n; i++) b.attr[i] = char('0' + d[i]);
      un.index[dkey(b)] = un.u.size();
      un.u.push_back(DEntry{b, multiset(b.attr), mkBS(present(b, identityXf(b)))});
    } while (bsx::next(d, radix));
  };
  if (scope == 'S') { Base b = g; addGraph(b); }
  else
    for (int n = 1; n <= scope - '0'; n++)
      for (unsigned mask = 0; mask < (1u << (n * (n - 1) / 2)); mask++) addGraph(fromMask(n, mask));
  for (auto &en : un.u) en.bs.isStructureEquivalent(en.bs);  // computes and caches the structure id
  return un;
}
static bool differ(BeadStructure &x, BeadStructure &y) { return !x.isStructureEquivalent(y) && !y.isStructureEquivalent(x); }

static bsx::Outcome run(const Case &c) {
  bsx::Outcome o;
  std::string stage = "setup";
  Ref R(c.g);
  try {
    try {
      if (c.kind == 'D' && c.scope == 0) {  // explicit pair
        stage = "equiv";
        BeadStructure x = mkBS(present(c.g, identityXf(c.g))), y = mkBS(present(c.g2, identityXf(c.g2)));
        if (multiset(c.g.attr) != multiset(c.g2.attr) && !differ(x, y))
          FAIL("equiv-different-multisets-accepted", "structures with (name,mass) multisets " + multiset(c.g.attr) + " and " + multiset(c.g2.attr) + " are reported equivalent");
        o.cls = bsx::fnv("D" + multiset(c.g.attr) + "|" + multiset(c.g2.attr));
        return o;
      }
      if (c.kind == 'D') {
        stage = "equiv";
        Universe &un = universe(c.scope, c.g);
        auto &u = un.u;
        std::string ms = multiset(c.g.attr);
        if (!un.index.count(dkey(c.g))) throw std::runtime_error("harness: structure not in universe");
        size_t xi = un.index[dkey(c.g)];
        long npairs = 0;
        for (size_t j = xi + 1; j < u.size(); j++) {
          if (u[j].ms == ms) continue;
          npairs++;
          if (!differ(u[xi].bs, u[j].bs)) {
            Case f; f.kind = 'D'; f.g = c.g; f.g2 = u[j].b;
            o.extra = casestr(f);
            FAIL("equiv-different-multisets-accepted", "structures with (name,mass) multisets " + ms + " and " + u[j].ms + " are reported equivalent");
          }
        }
        o.extra = "pairs=" + std::to_string(npairs);
        o.cls = bsx::fnv("D" + ms);
        return o;
      }
      Inst I = present(c.g, c.x);
      Summary S;
      if (c.kind == 'G') {
        Graph g = mkGraph(I);
        stage = "dist"; checkDist(g, I, R);
        stage = "decouple"; checkDecouple(g, I, R);
        stage = "reduce"; checkReduce(g, I, R, S);
        stage = "single"; checkSingle(g, I, R, S);
        stage = "break"; checkBreak(I, R, S);
        stage = "equiv"; checkEquiv(c.g, I, R, S, true);
        o.extra = "id=" + S.sid + " comps=" + std::to_string(S.ncomp) + " reduced_edges=" + std::to_string(S.nred) +
                  " single=" + (S.single ? "1" : "0") + (S.dupedges ? " dupedges=" + std::to_string(S.dupedges) : "");
        o.cls = bsx::fnv(S.sid + "|" + std::to_string(S.ncomp) + "|" + std::to_string(S.nred));
      } else if (c.kind == 'A') {
        stage = "equiv"; checkEquiv(c.g, I, R, S, true);
        o.extra = "id=" + S.sid;
        o.cls = bsx::fnv(S.sid);
      } else if (c.kind == 'H') {
        stage = "reuse-history"; checkHistory(c, S);
        o.extra = "history " + S.sid;
        o.cls = bsx::fnv("H" + S.sid);
      } else if (c.kind == 'J') {
        stage = "error-history";
        std::string counts;
        if (c.obj == 'M') checkErrHistory<BeadMotif>(c, S, counts);
        else if (c.obj == 'S') checkErrHistory<BeadStructure>(c, S, counts);
        else throw std::runtime_error("harness: bad obj=");
        o.extra = "error-history " + S.sid + counts;
        o.cls = bsx::fnv("J" + S.sid);
      } else if (c.kind == 'T') {
        stage = "reuse-tools"; checkToolsHistory(c, S);
        o.extra = S.sid;
        {
          std::string valid;
          for (char ch : c.q) if (ch >= 'A' && ch <= 'Z') valid += ch;
          o.cls = valid.size() == c.q.size() ? bsx::fnv(S.sid) : bsx::fnv("Trej" + valid + S.sid.substr(S.sid.find('|')));
        }
      } else if (c.kind == 'M') {
        stage = "simple-motifs"; checkSimpleMotifs(I, R, S);
        o.extra = S.sid + " n=" + std::to_string(S.ncomp);
        o.cls = bsx::fnv(S.sid + "|" + R.cls());
      }
    } catch (const Fail &f) {
      throw;
    } catch (const std::exception &e) {
      throw Fail{stage + "-exception/" + R.cls(), stage + " threw: " + e.what()};
    }
  } catch (const Fail &f) {
    o.ok = false;
    o.key = f.key;
    o.what = f.what;
  }
  return o;
}

// ------------------------------------------------------------------ enumeration helpers
static std::vector<std::vector<int>> allPerms(int n) {
  std::vector<std::vector<int>> r;
  std::vector<int> p(n);
  std::iota(p.begin(), p.end(), 0);
  do r.push_back(p); while (std::next_permutation(p.begin(), p.end()));
  return r;
}
static int gcd_(int a, int b) { return b ? gcd_(b, a % b) : a; }
// a fixed, deterministic family of permutations of 0..n-1 (identity first), at most k
static std::vector<std::vector<int>> fixedPerms(int n, size_t k) {
  std::vector<std::vector<int>> r;
  auto add = [&](std::vector<int> p) {
    if (std::find(r.begin(), r.end(), p) == r.end()) r.push_back(p);
  };
  std::vector<int> id(n);
  std::iota(id.begin(), id.end(), 0);
  add(id);
  if (n == 0) return r;
  std::vector<int> rev(id.rbegin(), id.rend());
  add(rev);
  std::vector<int> il;  // evens then odds
  for (int i = 0; i < n; i += 2) il.push_back(i);
  for (int i = 1; i < n; i += 2) il.push_back(i);
  add(il);
  for (int a = 1; a < n + 1; a++) {
    if (gcd_(a, n) != 1) continue;
    for (int b : {0, 1, n / 2}) {
      std::vector<int> p(n);
      for (int i = 0; i < n; i++) p[i] = (a * i + b) % n;
      add(p);
    }
  }
  std::vector<int> ilr(il.rbegin(), il.rend());
  add(ilr);
  for (int s = 0; s + 1 < n; s++) { auto p = id; std::swap(p[s], p[s + 1]); add(p); }
  if (r.size() > k) r.resize(k);
  return r;
}
static std::vector<std::vector<int>> edgeOrders(int m, bool all) {
  if (all || m <= 2) return allPerms(m);
  return fixedPerms(m, 6);
}
static std::string patternAttr(int n) {
  std::string s;
  static const char RICH[] = "456789ab";  // several distinct non-dyadic masses (element-like and coarse-grained)
  for (int i = 0; i < n; i++) s += RICH[(i * 5 + i / 3) % 8];
  return s;
}
// molecule-like structures with the attributes a real topology gives the beads (BeadStructure keeps name and mass)
struct Mol { std::string name; Base b; };
static std::vector<Mol> molecules() {
  std::vector<Mol> r;
  auto mk = [&](const std::string &name, const std::string &attr, std::vector<IP> e) {
    std::sort(e.begin(), e.end());
    Base b; b.n = (int)attr.size(); b.e = e; b.attr = attr;
    r.push_back({name, b});
  };
  mk("water", "644", {{0, 1}, {0, 2}});
  mk("methane", "54444", {{0, 1}, {0, 2}, {0, 3}, {0, 4}});
  mk("methanol", "564444", {{0, 1}, {0, 2}, {0, 3}, {0, 4}, {1, 5}});
  mk("ethanol", "556444444", {{0, 1}, {1, 2}, {0, 3}, {0, 4}, {0, 5}, {1, 6}, {1, 7}, {2, 8}});
  mk("glycine", "7556644444", {{0, 1}, {1, 2}, {2, 3}, {2, 4}, {0, 5}, {0, 6}, {1, 7}, {1, 8}, {4, 9}});
  mk("cg-chain6", "89a98a", {{0, 1}, {1, 2}, {2, 3}, {3, 4}, {4, 5}});
  mk("cg-ring5", "89a89", {{0, 1}, {1, 2}, {2, 3}, {3, 4}, {0, 4}});
  mk("cg-branched7", "8899aa8", {{0, 1}, {1, 2}, {1, 3}, {3, 4}, {3, 5}, {5, 6}});
  mk("two-waters", "644644", {{0, 1}, {0, 2}, {3, 4}, {3, 5}});
  mk("pyrrole-like", "7555544444", {{0, 1}, {1, 2}, {2, 3}, {3, 4}, {0, 4}, {0, 5}, {1, 6}, {2, 7}, {3, 8}, {4, 9}});
  mk("mixed-isotopes", "5b5b44", {{0, 1}, {1, 2}, {2, 3}, {0, 4}, {3, 5}});
  return r;
}

struct Named { std::string name; Base b; };
static std::vector<Named> namedGraphs() {
  std::vector<Named> r;
  auto mk = [&](const std::string &name, int n, std::vector<IP> e) {
    for (auto &x : e) if (x.first > x.second) std::swap(x.first, x.second);
    std::sort(e.begin(), e.end());
    e.erase(std::unique(e.begin(), e.end()), e.end());
    Base b; b.n = n; b.e = e; b.attr = std::string(n, '0');
    r.push_back({name, b});
  };
  auto chain = [](int a, int k) { std::vector<IP> e; for (int i = 0; i + 1 < k; i++) e.push_back({a + i, a + i + 1}); return e; };
  auto ring = [&](int a, int k) { auto e = chain(a, k); e.push_back({a, a + k - 1}); return e; };
  auto cat = [](std::vector<IP> a, const std::vector<IP> &b) { a.insert(a.end(), b.begin(), b.end()); return a; };
  for (int n = 7; n <= 12; n++) {
    mk("chain" + std::to_string(n), n, chain(0, n));
    mk("ring" + std::to_string(n), n, ring(0, n));
    std::vector<IP> star; for (int i = 1; i < n; i++) star.push_back({0, i});
    mk("star" + std::to_string(n), n, star);
    std::vector<IP> bt; for (int i = 1; i < n; i++) bt.push_back({(i - 1) / 2, i});
    mk("bintree" + std::to_string(n), n, bt);
    // ring with a tail (lollipop): ring of n-3, tail of 3
    mk("tadpole" + std::to_string(n), n, cat(ring(0, n - 3), cat({{0, n - 3}}, chain(n - 3, 3))));
    // caterpillar: spine of n/2 with one leg each
    { std::vector<IP> e = chain(0, n / 2); for (int i = 0; i < n - n / 2; i++) e.push_back({i % (n / 2), n / 2 + i}); mk("caterpillar" + std::to_string(n), n, e); }
    // disconnected mixtures
    mk("ring+chain" + std::to_string(n), n, cat(ring(0, n / 2), chain(n / 2, n - n / 2)));
    mk("star+isolated+ring" + std::to_string(n), n, cat({{0, 1}, {0, 2}, {0, 3}}, ring(5, n - 5)));
    mk("chain+chain+isolated" + std::to_string(n), n, cat(chain(0, 3), chain(3, n - 4)));
  }
  // fused rings: two rings of size a and b sharing one edge
  for (auto ab : std::vector<IP>{{5, 4}, {6, 4}, {5, 5}, {6, 5}, {6, 6}, {7, 6}, {7, 7}}) {
    int a = ab.first, b = ab.second, n = a + b - 2;
    std::vector<IP> e = ring(0, a);
    // second ring uses vertices 0,1 and new a..n-1
    e.push_back({1, a});
    for (int i = a; i + 1 < n; i++) e.push_back({i, i + 1});
    e.push_back({n - 1, 0});
    mk("fused" + std::to_string(a) + "-" + std::to_string(b), n, e);
  }
  // three linearly fused 4-rings .. ladders 2xk
  for (int k = 4; k <= 6; k++) {
    std::vector<IP> e = cat(chain(0, k), chain(k, k));
    for (int i = 0; i < k; i++) e.push_back({i, k + i});
    mk("ladder" + std::to_string(k), 2 * k, e);
  }
  // spiro: two rings sharing one vertex
  for (auto ab : std::vector<IP>{{4, 4}, {5, 4}, {6, 5}, {6, 6}}) {
    int a = ab.first, b = ab.second, n = a + b - 1;
    std::vector<IP> e = ring(0, a);
    e.push_back({0, a});
    for (int i = a; i + 1 < n; i++) e.push_back({i, i + 1});
    e.push_back({n - 1, 0});
    mk("spiro" + std::to_string(a) + "-" + std::to_string(b), n, e);
  }
  // biphenyl-like: two rings joined by a bond; ring-chain-ring
  mk("biphenyl-like-5-5", 10, cat(cat(ring(0, 5), ring(5, 5)), {{0, 5}}));
  mk("biphenyl-like-6-6", 12, cat(cat(ring(0, 6), ring(6, 6)), {{0, 6}}));
  mk("ring-chain-ring", 11, cat(cat(ring(0, 4), ring(4, 4)), cat({{0, 8}, {4, 10}}, chain(8, 3))));
  // many equal-degree start candidates
  { std::vector<IP> e; for (int i = 0; i < 5; i++) { e.push_back({i, (i + 1) % 5}); e.push_back({i, i + 5}); e.push_back({5 + i, 5 + (i + 2) % 5}); } mk("petersen", 10, e); }
  { std::vector<IP> e; for (int i = 0; i < 8; i++) for (int b = 0; b < 3; b++) if (!(i >> b & 1)) e.push_back({i, i | (1 << b)}); mk("cube", 8, e); }
  { std::vector<IP> e = cat(ring(0, 4), ring(4, 4)); for (int i = 0; i < 4; i++) e.push_back({i, 4 + i}); e.push_back({0, 8}); mk("cube+tail", 9, e); }
  { std::vector<IP> e; for (int i = 0; i < 3; i++) for (int j = 3; j < 6; j++) e.push_back({i, j}); e.push_back({0, 6}); e.push_back({6, 7}); mk("k33+tail", 8, e); }
  { std::vector<IP> e; for (int i = 0; i < 4; i++) for (int j = i + 1; j < 4; j++) e.push_back({i, j}); for (int i = 0; i < 4; i++) e.push_back({i, 4 + i}); mk("k4+4tails", 8, e); }
  { std::vector<IP> e; for (int i = 0; i < 7; i++) for (int j = i + 1; j < 7; j++) e.push_back({i, j}); mk("k7", 7, e); }
  // theta graphs: two junctions joined by three paths
  mk("theta-1-2-3", 7, {{0, 1}, {0, 2}, {2, 1}, {0, 3}, {3, 4}, {4, 1}, {1, 5}, {5, 6}});
  mk("theta-2-2-2", 8, {{0, 2}, {2, 1}, {0, 3}, {3, 1}, {0, 4}, {4, 1}, {1, 5}, {0, 6}, {6, 7}});
  // AlQ3-like pivot: three rings sharing one vertex
  mk("three-rings-one-pivot", 10, {{0, 1}, {1, 2}, {2, 3}, {3, 0}, {0, 4}, {4, 5}, {5, 6}, {6, 0}, {0, 7}, {7, 8}, {8, 9}, {9, 0}});
  // disconnected with equal components and isolated vertices
  mk("3xring4", 12, cat(cat(ring(0, 4), ring(4, 4)), ring(8, 4)));
  mk("6xdimer", 12, {{0, 1}, {2, 3}, {4, 5}, {6, 7}, {8, 9}, {10, 11}});
  mk("isolated9", 9, {});
  mk("ring3+6isolated", 9, ring(0, 3));
  return r;
}

int main(int argc, char **argv) {
  bsx::Args a = bsx::parse(argc, argv);
  if (a.has_case) {
    bsx::Outcome o;
    Case c = parsecase(a.cas);
    bsx::contained(0, 1, [&](long long) { return run(c); }, [&](long long, const bsx::Outcome &r) { o = r; }, 60);
    if (o.ok) { printf("case holds (%s)\n", o.extra.c_str()); return 0; }
    printf("case FAILS: key=%s %s\n", o.key.c_str(), o.what.c_str());
    return 3;
  }
  bsx::Report R;
  R.property = "C16"; R.part = "graph"; R.tier = a.tier;
  bool thorough = a.tier == "thorough";
  R.max_samples = 12;

  std::vector<Case> cases;
  long long gi = 0;  // global case index (identical in every shard)
  std::string only = a.kv.count("only") ? a.kv["only"] : "";  // debugging aid: restrict to case families
  auto push = [&](const Case &c) { if (a.mine(gi++) && (only.empty() || only.find(c.kind) != std::string::npos) &&
                                        (!a.kv.count("n") || atoi(a.kv["n"].c_str()) == c.g.n)) cases.push_back(c); };
  std::map<std::string, long long> famcount;

  // ---- G: n <= 4: all graphs x all perms x id sets x ALL edge orders x vertex order; 2 attribute patterns
  int nids = thorough ? 3 : 2;
  for (int n = 1; n <= 4; n++) {
    auto perms = allPerms(n);
    for (unsigned mask = 0; mask < (1u << (n * (n - 1) / 2)); mask++) {
      Base b = fromMask(n, mask);
      auto eos = edgeOrders((int)b.e.size(), true);
      for (int at = 0; at < 2; at++) {
        b.attr = at ? patternAttr(n) : std::string(n, '0');
        for (size_t pi = 0; pi < perms.size(); pi++)
          for (int ids = 0; ids < nids; ids++)
            for (size_t oi = 0; oi < eos.size(); oi++)
              for (int vo = 0; vo < 2; vo++) {
                if (!thorough && (vo != int((oi + pi) % 2) || ids != int((oi / 2 + pi) % 2))) continue;
                Case c; c.kind = 'G'; c.g = b; c.x.perm = perms[pi]; c.x.ids = ids; c.x.eo = eos[oi]; c.x.vo = vo;
                push(c);
              }
      }
    }
  }
  // ---- G: n = 5: all 1024 graphs x all 120 perms x id sets; edge orders: 6 fixed (thorough: all six, quick: rotating)
  {
    int n = 5;
    auto perms = allPerms(n);
    for (unsigned mask = 0; mask < 1024; mask++) {
      Base b = fromMask(n, mask);
      auto eos = edgeOrders((int)b.e.size(), false);
      for (size_t pi = 0; pi < perms.size(); pi++)
        for (int ids = 0; ids < nids; ids++)
          for (size_t oi = 0; oi < eos.size(); oi++) {
            if (!thorough && (oi != (pi + ids) % eos.size() || ids != int((pi + mask) % 2))) continue;
            if (thorough && ids == 2 && oi != (pi + mask) % eos.size()) continue;  // colliding-bucket ids: one edge order per perm
            b.attr = ((pi + oi) % 2) ? patternAttr(n) : std::string(n, '0');
            Case c; c.kind = 'G'; c.g = b; c.x.perm = perms[pi]; c.x.ids = ids; c.x.eo = eos[oi]; c.x.vo = int((pi / 2 + oi) % 2);
            push(c);
          }
    }
  }
  // ---- G: n = 6: all 32768 graphs under fixed relabellings (thorough 12, quick 2 rotating through the 12)
  {
    int n = 6;
    auto perms = fixedPerms(n, 12);
    for (unsigned mask = 0; mask < 32768; mask++) {
      Base b = fromMask(n, mask);
      auto eos = edgeOrders((int)b.e.size(), false);
      for (size_t pi = 0; pi < perms.size(); pi++) {
        if (!thorough && !(pi == mask % perms.size() || pi == (mask / 12 + 5) % perms.size())) continue;
        b.attr = ((pi + mask) % 3 == 0) ? patternAttr(n) : std::string(n, '0');
        Case c; c.kind = 'G'; c.g = b; c.x.perm = perms[pi]; c.x.ids = int((pi + mask) % NIDSETS);
        c.x.eo = eos[(pi + mask / 7) % eos.size()]; c.x.vo = int((pi + mask / 3) % 2);
        push(c);
      }
    }
  }
  // ---- G: named classes on 7..12 vertices
  auto named = namedGraphs();
  for (auto &ng : named) {
    auto perms = fixedPerms(ng.b.n, thorough ? 14 : 6);
    auto eos = edgeOrders((int)ng.b.e.size(), false);
    for (size_t pi = 0; pi < perms.size(); pi++)
      for (int ids = 0; ids < NIDSETS; ids++)
        for (size_t oi = 0; oi < eos.size(); oi++) {
          if (!thorough && oi != (pi + ids) % eos.size() && oi != (pi + ids + 3) % eos.size()) continue;
          Case c; c.kind = 'G'; c.g = ng.b; c.g.attr = ((pi + oi) % 2) ? patternAttr(ng.b.n) : ng.b.attr;
          c.x.perm = perms[pi]; c.x.ids = ids; c.x.eo = eos[oi]; c.x.vo = int((pi + oi) % 2);
          push(c);
        }
  }
  famcount["G"] = gi;
  // ---- A: all attribute assignments (4^n) x all perms x id sets for n <= 4
  long long g0 = gi;
  for (int n = 1; n <= 4; n++) {
    auto perms = allPerms(n);
    for (unsigned mask = 0; mask < (1u << (n * (n - 1) / 2)); mask++) {
      Base b = fromMask(n, mask);
      auto eos = edgeOrders((int)b.e.size(), true);
      std::vector<int> d(n, 0), radix(n, 4);
      long ai = 0;
      do {
        for (int i = 0; i < n; i++) b.attr[i] = char('0' + d[i]);
        for (size_t pi = 0; pi < perms.size(); pi++)
          for (int ids = 0; ids < (thorough ? 3 : (n <= 3 ? 2 : 1)); ids++) {
            Case c; c.kind = 'A'; c.g = b; c.x.perm = perms[pi];
            c.x.ids = (n == 4 && !thorough) ? int((pi + ai) % NIDSETS) : ids;
            c.x.eo = eos[(pi * 5 + ai) % eos.size()]; c.x.vo = int((pi + ai) % 2);
            push(c);
          }
        ai++;
      } while (bsx::next(d, radix));
    }
  }
  // ---- A/G/D on molecule-like structures with several distinct non-dyadic masses: relabelled copies (all / many fixed
  //      relabellings x all 5 id sets x both bead insertion orders x 2 bond insertion orders) must be equivalent in both
  //      directions; a copy with ONE bead attribute changed (other name and/or other mass) must be different
  auto mols = molecules();
  for (auto &mo : mols) {
    const Base &b = mo.b;
    auto perms = b.n <= 5 ? allPerms(b.n) : fixedPerms(b.n, 40);
    auto eos = edgeOrders((int)b.e.size(), false);
    for (size_t pi = 0; pi < perms.size(); pi++)
      for (int ids = 0; ids < NIDSETS; ids++)
        for (int vo = 0; vo < 2; vo++)
          for (size_t oi = 0; oi < 2 && oi < eos.size(); oi++) {
            Case c; c.kind = 'A'; c.g = b; c.x.perm = perms[pi]; c.x.ids = ids; c.x.eo = eos[oi ? eos.size() - 1 - (pi % 2) : 0]; c.x.vo = vo;
            push(c);
          }
    auto gperms = fixedPerms(b.n, thorough ? 12 : 6);
    for (size_t pi = 0; pi < gperms.size(); pi++)
      for (int ids = 0; ids < NIDSETS; ids++) {
        Case c; c.kind = 'G'; c.g = b; c.x.perm = gperms[pi]; c.x.ids = ids; c.x.eo = eos[(pi + ids) % eos.size()]; c.x.vo = int((pi + ids) % 2);
        push(c);
      }
    for (int v = 0; v < b.n; v++)
      for (char ch : ATTRCHARS) {
        if (ch == b.attr[v]) continue;
        Case c; c.kind = 'D'; c.scope = 0; c.g = b; c.g2 = b; c.g2.attr[v] = ch;
        push(c);
      }
  }
  famcount["A"] = gi - g0; g0 = gi;
  // ---- D: different multisets must be different.  quick: universe n<=3 (all pairs) + n=4 within the same graph;
  //         thorough: universe n<=4, all pairs
  for (int n = 1; n <= 4; n++)
    for (unsigned mask = 0; mask < (1u << (n * (n - 1) / 2)); mask++) {
      Base b = fromMask(n, mask);
      std::vector<int> d(n, 0), radix(n, 4);
      do {
        for (int i = 0; i < n; i++) b.attr[i] = char('0' + d[i]);
        Case c; c.kind = 'D'; c.g = b; c.scope = thorough ? '4' : (n <= 3 ? '3' : 'S');
        push(c);
      } while (bsx::next(d, radix));
    }
  famcount["D"] = gi - g0; g0 = gi;
  // ---- M: breakIntoSimpleMotifs on connected graphs with >= 2 vertices
  for (int n = 2; n <= (thorough ? 6 : 5); n++) {
    auto perms = n <= 5 ? allPerms(n) : fixedPerms(n, 12);
    for (unsigned mask = 0; mask < (1u << (n * (n - 1) / 2)); mask++) {
      Base b = fromMask(n, mask);
      Ref rf(b);
      if (!rf.connected) continue;
      auto eos = edgeOrders((int)b.e.size(), false);
      size_t np = n <= 4 ? perms.size() : (n == 5 ? (thorough ? 24 : 4) : 2);
      for (size_t k = 0; k < np; k++) {
        size_t pi = n <= 4 ? k : (k * 37 + mask) % perms.size();
        Case c; c.kind = 'M'; c.g = b; c.x.perm = perms[pi]; c.x.ids = int((k + mask) % NIDSETS);
        c.x.eo = eos[(k + mask / 5) % eos.size()]; c.x.vo = int((k + mask / 2) % 2);
        push(c);
      }
    }
  }
  for (auto &ng : named) {
    Ref rf(ng.b);
    if (!rf.connected) continue;
    auto perms = fixedPerms(ng.b.n, thorough ? 8 : 3);
    auto eos = edgeOrders((int)ng.b.e.size(), false);
    for (size_t pi = 0; pi < perms.size(); pi++) {
      Case c; c.kind = 'M'; c.g = ng.b; c.x.perm = perms[pi]; c.x.ids = int(pi % NIDSETS); c.x.eo = eos[pi % eos.size()]; c.x.vo = int(pi % 2);
      push(c);
    }
  }
  famcount["M"] = gi - g0; g0 = gi;
  // ---- H / T: reuse histories.  bases: every graph on 1..4 vertices + 8 graphs on 5..6 vertices (4 of them disconnected)
  {
    std::vector<Base> bases;
    for (int n = 1; n <= 4; n++)
      for (unsigned mask = 0; mask < (1u << (n * (n - 1) / 2)); mask++) bases.push_back(fromMask(n, mask));
    auto mkb = [&](int n, std::vector<IP> e) { Base b; b.n = n; std::sort(e.begin(), e.end()); b.e = e; b.attr = std::string(n, '0'); bases.push_back(b); };
    mkb(5, {{0, 1}, {0, 2}, {1, 2}, {3, 4}});                  // triangle + dimer
    mkb(5, {{0, 1}, {0, 2}, {0, 3}, {0, 4}});                  // star
    mkb(5, {{0, 1}, {0, 2}, {1, 2}, {1, 3}, {2, 3}, {3, 4}});  // fused triangles + tail
    mkb(6, {{0, 1}, {0, 3}, {1, 2}, {2, 3}, {4, 5}});          // ring4 + dimer
    mkb(6, {{0, 1}, {0, 2}, {1, 2}, {3, 4}, {3, 5}, {4, 5}});  // two triangles
    mkb(6, {{0, 1}, {0, 3}, {1, 2}, {2, 3}, {3, 4}, {4, 5}});  // ring4 + tail
    mkb(6, {{0, 1}, {0, 2}, {0, 3}});                          // star + 2 isolated
    mkb(6, {{0, 1}, {0, 3}, {1, 2}, {1, 4}, {2, 5}, {3, 4}, {4, 5}});  // ladder 2x3
    const std::string Q = "SEBC", OPS = "FXYDRN";
    for (size_t bi = 0; bi < bases.size(); bi++) {
      Base b = bases[bi];
      auto perms = fixedPerms(b.n, 4);
      auto eos = edgeOrders((int)b.e.size(), false);
      for (int pr = 0; pr < (thorough ? 2 : 1); pr++) {
        Case c; c.g = b; c.g.attr = ((bi + pr) % 2) ? patternAttr(b.n) : std::string(b.n, '0');
        c.x.perm = perms[(bi + pr) % perms.size()]; c.x.ids = int((bi + pr) % NIDSETS); c.x.eo = eos[(bi / 2 + pr) % eos.size()]; c.x.vo = int((bi / 3 + pr) % 2);
        int nev = b.n + (int)b.e.size();
        c.kind = 'H';
        for (int c1 = 1; c1 < nev; c1++) {
          for (char q1 : Q) for (char q2 : Q) { c.cuts = {c1}; c.q = std::string() + q1 + q2; push(c); }
          if (thorough)
            for (int c2 = c1 + 1; c2 < nev; c2++)
              for (char q1 : Q) for (char q2 : Q) for (char q3 : Q) { c.cuts = {c1, c2}; c.q = std::string() + q1 + q2 + q3; push(c); }
        }
        c.kind = 'T'; c.cuts.clear();
        for (char o1 : OPS) for (char o2 : OPS) {
          c.q = std::string() + o1 + o2; push(c);
          if (thorough) for (char o3 : OPS) { c.q = std::string() + o1 + o2 + o3; push(c); }
        }
      }
    }
  }
  famcount["HT"] = gi - g0; g0 = gi;
  // ---- J, T with rejected calls: "state after a reported error".  Every call the API refuses is put at every position of the
  //      small histories; the reference is the history without the rejected calls.
  {
    std::vector<Base> all4;  // every graph on 1..4 vertices
    for (int n = 1; n <= 4; n++)
      for (unsigned mask = 0; mask < (1u << (n * (n - 1) / 2)); mask++) all4.push_back(fromMask(n, mask));
    auto mkb = [&](int n, std::vector<IP> e) { Base b; b.n = n; std::sort(e.begin(), e.end()); b.e = e; b.attr = std::string(n, '0'); return b; };
    // molecule alphabet: lone bead, dimer, chain3, ring3, chain4, ring4, star4, two dimers (two components), chain3 + lone bead (molecule + ion)
    std::vector<Base> mol{mkb(1, {}), mkb(2, {{0, 1}}), mkb(3, {{0, 1}, {1, 2}}), mkb(3, {{0, 1}, {0, 2}, {1, 2}}), mkb(4, {{0, 1}, {1, 2}, {2, 3}}),
                          mkb(4, {{0, 1}, {0, 3}, {1, 2}, {2, 3}}), mkb(4, {{0, 1}, {0, 2}, {0, 3}}), mkb(4, {{0, 1}, {2, 3}}), mkb(4, {{0, 1}, {1, 2}})};
    std::vector<Base> more{mkb(5, {{0, 1}, {0, 2}, {1, 2}, {3, 4}}), mkb(5, {{0, 1}, {0, 2}, {0, 3}, {0, 4}}), mkb(6, {{0, 1}, {0, 3}, {1, 2}, {2, 3}, {4, 5}}),
                           mkb(6, {{0, 1}, {0, 2}, {0, 3}})};  // thorough: triangle+dimer, star5, ring4+dimer, star4+2 lone beads
    auto isMol = [&](const Base &b) { for (auto &m : mol) if (m.n == b.n && m.e == b.e) return true; return false; };
    auto rejAt = [&](const Base &b, const std::vector<Ev> &ev, int pos, bool canonical) {
      std::vector<Case::Rej> r;
      std::vector<int> P, U;  // beads present before event pos (in order of addition); unknown ids: future beads in order of addition, then two ids that are never added
      std::set<IP> bonds;
      for (int k = 0; k < (int)ev.size(); k++) {
        if (ev[k].bead) (k < pos ? P : U).push_back(ev[k].v);
        else if (k < pos) bonds.insert({std::min(ev[k].e.first, ev[k].e.second), std::max(ev[k].e.first, ev[k].e.second)});
      }
      U.push_back(b.n); U.push_back(b.n + 1);
      if (canonical) {
        if (!P.empty()) { r.push_back({pos, 'c', P.back(), U[0]}); r.push_back({pos, 'c', U[0], P[0]}); }
        r.push_back({pos, 'c', U[0], U[1]});
        if (!P.empty()) { r.push_back({pos, 'c', P.back(), P.back()}); r.push_back({pos, 'a', P[0], P[0]}); }
        r.push_back({pos, 'g', U[0], U[0]});
        r.push_back({pos, 's', P.empty() ? U[0] : P[0], U[0]});
        return r;
      }
      size_t nu = U.size() - 1;
      for (int i : P) for (size_t k = 0; k < nu; k++) { r.push_back({pos, 'c', i, U[k]}); r.push_back({pos, 'c', U[k], i}); }
      for (size_t k = 0; k < U.size(); k++) for (size_t l = k + 1; l < U.size(); l++) r.push_back({pos, 'c', U[k], U[l]});
      for (int i : P) r.push_back({pos, 'c', i, i});
      r.push_back({pos, 'c', U[0], U[0]});
      for (int i : P) r.push_back({pos, 'a', i, i});
      for (size_t k = 0; k < nu; k++) r.push_back({pos, 'g', U[k], U[k]});
      for (size_t k = 0; k < nu; k++) r.push_back({pos, 's', P.empty() ? U[k] : P[0], U[k]});
      for (int i = 0; i < b.n; i++) for (int j = i + 1; j < b.n; j++)
        if (std::count(P.begin(), P.end(), i) && std::count(P.begin(), P.end(), j) && !bonds.count({i, j})) r.push_back({pos, 't', i, j});
      return r;
    };
    auto presentation = [&](Case &c, const Base &b, size_t bi, int pr) {
      auto perms = fixedPerms(b.n, 4);
      auto eos = edgeOrders((int)b.e.size(), false);
      c.g = b; c.g.attr = ((bi + pr) % 2) ? patternAttr(b.n) : std::string(b.n, '0');
      c.x.perm = perms[(bi + pr) % perms.size()]; c.x.ids = int((bi + 2 * pr) % NIDSETS); c.x.eo = eos[(bi / 2 + pr) % eos.size()]; c.x.vo = int((bi / 3 + pr) % 2);
    };
    const std::string Q = "SEBN";
    // J1: ONE rejected call, every argument choice, at every position; query schedule 0..7; every query letter
    std::vector<Base> j1;
    for (auto &b : all4) if (thorough || b.n <= 3 || isMol(b)) j1.push_back(b);
    if (thorough) j1.insert(j1.end(), more.begin(), more.end());
    for (size_t bi = 0; bi < j1.size(); bi++)
      for (int pr = 0; pr < (thorough ? 3 : 2); pr++) {
        Case c; c.kind = 'J';
        presentation(c, j1[bi], bi, pr);
        std::vector<Ev> ev = events(present(c.g, c.x));
        for (int pos = 0; pos <= (int)ev.size(); pos++)
          for (auto &r : rejAt(c.g, ev, pos, false))
            for (int sched = 0; sched < 8; sched++) {
              if (pos == 0 && (sched & 3)) continue;                  // nothing to ask of an empty structure
              if (pos == (int)ev.size() && (sched & 4)) continue;     // no valid operation follows
              for (char q : Q)
                for (char obj : std::string(isMol(c.g) && c.g.n >= 3 && (thorough || q == 'E') ? "SM" : "S")) {
                  if (sched == 0 && q != 'S' && pos == (int)ev.size()) continue;  // without intermediate query and valid operation the letter only rotates the final queries
                  c.rej = {r}; c.sched = sched; c.q = std::string(1, q); c.obj = obj; push(c);
                }
            }
      }
    famcount["J1"] = gi - g0; g0 = gi;
    // J2: TWO rejected calls (canonical arguments: newest/oldest known bead, next bead(s) to come or ids that never come), all pairs of
    //     placements incl. the same call twice
    for (size_t bi = 0; bi < mol.size(); bi++)
      for (int pr = 0; pr < (thorough ? 2 : 1); pr++) {
        Case c; c.kind = 'J';
        presentation(c, mol[bi], bi + 1, pr);
        std::vector<Ev> ev = events(present(c.g, c.x));
        std::vector<Case::Rej> ops;
        for (int pos = 0; pos <= (int)ev.size(); pos++) for (auto &r : rejAt(c.g, ev, pos, true)) ops.push_back(r);
        for (auto &r1 : ops) for (auto &r2 : ops) {
          if (r2.pos < r1.pos) continue;
          for (int sched : (thorough ? std::vector<int>{0, 1, 2, 3, 4, 5, 6, 7} : std::vector<int>{0, 1, 2, 4})) {
            if (r2.pos == 0 && (sched & 3)) continue;
            if (r1.pos == (int)ev.size() && (sched & 4)) continue;
            for (char q : std::string(thorough ? "SEBN" : "SE"))
              for (char obj : std::string(thorough && q == 'E' ? "SM" : "S")) { c.rej = {r1, r2}; c.sched = sched; c.q = std::string(1, q); c.obj = obj; push(c); }
          }
        }
      }
    famcount["J2"] = gi - g0; g0 = gi;
    // T with rejected calls on ONE tools::Graph: valid, rejected, valid / rejected, valid / valid, rejected, rejected, valid
    const std::string OPS = "FXYDRN", REJ = "xngobcer";
    std::vector<Base> tb = all4;
    tb.insert(tb.end(), more.begin(), more.end());
    for (size_t bi = 0; bi < tb.size(); bi++)
      for (int pr = 0; pr < (thorough ? 2 : 1); pr++) {
        Case c; c.kind = 'T';
        presentation(c, tb[bi], bi, pr);
        for (char r1 : REJ) {
          if (r1 == 'e' && (c.g.e.empty() || c.g.n < 3)) continue;  // needs an edge and a vertex that is not on it
          for (char o2 : OPS) {
            c.q = std::string() + r1 + o2; push(c);
            for (char o1 : OPS) {
              c.q = std::string() + o1 + r1 + o2; push(c);
              if (thorough || isMol(c.g))
                for (char r2 : REJ) {
                  if (r2 == 'e' && (c.g.e.empty() || c.g.n < 3)) continue;
                  c.q = std::string() + o1 + r1 + r2 + o2; push(c);
                }
            }
          }
        }
      }
    famcount["Trej"] = gi - g0;
  }

  R.rule =
      "alphabet: every simple undirected graph on 1..5 labelled vertices (1+2+8+64+1024) and all 32768 on 6 vertices, plus " +
      std::to_string(named.size()) +
      " named graphs on 7..12 vertices (chains, rings, stars, binary trees, tadpoles, caterpillars, fused rings, ladders, spiro, "
      "ring-bond-ring, Petersen, cube, K3,3/K4/K7 variants, theta, pivot of three rings, disconnected mixtures with isolated vertices); "
      "presentations: all n! relabellings for n<=5 (12 fixed for n=6, up to 14 fixed for n>=7) into id sets {0..n-1}, {large sparse}, "
      "{multiples of 13 = colliding hash buckets}, {5+7i}, {descending shifted block} (the last two outside the exhaustive n<=5 products); ALL edge insertion orders for n<=4 (6 fixed beyond), both vertex insertion orders; "
      "node attributes (name, mass = all that BeadStructure keeps of a bead): all 4^n assignments of 2 names x 2 masses for n<=4 (family A/D); elsewhere uniform + "
      "one pattern over 8 (name,mass) pairs with distinct non-dyadic masses (1.008, 12.011, 15.999, 14.007, 56.108, 72.11, 44.05, 13.003); " +
      std::to_string(mols.size()) + " molecule-like structures (water, methane, methanol, ethanol, glycine, CG chain/ring/branched, two waters, pyrrole-like, mixed isotopes) "
      "under all (n<=5) / up to 40 fixed relabellings x 5 id sets x both bead orders x 2 bond orders, and every copy with ONE bead attribute replaced by each of the other 11 pairs (must be different). "
      "bound (" + a.tier + "): " + (thorough ? "everything above (n=5 with the third id set: one of the 6 edge orders per perm)" : "n<=4: one of the 2 id sets and vertex orders per (perm,edge order); n=5: one edge order and id set per perm; n=6: 2 of the 12 relabellings per graph; named: 6 relabellings") +
      ". oracle: adjacency-matrix BFS hop counts (Dist labels), union-find components (decoupleIsolatedSubGraphs, breakIntoStructures, "
      "breakIntoMotifs), set equality of vertices/edges after reduceGraph+expandGraph, connected-and-no-isolated-vertex (singleNetwork BF/DF from every "
      "start, isSingleStructure), equivalence by construction for relabelled copies (isStructureEquivalent both directions, findStructureId), "
      "inequivalence whenever the (name,mass) multisets differ, lossless partition for breakIntoSimpleMotifs; "
      "reuse histories (H: one BeadStructure grown in 2 (thorough 3) stages at every cut of its construction event list, query from {isSingleStructure, "
      "isStructureEquivalent vs fresh/self/earlier content, breakIntoStructures, copy} after every stage; T: all pairs (thorough triples) of "
      "{findStructureId, Dist exploration from first/last vertex, decouple, reduce+expand, singleNetwork} on ONE Graph object) over all graphs on <=4 vertices "
      "+ 8 graphs on 5..6 vertices, oracle reused object == fresh object with the same content. "
      "state after a reported error (J: ONE BeadStructure / BeadMotif is taken through the construction event list of a small molecule with 1 or 2 calls the API refuses - "
      "ConnectBeads with one / both ids unknown (future beads or ids that never come, both argument orders) or a self connection, AddBead with an existing id and other name+mass, "
      "getSubStructure with an unknown bead / a bond that does not exist (yet), getNeighBeadIds of an unknown id - at EVERY position; one rejected call: every argument choice, "
      "all graphs on <=3 vertices + molecule alphabet {lone bead, dimer, chain3, ring3, chain4, ring4, star4, two dimers, chain3 + lone bead} (thorough: all graphs on <=4 vertices + 4 on 5..6), "
      "2 (3) presentations, query schedule = every subset of {before the rejected call, directly after it, after the next valid operation}, query letter from {isSingleStructure, "
      "isStructureEquivalent+copy (+ BeadMotif::getType), breakIntoStructures, getNeighBeadIds/BeadCount/getBeadIds/BeadExist/getGraph}, all of them at the end; two rejected calls: all ordered pairs of "
      "placements (also the same call twice) of 7 canonical calls on the molecule alphabet; T with lower-case letters: exploreGraph / singleNetwork from an unknown start, getDegree / getNode of an unknown "
      "vertex, exploreBranch with unknown start / unknown edge / edge without the start vertex, ReducedGraph::expandEdge of an unknown edge and ReducedGraph built with a missing node, placed "
      "before / between all pairs of valid operations, two of them between the pairs on the molecule alphabet (thorough: everywhere); oracle: every such call throws - except getNeighBeadIds of an unknown id, "
      "which the unchanged library answers with an empty list: counted, no demand - and the object is observably the FRESH object built from the successful operations only: equivalent both ways, same "
      "isSingleStructure, same components, same neighbour sets / bead ids / graph vertices and edges, Graph id and vertex/edge sets unchanged). "
      "distinct_nontrivial = distinct (structure id, #components, #reduced edges) signatures / motif type multisets reached";
  R.assumptions.push_back("reduce/expand is compared as vertex and edge SETS (statement wording); edges returned with multiplicity > 1 are only counted (counter expand_duplicate_edge_cases)");
  R.assumptions.push_back("unreachable vertices are not required to carry or lack a Dist label; non-isomorphic graphs with equal (name,mass) multisets may be reported either way");
  R.assumptions.push_back("reuse: findStructureId on a Graph object must equal the fresh answer when the graph is connected or no explicit Dist exploration preceded it; on a disconnected graph "
                          "that still carries Dist labels of an earlier exploration from another component the id may differ (labels are node content) - counted, not failed; "
                          "visitor objects are single-use (no reset in the API), their reuse is not checked");
  R.assumptions.push_back("rejected calls: 'reported' = any std::exception (the unchanged Release build throws invalid_argument / runtime_error / out_of_range); calls whose precondition is only an assert "
                          "(Graph::setNode of an unknown vertex, Graph built with an edge to a vertex without node) are not reported by a Release build and are not in the alphabet");
  R.assumptions.push_back("breakIntoSimpleMotifs is only called on connected structures (its documented domain); its lossless-partition clause is this harness' reading of 'decomposition is lossless'");

  // Crash / hang containment: every case runs in a forked child with an alarm.  A family whose cases keep
  // killing the child is abandoned after MAXFATAL such cases (they are all reported; the run is then not exhaustive).
  const int MAXFATAL = 4;
  std::map<char, int> fatal;
  // D cases build a universe of up to 17k structures on first use -> own, longer time limit; they go last
  std::stable_partition(cases.begin(), cases.end(), [](const Case &c) { return c.kind != 'D'; });
  long long nonD = std::count_if(cases.begin(), cases.end(), [](const Case &c) { return c.kind != 'D'; });
  long long total = (long long)cases.size();
  auto fn = [&](long long i) {
    if (fatal[cases[i].kind] >= MAXFATAL) { bsx::Outcome o; o.extra = "SKIPPED"; return o; }
    return run(cases[i]);
  };
  auto on = [&](long long i, const bsx::Outcome &o) {
    const Case &c = cases[i];
    if (o.ok && o.extra == "SKIPPED") {
      R.cap(std::string("family ") + c.kind + " abandoned in a shard after " + std::to_string(MAXFATAL) + " crashing/hanging cases");
      R.counters[std::string("skipped_") + c.kind]++;
      return;
    }
    R.eval();
    R.counters[std::string("cases_") + c.kind]++;
    if (!o.ok) {
      std::string key = o.key, cas = casestr(c);
      if (key == "fatal") { key = std::string("crash-or-hang-") + c.kind + "/" + Ref(c.g).cls(); fatal[c.kind]++; }
      if (c.kind == 'D' && !o.extra.empty() && o.extra[0] == 'D') cas = o.extra;
      R.fail(key, o.what + "  [" + cas + "]", cas);
      return;
    }
    if (o.cls) R.cls(o.cls);
    if (c.kind == 'D' && o.extra.rfind("pairs=", 0) == 0) R.counters["D_pairs_compared"] += atoll(o.extra.c_str() + 6);
    if (o.extra.find("dupedges=") != std::string::npos) R.counters["expand_duplicate_edge_cases"]++;
    if (o.extra.find("labelleak=") != std::string::npos) R.counters["stale_dist_labels_changed_structure_id_cases_unspecified"]++;
    auto num = [&](const char *name) { size_t p = o.extra.find(std::string(" ") + name + "="); return p == std::string::npos ? 0LL : atoll(o.extra.c_str() + p + strlen(name) + 2); };
    if (c.kind == 'J' || c.kind == 'T') {
      R.counters[c.kind == 'J' ? "errhist_beadstructure_rejected_calls_reported" : "errhist_graph_rejected_calls_reported"] += num("rejected_reported");
      if (c.kind == 'J') {
        R.counters["errhist_neighbours_of_unknown_bead_returned_empty_no_demand"] += num("neigh_unknown_empty");
        R.counters["errhist_neighbours_of_unknown_bead_threw_no_demand"] += num("neigh_unknown_threw");
        R.counters["errhist_neighbours_of_unknown_bead_returned_ids_no_demand"] += num("neigh_unknown_nonempty");
        R.counters["errhist_queries_compared_with_fresh_object"] += num("queries");
        R.counters[c.rej.size() == 1 ? "cases_J_one_rejected_call" : "cases_J_two_rejected_calls"]++;
        if (c.obj == 'M') R.counters["cases_J_on_BeadMotif"]++;
      }
    }
    // a few written-out cases
    if ((c.kind == 'G' && c.g.n >= 5 && (i % 9973) == 7) || (c.kind == 'M' && (i % 401) == 3) || (c.kind == 'A' && (i % 20011) == 5) || ((c.kind == 'H' || c.kind == 'T') && (i % 5003) == 11) || (c.kind == 'J' && (i % 4001) == 17))
      R.sample(casestr(c) + " -> " + o.extra);
  };
  bsx::contained(0, nonD, fn, on, 10);
  bsx::contained(nonD, total, fn, on, 180);
  if (a.shard == 0) for (auto &kv : famcount) R.counters["family_total_all_shards_" + kv.first] = kv.second;
  if (a.out.empty()) { fprintf(stderr, "no --out\n"); return 2; }
  R.write(a.out);
  return 0;
}
