// C17 — checkpoint files return exactly what was stored.
// Explicit-state search over operation histories
//     W(path,name,value) / Reopen(READ|MODIFY|CREATE) / R(path,name)
// on a REAL HDF5 file driven through CheckpointFile / CheckpointWriter /
// CheckpointReader / CptTable (checkpoint.cc + staticsite.cc compiled into this
// harness), stepped alongside a std::map reference model.  A state is the history
// that reaches it, replayed on a fresh file of its own (one forked child per
// history, so HDF5/heap misuse is attributed to exactly that history); after the
// last op the handle is closed and a FRESH read-only handle reads every
// (path,name) slot of the universe: written slots must come back bit-identical
// (payload bytes and shape), never-written slots must raise an error for every
// supported kind.  Writes through a read-only handle must be rejected and leave
// the file byte-identical.
#include <algorithm>
#include <climits>
#include <cfloat>
#include <fcntl.h>
#include <fstream>
#include <functional>
#include <locale>
#include <memory>
#include <sys/mman.h>

#include "bsx.h"
#include "votca/xtp/checkpoint.h"
#include "votca/xtp/staticsite.h"

using namespace votca;
using namespace votca::xtp;

// ------------------------------------------------------------------ values
enum Kind { IDX, INT, UINT, DBL, FLT, BOOL, STR, VIDX, VINT, VDBL, VSTR, MXD, MXF, VXD, RVXD, V3D, VV3D, TBL, ESYS, MXI, NKIND };
static const char *kindname[NKIND] = {"index", "int", "unsigned", "double", "float", "bool", "string", "vector-index", "vector-int",
                                      "vector-double", "vector-string", "matrix", "matrixf", "vectorxd", "rowvector", "vector3d",
                                      "vec3list", "table", "eigensystem", "matrixi"};
struct Row { long id; std::string el; double pos[3]; long rank; double q[9]; };
struct Val {
  std::string label;
  Kind kind = IDX;
  long i = 0; int n = 0; unsigned u = 0; double d = 0; float f = 0; bool b = false;
  std::string s;
  std::vector<long> vi; std::vector<int> vn; std::vector<double> vd; std::vector<std::string> vs;
  Eigen::MatrixXd m;   // MXD, VXD, RVXD, V3D payload
  bool block = false;  // MXD written from a non-contiguous block view
  Eigen::MatrixXf mf;
  std::vector<Eigen::Vector3d> vv;
  std::vector<Row> rows;
  bool compact = false;  // TBL: openTable(name, nRows, compact=true)
  int tblmode = 0;       // TBL: 0 = table.write(vector) as xtp does, 1 = writeToRow() row by row, 2 = two chunks write(buf,0,k), write(buf+k,k,n)
  Eigen::Matrix<long, Eigen::Dynamic, Eigen::Dynamic> mi;  // MXI payload (Index matrix)
  // Eigen expression values (family "expr"): written as expression #expr of a parent with storage order `order` and scalar `scalar`;
  // m / mf / mi hold the expression evaluated into a plain column-major matrix (the reference)
  int expr = -1, order = 0; char scalar = 'd';
  std::string exprclass;   // rowmajor|colmajor - contiguous|outer-strided|inner-strided, from the expression's own traits and strides
  Eigen::MatrixXd m2, m3;  // ESYS: eigenvalues in m, eigenvectors in m2, eigenvectors2 in m3; info in n
};

static std::string hexbytes(const void *p, size_t n) {
  static const char *H = "0123456789abcdef";
  const unsigned char *c = (const unsigned char *)p;
  std::string s;
  s.reserve(2 * n);
  for (size_t k = 0; k < n; k++) { s += H[c[k] >> 4]; s += H[c[k] & 15]; }
  return s;
}
template <class T> static std::string hexv(const T &v) { return hexbytes(&v, sizeof v); }
template <class M> static std::string canon_mat(const M &m) {
  std::string s = std::to_string(m.rows()) + "x" + std::to_string(m.cols()) + ":";
  for (Index r = 0; r < m.rows(); r++)
    for (Index c = 0; c < m.cols(); c++) { auto x = m(r, c); s += hexv(x); s += ' '; }
  return s;
}
template <class T> static std::string canon_vec(const std::vector<T> &v) {
  std::string s = "n=" + std::to_string(v.size()) + ":";
  for (const T &x : v) { s += hexv(x); s += ' '; }
  return s;
}
static std::string canon_vs(const std::vector<std::string> &v) {
  std::string s = "n=" + std::to_string(v.size()) + ":";
  for (auto &x : v) s += std::to_string(x.size()) + "[" + hexbytes(x.data(), x.size()) + "] ";
  return s;
}
static std::string canon_vv(const std::vector<Eigen::Vector3d> &v) {
  std::string s = "n=" + std::to_string(v.size()) + ":";
  for (auto &x : v) s += hexv(x[0]) + "," + hexv(x[1]) + "," + hexv(x[2]) + " ";
  return s;
}
static std::string canon_rows(const std::vector<Row> &v) {
  std::string s = "rows=" + std::to_string(v.size()) + ":";
  for (auto &r : v) {
    s += std::to_string(r.id) + "[" + hexbytes(r.el.data(), r.el.size()) + "]" + hexbytes(r.pos, sizeof r.pos) + "/" + std::to_string(r.rank) +
         "/" + hexbytes(r.q, sizeof r.q) + " ";
  }
  return s;
}
static std::string canon(const Val &v) {
  switch (v.kind) {
    case IDX: return hexv(v.i);
    case INT: return hexv(v.n);
    case UINT: return hexv(v.u);
    case DBL: return hexv(v.d);
    case FLT: return hexv(v.f);
    case BOOL: return v.b ? "true" : "false";
    case STR: return std::to_string(v.s.size()) + "[" + hexbytes(v.s.data(), v.s.size()) + "]";
    case VIDX: return canon_vec(v.vi);
    case VINT: return canon_vec(v.vn);
    case VDBL: return canon_vec(v.vd);
    case VSTR: return canon_vs(v.vs);
    case MXD: case VXD: case RVXD: case V3D: return canon_mat(v.m);
    case MXF: return canon_mat(v.mf);
    case MXI: return canon_mat(v.mi);
    case VV3D: return canon_vv(v.vv);
    case TBL: return canon_rows(v.rows);
    case ESYS: return canon_mat(v.m) + "|" + canon_mat(v.m2) + "|" + canon_mat(v.m3) + "|" + std::to_string(v.n);
    default: return "?";
  }
}

// logical storage signature: namespace family, element type, dims (what an overwrite has to replace)
enum Fam { SCALAR, ARRAY, VEC3LIST };
static Fam fam(Kind k) { return k <= STR ? SCALAR : (k == VV3D ? VEC3LIST : ARRAY); }
static std::string elemtype(const Val &v) {
  switch (v.kind) {
    case IDX: case BOOL: case VIDX: case MXI: return "long";
    case INT: case VINT: return "int";
    case UINT: return "uint";
    case DBL: case VDBL: case MXD: case VXD: case RVXD: case V3D: return "double";
    case FLT: case MXF: return "float";
    case STR: case VSTR: return "str";
    case VV3D: return "vec3";
    case TBL: return "row";
    case ESYS: return "esys";
    default: return "?";
  }
}
static std::string dims(const Val &v) {
  switch (v.kind) {
    case VIDX: return std::to_string(v.vi.size()) + "x1";
    case VINT: return std::to_string(v.vn.size()) + "x1";
    case VDBL: return std::to_string(v.vd.size()) + "x1";
    case VSTR: return std::to_string(v.vs.size());
    case MXD: case VXD: case RVXD: case V3D: return std::to_string(v.m.rows()) + "x" + std::to_string(v.m.cols());
    case MXF: return std::to_string(v.mf.rows()) + "x" + std::to_string(v.mf.cols());
    case MXI: return std::to_string(v.mi.rows()) + "x" + std::to_string(v.mi.cols());
    case VV3D: return std::to_string(v.vv.size());
    case TBL: return std::to_string(v.rows.size()) + "x1";
    case ESYS: return std::to_string(v.m.rows()) + "+" + std::to_string(v.m2.rows()) + "x" + std::to_string(v.m2.cols()) + "+" + std::to_string(v.m3.rows()) + "x" + std::to_string(v.m3.cols());
    default: return "1";
  }
}
static std::string sig(const Val &v) { return elemtype(v) + "/" + dims(v); }
// size class of a container value (part of the failure key): the boundaries are those of decimal member
// names (ind9|ind10, ind99|ind100) and of "a few" vs "many" elements
static std::string sizeclass(long n) { return n == 0 ? "empty" : (n <= 10 ? "regular" : (n <= 100 ? "n11-100" : "n101+")); }
static std::string shapeclass(const Val &v) {
  if (v.expr >= 0) return "expr-" + v.exprclass;
  if (v.kind == MXD || v.kind == MXF || v.kind == MXI) {
    long r = v.kind == MXD ? v.m.rows() : (v.kind == MXF ? v.mf.rows() : v.mi.rows()), c = v.kind == MXD ? v.m.cols() : (v.kind == MXF ? v.mf.cols() : v.mi.cols());
    if (r == 0 && c == 0) return "0x0";
    if (c == 0) return "Nx0";
    if (r == 0) return "0xN";
    if (v.block) return "block";
    return sizeclass(std::max(r, c));
  }
  switch (v.kind) {
    case STR: return v.s.empty() ? "empty" : "regular";
    case VIDX: return sizeclass((long)v.vi.size());
    case VINT: return sizeclass((long)v.vn.size());
    case VDBL: return sizeclass((long)v.vd.size());
    case VSTR: return sizeclass((long)v.vs.size());
    case VXD: case RVXD: case ESYS: return sizeclass((long)v.m.size());
    case VV3D: return sizeclass((long)v.vv.size());
    case TBL: return sizeclass((long)v.rows.size());
    default: return "regular";
  }
}

static std::vector<Val> ALPHA;
static std::map<std::string, int> BYLABEL;
static void add(Val v) { BYLABEL[v.label] = (int)ALPHA.size(); ALPHA.push_back(std::move(v)); }
static Eigen::MatrixXd patmat(long r, long c, double seed) {
  Eigen::MatrixXd m(r, c);
  for (long i = 0; i < r; i++) for (long j = 0; j < c; j++) m(i, j) = seed + double(i) * 16.0 + double(j) + 0.1 * double((i * 7 + j * 3) % 5);
  return m;
}
static Row mkrow(long id, const std::string &el, double base) {
  Row r; r.id = id; r.el = el; r.rank = id % 3;
  for (int k = 0; k < 3; k++) r.pos[k] = base + 0.25 * k;
  for (int k = 0; k < 9; k++) r.q[k] = -base * (k + 1) + 1e-3 * k;
  return r;
}
static void build_alphabet() {
  const double PI = 3.14159265358979323846, DEN = 4.9406564584124654e-324;
  std::string s300;
  for (int k = 0; k < 300; k++) s300 += char('A' + (k * 7) % 26);
  const std::string utf = "\xc3\xa4\xc3\xb6\xe2\x82\xac";  // "äö€"
  auto I = [&](const char *l, long x) { Val v; v.label = l; v.kind = IDX; v.i = x; add(v); };
  auto N = [&](const char *l, int x) { Val v; v.label = l; v.kind = INT; v.n = x; add(v); };
  auto U = [&](const char *l, unsigned x) { Val v; v.label = l; v.kind = UINT; v.u = x; add(v); };
  auto D = [&](const char *l, double x) { Val v; v.label = l; v.kind = DBL; v.d = x; add(v); };
  auto F = [&](const char *l, float x) { Val v; v.label = l; v.kind = FLT; v.f = x; add(v); };
  auto B = [&](const char *l, bool x) { Val v; v.label = l; v.kind = BOOL; v.b = x; add(v); };
  auto S = [&](const char *l, const std::string &x) { Val v; v.label = l; v.kind = STR; v.s = x; add(v); };
  auto M = [&](const char *l, Kind k, const Eigen::MatrixXd &x, bool blk = false) { Val v; v.label = l; v.kind = k; v.m = x; v.block = blk; add(v); };
  // simplest first
  I("i7", 7); D("dpi", PI); S("sa", "a"); B("bT", true);
  { Val v; v.label = "vd3"; v.kind = VDBL; v.vd = {PI, 1e-300, DEN}; add(v); }
  M("m2x3", MXD, patmat(2, 3, 1.0));
  M("m3x2", MXD, patmat(3, 2, 2.0));
  { Val v; v.label = "q2"; v.kind = VV3D; v.vv = {Eigen::Vector3d(1, 2, 3), Eigen::Vector3d(-0.0, DEN, PI)}; add(v); }
  { Val v; v.label = "t2"; v.kind = TBL; v.rows = {mkrow(1, "C", 1.5), mkrow(2, "", -2.0)}; add(v); }
  I("i0", 0); I("im1", -1); I("imax", LONG_MAX); I("imin", LONG_MIN);
  N("n0", 0); N("nm7", -7); N("nmax", INT_MAX);
  U("u0", 0u); U("umax", 4294967295u);
  D("d0", 0.0); D("dm0", -0.0); D("dtiny", 1e-300); D("dden", DEN); D("dinf", INFINITY); D("dnan", std::nan(""));
  F("f15", 1.5f); F("fm0", -0.0f);
  B("bF", false);
  S("s0", ""); S("sutf", utf); S("s300", s300); S("ssp", "a b\nc\t\"d\"");
  { Val v; v.label = "vi0"; v.kind = VIDX; add(v); }
  { Val v; v.label = "vi1"; v.kind = VIDX; v.vi = {5}; add(v); }
  { Val v; v.label = "vi3"; v.kind = VIDX; v.vi = {0, -1, LONG_MAX}; add(v); }
  { Val v; v.label = "vi3b"; v.kind = VIDX; v.vi = {7, 8, 9}; add(v); }
  { Val v; v.label = "vn2"; v.kind = VINT; v.vn = {INT_MIN, 7}; add(v); }
  { Val v; v.label = "vn2b"; v.kind = VINT; v.vn = {1, 2}; add(v); }
  { Val v; v.label = "vd0"; v.kind = VDBL; add(v); }
  { Val v; v.label = "vd1"; v.kind = VDBL; v.vd = {-0.0}; add(v); }
  { Val v; v.label = "vd3b"; v.kind = VDBL; v.vd = {1.0, 2.0, 3.0}; add(v); }
  { Val v; v.label = "vs0"; v.kind = VSTR; add(v); }
  { Val v; v.label = "vs1"; v.kind = VSTR; v.vs = {"b"}; add(v); }
  { Val v; v.label = "vs2"; v.kind = VSTR; v.vs = {"a", ""}; add(v); }
  { Val v; v.label = "vs2u"; v.kind = VSTR; v.vs = {utf, s300}; add(v); }
  M("m0x0", MXD, Eigen::MatrixXd(0, 0)); M("m3x0", MXD, Eigen::MatrixXd(3, 0)); M("m0x3", MXD, Eigen::MatrixXd(0, 3));
  M("m1x4", MXD, patmat(1, 4, 3.0)); M("m4x1", MXD, patmat(4, 1, 4.0)); M("m3x3", MXD, patmat(3, 3, 5.0)); M("m3x3b", MXD, patmat(3, 3, -6.0));
  M("m1x1", MXD, patmat(1, 1, 9.0));
  M("mbig", MXD, patmat(37, 53, 0.5));
  M("mblk", MXD, patmat(2, 3, 7.0), true);
  { Val v; v.label = "mf2x3"; v.kind = MXF; v.mf = patmat(2, 3, 1.0).cast<float>(); add(v); }
  { Val v; v.label = "mf2x3b"; v.kind = MXF; v.mf = patmat(2, 3, -8.0).cast<float>(); add(v); }
  M("vx0", VXD, Eigen::MatrixXd(0, 1)); M("vx1", VXD, patmat(1, 1, 2.5)); M("vx4", VXD, patmat(4, 1, 6.0)); M("vx4b", VXD, patmat(4, 1, -6.0));
  M("rv3", RVXD, patmat(1, 3, 8.0)); M("rv3b", RVXD, patmat(1, 3, -8.0));
  { Eigen::MatrixXd p(3, 1); p << 1, 2, 3; M("p123", V3D, p); }
  { Eigen::MatrixXd p(3, 1); p << -0.0, DEN, PI; M("pspec", V3D, p); }
  { Val v; v.label = "q0"; v.kind = VV3D; add(v); }
  { Val v; v.label = "q1"; v.kind = VV3D; v.vv = {Eigen::Vector3d(7, 8, 9)}; add(v); }
  { Val v; v.label = "q2b"; v.kind = VV3D; v.vv = {Eigen::Vector3d(-1, -2, -3), Eigen::Vector3d(0.5, 0.25, 0.125)}; add(v); }
  { Val v; v.label = "t0"; v.kind = TBL; add(v); }
  { Val v; v.label = "t1"; v.kind = TBL; v.rows = {mkrow(7, "N", 0.5)}; add(v); }
  { Val v; v.label = "t2b"; v.kind = TBL; v.rows = {mkrow(3, utf, 9.0), mkrow(4, "Og", 1e-300)}; add(v); }
}

// ---- Eigen expression shapes: everything the MatrixBase overloads of the writer accept.  Expression #code of a 5x6 parent P
// (or an 8-vector V, or a strided Map over a 64-element buffer) with storage order Order and scalar S; every element distinct.
static const char *EXPRNAME[] = {"plain", "row0", "row2", "col0", "col3", "blk-inner", "blk-topleft", "blk-bottomright", "leftCols", "rightCols", "topRows", "bottomRows",
                                 "blk-1xN", "blk-Nx1",
                                 "plain.T", "row0.T", "row2.T", "col0.T", "col3.T", "blk-inner.T", "blk-topleft.T", "blk-bottomright.T", "leftCols.T", "rightCols.T", "topRows.T",
                                 "bottomRows.T", "blk-1xN.T", "blk-Nx1.T",
                                 "map-outer", "map-inner-outer", "map-outer.T", "map-inner-outer.T", "vec", "vec-segment", "vec-segment.T"};
static const int NEXPR = sizeof EXPRNAME / sizeof EXPRNAME[0];
template <class S, int Order, class F> static void with_expr(int code, F &&f) {
  using Mat = Eigen::Matrix<S, Eigen::Dynamic, Eigen::Dynamic, Order>;
  using Vec = typename std::conditional<Order == Eigen::RowMajor, Eigen::Matrix<S, 1, Eigen::Dynamic>, Eigen::Matrix<S, Eigen::Dynamic, 1>>::type;
  Mat P(5, 6);
  for (int i = 0; i < 5; i++) for (int j = 0; j < 6; j++) P(i, j) = S(100 * (i + 1) + 10 * (j + 1));
  Vec V(8);
  for (int k = 0; k < 8; k++) V(k) = S(7000 + 11 * k);
  std::vector<S> buf(64);
  for (int k = 0; k < 64; k++) buf[k] = S(9000 + k);
  Eigen::Map<Mat, 0, Eigen::OuterStride<>> MO(buf.data(), 3, 4, Eigen::OuterStride<>(7));
  Eigen::Map<Mat, 0, Eigen::Stride<Eigen::Dynamic, Eigen::Dynamic>> MIO(buf.data(), 3, 4, Eigen::Stride<Eigen::Dynamic, Eigen::Dynamic>(9, 2));
  switch (code) {
    case 0: f(P); break;
    case 1: f(P.row(0)); break;
    case 2: f(P.row(2)); break;
    case 3: f(P.col(0)); break;
    case 4: f(P.col(3)); break;
    case 5: f(P.block(1, 1, 3, 2)); break;
    case 6: f(P.block(0, 0, 2, 3)); break;
    case 7: f(P.block(3, 4, 2, 2)); break;
    case 8: f(P.leftCols(2)); break;
    case 9: f(P.rightCols(2)); break;
    case 10: f(P.topRows(2)); break;
    case 11: f(P.bottomRows(2)); break;
    case 12: f(P.block(2, 1, 1, 4)); break;
    case 13: f(P.block(1, 3, 3, 1)); break;
    case 14: f(P.transpose()); break;
    case 15: f(P.row(0).transpose()); break;
    case 16: f(P.row(2).transpose()); break;
    case 17: f(P.col(0).transpose()); break;
    case 18: f(P.col(3).transpose()); break;
    case 19: f(P.block(1, 1, 3, 2).transpose()); break;
    case 20: f(P.block(0, 0, 2, 3).transpose()); break;
    case 21: f(P.block(3, 4, 2, 2).transpose()); break;
    case 22: f(P.leftCols(2).transpose()); break;
    case 23: f(P.rightCols(2).transpose()); break;
    case 24: f(P.topRows(2).transpose()); break;
    case 25: f(P.bottomRows(2).transpose()); break;
    case 26: f(P.block(2, 1, 1, 4).transpose()); break;
    case 27: f(P.block(1, 3, 3, 1).transpose()); break;
    case 28: f(MO); break;
    case 29: f(MIO); break;
    case 30: f(MO.transpose()); break;
    case 31: f(MIO.transpose()); break;
    case 32: f(V); break;
    case 33: f(V.segment(2, 3)); break;
    case 34: f(V.segment(2, 3).transpose()); break;
    default: throw std::logic_error("expr code");
  }
}
template <class F> static void with_expr_of(const Val &v, F &&f) {
  bool rm = v.order == 1;
  if (v.scalar == 'd') { if (rm) with_expr<double, Eigen::RowMajor>(v.expr, f); else with_expr<double, Eigen::ColMajor>(v.expr, f); }
  else if (v.scalar == 'f') { if (rm) with_expr<float, Eigen::RowMajor>(v.expr, f); else with_expr<float, Eigen::ColMajor>(v.expr, f); }
  else { if (rm) with_expr<long, Eigen::RowMajor>(v.expr, f); else with_expr<long, Eigen::ColMajor>(v.expr, f); }
}
static std::vector<int> EXPRVALS;  // alphabet indices of all expression values
static void build_exprs() {
  for (char sc : {'d', 'f', 'i'}) for (int order = 0; order < 2; order++) for (int code = 0; code < NEXPR; code++) {
    Val v; v.expr = code; v.order = order; v.scalar = sc;
    v.kind = sc == 'd' ? MXD : (sc == 'f' ? MXF : MXI);
    v.label = std::string("x") + sc + (order ? "R" : "C") + "." + EXPRNAME[code];
    with_expr_of(v, [&](const auto &e) {
      using E = typename std::decay<decltype(e)>::type;
      bool rm = E::IsRowMajor;
      long inner = e.innerStride(), outer = e.outerStride();
      long innerSize = rm ? e.cols() : e.rows(), outerSize = rm ? e.rows() : e.cols();
      bool contiguous = inner == 1 && (outerSize <= 1 || outer == innerSize);
      v.exprclass = std::string(rm ? "rowmajor" : "colmajor") + (inner != 1 ? "-inner-strided" : (contiguous ? "-contiguous" : "-outer-strided"));
      // reference: the expression evaluated element by element into a plain column-major matrix
      if (sc == 'd') { v.m.resize(e.rows(), e.cols()); for (long i = 0; i < e.rows(); i++) for (long j = 0; j < e.cols(); j++) v.m(i, j) = double(e(i, j)); }
      else if (sc == 'f') { v.mf.resize(e.rows(), e.cols()); for (long i = 0; i < e.rows(); i++) for (long j = 0; j < e.cols(); j++) v.mf(i, j) = float(e(i, j)); }
      else { v.mi.resize(e.rows(), e.cols()); for (long i = 0; i < e.rows(); i++) for (long j = 0; j < e.cols(); j++) v.mi(i, j) = long(e(i, j)); }
    });
    EXPRVALS.push_back((int)ALPHA.size());
    add(v);
  }
}

// ---- sized container values: every container kind the API stores, with element counts that cross
// 0,1,2,9,10,11,12,99,100,101 (thorough also 250, 1001), every element distinct.  They are not part of the
// general op alphabet (that would square the pair counts); the "sizes" phase enumerates them on their own.
static Eigen::MatrixXd seq(long r, long c, double seed) { Eigen::MatrixXd m(r, c); for (long i = 0; i < r; i++) for (long k = 0; k < c; k++) m(i, k) = seed + double(i * c + k); return m; }
static int NBASE = 0;
static const long SIZES[12] = {0, 1, 2, 9, 10, 11, 12, 99, 100, 101, 250, 1001};
struct SizedGroup { std::string name; std::vector<std::vector<int>> variants; bool table = false; };  // variants[j][size index]
static std::vector<SizedGroup> SIZED;
static void build_sized() {
  NBASE = (int)ALPHA.size();
  auto lab = [](const std::string &pre, long n, bool b) { return pre + "#" + std::to_string(n) + (b ? "b" : ""); };
  auto group = [&](const std::string &name, int nvar, bool table, std::function<Val(long, int)> make) {
    SizedGroup g; g.name = name; g.table = table; g.variants.resize(nvar);
    for (int j = 0; j < nvar; j++) for (long n : SIZES) {
      Val v = make(n, j);
      if (v.label.empty()) { g.variants[j].push_back(-1); continue; }  // size not available in this variant
      g.variants[j].push_back((int)ALPHA.size()); add(v);
    }
    SIZED.push_back(g);
  };
  group("vector-index", 2, false, [&](long n, int j) { Val v; v.label = lab("vi", n, j); v.kind = VIDX; for (long k = 0; k < n; k++) v.vi.push_back((j ? -1000003L : 7L) + 13 * k); return v; });
  group("vector-int", 2, false, [&](long n, int j) { Val v; v.label = lab("vn", n, j); v.kind = VINT; for (long k = 0; k < n; k++) v.vn.push_back((j ? -50000 : 3) + 11 * (int)k); return v; });
  group("vector-double", 2, false, [&](long n, int j) { Val v; v.label = lab("vd", n, j); v.kind = VDBL; for (long k = 0; k < n; k++) v.vd.push_back(j ? -3.0 - 1.25 * double(k) : 0.5 + double(k)); return v; });
  group("vector-string", 2, false, [&](long n, int j) { Val v; v.label = lab("vs", n, j); v.kind = VSTR; for (long k = 0; k < n; k++) v.vs.push_back((j ? "T" : "s") + std::to_string(k) + std::string(size_t(k % 5), 'x')); return v; });
  group("vec3list", 2, false, [&](long n, int j) { Val v; v.label = lab("q", n, j); v.kind = VV3D; for (long k = 0; k < n; k++) v.vv.push_back(Eigen::Vector3d((j ? 5000.0 : 0.0) + double(k), double(k) + 0.25, -double(k))); return v; });
  group("vectorxd", 2, false, [&](long n, int j) { Val v; v.label = lab("vx", n, j); v.kind = VXD; v.m = seq(n, 1, j ? -7000.5 : 1.0); return v; });
  group("rowvector", 2, false, [&](long n, int j) { Val v; v.label = lab("rv", n, j); v.kind = RVXD; v.m = seq(1, n, j ? -7000.5 : 1.0); return v; });
  group("matrix-Nx2", 2, false, [&](long n, int j) { Val v; v.label = lab("mc", n, j); v.kind = MXD; v.m = seq(n, 2, j ? -9000.25 : 2.0); return v; });
  group("matrix-2xN", 2, false, [&](long n, int j) { Val v; v.label = lab("mr", n, j); v.kind = MXD; v.m = seq(2, n, j ? -9000.25 : 2.0); return v; });
  group("matrix-Nx0", 2, false, [&](long n, int j) { Val v; v.label = lab("mz", n, j); v.kind = MXD; v.m = Eigen::MatrixXd(n, 0); return v; });
  group("matrix-0xN", 2, false, [&](long n, int j) { Val v; v.label = lab("zm", n, j); v.kind = MXD; v.m = Eigen::MatrixXd(0, n); return v; });
  group("matrixf-Nx2", 2, false, [&](long n, int j) { Val v; v.label = lab("mf", n, j); v.kind = MXF; v.mf = seq(n, 2, j ? -4000.5 : 2.0).cast<float>(); return v; });
  group("eigensystem", 2, false, [&](long n, int j) { Val v; v.label = lab("es", n, j); v.kind = ESYS; v.m = seq(n, 1, j ? -11.5 : 0.5); v.m2 = seq(n, 2, j ? 70000.0 : 3.0); v.m3 = seq(n, 1, j ? -70000.0 : -3.0); v.n = int((n + j) % 3); return v; });
  // tables: variant 0/1 whole-table write (two contents), 2 row by row, 3 two chunks, 4 compact layout (libhdf5 caps compact data at 64 KiB)
  group("table", 5, true, [&](long n, int j) {
    Val v;
    if (j == 4 && n > 500) return v;
    v.label = lab(j == 2 ? "tr" : (j == 3 ? "tc" : (j == 4 ? "tk" : "t")), n, j == 1); v.kind = TBL; v.tblmode = (j == 2 || j == 3) ? j - 1 : 0; v.compact = j == 4;
    for (long k = 0; k < n; k++) v.rows.push_back(mkrow((j ? 100000 * j : 0) + k + 1, (j ? "Z" : "E") + std::to_string(k), (j ? -1000.0 * j : 1.0) + 0.5 * double(k)));
    return v;
  });
  // ---- large values (raw data > 64 KiB, libhdf5's limit for compact datasets), used by the family "proc"
  { Val v; v.label = "Lm128"; v.kind = MXD; v.m = seq(128, 128, 0.5); add(v); }
  { Val v; v.label = "Lm1x10000"; v.kind = MXD; v.m = seq(1, 10000, -0.5); add(v); }
  { Val v; v.label = "Lvd20000"; v.kind = VDBL; for (long k = 0; k < 20000; k++) v.vd.push_back(0.25 + double(k)); add(v); }
  { Val v; v.label = "Lvi20000"; v.kind = VIDX; for (long k = 0; k < 20000; k++) v.vi.push_back(-5 + 3 * k); add(v); }
  { Val v; v.label = "Lvs5000"; v.kind = VSTR; for (long k = 0; k < 5000; k++) { std::string e = "s" + std::to_string(k); e.resize(14, '.'); v.vs.push_back(e); } add(v); }
  { Val v; v.label = "Lmf200x100"; v.kind = MXF; v.mf = seq(200, 100, 1.0).cast<float>(); add(v); }
  { Val v; v.label = "Lvx10000"; v.kind = VXD; v.m = seq(10000, 1, 2.5); add(v); }
  { Val v; v.label = "Les10000"; v.kind = ESYS; v.m = seq(10000, 1, 0.5); v.m2 = seq(10000, 1, 9.0); v.m3 = seq(1, 1, -1.0); v.n = 1; add(v); }
  { Val v; v.label = "Lq300"; v.kind = VV3D; for (long k = 0; k < 300; k++) v.vv.push_back(Eigen::Vector3d(double(k), 0.5 + double(k), -double(k))); add(v); }
  // ---- values for the global-locale histories of family "proc" (numbers that a grouping locale would print with separators)
  { Val v; v.label = "gi"; v.kind = IDX; v.i = 1234567; add(v); }
  { Val v; v.label = "gd"; v.kind = DBL; v.d = 1234567.891; add(v); }
  { Val v; v.label = "gs"; v.kind = STR; v.s = "1,234,567.5 / 1.234.567,5"; add(v); }
  { Val v; v.label = "gq1500"; v.kind = VV3D; for (long k = 0; k < 1500; k++) v.vv.push_back(Eigen::Vector3d(1234.5 + double(k), -double(k), 0.001 * double(k))); add(v); }
  { Val v; v.label = "Lt4000"; v.kind = TBL; for (long k = 0; k < 4000; k++) v.rows.push_back(mkrow(k + 1, "E" + std::to_string(k), 1.0 + 0.5 * double(k))); add(v); }
}

// ------------------------------------------------------------------ typed write / read on the real code
static void write_val(CheckpointWriter &w, const Val &v, const std::string &name) {
  if (v.expr >= 0) {  // the expression itself goes to the writer (template overload for Eigen::MatrixBase<T>)
    with_expr_of(v, [&](const auto &e) { w(e, name); });
    return;
  }
  switch (v.kind) {
    case IDX: { Index x = v.i; w(x, name); break; }
    case INT: w(v.n, name); break;
    case UINT: w(v.u, name); break;
    case DBL: w(v.d, name); break;
    case FLT: w(v.f, name); break;
    case BOOL: w(v.b, name); break;
    case STR: w(v.s, name); break;
    case VIDX: { std::vector<Index> x(v.vi.begin(), v.vi.end()); w(x, name); break; }
    case VINT: w(v.vn, name); break;
    case VDBL: w(v.vd, name); break;
    case VSTR: w(v.vs, name); break;
    case MXD:
      if (v.block) {
        Eigen::MatrixXd big = Eigen::MatrixXd::Constant(v.m.rows() + 2, v.m.cols() + 2, -777.0);
        big.block(1, 1, v.m.rows(), v.m.cols()) = v.m;
        w(big.block(1, 1, v.m.rows(), v.m.cols()), name);
      } else {
        Eigen::MatrixXd x = v.m; w(x, name);
      }
      break;
    case MXF: w(v.mf, name); break;
    case MXI: w(v.mi, name); break;
    case VXD: { Eigen::VectorXd x = v.m; w(x, name); break; }
    case RVXD: { Eigen::RowVectorXd x = v.m; w(x, name); break; }
    case V3D: { Eigen::Vector3d x = v.m; w(x, name); break; }
    case VV3D: w(v.vv, name); break;
    case TBL: {
      // the idiom of atomcontainer.h / qmnblist.cc
      CptTable table = v.compact ? w.openTable<StaticSite>(name, v.rows.size(), true) : w.openTable<StaticSite>(name, v.rows.size());
      std::vector<StaticSite::data> dv(v.rows.size());
      for (size_t k = 0; k < v.rows.size(); k++) {
        const Row &r = v.rows[k];
        StaticSite::data &d = dv[k];
        d.id = r.id; d.element = const_cast<char *>(r.el.c_str());
        d.posX = r.pos[0]; d.posY = r.pos[1]; d.posZ = r.pos[2]; d.rank = r.rank;
        d.Q00 = r.q[0]; d.Q11c = r.q[1]; d.Q11s = r.q[2]; d.Q10 = r.q[3]; d.Q20 = r.q[4];
        d.Q21c = r.q[5]; d.Q21s = r.q[6]; d.Q22c = r.q[7]; d.Q22s = r.q[8];
      }
      size_t n = dv.size();
      if (v.tblmode == 0) table.write(dv);
      else if (v.tblmode == 1) { for (size_t k = 0; k < n; k++) table.writeToRow(&dv[k], k); }
      else { size_t k = n / 2; if (k > 0) table.write(dv.data(), 0, k); if (n > k) table.write(dv.data() + k, k, n); }
      break;
    }
    case ESYS: {
      tools::EigenSystem sys;
      sys.eigenvalues() = Eigen::VectorXd(v.m); sys.eigenvectors() = v.m2; sys.eigenvectors2() = v.m3;
      sys.info() = static_cast<Eigen::ComputationInfo>(v.n);
      w(sys, name);
      break;
    }
    default: throw std::logic_error("kind");
  }
}
// read `name` as kind k; dirty = the target variable holds unrelated content before the call
static std::string read_canon(CheckpointReader &r, Kind k, const std::string &name, bool dirty, int tmode = 0) {
  switch (k) {
    case IDX: { Index x = dirty ? 424242 : 0; r(x, name); long y = x; return hexv(y); }
    case INT: { int x = dirty ? 4242 : 0; r(x, name); return hexv(x); }
    case UINT: { unsigned x = dirty ? 4242u : 0u; r(x, name); return hexv(x); }
    case DBL: { double x = dirty ? 42.42 : 0; r(x, name); return hexv(x); }
    case FLT: { float x = dirty ? 42.5f : 0; r(x, name); return hexv(x); }
    case BOOL: { bool x = dirty; r(x, name); return x ? "true" : "false"; }
    case STR: { std::string x = dirty ? "dirty-target" : ""; r(x, name); return std::to_string(x.size()) + "[" + hexbytes(x.data(), x.size()) + "]"; }
    case VIDX: { std::vector<Index> x; if (dirty) x = {41, 42}; r(x, name); std::vector<long> y(x.begin(), x.end()); return canon_vec(y); }
    case VINT: { std::vector<int> x; if (dirty) x = {41, 42}; r(x, name); return canon_vec(x); }
    case VDBL: { std::vector<double> x; if (dirty) x = {41.5, 42.5}; r(x, name); return canon_vec(x); }
    case VSTR: { std::vector<std::string> x; if (dirty) x = {"dirty", "target"}; r(x, name); return canon_vs(x); }
    case MXD: { Eigen::MatrixXd x; if (dirty) x = Eigen::MatrixXd::Constant(2, 2, 42.0); r(x, name); return canon_mat(x); }
    case MXF: { Eigen::MatrixXf x; if (dirty) x = Eigen::MatrixXf::Constant(2, 2, 42.0f); r(x, name); return canon_mat(x); }
    case MXI: { Eigen::Matrix<long, Eigen::Dynamic, Eigen::Dynamic> x; if (dirty) x = Eigen::Matrix<long, Eigen::Dynamic, Eigen::Dynamic>::Constant(2, 2, 42); r(x, name); return canon_mat(x); }
    case VXD: { Eigen::VectorXd x; if (dirty) x = Eigen::VectorXd::Constant(2, 42.0); r(x, name); return canon_mat(x); }
    case RVXD: { Eigen::RowVectorXd x; if (dirty) x = Eigen::RowVectorXd::Constant(2, 42.0); r(x, name); return canon_mat(x); }
    case V3D: { Eigen::Vector3d x = dirty ? Eigen::Vector3d(41, 42, 43) : Eigen::Vector3d::Zero(); r(x, name); return canon_mat(x); }
    case VV3D: { std::vector<Eigen::Vector3d> x; if (dirty) x.assign(3, Eigen::Vector3d(41, 42, 43)); r(x, name); return canon_vv(x); }
    case TBL: {
      CptTable table = r.openTable<StaticSite>(name);
      std::vector<StaticSite::data> dv(table.numRows());
      for (auto &d : dv) d.element = nullptr;
      size_t n = dv.size();
      if (tmode == 0) table.read(dv);                                                         // whole table, as xtp does
      else if (tmode == 1) { for (size_t k2 = 0; k2 < n; k2++) table.readFromRow(&dv[k2], k2); }  // row by row
      else { size_t h = n / 2; if (h > 0) table.read(dv.data(), 0, h); if (n > h) table.read(dv.data() + h, h, n); }
      std::vector<Row> rows;
      for (auto &d : dv) {
        Row q; q.id = d.id; q.el = d.element ? std::string(d.element) : std::string("<null>");
        if (d.element) free(d.element);
        q.pos[0] = d.posX; q.pos[1] = d.posY; q.pos[2] = d.posZ; q.rank = d.rank;
        q.q[0] = d.Q00; q.q[1] = d.Q11c; q.q[2] = d.Q11s; q.q[3] = d.Q10; q.q[4] = d.Q20; q.q[5] = d.Q21c; q.q[6] = d.Q21s; q.q[7] = d.Q22c; q.q[8] = d.Q22s;
        rows.push_back(q);
      }
      return canon_rows(rows);
    }
    case ESYS: {
      tools::EigenSystem sys;
      if (dirty) { sys.eigenvalues() = Eigen::VectorXd::Constant(2, 42.0); sys.eigenvectors() = Eigen::MatrixXd::Constant(2, 2, 42.0); sys.eigenvectors2() = Eigen::MatrixXd::Constant(1, 2, 42.0); sys.info() = Eigen::InvalidInput; }
      r(sys, name);
      return canon_mat(sys.eigenvalues()) + "|" + canon_mat(sys.eigenvectors()) + "|" + canon_mat(sys.eigenvectors2()) + "|" + std::to_string(int(sys.info()));
    }
    default: throw std::logic_error("kind");
  }
}

// ------------------------------------------------------------------ histories
// locations 0 "/", 1 "/a", 2 "/a/b"; write routes r,a,c (getWriter("/a").openChild("b")), d (getWriter("/a/b"))
static const char *LOCPATH[3] = {"/", "/a", "/a/b"};
static const char *NAMES[2] = {"x", "y"};
struct Op { char kind; char route; int loc; int name; int val; char level; };  // kind 'W','O','R'
static int route_loc(char r) { return r == 'r' ? 0 : (r == 'a' ? 1 : 2); }
static std::string opstr(const Op &o) {
  if (o.kind == 'W') return std::string("W:") + o.route + ":" + NAMES[o.name] + ":" + ALPHA[o.val].label;
  if (o.kind == 'O') return std::string("O:") + o.level;
  return std::string("R:") + "rab"[o.loc] + ":" + NAMES[o.name];
}
static std::string histstr(char init, const std::vector<Op> &ops) {
  std::string s = std::string("init=") + init + ";ops=";
  for (size_t k = 0; k < ops.size(); k++) s += (k ? "," : "") + opstr(ops[k]);
  return s;
}
static bool parse_hist(const std::string &cas, char &init, std::vector<Op> &ops) {
  auto m = bsx::kvs(cas);
  if (m["init"].size() != 1) return false;
  init = m["init"][0];
  ops.clear();
  if (m["ops"].empty()) return true;
  for (auto &t : bsx::split(m["ops"], ',')) {
    auto f = bsx::split(t, ':');
    Op o{}; o.kind = f[0][0];
    if (o.kind == 'W') {
      if (f.size() != 4 || !BYLABEL.count(f[3])) return false;
      o.route = f[1][0]; o.loc = route_loc(o.route); o.name = f[2] == "y"; o.val = BYLABEL[f[3]];
    } else if (o.kind == 'O') { o.level = f[1][0]; }
    else if (o.kind == 'R') { o.loc = f[1][0] == 'r' ? 0 : (f[1][0] == 'a' ? 1 : 2); o.name = f[2] == "y"; }
    else return false;
    ops.push_back(o);
  }
  return true;
}

// Narrow class key of a failure observed at one slot, from an explicit predicate on that slot's write
// history since the file was last truncated (`w` = alphabet indices in write order, last = current value).
static std::string slot_key0(const std::vector<int> &w);
static std::string slot_key(const std::vector<int> &w) {
  std::string k = slot_key0(w);
  if (!w.empty() && ALPHA[w.back()].kind == TBL && ALPHA[w.back()].compact) k += "-compact";
  return k;
}
static std::string slot_key0(const std::vector<int> &w) {
  if (w.empty()) return "never-written";
  const Val &cur = ALPHA[w.back()];
  // row-wise / chunk-wise table output: what matters is whether some row is addressed with startIdx > 0
  if (cur.kind == TBL && cur.tblmode && cur.rows.size() >= 2)
    return "table-write-startidx-gt0";  // CptTable::write(buffer, startIdx > 0, endIdx), directly or through writeToRow
  // Eigen expression handed to the MatrixBase overload: the class is the expression's storage order and stride pattern
  if (cur.expr >= 0) return "matrix-expr-" + cur.exprclass;
  if (cur.kind == ESYS) {
    if (w.size() == 1) return "fresh-eigensystem-" + shapeclass(cur);
    bool same = true;
    for (size_t k = 0; k + 1 < w.size(); k++) if (ALPHA[w[k]].kind != ESYS || dims(ALPHA[w[k]]) != dims(cur)) same = false;
    return std::string(same ? "overwrite-same-shape-eigensystem" : "overwrite-eigensystem-different-size") + "-" + shapeclass(cur);
  }
  // many-element containers get their size class appended (member names ind10.., ind100..)
  std::string sc = shapeclass(cur), big = (sc == "n11-100" || sc == "n101+" || cur.expr >= 0) ? "-" + sc : "";
  Fam f = fam(cur.kind);
  bool ns_cur = f != SCALAR;  // link namespace (datasets/groups) vs attribute namespace
  bool any = false, clash = false, etype = false, shape = false, longer_before = false;
  for (size_t k = 0; k + 1 < w.size(); k++) {
    const Val &e = ALPHA[w[k]];
    if ((fam(e.kind) != SCALAR) != ns_cur) continue;
    any = true;
    if (fam(e.kind) != f) { clash = true; continue; }
    if (f == VEC3LIST) { if (e.vv.size() > cur.vv.size()) longer_before = true; if (e.vv.size() != cur.vv.size()) shape = true; continue; }
    if (elemtype(e) != elemtype(cur)) etype = true;
    else if (dims(e) != dims(cur)) shape = true;
  }
  if (!any) return std::string("fresh-") + kindname[cur.kind] + "-" + shapeclass(cur);
  if (clash) return "overwrite-array-vec3list-clash" + big;
  if (f == SCALAR) {
    if (!etype) return std::string("overwrite-same-type-") + kindname[cur.kind];
    bool strinvolved = cur.kind == STR;
    for (size_t k = 0; k + 1 < w.size(); k++) if (ALPHA[w[k]].kind == STR) strinvolved = true;
    return strinvolved ? "overwrite-scalar-string-numeric-change" : "overwrite-scalar-numeric-type-change";
  }
  if (f == VEC3LIST) return (longer_before ? "overwrite-vec3list-shorter" : (shape ? "overwrite-vec3list-longer" : "overwrite-same-shape-vec3list")) + big;
  if (etype) return "overwrite-array-different-elemtype" + big;
  if (shape) return (cur.kind == TBL ? "overwrite-table-different-rows" : "overwrite-array-different-shape") + big;
  return std::string("overwrite-same-shape-") + kindname[cur.kind] + big;
}

struct Model {
  std::map<int, std::vector<int>> writes;  // slot (loc*2+name) -> alphabet indices since truncation
  bool group[3] = {true, false, false};
  char level = 'C';
  void clear() { writes.clear(); group[1] = group[2] = false; }
  std::string key() const {
    std::string s(1, level);
    s += group[1] ? "a" : "-"; s += group[2] ? "b" : "-";
    for (auto &kv : writes) {
      s += ";" + std::to_string(kv.first) + "=" + ALPHA[kv.second.back()].label + "|";
      std::set<std::string> h;
      for (int i : kv.second) h.insert(std::string(kindname[ALPHA[i].kind]) + ":" + sig(ALPHA[i]));
      for (auto &x : h) s += x + ",";
    }
    return s;
  }
};

static volatile int *g_step = nullptr;  // shared with the parent: where a dying child was
static bool g_nomark = false;    // set while looking for further damage after a failure was already found
static inline void mark(int v) { if (g_step && !g_nomark) *g_step = v; }
static std::string slurp(const std::string &p) {
  std::ifstream f(p, std::ios::binary);
  std::stringstream ss; ss << f.rdbuf();
  return ss.str();
}
static std::string clip(const std::string &s) { return s.size() > 160 ? s.substr(0, 160) + "..." : s; }
// both strings around their first difference (large containers: the interesting element is far from the start)
static std::string diffat(const std::string &got, const std::string &expect) {
  size_t k = 0;
  while (k < got.size() && k < expect.size() && got[k] == expect[k]) k++;
  if (k < 100) return "read back " + clip(got) + " expected " + clip(expect);
  size_t from = k - 60;
  return "read back " + clip(got.substr(0, 40)) + " ...[first difference at char " + std::to_string(k) + "]... " + clip(got.substr(from, 140)) + "  EXPECTED there ..." + clip(expect.substr(from, 140));
}

static CheckpointAccessLevel lvl(char c) {
  return c == 'R' ? CheckpointAccessLevel::READ : (c == 'M' ? CheckpointAccessLevel::MODIFY : CheckpointAccessLevel::CREATE);
}
static CheckpointReader reader_for(CheckpointFile &f, int loc, bool childroute) {
  if (loc == 2 && childroute) return f.getReader("/a").openChild("b");
  return f.getReader(LOCPATH[loc]);
}

// What the child reports about a failure; the class key is computed by the parent from the history.
struct Fail { std::string sym; int slot = -1, pass = 0; std::string what; bool any() const { return !sym.empty(); } };

// check one slot through handle f against the model. pass 0: default-constructed target, 1: pre-filled target
static Fail check_slot(CheckpointFile &f, const Model &M, int loc, int name, int pass, bool allkinds, bool childroute) {
  int slot = loc * 2 + name;
  auto it = M.writes.find(slot);
  std::string where = std::string(LOCPATH[loc]) + ":" + NAMES[name];
  mark(1000 + slot * 10 + pass);
  if (it == M.writes.end()) {
    // never written (since truncation): every supported kind must report an error
    static const Kind rep[] = {IDX, MXD, VV3D};
    std::vector<Kind> kinds;
    if (allkinds) for (int k = 0; k < NKIND; k++) kinds.push_back((Kind)k);
    else kinds.assign(rep, rep + 3);
    for (Kind k : kinds) {
      bool threw = false;
      std::string got;
      try {
        CheckpointReader r = reader_for(f, loc, childroute);
        got = read_canon(r, k, NAMES[name], pass == 1);
      } catch (const std::exception &) { threw = true; }
      if (!threw) return {std::string("never-written-read-succeeds-") + kindname[k], slot, pass,
                          "reading never-written " + where + " as " + kindname[k] + " returned " + clip(got) + " instead of an error"};
    }
    return {};
  }
  const Val &v = ALPHA[it->second.back()];
  if (pass >= 2 && v.kind != TBL) return {};  // passes 2,3: table read row by row / in two chunks
  std::string expect = canon(v), got;
  try {
    CheckpointReader r = reader_for(f, loc, childroute);
    got = read_canon(r, v.kind, NAMES[name], pass == 1, pass >= 2 ? pass - 1 : 0);
  } catch (const std::exception &e) {
    got = std::string("EXCEPTION ") + e.what();
  }
  static const char *how[4] = {"", ", read into a non-empty target", ", read with readFromRow() row by row", ", read with read(buf,0,n/2) + read(buf+n/2,n/2,n)"};
  if (got != expect) return {"mismatch", slot, pass, where + " (" + v.label + ", " + kindname[v.kind] + how[pass] + ") " + diffat(got, expect)};
  return {};
}

// Replay a history on a fresh file.  extra = canonical state key.  On failure key = "sym|slot|pass".
static bsx::Outcome run_history(char init, const std::vector<Op> &ops, const std::string &file, bool allkinds, int mode) {
  const bool dirty = mode != 0;  // extra read pass `mode` (1 pre-filled target, 2/3 table read row-wise / chunked) after the plain checks
  bsx::Outcome o;
  std::string cas = histstr(init, ops);
  auto failwith = [&](const Fail &f) {
    o.ok = false; o.key = f.sym + "|" + std::to_string(f.slot) + "|" + std::to_string(f.pass); o.what = f.what + "  [" + cas + "]";
    ::remove(file.c_str());
    return o;
  };
  H5::Exception::dontPrint();
  ::remove(file.c_str());
  Model M;
  // slots on which a write was attempted (and rejected) through the current READ handle: libhdf5 may keep the
  // rejected data in that handle's cache (H5Awrite converts into the cached attribute before it notices the
  // missing write intent), so what the SAME handle shows afterwards is not specified by the statement (which
  // speaks about the file and fresh handles); the fresh handle and the file bytes are still checked.
  std::set<int> ro_tainted;
  std::unique_ptr<CheckpointFile> h;
  std::string ro_snapshot;
  bool ro_open = false;
  auto close_handle = [&]() -> bool {
    h.reset();
    if (ro_open) {
      ro_open = false;
      if (slurp(file) != ro_snapshot) return false;
    }
    return true;
  };
  try {
    mark(-1);
    h.reset(new CheckpointFile(file, lvl(init)));
    M.level = init;
    for (size_t s = 0; s < ops.size(); s++) {
      const Op &op = ops[s];
      mark((int)s);
      if (op.kind == 'O') {
        if (!close_handle()) return failwith({"readonly-file-bytes-changed", -1, 0, "file bytes changed while it was open read-only"});
        if (op.level == 'R') { ro_snapshot = slurp(file); ro_open = true; }
        try {
          h.reset(new CheckpointFile(file, lvl(op.level)));
        } catch (const std::exception &e2) {
          return failwith({std::string("reopen-") + op.level + "-rejected", -1, 0, std::string("reopening the existing file threw: ") + e2.what()});
        }
        M.level = op.level;
        ro_tainted.clear();
        if (op.level == 'C') M.clear();
      } else if (op.kind == 'W') {
        const Val &v = ALPHA[op.val];
        int slot = op.loc * 2 + op.name;
        if (M.level == 'R') {
          // route A: the official one
          bool threw = false;
          try {
            CheckpointWriter w = op.route == 'c' ? h->getWriter("/a").openChild("b") : h->getWriter(LOCPATH[op.loc]);
            write_val(w, v, NAMES[op.name]);
          } catch (const std::exception &) { threw = true; }
          if (!threw) return failwith({"readonly-write-accepted", slot, 0, std::string("write of ") + v.label + " through a READ handle was not rejected"});
          // route B: a writer built on the group handle of a reader
          if (M.group[op.loc]) {
            threw = false;
            try {
              CheckpointReader r = h->getReader(LOCPATH[op.loc]);
              CheckpointWriter w(r.getLoc(), LOCPATH[op.loc]);
              write_val(w, v, NAMES[op.name]);
            } catch (const std::exception &) { threw = true; }
            if (!threw) return failwith({"readonly-write-accepted-via-reader-loc", slot, 0, std::string("write of ") + v.label + " through a writer on a READ file's group was not rejected"});
          }
          ro_tainted.insert(slot);
          continue;  // model unchanged
        }
        bool parent_missing = op.route == 'd' && !M.group[1];
        try {
          CheckpointWriter w = op.route == 'c' ? h->getWriter("/a").openChild("b") : h->getWriter(LOCPATH[op.loc]);
          for (int l = 1; l <= op.loc; l++) M.group[l] = true;
          write_val(w, v, NAMES[op.name]);
          M.writes[slot].push_back(op.val);
        } catch (const std::exception &e) {
          if (parent_missing && !M.group[2]) continue;  // allowed: nested path without its parent may be refused; nothing was written
          return failwith({"write-rejected", slot, 0, std::string("write of ") + v.label + " (" + kindname[v.kind] + " " + dims(v) + ") to " + LOCPATH[op.loc] + ":" + NAMES[op.name] +
                                                        " was rejected: " + clip(e.what())});
        }
      } else {  // 'R' through the live handle (nested group through openChild)
        if (ro_tainted.count(op.loc * 2 + op.name)) continue;
        Fail f = check_slot(*h, M, op.loc, op.name, 0, allkinds, true);
        if (f.any()) { f.what = "live handle (" + std::string(1, M.level) + "): " + f.what; return failwith(f); }
      }
    }
    mark(900);
    if (!close_handle()) return failwith({"readonly-file-bytes-changed", -1, 0, "file bytes changed while it was open read-only"});
    // fresh read-only handle reads the whole universe; the slot touched by the last op first
    CheckpointFile fresh(file, CheckpointAccessLevel::READ);
    std::vector<int> order;
    if (!ops.empty() && ops.back().kind != 'O') order.push_back(ops.back().loc * 2 + ops.back().name);
    for (int s = 0; s < 6; s++) if (order.empty() || order[0] != s) order.push_back(s);
    bool grp_checked[3] = {false, false, false};
    Fail primary;
    for (int slot : order) {
      int loc = slot / 2, name = slot % 2;
      Fail f;
      if (!M.group[loc]) {
        if (grp_checked[loc]) continue;
        grp_checked[loc] = true;
        mark(1000 + slot * 10);
        bool threw = false;
        try { CheckpointReader r = fresh.getReader(LOCPATH[loc]); } catch (const std::exception &) { threw = true; }
        if (!threw) f = {"never-created-group-opens", slot, 0, std::string("group ") + LOCPATH[loc] + " was never written but opens"};
      } else {
        f = check_slot(fresh, M, loc, name, 0, allkinds, false);
      }
      if (!f.any()) continue;
      if (dirty) { ::remove(file.c_str()); return o; }  // reported by the plain variant of the same history
      if (primary.any()) { primary.what += ";  ALSO DAMAGED by that op: " + f.what; break; }
      primary = f;
      primary.what = "fresh READ handle: " + f.what;
      // a write that fails at its own slot: look (without moving the crash marker) whether other slots suffered too
      if (slot == order[0] && !ops.empty() && ops.back().kind == 'W') { g_nomark = true; continue; }
      break;
    }
    g_nomark = false;
    if (primary.any()) return failwith(primary);
    if (dirty && !order.empty()) {
      int slot = order[0];
      Fail f = check_slot(fresh, M, slot / 2, slot % 2, mode, allkinds, false);
      if (f.any()) { f.what = "fresh READ handle: " + f.what; return failwith(f); }
    }
  } catch (const std::exception &e) {
    return failwith({"unexpected-exception", -1, 0, std::string("exception outside any checked call: ") + e.what()});
  }
  ::remove(file.c_str());
  o.extra = M.key();
  o.cls = bsx::fnv(o.extra);
  return o;
}

// ---- parent side: class key from an explicit predicate on the history + the place of the failure.
// Every evaluated history is a passing history plus ONE op, so a failure is attributed to the last op.
static std::string final_key(char init, const std::vector<Op> &ops, const std::string &sym, int slot, int pass) {
  if (sym != "mismatch" && sym != "write-rejected" && sym != "fatal") return sym;
  if (slot < 0) return sym == "fatal" ? "crash-outside-slot-access" : sym;
  // slot histories since the last truncation (a direct write to /a/b while /a is missing counts as refused)
  std::map<int, std::vector<int>> wr;
  char level = init, level_before_last = init;
  bool ga = false;
  for (size_t s = 0; s < ops.size(); s++) {
    const Op &op = ops[s];
    level_before_last = level;
    if (op.kind == 'O') { level = op.level; if (level == 'C') { wr.clear(); ga = false; } }
    else if (op.kind == 'W') {
      if (level == 'R') continue;
      if (op.route == 'd' && !ga) continue;
      if (op.loc >= 1) ga = true;
      wr[op.loc * 2 + op.name].push_back(op.val);
    }
  }
  std::string base = slot_key(wr[slot]);
  if (pass >= 2) {
    bool gt0 = !wr[slot].empty() && ALPHA[wr[slot].back()].rows.size() >= 2;
    return gt0 ? "table-read-startidx-gt0" : "table-read-first-row-only";  // CptTable::read(buffer, startIdx > 0, endIdx) / readFromRow
  }
  if (pass == 1) return wr[slot].empty() ? "dirty-target-never-written" : std::string("dirty-target-") + kindname[ALPHA[wr[slot].back()].kind];
  if (ops.empty()) return "initial-" + base;
  const Op &last = ops.back();
  if (last.kind == 'O') return std::string("after-reopen-") + last.level + "-" + base;
  int ls = last.loc * 2 + last.name;
  if (last.kind == 'W' && level_before_last == 'R') return "after-readonly-write-" + base;
  if (ls == slot) return base;
  return "collateral-after-" + slot_key(wr[ls]);
}
static void marker_place(const std::vector<Op> &ops, int step, int &slot, int &pass) {
  slot = -1; pass = 0;
  if (step >= 1000) { slot = (step - 1000) / 10; pass = (step - 1000) % 10; }
  else if (step >= 0 && step < (int)ops.size() && ops[step].kind != 'O') slot = ops[step].loc * 2 + ops[step].name;
}
static void resolve(char init, const std::vector<Op> &ops, bsx::Outcome &o, int step) {
  if (o.ok) return;
  std::string sym = o.key; int slot = -1, pass = 0;
  if (o.key == "fatal") { marker_place(ops, step, slot, pass); o.what += " at step marker " + std::to_string(step); }
  else {
    auto f = bsx::split(o.key, '|');
    if (f.size() == 3) { sym = f[0]; slot = atoi(f[1].c_str()); pass = atoi(f[2].c_str()); }
  }
  o.key = final_key(init, ops, sym, slot, pass);
}

struct Cand { char init; std::vector<Op> ops; int mode = 0; };  // mode: extra read pass, see run_history
static const char *MODENAME[4] = {"", "dirty", "rowread", "chunkread"};
static int modeof(const std::string &m) { for (int k = 1; k < 4; k++) if (m == MODENAME[k]) return k; return 0; }
static std::string candstr(const Cand &c) { return (c.mode ? std::string("mode=") + MODENAME[c.mode] + ";" : "") + histstr(c.init, c.ops); }
static bool g_poisoned = false;  // child-local: set after a history that may have changed process-wide libhdf5 state; the rest of the batch is handed to a new child
static bool g_silenced = false;

// ====================================================================== family "ovl"
// Overlapping handles on ONE file inside one process: up to 3 CheckpointFile slots plus derived objects
// (CheckpointReader / CheckpointWriter / CptTable) that outlive their CheckpointFile.  libhdf5 shares one
// file object (one set of access flags, weak close degree) between all of them, so what a handle may do
// must follow from the level it was opened with, not from what else is open.
//   O:s:L   open slot s (empty) with level C|M|R            X:s   destroy the CheckpointFile in slot s
//   K:s:k   take a reader (r) / writer (w) on "/" or the CptTable /a:x (t) from slot s, then destroy the
//           CheckpointFile: the derived object outlives it (kept until the end, at most 2)
//   W:s:t:v getWriter + write value v to target t through slot s      R:s:t  getReader + read target t
//   V:t:v   write through the first kept writer                      Q:t    read through the first kept reader
// targets: x = /:x (Index i7|im1), y = /:y (vector<double> vd3|vd3b), ax = /a:x (table t2|t2b): one kind and
// shape per name, so that the known overwrite defects of the main family stay out of the way.
struct OOp { char kind; int slot; char arg; int tgt; int val; };
static const char *OT_NAME[3] = {"x", "y", "ax"};
static const char *OT_PATH[3] = {"/", "/", "/a"};
static const char *OT_LEAF[3] = {"x", "y", "x"};
static std::string oopstr(const OOp &o) {
  std::string s(1, o.kind);
  switch (o.kind) {
    case 'O': case 'K': return s + ":" + std::to_string(o.slot) + ":" + o.arg;
    case 'X': return s + ":" + std::to_string(o.slot);
    case 'W': return s + ":" + std::to_string(o.slot) + ":" + OT_NAME[o.tgt] + ":" + ALPHA[o.val].label;
    case 'R': return s + ":" + std::to_string(o.slot) + ":" + OT_NAME[o.tgt];
    case 'V': return s + ":" + OT_NAME[o.tgt] + ":" + ALPHA[o.val].label;
    default: return s + ":" + OT_NAME[o.tgt];  // Q
  }
}
static std::string ohiststr(int nslots, const std::vector<OOp> &ops) {
  std::string s = "fam=ovl;slots=" + std::to_string(nslots) + ";ops=";
  for (size_t k = 0; k < ops.size(); k++) s += (k ? "," : "") + oopstr(ops[k]);
  return s;
}
static int otgt(const std::string &n) { return n == "x" ? 0 : (n == "y" ? 1 : (n == "ax" ? 2 : -1)); }
static bool parse_ohist(const std::string &cas, int &nslots, std::vector<OOp> &ops) {
  auto m = bsx::kvs(cas);
  nslots = atoi(m["slots"].c_str());
  if (nslots < 1 || nslots > 3) return false;
  ops.clear();
  if (m["ops"].empty()) return true;
  for (auto &t : bsx::split(m["ops"], ',')) {
    auto f = bsx::split(t, ':');
    OOp o{}; o.kind = f[0][0];
    auto need = [&](size_t n) { return f.size() == n; };
    switch (o.kind) {
      case 'O': case 'K': if (!need(3)) return false; o.slot = atoi(f[1].c_str()); o.arg = f[2][0]; break;
      case 'X': if (!need(2)) return false; o.slot = atoi(f[1].c_str()); break;
      case 'W': if (!need(4) || !BYLABEL.count(f[3])) return false; o.slot = atoi(f[1].c_str()); o.tgt = otgt(f[2]); o.val = BYLABEL[f[3]]; break;
      case 'R': if (!need(3)) return false; o.slot = atoi(f[1].c_str()); o.tgt = otgt(f[2]); break;
      case 'V': if (!need(3) || !BYLABEL.count(f[2])) return false; o.tgt = otgt(f[1]); o.val = BYLABEL[f[2]]; break;
      case 'Q': if (!need(2)) return false; o.tgt = otgt(f[1]); break;
      default: return false;
    }
    if (o.slot < 0 || o.slot >= nslots || o.tgt < 0) return false;
    ops.push_back(o);
  }
  return true;
}

struct OModel {
  char slot[3] = {'-', '-', '-'};
  std::vector<std::string> kept;  // kind + level of the slot it came from, e.g. "rM"
  char gen = '-';                 // level of the open that created the file object shared by everything alive now
  bool exists = false, ga = false;
  std::map<int, int> content;     // target -> alphabet index
  bool alive() const { return slot[0] != '-' || slot[1] != '-' || slot[2] != '-' || !kept.empty(); }
  std::string aux() const { std::string s = "slots=" + std::string(slot, 3) + ";kept="; for (auto &k : kept) s += k[0]; return s; }
  std::string key() const {
    std::string sl(slot, 3); std::sort(sl.begin(), sl.end());
    std::vector<std::string> k = kept; std::sort(k.begin(), k.end());
    std::string s = "ovl:" + sl + "|" + gen + "|";
    for (auto &x : k) s += x + ",";
    s += std::string("|") + (exists ? "E" : "-") + (ga ? "a" : "-");
    for (auto &kv : content) s += std::string(";") + OT_NAME[kv.first] + "=" + ALPHA[kv.second].label;
    return s;
  }
};

// read target t through a reader positioned on OT_PATH[t] and compare with the model; "" = fine
template <class GetReader> static std::string ovl_read(GetReader getr, const OModel &M, int t, std::string &sym) {
  auto it = M.content.find(t);
  std::string where = std::string(OT_PATH[t]) + ":" + OT_LEAF[t];
  if (it == M.content.end()) {
    static const Kind rep[] = {IDX, VDBL, VV3D, TBL};
    for (Kind k : rep) {
      bool threw = false; std::string got;
      try { CheckpointReader r = getr(); got = read_canon(r, k, OT_LEAF[t], false); } catch (const std::exception &) { threw = true; }
      if (!threw) { sym = std::string("never-written-read-succeeds-") + kindname[k]; return "reading never-written " + where + " as " + kindname[k] + " returned " + clip(got); }
    }
    return "";
  }
  const Val &v = ALPHA[it->second];
  std::string expect = canon(v), got;
  try { CheckpointReader r = getr(); got = read_canon(r, v.kind, OT_LEAF[t], false); } catch (const std::exception &e) { got = std::string("EXCEPTION ") + e.what(); }
  if (got != expect) { sym = "mismatch"; return where + " (" + v.label + ") read back " + clip(got) + " expected " + clip(expect); }
  return "";
}

// On failure key = final class key (the predicate only needs the op at hand and the model, both intact here:
// a memory error kills the child before it gets that far and is keyed by the parent from the step marker).
static bsx::Outcome run_overlap(int nslots, const std::vector<OOp> &ops, const std::string &file) {
  bsx::Outcome o;
  std::string cas = ohiststr(nslots, ops);
  auto failwith = [&](const std::string &key, const std::string &what) {
    o.ok = false; o.key = key; o.what = what + "  [" + cas + "]";
    return o;
  };
  H5::Exception::dontPrint();
  ::remove(file.c_str());
  OModel M;
  {
    std::unique_ptr<CheckpointFile> H[3];
    std::vector<std::unique_ptr<CheckpointReader>> keptR;
    std::vector<std::unique_ptr<CheckpointWriter>> keptW;
    std::vector<std::unique_ptr<CptTable>> keptT;
    auto lvname = [](char c) { return std::string(c == 'R' ? "READ" : (c == 'M' ? "MODIFY" : "CREATE")); };
    auto others = [&](const OModel &m) {  // what else shares the file object, for the message
      std::string s;
      for (int k = 0; k < 3; k++) if (m.slot[k] != '-') s += m.slot[k];
      for (auto &k : m.kept) s += std::string(" kept:") + k;
      return s.empty() ? std::string("nothing") : s;
    };
    try {
      for (size_t st = 0; st < ops.size(); st++) {
        const OOp &op = ops[st];
        mark((int)st);
        char L = op.kind == 'V' || op.kind == 'Q' ? '-' : M.slot[op.slot];
        bool writable_elsewhere = M.gen == 'C' || M.gen == 'M';
        switch (op.kind) {
          case 'O': {
            if (L != '-') return failwith("harness-op-not-applicable", "open on an occupied slot");
            bool oth = M.alive(), threw = false; std::string msg;
            try { H[op.slot].reset(new CheckpointFile(file, lvl(op.arg))); } catch (const std::exception &e) { threw = true; msg = e.what(); }
            if (threw) {
              if (op.arg == 'R' && !M.exists) break;  // required: nothing to read
              if (oth) break;                          // allowed: libhdf5 refuses e.g. truncating / upgrading a file that is open
              return failwith(std::string("ovl-open-") + op.arg + "-rejected-nothing-else-open", "opening with " + lvname(op.arg) + " threw although nothing is open: " + clip(msg));
            }
            if (op.arg == 'R' && !M.exists) return failwith("open-read-missing-file-accepted", "READ open of a file that does not exist succeeded");
            M.slot[op.slot] = op.arg;
            if (!oth) M.gen = op.arg;
            if (op.arg == 'C' || !M.exists) { M.content.clear(); M.ga = false; M.exists = true; }
            break;
          }
          case 'X': {
            if (L == '-') return failwith("harness-op-not-applicable", "close of an empty slot");
            H[op.slot].reset();
            M.slot[op.slot] = '-';
            if (!M.alive()) M.gen = '-';
            break;
          }
          case 'K': {
            if (L == '-' || M.kept.size() >= 2) return failwith("harness-op-not-applicable", "keep");
            bool kept = false, threw = false; std::string msg;
            try {
              if (op.arg == 'r') keptR.emplace_back(new CheckpointReader(H[op.slot]->getReader("/")));
              else if (op.arg == 'w') keptW.emplace_back(new CheckpointWriter(H[op.slot]->getWriter("/")));
              else { CheckpointReader r = H[op.slot]->getReader("/a"); keptT.emplace_back(new CptTable(r.openTable<StaticSite>("x"))); }
              kept = true;
            } catch (const std::exception &e) { threw = true; msg = e.what(); }
            if (op.arg == 'w' && L == 'R') {
              if (!threw) return failwith(writable_elsewhere ? "readonly-getwriter-accepted-while-file-open-writable" : "readonly-getwriter-accepted",
                                          "getWriter(\"/\") on a READ handle did not throw (also open on the file: " + others(M) + ")");
            } else if (op.arg == 't' && !M.content.count(2)) {
              if (!threw) return failwith("never-written-table-opens", "openTable on /a:x succeeded although no table was written");
            } else if (threw) {
              return failwith(std::string("ovl-derived-object-rejected-") + op.arg + "-" + L, std::string("taking a ") + (op.arg == 'r' ? "reader" : op.arg == 'w' ? "writer" : "table") +
                                                                                                  " from a " + lvname(L) + " handle threw: " + clip(msg));
            }
            if (kept) M.kept.push_back(std::string(1, op.arg) + L);
            H[op.slot].reset();  // the derived object outlives its CheckpointFile
            M.slot[op.slot] = '-';
            if (!M.alive()) M.gen = '-';
            break;
          }
          case 'W': {
            if (L == '-') return failwith("harness-op-not-applicable", "write through an empty slot");
            const Val &v = ALPHA[op.val];
            if (L == 'R') {
              bool threw = false, wrote = false;
              try {
                CheckpointWriter w = H[op.slot]->getWriter(OT_PATH[op.tgt]);
                try { write_val(w, v, OT_LEAF[op.tgt]); wrote = true; } catch (const std::exception &) {}
              } catch (const std::exception &) { threw = true; }
              if (!threw)
                return failwith(writable_elsewhere ? "readonly-getwriter-accepted-while-file-open-writable" : "readonly-getwriter-accepted",
                                std::string("getWriter(\"") + OT_PATH[op.tgt] + "\") on a READ handle did not throw (also open on the file: " + others(M) + "); the write of " + v.label +
                                    (wrote ? " went through" : " was then refused by libhdf5"));
              break;  // model unchanged; the fresh handle at the end verifies it
            }
            try {
              CheckpointWriter w = H[op.slot]->getWriter(OT_PATH[op.tgt]);
              if (op.tgt == 2) M.ga = true;
              write_val(w, v, OT_LEAF[op.tgt]);
              M.content[op.tgt] = op.val;
            } catch (const std::exception &e) {
              return failwith(std::string("ovl-write-rejected-") + L, "write of " + v.label + " to " + OT_PATH[op.tgt] + ":" + OT_LEAF[op.tgt] + " through a " + lvname(L) +
                                                                         " handle was rejected (also open: " + others(M) + "): " + clip(e.what()));
            }
            break;
          }
          case 'R': {
            if (L == '-') return failwith("harness-op-not-applicable", "read through an empty slot");
            std::string sym;
            if (op.tgt == 2 && !M.ga) {
              bool threw = false;
              try { CheckpointReader r = H[op.slot]->getReader("/a"); } catch (const std::exception &) { threw = true; }
              if (!threw) return failwith("never-created-group-opens", "group /a was never written but opens");
              break;
            }
            std::string e = ovl_read([&]() { return H[op.slot]->getReader(OT_PATH[op.tgt]); }, M, op.tgt, sym);
            if (!e.empty()) return failwith(sym == "mismatch" ? std::string("ovl-read-through-") + L + "-handle-differs" : sym, "through a " + lvname(L) + " handle (also open: " + others(M) + "): " + e);
            break;
          }
          case 'V': {
            if (keptW.empty() || op.tgt == 2) return failwith("harness-op-not-applicable", "no kept writer");
            const Val &v = ALPHA[op.val];
            try { write_val(*keptW[0], v, OT_LEAF[op.tgt]); M.content[op.tgt] = op.val; }
            catch (const std::exception &) {}  // allowed: a writer that outlived its file may be refused, then nothing changes
            break;
          }
          case 'Q': {
            if (keptR.empty() || op.tgt == 2) return failwith("harness-op-not-applicable", "no kept reader");
            std::string sym;
            std::string e = ovl_read([&]() { return *keptR[0]; }, M, op.tgt, sym);
            if (!e.empty()) return failwith(sym == "mismatch" ? "ovl-read-through-kept-reader-differs" : sym, "through a reader that outlived its CheckpointFile: " + e);
            break;
          }
          default: return failwith("harness-op-not-applicable", "op");
        }
      }
      mark(900);
      for (int k = 0; k < 3; k++) H[k].reset();
      keptT.clear(); keptW.clear(); keptR.clear();
    } catch (const std::exception &e) {
      return failwith("unexpected-exception", std::string("exception outside any checked call: ") + e.what());
    }
  }
  // everything released: a fresh READ handle shows what the file holds
  mark(950);
  std::string lastk = ops.empty() ? "start" : std::string(1, ops.back().kind);
  try {
    if (!M.exists) {
      bool threw = false;
      try { CheckpointFile f(file, CheckpointAccessLevel::READ); } catch (const std::exception &) { threw = true; }
      if (!threw) return failwith("open-read-missing-file-accepted", "READ open of a file that was never created succeeded");
    } else {
      CheckpointFile fresh(file, CheckpointAccessLevel::READ);
      for (int t = 0; t < 3; t++) {
        mark(960 + t);
        if (t == 2 && !M.ga) {
          bool threw = false;
          try { CheckpointReader r = fresh.getReader("/a"); } catch (const std::exception &) { threw = true; }
          if (!threw) return failwith("never-created-group-opens", "group /a was never written but opens");
          continue;
        }
        std::string sym;
        std::string e = ovl_read([&]() { return fresh.getReader(OT_PATH[t]); }, M, t, sym);
        if (!e.empty()) return failwith(sym == "mismatch" ? "ovl-final-content-differs-after-" + lastk : sym + "-after-" + lastk, "fresh READ handle after everything was released: " + e);
      }
    }
  } catch (const std::exception &e) {
    return failwith("ovl-final-open-rejected-after-" + lastk, std::string("fresh READ handle after everything was released: ") + e.what());
  }
  ::remove(file.c_str());
  o.extra = M.key();
  o.what = M.aux();
  o.cls = bsx::fnv(o.extra);
  return o;
}
static std::string ovl_fatal_key(const std::vector<OOp> &ops, int step) {
  if (step >= 950) return "ovl-crash-in-final-read";
  if (step == 900) return "ovl-crash-releasing-handles";
  if (step >= 0 && step < (int)ops.size()) return std::string("ovl-crash-in-op-") + ops[step].kind;
  return "ovl-crash-outside-ops";
}

struct OCand { std::vector<OOp> ops; std::string aux; };
static int main_overlap(bsx::Args &a) {
  if (a.has_case) {
    int ns; std::vector<OOp> ops;
    if (!parse_ohist(a.cas, ns, ops)) { fprintf(stderr, "bad case string\n"); return 2; }
    bsx::Outcome o;
    *g_step = -2;
    bsx::contained(0, 1, [&](long long) { return run_overlap(ns, ops, "case.h5"); }, [&](long long, const bsx::Outcome &r) { o = r; });
    ::remove("case.h5");
    if (o.ok) { printf("case holds\n"); return 0; }
    if (o.key == "fatal") { o.key = ovl_fatal_key(ops, *g_step); o.what += " at step marker " + std::to_string(*g_step); }
    printf("case FAILS: key=%s %s\n", o.key.c_str(), o.what.c_str());
    return 3;
  }
  bsx::Report R;
  R.property = "C17"; R.part = "ovl"; R.tier = a.tier;
  bool thorough = a.tier == "thorough";
  const int nslots = thorough ? 3 : 2, maxdepth = thorough ? 5 : 4;
  const int VX[2] = {BYLABEL.at("i7"), BYLABEL.at("im1")}, VY[2] = {BYLABEL.at("vd3"), BYLABEL.at("vd3b")}, VA[2] = {BYLABEL.at("t2"), BYLABEL.at("t2b")};
  auto vals = [&](int t) { return t == 0 ? VX : (t == 1 ? VY : VA); };
  R.rule = "explicit-state BFS over op histories on ONE HDF5 file shared by " + std::to_string(nslots) + " CheckpointFile slots inside one process (own file per history, forked children, ASan/UBSan): "
           "open slot with CREATE|MODIFY|READ (lowest empty slot; slots are interchangeable), destroy slot, take a reader/writer/CptTable from a slot and destroy its CheckpointFile so that the derived "
           "object outlives it (at most 2 kept), getWriter+write / getReader+read through a slot, write/read through a kept writer/reader; targets /:x (Index i7|im1), /:y (vector<double> vd3|vd3b), "
           "/a:x (CptTable t2|t2b); all histories of length <= " + std::to_string(maxdepth) + " from the state 'no file, nothing open', every applicable op after every distinct state. "
           "Oracle: reference model; getWriter on a READ-level slot must throw whatever else is open and must not change the content; writes through CREATE/MODIFY slots must succeed and are what "
           "any slot, any kept reader and (after everything is released) a fresh READ handle read back bit-identically, last write wins; never-written names/groups raise; an open that libhdf5 "
           "refuses while something else is open on the file, and a write through a writer that outlived its file, may throw (then nothing changes). state = sorted slot levels + level that "
           "created the shared file object + kept objects + content; distinct_nontrivial = distinct states reached";

  // applicable ops in a state described by aux = "slots=M-R;kept=rw"
  auto expand = [&](const OCand &c) {
    std::vector<OOp> r;
    auto m = bsx::kvs(c.aux);
    std::string sl = m["slots"], kp = m["kept"];
    if (sl.size() != 3) sl = "---";
    int lowest_empty = -1;
    for (int s = 0; s < nslots; s++) if (sl[s] == '-') { lowest_empty = s; break; }
    if (lowest_empty >= 0) for (char L : {'C', 'M', 'R'}) r.push_back({'O', lowest_empty, L, 0, 0});
    for (int s = 0; s < nslots; s++) {
      if (sl[s] == '-') continue;
      r.push_back({'X', s, 0, 0, 0});
      if (kp.size() < 2) for (char k : {'r', 'w', 't'}) r.push_back({'K', s, k, 0, 0});
      for (int t = 0; t < 3; t++) { for (int j = 0; j < 2; j++) r.push_back({'W', s, 0, t, vals(t)[j]}); r.push_back({'R', s, 0, t, 0}); }
    }
    if (kp.find('w') != std::string::npos) for (int t = 0; t < 2; t++) for (int j = 0; j < 2; j++) r.push_back({'V', 0, 0, t, vals(t)[j]});
    if (kp.find('r') != std::string::npos) for (int t = 0; t < 2; t++) r.push_back({'Q', 0, 0, t, 0});
    return r;
  };

  long long states = 0, transitions = 0;
  std::set<std::string> seen;
  std::vector<OCand> frontier;
  {  // depth 0: every shard learns the initial state, shard 0 counts it
    bsx::Outcome o;
    bsx::contained(0, 1, [&](long long) { return run_overlap(nslots, {}, "o0.h5"); }, [&](long long, const bsx::Outcome &r) { o = r; });
    if (!o.ok) { R.fail(o.key, o.what, ohiststr(nslots, {})); }
    else { seen.insert(o.extra); frontier.push_back({{}, o.what}); if (a.shard == 0) { R.eval(); transitions++; states++; R.cls(o.cls); } }
  }
  for (int depth = 1; depth <= maxdepth && !frontier.empty(); depth++) {
    std::vector<OCand> cand, next;
    for (auto &c : frontier) for (auto &op : expand(c)) { OCand n{c.ops, ""}; n.ops.push_back(op); cand.push_back(n); }
    // sharding by the hash of the first two ops (depth 1 is evaluated by every shard, counted by shard 0)
    if (depth >= 2) {
      std::vector<OCand> mine;
      for (auto &c : cand) if (a.mine((long long)(bsx::fnv(oopstr(c.ops[0]) + oopstr(c.ops[1])) % 1000003ull))) mine.push_back(c);
      cand.swap(mine);
    }
    bool count = depth >= 2 || a.shard == 0;
    const long long n = (long long)cand.size(), BATCH = 256;
    for (long long pos = 0; pos < n; pos += BATCH) {
      long long hi = std::min(n, pos + BATCH);
      bsx::contained(
          pos, hi,
          [&](long long i) {
            if (!g_silenced) { g_silenced = true; int fd = open("/dev/null", O_WRONLY); if (fd >= 0) { dup2(fd, 2); close(fd); } }
            *g_step = -2;
            return run_overlap(nslots, cand[i].ops, "o" + std::to_string(depth) + "_" + std::to_string(i) + ".h5");
          },
          [&](long long i, const bsx::Outcome &res) {
            bsx::Outcome o = res;
            if (count) { R.eval(); transitions++; }
            std::string cas = ohiststr(nslots, cand[i].ops);
            if (!o.ok) {
              ::remove(("o" + std::to_string(depth) + "_" + std::to_string(i) + ".h5").c_str());
              if (o.key == "fatal") { o.key = ovl_fatal_key(cand[i].ops, *g_step); o.what += " at step marker " + std::to_string(*g_step) + "  [" + cas + "]"; R.counters["children_killed_by_sanitizer_or_signal"]++; }
              if (count) { R.fail(o.key, o.what, cas); R.counters["failing_histories"]++; }
              return;
            }
            if (seen.insert(o.extra).second) {
              if (count) { states++; R.cls(o.cls); }
              next.push_back({cand[i].ops, o.what});
              if (count && (states % 53) == 7) R.sample(cas + " -> state " + o.extra);
            }
          },
          60);
    }
    R.counters["depth" + std::to_string(depth) + "_histories"] += count ? n : 0;
    frontier.swap(next);
  }
  R.states = states; R.transitions = transitions; R.traces = transitions;
  R.assumptions = {
      "libhdf5 keeps ONE file object per file and process: a CheckpointFile constructor that throws while anything else is open on the file is an allowed refusal (model unchanged)",
      "a CheckpointWriter that outlived its CheckpointFile may refuse to write (model unchanged); if it does not throw the value must be stored",
      "one kind and shape per target name, so that the known overwrite defects (main family) do not mask this family",
      "slots are interchangeable: a new handle always goes to the lowest empty slot, states are keyed by the sorted slot levels",
      "states are de-duplicated per shard; distinct_nontrivial is exact"};
  if (!R.write(a.out)) { fprintf(stderr, "cannot write %s\n", a.out.c_str()); return 2; }
  return 0;
}

// ====================================================================== family "proc"
// Process-wide state: what one table creation leaves behind in the process (libhdf5's DEFAULT dataset-creation
// property list is a process-wide object; a CptTable that calls setLayout(H5D_COMPACT) on a list that still
// shares the id of DEFAULT makes every later dataset of the process compact, i.e. capped at 64 KiB).
// One forked child per history (fresh libhdf5 state each time).  Two files A,B (both opened with CREATE at the
// start), groups r="/" and c="/a/b", names x (values) and t (the table).
//   T:f:g:k|n:o|d:N  create+write a StaticSite table of N rows under name t; k = compact=true, n = compact=false;
//                    o = CheckpointWriter::openTable<StaticSite>(name,N,compact), d = public CptTable constructor
//                    + SetupCptTable + initialize(loc,compact) (what openTable does internally)
//   W:f:g:<label>    write value <label> under name x (small: one of the sized values, large: > 64 KiB, "L…")
//   N:f              replace the CheckpointFile object of file f by a new one (MODIFY)
//   G:c|g|d          std::locale::global(): classic / thousands grouping "1,234,567" / grouping + decimal comma "1.234.567,5"
//                    (hand-written numpunct facet; only C/POSIX locales are installed).  The fresh READ handles at the end
//                    read under whatever global locale the history ends with; the classic locale is restored afterwards.
struct GroupPunct : std::numpunct<char> {
  bool comma;
  explicit GroupPunct(bool c) : comma(c) {}
  char do_thousands_sep() const override { return comma ? '.' : ','; }
  std::string do_grouping() const override { return "\3"; }
  char do_decimal_point() const override { return comma ? ',' : '.'; }
};
static void set_global_locale(char which) {
  if (which == 'c') std::locale::global(std::locale::classic());
  else std::locale::global(std::locale(std::locale::classic(), new GroupPunct(which == 'd')));
}
static const char *locname(char c) { return c == 'c' ? "classic" : (c == 'g' ? "grouping" : "grouping-decimal-comma"); }
struct POp { char kind; int file; int grp; char compact; char route; int rows; int val; };
static const char *PGRP[2] = {"/", "/a/b"};
static std::string popstr(const POp &o) {
  std::string s(1, o.kind);
  if (o.kind == 'G') return s + ":" + o.compact;
  s += std::string(":") + "AB"[o.file];
  if (o.kind == 'N') return s;
  s += std::string(":") + "rc"[o.grp];
  if (o.kind == 'T') return s + ":" + o.compact + ":" + o.route + ":" + std::to_string(o.rows);
  return s + ":" + ALPHA[o.val].label;
}
static std::string phiststr(const std::vector<POp> &ops) {
  std::string s = "fam=proc;ops=";
  for (size_t k = 0; k < ops.size(); k++) s += (k ? "," : "") + popstr(ops[k]);
  return s;
}
static bool parse_phist(const std::string &cas, std::vector<POp> &ops) {
  auto m = bsx::kvs(cas);
  ops.clear();
  if (m["ops"].empty()) return true;
  for (auto &t : bsx::split(m["ops"], ',')) {
    auto f = bsx::split(t, ':');
    if (f.size() < 2 || f[1].size() != 1) return false;
    POp o{}; o.kind = f[0][0]; o.file = f[1][0] == 'B';
    if (o.kind == 'G') { if (f.size() != 2 || (f[1][0] != 'c' && f[1][0] != 'g' && f[1][0] != 'd')) return false; o.compact = f[1][0]; o.file = 0; }
    else if (o.kind == 'N') { if (f.size() != 2) return false; }
    else if (o.kind == 'T') { if (f.size() != 6) return false; o.grp = f[2][0] == 'c'; o.compact = f[3][0]; o.route = f[4][0]; o.rows = atoi(f[5].c_str()); }
    else if (o.kind == 'W') { if (f.size() != 4 || !BYLABEL.count(f[3])) return false; o.grp = f[2][0] == 'c'; o.val = BYLABEL[f[3]]; }
    else return false;
    ops.push_back(o);
  }
  return true;
}
static std::vector<Row> proc_rows(int n, int seed) {
  std::vector<Row> r;
  for (int k = 0; k < n; k++) r.push_back(mkrow(1000 * seed + k + 1, "P" + std::to_string(k), 0.25 * seed + k));
  return r;
}
static bool is_large(const Val &v) { return v.label.size() > 1 && v.label[0] == 'L'; }

// class key from the history (parent or child alike): which op failed and what happened before it in the process
static std::string proc_key(const std::vector<POp> &ops, int step, const std::string &sym) {
  if (step < 0 || step >= (int)ops.size()) return "proc-" + sym;
  bool anyG = false;
  for (auto &op : ops) if (op.kind == 'G') anyG = true;
  if (anyG) {
    // global-locale histories: under which locale was the failing op executed, under which does the history end (= are the fresh handles read)
    char X = 'c', Y = 'c';
    for (int k = 0; k < (int)ops.size(); k++) if (ops[k].kind == 'G') { if (k < step) X = ops[k].compact; Y = ops[k].compact; }
    std::string what = ops[step].kind == 'W' ? std::string(kindname[ALPHA[ops[step].val].kind]) + "-" + shapeclass(ALPHA[ops[step].val]) : std::string(1, ops[step].kind);
    if (sym != "differs") return std::string("locale-") + locname(X) + "-op-" + sym + "-" + what;
    if (X == Y) return std::string("locale-") + locname(X) + "-throughout-" + what + "-differs";
    return "locale-changed-between-write-and-read-" + what + "-differs";
  }
  std::string before = "no-table";
  for (int k = 0; k < step; k++)
    if (ops[k].kind == 'T') {
      std::string b = std::string(ops[k].compact == 'k' ? "compact" : "noncompact") + "-table-via-" + (ops[k].route == 'o' ? "opentable" : "direct-ctor");
      if (before == "no-table" || ops[k].compact == 'k') before = b;
    }
  const POp &op = ops[step];
  if (op.kind == 'T') return std::string("table-") + (op.compact == 'k' ? "compact" : "noncompact") + "-via-" + (op.route == 'o' ? "opentable" : "direct-ctor") + "-" + sym + "-after-" + before;
  if (op.kind == 'W') return std::string(is_large(ALPHA[op.val]) ? "large" : "small") + "-write-" + sym + "-after-" + before;
  return "reopen-" + sym + "-after-" + before;
}

static bsx::Outcome run_proc(const std::vector<POp> &ops, const std::string &base) {
  bsx::Outcome o;
  std::string cas = phiststr(ops);
  std::string fn[2] = {base + "_A.h5", base + "_B.h5"};
  auto failwith = [&](const std::string &key, const std::string &what) {
    o.ok = false; o.key = key; o.what = what + "  [" + cas + "]";
    ::remove(fn[0].c_str()); ::remove(fn[1].c_str());
    return o;
  };
  H5::Exception::dontPrint();
  struct RestoreLocale { ~RestoreLocale() { std::locale::global(std::locale::classic()); } } restore_locale;
  // model: per file and group: value written to x (alphabet index) and table written to t (rows, seed)
  struct Slot { int x = -1; int trows = -1, tseed = 0; };
  Slot M[2][2];
  bool grp_c[2] = {false, false};
  int lastfail_step = -1;
  try {
    mark(-1);
    std::unique_ptr<CheckpointFile> H[2];
    for (int f = 0; f < 2; f++) { ::remove(fn[f].c_str()); H[f].reset(new CheckpointFile(fn[f], CheckpointAccessLevel::CREATE)); }
    auto writer = [&](int f, int g) { return g == 0 ? H[f]->getWriter("/") : H[f]->getWriter("/a").openChild("b"); };
    for (size_t st = 0; st < ops.size(); st++) {
      const POp &op = ops[st];
      mark((int)st);
      lastfail_step = (int)st;
      if (op.kind == 'G') {
        set_global_locale(op.compact);
      } else if (op.kind == 'N') {
        H[op.file].reset();
        try { H[op.file].reset(new CheckpointFile(fn[op.file], CheckpointAccessLevel::MODIFY)); }
        catch (const std::exception &e) { return failwith(proc_key(ops, (int)st, "rejected"), std::string("re-opening with MODIFY threw: ") + e.what()); }
      } else if (op.kind == 'T') {
        std::vector<Row> rows = proc_rows(op.rows, (int)st + 1);
        try {
          CheckpointWriter w = writer(op.file, op.grp);
          if (op.grp == 1) grp_c[op.file] = true;
          std::vector<StaticSite::data> dv(rows.size());
          for (size_t k = 0; k < rows.size(); k++) {
            const Row &r = rows[k]; StaticSite::data &d = dv[k];
            d.id = r.id; d.element = const_cast<char *>(r.el.c_str()); d.posX = r.pos[0]; d.posY = r.pos[1]; d.posZ = r.pos[2]; d.rank = r.rank;
            d.Q00 = r.q[0]; d.Q11c = r.q[1]; d.Q11s = r.q[2]; d.Q10 = r.q[3]; d.Q20 = r.q[4]; d.Q21c = r.q[5]; d.Q21s = r.q[6]; d.Q22c = r.q[7]; d.Q22s = r.q[8];
          }
          bool compact = op.compact == 'k';
          if (op.route == 'o') {
            CptTable table = w.openTable<StaticSite>("t", rows.size(), compact);
            table.write(dv);
          } else {
            // the public constructor, as CheckpointWriter::openTable uses it (the name must be free: every history writes t once per group)
            CheckpointReader rd = op.grp == 0 ? H[op.file]->getReader("/") : H[op.file]->getReader("/a/b");
            CptTable table("t", sizeof(StaticSite::data), rows.size());
            StaticSite::SetupCptTable(table);
            table.initialize(rd.getLoc(), compact);
            table.write(dv);
          }
          M[op.file][op.grp].trows = op.rows; M[op.file][op.grp].tseed = (int)st + 1;
        } catch (const std::exception &e) {
          return failwith(proc_key(ops, (int)st, "rejected"), std::string("creating/writing the ") + (op.compact == 'k' ? "compact" : "non-compact") + " table of " + std::to_string(op.rows) + " rows threw: " + clip(e.what()));
        }
      } else {
        const Val &v = ALPHA[op.val];
        try {
          CheckpointWriter w = writer(op.file, op.grp);
          if (op.grp == 1) grp_c[op.file] = true;
          write_val(w, v, "x");
          M[op.file][op.grp].x = op.val;
        } catch (const std::exception &e) {
          // is the previous value still there?  (the writer removes the old link before it creates the new dataset)
          std::string lost;
          int old = M[op.file][op.grp].x;
          if (old >= 0) {
            try { CheckpointReader r = H[op.file]->getReader(PGRP[op.grp]); std::string got = read_canon(r, ALPHA[old].kind, "x", false); if (got != canon(ALPHA[old])) lost = "; the previous value " + ALPHA[old].label + " now reads differently"; }
            catch (const std::exception &) { lost = "; the previous value " + ALPHA[old].label + " is gone"; }
          }
          return failwith(proc_key(ops, (int)st, "rejected"), "write of " + v.label + " (" + kindname[v.kind] + " " + dims(v) + ") to file " + "AB"[op.file] + " " + PGRP[op.grp] + ":x was rejected: " + clip(e.what()) + lost);
        }
      }
    }
    mark(900);
    H[0].reset(); H[1].reset();
    // fresh READ handles on both files
    for (int f = 0; f < 2; f++) {
      CheckpointFile fresh(fn[f], CheckpointAccessLevel::READ);
      for (int g = 0; g < 2; g++) {
        mark(950 + f * 2 + g);
        std::string where = std::string("file ") + "AB"[f] + " " + PGRP[g];
        if (g == 1 && !grp_c[f]) {
          bool threw = false;
          try { CheckpointReader r = fresh.getReader("/a/b"); } catch (const std::exception &) { threw = true; }
          if (!threw) return failwith("never-created-group-opens", where + " was never written but opens");
          continue;
        }
        // which op wrote this slot last (for the key)
        auto lastop = [&](char kind) { int w = -1; for (size_t k = 0; k < ops.size(); k++) if (ops[k].kind == kind && ops[k].file == f && ops[k].grp == g) w = (int)k; return w; };
        const Slot &S = M[f][g];
        if (S.x < 0) {
          for (Kind k : {IDX, MXD, VV3D}) {
            bool threw = false;
            try { CheckpointReader r = fresh.getReader(PGRP[g]); read_canon(r, k, "x", false); } catch (const std::exception &) { threw = true; }
            if (!threw) return failwith(std::string("never-written-read-succeeds-") + kindname[k], where + ":x was never written but reads as " + kindname[k]);
          }
        } else {
          const Val &v = ALPHA[S.x];
          std::string expect = canon(v), got;
          try { CheckpointReader r = fresh.getReader(PGRP[g]); got = read_canon(r, v.kind, "x", false); } catch (const std::exception &e) { got = std::string("EXCEPTION ") + e.what(); }
          if (got != expect) return failwith(proc_key(ops, lastop('W'), "differs"), "fresh READ handle: " + where + ":x (" + v.label + ") " + diffat(got, expect));
        }
        if (S.trows < 0) {
          bool threw = false;
          try { CheckpointReader r = fresh.getReader(PGRP[g]); read_canon(r, TBL, "t", false); } catch (const std::exception &) { threw = true; }
          if (!threw) return failwith("never-written-read-succeeds-table", where + ":t was never written but opens");
        } else {
          std::string expect = canon_rows(proc_rows(S.trows, S.tseed)), got;
          try { CheckpointReader r = fresh.getReader(PGRP[g]); got = read_canon(r, TBL, "t", false); } catch (const std::exception &e) { got = std::string("EXCEPTION ") + e.what(); }
          if (got != expect) return failwith(proc_key(ops, lastop('T'), "differs"), "fresh READ handle: " + where + ":t " + diffat(got, expect));
        }
      }
    }
  } catch (const std::exception &e) {
    return failwith("unexpected-exception", std::string("exception outside any checked call: ") + e.what());
  }
  ::remove(fn[0].c_str()); ::remove(fn[1].c_str());
  std::string key = "proc:";
  bool anyk = false;
  for (auto &op : ops) if (op.kind == 'T' && op.compact == 'k') anyk = true;
  key += anyk ? "K|" : "-|";
  { std::string ls; for (auto &op : ops) if (op.kind == 'G') ls += op.compact; if (!ls.empty()) key += "loc=" + ls + "|"; }
  for (int f = 0; f < 2; f++) for (int g = 0; g < 2; g++) {
    key += std::string(1, "AB"[f]) + "rc"[g] + "=" + (M[f][g].x >= 0 ? ALPHA[M[f][g].x].label : "-") + "/" + (M[f][g].trows >= 0 ? std::to_string(M[f][g].trows) : "-") + ";";
  }
  o.extra = key;
  o.cls = bsx::fnv(key);
  return o;
}
static std::string proc_fatal_key(const std::vector<POp> &ops, int step) {
  if (step >= 950) return "proc-crash-in-final-read";
  if (step == 900) return "proc-crash-closing";
  return proc_key(ops, step, "crash");
}

static int main_proc(bsx::Args &a) {
  if (a.has_case) {
    std::vector<POp> ops;
    if (!parse_phist(a.cas, ops)) { fprintf(stderr, "bad case string\n"); return 2; }
    bsx::Outcome o;
    *g_step = -2;
    bsx::contained(0, 1, [&](long long) { return run_proc(ops, "case"); }, [&](long long, const bsx::Outcome &r) { o = r; });
    ::remove("case_A.h5"); ::remove("case_B.h5");
    if (o.ok) { printf("case holds\n"); return 0; }
    if (o.key == "fatal") { o.key = proc_fatal_key(ops, *g_step); o.what += " at step marker " + std::to_string(*g_step); }
    printf("case FAILS: key=%s %s\n", o.key.c_str(), o.what.c_str());
    return 3;
  }
  bsx::Report R;
  R.property = "C17"; R.part = "prc"; R.tier = a.tier;
  bool thorough = a.tier == "thorough";
  // (large value, small value of the same kind)
  std::vector<std::pair<const char *, const char *>> kinds = {{"Lm128", "mc#2"}, {"Lvd20000", "vd#2"}, {"Lt4000", "t#2"}};
  if (thorough) {
    std::vector<std::pair<const char *, const char *>> more = {{"Lm1x10000", "mr#2"}, {"Lvi20000", "vi#2"}, {"Lvs5000", "vs#2"}, {"Lmf200x100", "mf#2"}, {"Lvx10000", "vx#2"},
                                                               {"Les10000", "es#2"}, {"Lq300", "q#2"}};
    kinds.insert(kinds.end(), more.begin(), more.end());
  }
  R.rule = "one forked process per history, two HDF5 files A,B (CREATE), groups / and /a/b: [small value to x before] ; create+write a StaticSite table t of 2 rows with compact=true|false through "
           "CheckpointWriter::openTable or through the public CptTable constructor+initialize, in any of the 4 (file,group) places ; [small value to x after] ; [replace the CheckpointFile object of the "
           "target file by a new MODIFY one] ; write a LARGE value (> 64 KiB: " + std::string(thorough ? "MatrixXd 128x128 and 1x10000, vector<double>/<Index> 20000, vector<string> 5000, MatrixXf 200x100, VectorXd 10000, EigenSystem 10000, "
           "vector<Vector3d> 300, table 4000 rows" : "MatrixXd 128x128, vector<double> 20000, table 4000 rows") + ") to x in any of the 4 places: the full product, plus the controls without any table "
           "and with the large value written first. Global C++ locale as process state: std::locale::global(X) ; write value ; std::locale::global(Y) ; read with fresh handles, X,Y in {classic, "
           "thousands grouping 1,234,567, grouping + decimal comma 1.234.567,5} (hand-written numpunct facets), for " + std::string(thorough ? "35 values of every kind incl. vector<Vector3d> of 12/101/1001/1500 elements, on two places" : "14 values of every kind incl. vector<Vector3d> of 12 and 1001 elements") +
           ", and list-over-list overwrites under three locales. Oracle: every write succeeds; fresh READ handles on both files return every x and every table t bit-identically, never-written names raise. "
           "distinct_nontrivial = distinct end states (content of the 4 places + whether a compact table was created in the process)";
  auto Wop = [&](int f, int g, const char *label) { POp o{}; o.kind = 'W'; o.file = f; o.grp = g; o.val = BYLABEL.at(label); return o; };
  auto Top = [&](int f, int g, char c, char r, int n) { POp o{}; o.kind = 'T'; o.file = f; o.grp = g; o.compact = c; o.route = r; o.rows = n; return o; };
  auto Nop = [&](int f) { POp o{}; o.kind = 'N'; o.file = f; return o; };
  std::vector<std::vector<POp>> H;
  for (auto &kp : kinds) {
    const char *L = kp.first, *s = kp.second;
    // controls
    for (int wl = 0; wl < 4; wl++) {
      H.push_back({Wop(wl / 2, wl % 2, L)});
      H.push_back({Wop(wl / 2, wl % 2, s), Wop(wl / 2, wl % 2, L)});
      H.push_back({Wop(wl / 2, wl % 2, L), Wop(wl / 2, wl % 2, s)});
      H.push_back({Wop(wl / 2, wl % 2, L), Top(0, 0, 'k', 'o', 2), Wop(wl / 2, wl % 2, s)});
    }
    for (char route : {'o', 'd'}) for (char c : {'k', 'n'})
      for (int tl = 0; tl < 4; tl++) for (int wl = 0; wl < 4; wl++)
        for (int pre = 0; pre < 3; pre++) for (int reopen = 0; reopen < 2; reopen++) {
          std::vector<POp> h;
          if (pre == 1) h.push_back(Wop(wl / 2, wl % 2, s));
          h.push_back(Top(tl / 2, tl % 2, c, route, 2));
          if (pre == 2) h.push_back(Wop(wl / 2, wl % 2, s));
          if (reopen) h.push_back(Nop(wl / 2));
          h.push_back(Wop(wl / 2, wl % 2, L));
          H.push_back(h);
        }
  }
  // table sizes other than 2 (0 rows, and 500 rows = 60 000 bytes, just under the compact limit), compact, both routes
  for (char route : {'o', 'd'}) for (int n : {0, 1, 500}) for (int wl : {0, 3}) {
    H.push_back({Top(0, 1, 'k', route, n), Wop(wl / 2, wl % 2, "Lm128")});
  }
  // ---- global C++ locale as process state: write under X, read (fresh handles) under Y
  {
    auto Gop = [&](char c) { POp o{}; o.kind = 'G'; o.compact = c; return o; };
    std::vector<const char *> lv = {"imax", "gi", "gd", "dpi", "sutf", "gs", "vd#12", "vs#12", "vi#12", "mc#12", "q#12", "q#1001", "t#12", "es#12"};
    if (thorough) {
      std::vector<const char *> more = {"nmax", "umax", "f15", "bT", "dnan", "s300", "vn#12", "rv#12", "vx#12", "mf#12", "mz#12", "mblk", "p123", "q#101", "gq1500",
                                        "t#101", "tk#12", "tr#12", "es#101", "vs#101", "Lvd20000"};
      lv.insert(lv.end(), more.begin(), more.end());
    }
    const char LOC[3] = {'c', 'g', 'd'};
    for (const char *v : lv)
      for (char X : LOC) for (char Y : LOC)
        for (int pl : {0, 3}) {
          if (pl == 3 && !thorough) continue;
          H.push_back({Gop(X), Wop(pl / 2, pl % 2, v), Gop(Y)});
        }
    // a list written under one locale replaced by a list written under another, read under a third
    std::vector<std::pair<const char *, const char *>> ow = {{"q#12", "q#1001b"}};
    if (thorough) { ow.push_back({"q#1001", "q#12b"}); ow.push_back({"q#1001", "q#1001b"}); ow.push_back({"t#12", "t#101b"}); }
    for (auto &pr : ow)
      for (char X : LOC) for (char Y : LOC) for (char Z : LOC) {
        if (!thorough && !(X != Y || Y != Z)) continue;
        H.push_back({Gop(X), Wop(0, 1, pr.first), Gop(Y), Wop(0, 1, pr.second), Gop(Z)});
      }
  }
  long long states = 0, transitions = 0;
  std::set<std::string> seen;
  std::vector<long long> mine;
  for (long long i = 0; i < (long long)H.size(); i++) if (a.mine((long long)(bsx::fnv(phiststr(H[i])) % 1000003ull))) mine.push_back(i);
  for (long long i : mine) {
    const auto &h = H[i];
    bsx::Outcome o;
    *g_step = -2;
    bsx::contained(
        0, 1,
        [&](long long) {
          if (!g_silenced) { g_silenced = true; int fd = open("/dev/null", O_WRONLY); if (fd >= 0) { dup2(fd, 2); close(fd); } }
          return run_proc(h, "p" + std::to_string(i));
        },
        [&](long long, const bsx::Outcome &r) { o = r; }, 120);
    R.eval(); transitions++;
    std::string cas = phiststr(h);
    if (!o.ok) {
      ::remove(("p" + std::to_string(i) + "_A.h5").c_str()); ::remove(("p" + std::to_string(i) + "_B.h5").c_str());
      if (o.key == "fatal") { o.key = proc_fatal_key(h, *g_step); o.what += " at step marker " + std::to_string(*g_step) + "  [" + cas + "]"; R.counters["children_killed_by_sanitizer_or_signal"]++; }
      R.fail(o.key, o.what, cas);
      R.counters["failing_histories"]++;
      continue;
    }
    if (seen.insert(o.extra).second) { states++; R.cls(o.cls); if ((states % 37) == 5) R.sample(cas + " -> state " + o.extra); }
  }
  R.counters["histories"] = (long long)mine.size();
  R.states = states; R.transitions = transitions; R.traces = transitions;
  R.assumptions = {
      "every history runs in a process of its own, so that what a table creation leaves behind in libhdf5's process-wide state can only affect its own history",
      "compact tables are kept below libhdf5's 64 KiB limit for compact datasets (2 rows; 500 rows = 60 000 bytes); a compact table above the limit is refused by libhdf5 and not part of the space",
      "the public-constructor route writes the table under a name that is still free (CptTable::initialize does not replace an existing dataset)",
      "only the C++ global locale (std::locale::global with an unnamed facet locale) is varied; the C locale (setlocale) stays \"C\"; map<T1,vector<T2>> has a writer but no reader and is not round-tripped"};
  if (!R.write(a.out)) { fprintf(stderr, "cannot write %s\n", a.out.c_str()); return 2; }
  return 0;
}

// ====================================================================== family "tobj"
// Operation histories on ONE CptTable object.  Every other family uses a table object for exactly one kind of call
// (whole table, OR row by row, OR two chunks); what a call leaves behind IN THE OBJECT (the selection of its member
// dataspace, its dataset handle) can only show when calls of different kinds follow each other on the same object.
//   side w: the table comes from CheckpointWriter::openTable<StaticSite>("t",N) on a CREATE file (rows not yet written)
//   side m: a file holding a completely written N-row table is opened MODIFY, the table comes from CheckpointReader::openTable
//   side r: the same through a READ handle (every write must be rejected, the file bytes must not change)
//   WV  table.write(vector of N rows)          RV  table.read(vector of N rows)
//   WR:k  table.writeToRow(&row,k)             RR:k  table.readFromRow(&row,k)
//   WC:s:e  table.write(buf,s,e)               RC:s:e  table.read(buf,s,e)          (buf = rows s..e-1, 0 <= s < e <= N)
//   WE:s:e / RE:s:e  the same calls with e > N: the range leaves the table, the call must be rejected (error) and change nothing
// Every write carries rows that occur nowhere else in the history (content = function of step and row index).
struct TOp { char dir; char shape; int s, e; };
static std::string topstr(const TOp &o) {
  std::string s; s += o.dir; s += o.shape;
  if (o.shape == 'V') return s;
  if (o.shape == 'R') return s + ":" + std::to_string(o.s);
  return s + ":" + std::to_string(o.s) + ":" + std::to_string(o.e);
}
static std::string thiststr(char side, int N, const std::vector<TOp> &ops) {
  std::string s = std::string("fam=tobj;side=") + side + ";n=" + std::to_string(N) + ";ops=";
  for (size_t k = 0; k < ops.size(); k++) s += (k ? "," : "") + topstr(ops[k]);
  return s;
}
static bool parse_thist(const std::string &cas, char &side, int &N, std::vector<TOp> &ops) {
  auto m = bsx::kvs(cas);
  if (m["side"].size() != 1 || std::string("wmr").find(m["side"][0]) == std::string::npos) return false;
  side = m["side"][0];
  N = atoi(m["n"].c_str());
  if (N < 1 || N > 64) return false;
  ops.clear();
  if (m["ops"].empty()) return true;
  for (auto &t : bsx::split(m["ops"], ',')) {
    auto f = bsx::split(t, ':');
    if (f[0].size() != 2 || (f[0][0] != 'W' && f[0][0] != 'R')) return false;
    TOp o{f[0][0], f[0][1], 0, N};
    if (o.shape == 'V') { if (f.size() != 1) return false; }
    else if (o.shape == 'R') { if (f.size() != 2) return false; o.s = atoi(f[1].c_str()); o.e = o.s + 1; if (o.s < 0 || o.s >= N) return false; }
    else if (o.shape == 'C' || o.shape == 'E') {
      if (f.size() != 3) return false;
      o.s = atoi(f[1].c_str()); o.e = atoi(f[2].c_str());
      if (o.s < 0 || o.e <= o.s || o.e > N + 64) return false;
      if ((o.shape == 'C') != (o.e <= N)) return false;
    } else return false;
    ops.push_back(o);
  }
  return true;
}
static Row tobj_row(int st, int k) {  // st = -1: the content the prepared file of sides m,r starts with
  std::string el = st < 0 ? "p" + std::to_string(k) : "s" + std::to_string(st) + "r" + std::to_string(k);
  return mkrow(1000L * (st + 1) + k + 1, el, 0.5 * (st + 1) + double(k) + 0.125);
}
static void row_to_data(const Row &r, StaticSite::data &d) {  // d.element points into r
  d.id = r.id; d.element = const_cast<char *>(r.el.c_str());
  d.posX = r.pos[0]; d.posY = r.pos[1]; d.posZ = r.pos[2]; d.rank = r.rank;
  d.Q00 = r.q[0]; d.Q11c = r.q[1]; d.Q11s = r.q[2]; d.Q10 = r.q[3]; d.Q20 = r.q[4]; d.Q21c = r.q[5]; d.Q21s = r.q[6]; d.Q22c = r.q[7]; d.Q22s = r.q[8];
}
static Row data_to_row(const StaticSite::data &d) {
  Row q; q.id = d.id; q.el = d.element ? std::string(d.element) : std::string("<null>");
  q.pos[0] = d.posX; q.pos[1] = d.posY; q.pos[2] = d.posZ; q.rank = d.rank;
  q.q[0] = d.Q00; q.q[1] = d.Q11c; q.q[2] = d.Q11s; q.q[3] = d.Q10; q.q[4] = d.Q20; q.q[5] = d.Q21c; q.q[6] = d.Q21s; q.q[7] = d.Q22c; q.q[8] = d.Q22s;
  return q;
}
static StaticSite::data tobj_sentinel() {  // what a target entry holds before a read; occurs in no stored row
  StaticSite::data d;
  d.id = -999; d.element = nullptr; d.posX = d.posY = d.posZ = -999.25; d.rank = -999;
  d.Q00 = d.Q11c = d.Q11s = d.Q10 = d.Q20 = d.Q21c = d.Q21s = d.Q22c = d.Q22s = -999.25;
  return d;
}
static std::string canon_row1(const Row &r) { return canon_rows(std::vector<Row>{r}).substr(7); }
static bool tobj_whole(int N, const TOp &o) { return o.shape != 'E' && o.e - o.s == N; }  // N == 1: writeToRow(0) IS the whole table
static std::string tobj_opclass(int N, const TOp &o) {
  std::string d = o.dir == 'W' ? "write" : "read";
  if (o.shape == 'E') return "outofrange-" + d;
  return (tobj_whole(N, o) ? "whole-" : "subrange-") + d;
}
// what the object went through before op #step: a proper sub-range call / only rejected out-of-range calls / only whole-table calls / nothing
static std::string tobj_prior(int N, const std::vector<TOp> &ops, int step) {
  bool sub = false, rej = false, whole = false;
  for (int k = 0; k < step && k < (int)ops.size(); k++) {
    if (ops[k].shape == 'E') rej = true;
    else if (tobj_whole(N, ops[k])) whole = true;
    else sub = true;
  }
  return sub ? "after-subrange" : (rej ? "after-rejected-range" : (whole ? "after-whole" : "first"));
}
// narrow class key from an explicit predicate on the history: class of the failing call + what preceded it on the same object
static std::string tobj_key(char /*side*/, int N, const std::vector<TOp> &ops, int step, const std::string &sym) {
  if (step < 0 || step >= (int)ops.size()) return "table-object-history-" + sym;
  const TOp &op = ops[step];
  std::string cls = tobj_opclass(N, op), prior = tobj_prior(N, ops, step);
  if (sym == "accepted") return std::string("table-object-history-") + (op.shape == 'E' ? cls : "readonly-" + cls) + "-accepted-" + prior;
  if (sym == "crash") return "table-object-history-crash-in-" + cls + "-" + prior;
  if (sym == "final") return "table-object-history-final-content-differs-after-" + cls;
  return "table-object-history-" + cls + "-" + prior;
}
static std::string tobj_fatal_key(char side, int N, const std::vector<TOp> &ops, int step) {
  if (step >= 950) return "table-object-history-crash-in-final-read";
  if (step == 900) return "table-object-history-crash-releasing-table";
  if (step >= 0 && step < (int)ops.size()) return tobj_key(side, N, ops, step, "crash");
  return "table-object-history-crash-in-setup";
}

static bsx::Outcome run_tobj(char side, int N, const std::vector<TOp> &ops, const std::string &file) {
  bsx::Outcome o;
  std::string cas = thiststr(side, N, ops);
  auto failwith = [&](const std::string &key, const std::string &what) {
    o.ok = false; o.key = key; o.what = what + "  [" + cas + "]";
    ::remove(file.c_str());
    return o;
  };
  H5::Exception::dontPrint();
  ::remove(file.c_str());
  std::vector<Row> model(N);   // the reference: a plain vector of rows
  std::string prov(N, 'u');    // per row: u never written, i initial content, v/r/c last written by a whole-table / row / chunk call
  const StaticSite::data SENT = tobj_sentinel();
  const std::string sidetxt = side == 'w' ? "table from CheckpointWriter::openTable (CREATE file)"
                                          : (side == 'm' ? "table from CheckpointReader::openTable (MODIFY file)" : "table from CheckpointReader::openTable (READ file)");
  long n_reads = 0, n_writes = 0, n_rejected = 0, n_unwritten = 0;
  // whole table through a FRESH table object of file handle f, compared with the model (never-written rows are not compared)
  auto compare_file = [&](CheckpointFile &f, std::string &msg) -> bool {
    std::vector<Row> got;
    try {
      CheckpointReader r = f.getReader("/");
      CptTable t2 = r.openTable<StaticSite>("t");
      std::vector<StaticSite::data> dv(t2.numRows(), SENT);
      t2.read(dv);
      for (auto &d : dv) { got.push_back(data_to_row(d)); if (d.element) free(d.element); }
    } catch (const std::exception &e) { msg = std::string("reading the whole table through a fresh table object threw: ") + clip(e.what()); return false; }
    catch (const H5::Exception &e) { msg = std::string("reading the whole table through a fresh table object threw H5::Exception: ") + clip(e.getDetailMsg()); return false; }
    if ((int)got.size() != N) { msg = "the table has " + std::to_string(got.size()) + " rows, expected " + std::to_string(N); return false; }
    std::string bad, first;
    for (int k = 0; k < N; k++) {
      if (prov[k] == 'u') continue;
      if (canon_row1(got[k]) != canon_row1(model[k])) {
        bad += (bad.empty() ? "" : ",") + std::to_string(k);
        if (first.empty()) first = "row " + std::to_string(k) + " holds " + clip(canon_row1(got[k])) + " expected " + clip(canon_row1(model[k]));
      }
    }
    if (bad.empty()) return true;
    msg = "rows " + bad + " of " + std::to_string(N) + " differ from the reference: " + first;
    return false;
  };
  std::string ro_snapshot;
  try {
    mark(-1);
    if (side != 'w') {  // prepared file: all N rows written by the usual whole-table call through an object of its own
      CheckpointFile f0(file, CheckpointAccessLevel::CREATE);
      CheckpointWriter w0 = f0.getWriter("/");
      CptTable t0 = w0.openTable<StaticSite>("t", N);
      std::vector<StaticSite::data> dv(N);
      for (int k = 0; k < N; k++) { model[k] = tobj_row(-1, k); prov[k] = 'i'; }
      for (int k = 0; k < N; k++) row_to_data(model[k], dv[k]);
      t0.write(dv);
    }
    if (side == 'r') ro_snapshot = slurp(file);
    std::unique_ptr<CheckpointFile> h(new CheckpointFile(file, side == 'w' ? CheckpointAccessLevel::CREATE : (side == 'm' ? CheckpointAccessLevel::MODIFY : CheckpointAccessLevel::READ)));
    std::unique_ptr<CptTable> T;  // THE object all ops of the history go through
    if (side == 'w') { CheckpointWriter w = h->getWriter("/"); T.reset(new CptTable(w.openTable<StaticSite>("t", N))); }
    else { CheckpointReader r = h->getReader("/"); T.reset(new CptTable(r.openTable<StaticSite>("t"))); }
    if ((int)T->numRows() != N) return failwith("table-object-history-numrows-differs", sidetxt + ": numRows() = " + std::to_string(T->numRows()) + ", expected " + std::to_string(N));
    for (size_t st = 0; st < ops.size(); st++) {
      const TOp &op = ops[st];
      mark((int)st);
      const int s = op.s, e = op.e, l = e - s;
      const bool oor = op.shape == 'E';
      const std::string call = topstr(op) + " (" + tobj_opclass(N, op) + ", " + tobj_prior(N, ops, (int)st) + " call on this object)";
      bool threw = false; std::string msg;
      if (op.dir == 'W') {
        std::vector<Row> nr(l);
        std::vector<StaticSite::data> dv(l);
        for (int k = 0; k < l; k++) { nr[k] = tobj_row((int)st, s + k); row_to_data(nr[k], dv[k]); }
        try {
          if (op.shape == 'V') T->write(dv);
          else if (op.shape == 'R') T->writeToRow(&dv[0], (size_t)s);
          else T->write(dv.data(), (size_t)s, (size_t)e);
        } catch (const std::exception &ex) { threw = true; msg = ex.what(); }
        catch (const H5::Exception &ex) { threw = true; msg = "H5::Exception " + ex.getDetailMsg(); }
        n_writes++;
        if (oor || side == 'r') {
          if (!threw) return failwith(tobj_key(side, N, ops, (int)st, "accepted"), sidetxt + ": " + call + (oor ? ": rows [" + std::to_string(s) + "," + std::to_string(e) + ") of a " + std::to_string(N) + "-row table were written without an error"
                                                                                                             : ": a write through a table of a READ file was not rejected"));
          n_rejected++;
        } else if (threw) {
          // side m: a table obtained from a READER may refuse to write (allowed, nothing must change); the writer's own table must accept
          if (side == 'w') return failwith(tobj_key(side, N, ops, (int)st, ""), sidetxt + ": " + call + " was rejected: " + clip(msg));
          n_rejected++;
        } else {
          for (int k = 0; k < l; k++) { model[s + k] = nr[k]; prov[s + k] = op.shape == 'V' ? 'v' : (op.shape == 'R' ? 'r' : 'c'); }
        }
        // the effect of this call, seen by a fresh table object on the same file handle
        std::string m2;
        if (!compare_file(*h, m2)) return failwith(tobj_key(side, N, ops, (int)st, ""), sidetxt + ": after " + call + (threw ? " (rejected)" : "") + " " + m2);
      } else {
        const int TN = std::max(N, e);
        std::vector<StaticSite::data> tv(TN, SENT);
        if (op.shape == 'V') tv.resize(N);
        bool unwritten = false;
        for (int k = s; k < e && k < N; k++) if (prov[k] == 'u') unwritten = true;
        try {
          if (op.shape == 'V') T->read(tv);
          else if (op.shape == 'R') T->readFromRow(&tv[s], (size_t)s);
          else T->read(&tv[s], (size_t)s, (size_t)e);
        } catch (const std::exception &ex) { threw = true; msg = ex.what(); }
        catch (const H5::Exception &ex) { threw = true; msg = "H5::Exception " + ex.getDetailMsg(); }
        n_reads++;
        std::vector<Row> got;
        std::vector<bool> touched;
        for (auto &d : tv) { touched.push_back(memcmp(&d, &SENT, sizeof d) != 0); got.push_back(data_to_row(d)); if (d.element) free(d.element); }
        if (oor) {
          if (!threw) return failwith(tobj_key(side, N, ops, (int)st, "accepted"), sidetxt + ": " + call + ": rows [" + std::to_string(s) + "," + std::to_string(e) + ") of a " + std::to_string(N) + "-row table were read without an error");
          n_rejected++;
          continue;
        }
        if (threw) {
          if (unwritten) { n_unwritten++; continue; }  // allowed: rows that were never written
          return failwith(tobj_key(side, N, ops, (int)st, ""), sidetxt + ": " + call + " threw although rows [" + std::to_string(s) + "," + std::to_string(e) + ") are stored: " + clip(msg));
        }
        std::string bad, first, spill;
        for (int k = 0; k < (int)got.size(); k++) {
          if (k >= s && k < e) {
            if (prov[k] == 'u') { n_unwritten++; continue; }
            if (canon_row1(got[k]) != canon_row1(model[k])) {
              bad += (bad.empty() ? "" : ",") + std::to_string(k);
              if (first.empty()) first = "entry " + std::to_string(k) + (touched[k] ? " holds " + clip(canon_row1(got[k])) : std::string(" was not filled in")) + ", stored row is " + clip(canon_row1(model[k]));
            }
          } else if (touched[k]) spill += (spill.empty() ? "" : ",") + std::to_string(k);
        }
        if (!bad.empty() || !spill.empty())
          return failwith(tobj_key(side, N, ops, (int)st, ""), sidetxt + ": " + call + " into a target of " + std::to_string(got.size()) + " entries: " +
                                                                   (bad.empty() ? "" : "entries " + bad + " differ from the stored rows: " + first + "; ") +
                                                                   (spill.empty() ? "" : "entries " + spill + " outside [" + std::to_string(s) + "," + std::to_string(e) + ") were changed"));
      }
    }
    mark(900);
    T.reset();
    h.reset();
    if (side == 'r' && slurp(file) != ro_snapshot) return failwith("table-object-history-readonly-file-bytes-changed", sidetxt + ": the file bytes changed while it was open read-only");
    mark(950);
    {
      CheckpointFile fresh(file, CheckpointAccessLevel::READ);
      std::string m2;
      if (!compare_file(fresh, m2))
        return failwith(ops.empty() ? std::string("table-object-history-initial-content-differs") : tobj_key(side, N, ops, (int)ops.size() - 1, "final"),
                        sidetxt + ": fresh READ handle after the table and its file were released: " + m2);
    }
  } catch (const std::exception &e) {
    return failwith("table-object-history-unexpected-exception", std::string("exception outside any checked call: ") + e.what());
  } catch (const H5::Exception &e) {
    return failwith("table-object-history-unexpected-exception", std::string("H5::Exception outside any checked call: ") + e.getDetailMsg());
  }
  ::remove(file.c_str());
  // state = content provenance + the object's last call (its range is what the member dataspace was last set to)
  o.extra = std::string("tobj:") + side + std::to_string(N) + "|" + prov + "|last=" + (ops.empty() ? std::string("-") : topstr(ops.back()));
  o.what = "rd=" + std::to_string(n_reads) + ";wr=" + std::to_string(n_writes) + ";rej=" + std::to_string(n_rejected) + ";unw=" + std::to_string(n_unwritten);
  o.cls = bsx::fnv(o.extra);
  return o;
}

// the op alphabet of one (side, N): simplest first
static std::vector<TOp> tobj_alphabet(char side, int N) {
  std::vector<int> rows;
  if (N <= 3) for (int k = 0; k < N; k++) rows.push_back(k);
  else { rows = {0, N / 3, N - 1}; }
  std::vector<std::pair<int, int>> chunks;  // proper chunks of >= 2 rows (one-row chunks are the row calls, [0,N) is the whole-table call)
  if (N == 3) chunks = {{0, 2}, {1, 3}};
  else if (N >= 4) chunks = {{0, N - 2}, {N - 2, N}, {1, N / 2}};
  const int es = std::max(0, N - 2), ee = N + 3;  // straddles the end of the table
  std::vector<TOp> r;
  r.push_back({'W', 'V', 0, N});
  r.push_back({'R', 'V', 0, N});
  if (side == 'r') {  // every write is rejected alike: one whole-table, one row, one out-of-range attempt
    r.push_back({'W', 'R', N - 1, N});
    for (int k : rows) r.push_back({'R', 'R', k, k + 1});
    for (auto &c : chunks) r.push_back({'R', 'C', c.first, c.second});
  } else {
    for (int k : rows) { r.push_back({'W', 'R', k, k + 1}); r.push_back({'R', 'R', k, k + 1}); }
    for (auto &c : chunks) { r.push_back({'W', 'C', c.first, c.second}); r.push_back({'R', 'C', c.first, c.second}); }
  }
  r.push_back({'R', 'E', es, ee});
  r.push_back({'W', 'E', es, ee});
  return r;
}

struct TCand { char side; int N; std::vector<TOp> ops; };
static int main_tobj(bsx::Args &a) {
  if (a.has_case) {
    char side; int N; std::vector<TOp> ops;
    if (!parse_thist(a.cas, side, N, ops)) { fprintf(stderr, "bad case string\n"); return 2; }
    bsx::Outcome o;
    *g_step = -2;
    bsx::contained(0, 1, [&](long long) { return run_tobj(side, N, ops, "case.h5"); }, [&](long long, const bsx::Outcome &r) { o = r; });
    ::remove("case.h5");
    if (o.ok) { printf("case holds\n"); return 0; }
    if (o.key == "fatal") { o.key = tobj_fatal_key(side, N, ops, *g_step); o.what += " at step marker " + std::to_string(*g_step); }
    printf("case FAILS: key=%s %s\n", o.key.c_str(), o.what.c_str());
    return 3;
  }
  // libhdf5 allocates (and, with its default free-list limits, gives back) ~1 MiB conversion and background buffers in every
  // table read/write; under ASan each of them is an mmap/munmap + page faults (2-3 ms per call).  Letting libhdf5 keep its
  // freed blocks changes nothing the code under test can see and makes a history 4-5x cheaper.
  H5set_free_list_limits(-1, -1, -1, -1, -1, -1);
  if (a.kv.count("bench")) {  // timing aid: --family tableobj --bench N --hist "<case>"
    char side; int N; std::vector<TOp> ops;
    if (!parse_thist(a.kv["hist"], side, N, ops)) { fprintf(stderr, "bad case string\n"); return 2; }
    int n = atoi(a.kv["bench"].c_str());
    auto t0 = std::chrono::steady_clock::now();
    for (int k = 0; k < n; k++) { auto o = run_tobj(side, N, ops, "bench.h5"); if (!o.ok) { printf("fails %s\n", o.what.c_str()); break; } }
    printf("%.3f ms wall, %.3f ms cpu per history\n", 1e3 * std::chrono::duration<double>(std::chrono::steady_clock::now() - t0).count() / n, 1e3 * double(clock()) / CLOCKS_PER_SEC / n);
    return 0;
  }
  bsx::Report R;
  R.property = "C17"; R.part = "tob"; R.tier = a.tier;
  bool thorough = a.tier == "thorough";
  const int maxdepth = thorough ? 4 : 3;
  const std::vector<int> NS = {1, 2, 3, 6};
  const std::string SIDES = "wmr";
  R.rule = "ALL operation histories of length <= " + std::to_string(maxdepth) + " on ONE CptTable<StaticSite> object (own HDF5 file per history, forked children, ASan/UBSan), for table sizes N in {1,2,3,6} and three "
           "kinds of object: w = from CheckpointWriter::openTable(name,N) on a CREATE file (rows not yet written), m = from CheckpointReader::openTable on a MODIFY handle of a file that holds the N rows, "
           "r = the same on a READ handle. Alphabet: write(vector of N rows), read(vector of N rows), writeToRow(k), readFromRow(k) (every k for N <= 3; k in {0,2,5} for N = 6), chunk write(buf,s,e) / read(buf,s,e) "
           "([0,2),[1,3) for N = 3; [0,4),[4,6),[1,3) for N = 6), and an out-of-range read / write [N-2,N+3) that must be rejected; on r the writes are one whole-table, one row and one out-of-range attempt "
           "(all must be rejected). 6/8/14/16 ops per N on w and m, 6/7/10/11 on r; no state merging: every sequence is replayed. Every write carries rows that occur nowhere else in the history. "
           "Oracle: reference model = a plain vector of rows updated per accepted write; after every read the entries of the target inside the range equal the model rows bit for bit and every entry outside "
           "it still holds the sentinel it was filled with; after every write (accepted or rejected) a fresh table object on the same file handle reads the whole table = the model; out-of-range calls "
           "and writes on r must throw and change nothing; at the end the table and the file are released and a FRESH read-only handle reads the whole table = the model (r: file bytes unchanged). "
           "Allowed: a write through a reader's table on m may be refused (then nothing changes); rows of w that were never written are not compared, a read that covers such rows may throw. "
           "Histories are extended only from passing histories, so a failure is attributed to the last call; key = class of that call (whole/subrange/outofrange x read/write) + what the object saw before "
           "(a proper sub-range call / only rejected ranges / only whole-table calls / nothing). state (counted, not merged) = kind of object, N, per-row provenance, the object's last call";

  std::map<std::string, std::vector<TOp>> ALPH;
  for (char sd : SIDES) for (int N : NS) ALPH[std::string(1, sd) + std::to_string(N)] = tobj_alphabet(sd, N);
  long long states = 0, transitions = 0;
  std::set<std::string> seen;
  std::vector<TCand> frontier;
  auto count_aux = [&](const std::string &aux) {
    auto m = bsx::kvs(aux);
    R.counters["read_calls_checked"] += atoll(m["rd"].c_str());
    R.counters["write_calls_checked"] += atoll(m["wr"].c_str());
    R.counters["calls_rejected_as_required_or_allowed"] += atoll(m["rej"].c_str());
    R.counters["reads_touching_never_written_rows_not_compared"] += atoll(m["unw"].c_str());
  };
  auto evaluate = [&](const std::vector<TCand> &cand, int depth, bool count, std::vector<TCand> &next) {
    const long long n = (long long)cand.size(), BATCH = 256;
    for (long long pos = 0; pos < n; pos += BATCH) {
      long long hi = std::min(n, pos + BATCH);
      bsx::contained(
          pos, hi,
          [&](long long i) {
            if (!g_silenced) { g_silenced = true; int fd = open("/dev/null", O_WRONLY); if (fd >= 0) { dup2(fd, 2); close(fd); } }
            *g_step = -2;
            return run_tobj(cand[i].side, cand[i].N, cand[i].ops, "t" + std::to_string(depth) + "_" + std::to_string(i) + ".h5");
          },
          [&](long long i, const bsx::Outcome &res) {
            bsx::Outcome o = res;
            const TCand &c = cand[i];
            if (count) { R.eval(); transitions++; }
            std::string cas = thiststr(c.side, c.N, c.ops);
            if (!o.ok) {
              ::remove(("t" + std::to_string(depth) + "_" + std::to_string(i) + ".h5").c_str());
              if (o.key == "fatal") { o.key = tobj_fatal_key(c.side, c.N, c.ops, *g_step); o.what += " at step marker " + std::to_string(*g_step) + "  [" + cas + "]"; if (count) R.counters["children_killed_by_sanitizer_or_signal"]++; }
              if (count) { R.fail(o.key, o.what, cas); R.counters["failing_histories"]++; }
              return;
            }
            next.push_back(c);
            if (!count) return;
            count_aux(o.what);
            R.counters[std::string("histories_side_") + c.side]++;
            // the mixed sequences no other family has: a whole-table call after a proper sub-range call / after a rejected range, on the same object
            bool sub = false, rej = false, ws = false, wr = false;
            for (auto &op : c.ops) {
              if (tobj_whole(c.N, op)) { if (sub) ws = true; if (rej) wr = true; }
              else if (op.shape == 'E') rej = true;
              else sub = true;
            }
            if (ws) R.counters["histories_with_whole_table_call_after_subrange_call"]++;
            if (wr) R.counters["histories_with_whole_table_call_after_rejected_range"]++;
            if (seen.insert(o.extra).second) { states++; R.cls(o.cls); if ((states % 41) == 9) R.sample(cas + " -> state " + o.extra); }
          },
          60);
    }
    if (count) R.counters["depth" + std::to_string(depth) + "_histories"] += n;
  };
  {  // depth 0: every shard evaluates it, shard 0 counts it
    std::vector<TCand> c0;
    for (char sd : SIDES) for (int N : NS) c0.push_back({sd, N, {}});
    evaluate(c0, 0, a.shard == 0, frontier);
  }
  for (int depth = 1; depth <= maxdepth && !frontier.empty(); depth++) {
    std::vector<TCand> cand, next;
    for (auto &c : frontier)
      for (auto &op : ALPH[std::string(1, c.side) + std::to_string(c.N)]) { TCand n = c; n.ops.push_back(op); cand.push_back(n); }
    // sharding by the hash of kind of object, N and the first two calls (depth 1 is evaluated by every shard, counted by shard 0)
    if (depth >= 2) {
      std::vector<TCand> mine;
      for (auto &c : cand) if (a.mine((long long)(bsx::fnv(std::string(1, c.side) + std::to_string(c.N) + topstr(c.ops[0]) + "," + topstr(c.ops[1])) % 1000003ull))) mine.push_back(c);
      cand.swap(mine);
    }
    evaluate(cand, depth, depth >= 2 || a.shard == 0, next);
    frontier.swap(next);
  }
  R.states = states; R.transitions = transitions; R.traces = transitions;
  R.assumptions = {
      "CptTable::write/read(buffer,start,end): buffer points at row `start`; read(vector)/write(vector) are called with a vector of numRows() entries, as every xtp caller does",
      "a range that leaves the table (end > numRows) must be reported as an error and change neither the file nor what later calls on the object do; empty and reversed ranges are outside the alphabet",
      "a write through a table object obtained from a CheckpointReader on a MODIFY file may be refused (model unchanged); if it does not throw the rows must be stored",
      "rows of a freshly created table that were never written have no specified content: they are not compared and a read covering them may throw",
      "no state merging in this family: what a call leaves behind in the object is exactly the hidden state under test; the states counted are the abstraction (object kind, N, per-row provenance, last call)",
      "libhdf5's internal free lists are unlimited in this family (H5set_free_list_limits(-1,...)): recycles its 1 MiB conversion buffers instead of mmap/munmap under ASan; no effect on stored or returned data",
      "states are de-duplicated per shard; distinct_nontrivial is exact"};
  if (!R.write(a.out)) { fprintf(stderr, "cannot write %s\n", a.out.c_str()); return 2; }
  return 0;
}

int main(int argc, char **argv) {
  build_alphabet();
  build_sized();
  build_exprs();
  bsx::Args a = bsx::parse(argc, argv);
  g_step = (volatile int *)mmap(nullptr, 4096, PROT_READ | PROT_WRITE, MAP_SHARED | MAP_ANONYMOUS, -1, 0);
  if (g_step == MAP_FAILED) { perror("mmap"); return 2; }
  if (a.kv["family"] == "proc" || (a.has_case && a.cas.rfind("fam=proc", 0) == 0)) return main_proc(a);
  if (a.kv["family"] == "overlap" || (a.has_case && a.cas.rfind("fam=ovl", 0) == 0)) return main_overlap(a);
  if (a.kv["family"] == "tableobj" || (a.has_case && a.cas.rfind("fam=tobj", 0) == 0)) return main_tobj(a);
  if (a.kv.count("bench")) {  // timing aid: --bench N --hist "<case>"
    Cand c; parse_hist(a.kv["hist"], c.init, c.ops);
    int n = atoi(a.kv["bench"].c_str());
    bool ak = a.kv.count("allkinds") > 0;
    auto t0 = std::chrono::steady_clock::now();
    for (int k = 0; k < n; k++) { auto o = run_history(c.init, c.ops, "bench.h5", ak, 0); if (!o.ok) { printf("fails %s\n", o.what.c_str()); break; } }
    printf("%.3f ms wall, %.3f ms cpu per history\n", 1e3 * std::chrono::duration<double>(std::chrono::steady_clock::now() - t0).count() / n, 1e3 * double(clock()) / CLOCKS_PER_SEC / n);
    return 0;
  }
  if (a.has_case) {
    Cand c;
    if (!parse_hist(a.cas, c.init, c.ops)) { fprintf(stderr, "bad case string\n"); return 2; }
    c.mode = modeof(bsx::kvs(a.cas)["mode"]);
    bsx::Outcome o;
    *g_step = -2;
    bsx::contained(0, 1, [&](long long) { return run_history(c.init, c.ops, "case.h5", true, c.mode); }, [&](long long, const bsx::Outcome &r) { o = r; });
    ::remove("case.h5");
    if (o.ok) { printf("case holds\n"); return 0; }
    resolve(c.init, c.ops, o, *g_step);
    printf("case FAILS: key=%s %s\n", o.key.c_str(), o.what.c_str());
    return 3;
  }
  bsx::Report R;
  R.property = "C17"; R.part = "cpt"; R.tier = a.tier;
  bool thorough = a.tier == "thorough";

  // ---- op alphabets
  auto W = [&](char route, int name, int val) { Op o{}; o.kind = 'W'; o.route = route; o.loc = route_loc(route); o.name = name; o.val = val; return o; };
  auto O = [&](char l) { Op o{}; o.kind = 'O'; o.level = l; return o; };
  auto Rd = [&](int loc, int name) { Op o{}; o.kind = 'R'; o.loc = loc; o.name = name; return o; };
  std::vector<Op> full, deep, deeper;
  for (char rt : {'r', 'a', 'c', 'd'}) for (int nm = 0; nm < 2; nm++) for (int v = 0; v < NBASE; v++) full.push_back(W(rt, nm, v));
  for (char l : {'R', 'M', 'C'}) full.push_back(O(l));
  for (int loc = 0; loc < 3; loc++) for (int nm = 0; nm < 2; nm++) full.push_back(Rd(loc, nm));
  auto labels = [&](std::initializer_list<const char *> ls) { std::vector<int> r; for (auto l : ls) r.push_back(BYLABEL.at(l)); return r; };
  std::vector<int> Vdeep = labels({"i7", "dpi", "sa", "vd3", "vd1", "m2x3", "m3x2", "q2", "q1", "t2"});
  std::vector<int> Vdeeper = labels({"i7", "sa", "vd3", "vd1", "m2x3", "q2"});  // subset of Vdeep
  std::vector<int> Vdeepest = labels({"i7", "vd3", "vd1", "q2"});                 // subset of Vdeeper
  std::vector<Op> deepest;
  for (char rt : {'r', 'c', 'd'}) for (int nm = 0; nm < 2; nm++) for (int v : Vdeep) deep.push_back(W(rt, nm, v));
  for (char l : {'R', 'M', 'C'}) deep.push_back(O(l));
  for (int loc : {0, 2}) for (int nm = 0; nm < 2; nm++) deep.push_back(Rd(loc, nm));
  for (char rt : {'r', 'c'}) for (int nm = 0; nm < 2; nm++) for (int v : Vdeeper) deeper.push_back(W(rt, nm, v));
  for (char l : {'R', 'M', 'C'}) deeper.push_back(O(l));
  deeper.push_back(Rd(0, 0)); deeper.push_back(Rd(2, 1));
  for (char rt : {'r', 'c'}) for (int nm = 0; nm < 2; nm++) for (int v : Vdeepest) deepest.push_back(W(rt, nm, v));
  for (char l : {'R', 'M', 'C'}) deepest.push_back(O(l));
  deepest.push_back(Rd(0, 0)); deepest.push_back(Rd(2, 1));
  std::set<std::string> deepset, deeperset, deepestset;
  for (auto &op : deep) deepset.insert(opstr(op));
  for (auto &op : deeper) deeperset.insert(opstr(op));
  for (auto &op : deepest) deepestset.insert(opstr(op));
  auto allin = [&](const Cand &c, const std::set<std::string> &set) { for (auto &op : c.ops) if (!set.count(opstr(op))) return false; return true; };

  // quick: d1 full, d2 selected, d3 over `deeper`;  thorough: d1 full, d2 selected (wider), d3 over `deep`, d4 over `deepest`
  const std::vector<Op> &ops3 = thorough ? deep : deeper;
  const std::set<std::string> &set3 = thorough ? deepset : deeperset;
  R.rule = "explicit-state BFS over op histories W(path,name,value)/Reopen(READ|MODIFY|CREATE)/R(path,name) on a real HDF5 file (own file per history, forked children, ASan/UBSan on the "
           "harness and the xtp sources) from two initial handles (CREATE, MODIFY on a missing file); paths /, /a, /a/b (via openChild and via getWriter(\"/a/b\")), names x,y; " +
           std::to_string(NBASE) + " typed values (Index/int/unsigned/double/float/bool/string, vector<Index/int/double/string>, MatrixXd 0x0/3x0/0x3/1x4/4x1/1x1/2x3/3x2/3x3/37x53/"
           "non-contiguous block, MatrixXf, VectorXd, RowVectorXd, Vector3d, vector<Vector3d>, CptTable<StaticSite> rows 0/1/2). depth 1: all " + std::to_string(full.size()) +
           " ops (+ every write re-read into a pre-filled target); depth 2: " +
           (thorough ? "every value over every value on the same slot (all slots and routes), every reopen/read and every op of the reduced alphabet after every depth-1 state"
                     : "every value over every value on the same slot (/:x and /a/b:x), every reopen/read after every depth-1 state") +
           ", all pairs of the reduced alphabet (" + std::to_string(deep.size()) + " ops: values i7,dpi,sa,vd3,vd1,m2x3,m3x2,q2,q1,t2) from both starts; depth 3: " + std::to_string(ops3.size()) +
           "-op alphabet" + (thorough ? "; depth 4: " + std::to_string(deepest.size()) + "-op alphabet (i7,vd3,vd1,q2 on /:x,y and /a/b:x,y)" : " (i7,sa,vd3,vd1,m2x3,q2 on /:x,y and /a/b:x,y)") +
           ". Sizes phase: every container kind (vector<Index|int|double|string>, vector<Vector3d>, VectorXd, RowVectorXd, MatrixXd Nx2/2xN/Nx0/0xN, MatrixXf Nx2, tools::EigenSystem, "
           "CptTable<StaticSite> written whole / row by row with writeToRow / in two chunks / with compact=true) with N in {0,1,2,9,10,11,12,99,100,101" + std::string(thorough ? ",250,1001" : "") + "}, all elements distinct, on /:x and /a/b:x: "
           "single write (+ re-read into a pre-filled target; tables also re-read with readFromRow and chunked read), every size over every size with different content" +
           std::string(thorough ? ", the same with a MODIFY reopen in between" : "") +
           ". Expression phase: everything the MatrixBase overloads accept: storage order {ColMajor,RowMajor} x scalar {double,float,Index} x " + std::to_string(NEXPR) +
           " expression shapes of a 5x6 parent (plain, row(0), row(2), col(0), col(3), inner/edge blocks, left/right/top/bottom strips, 1xN and Nx1 blocks, the transpose of each, Maps with outer and "
           "inner+outer stride and their transposes, a vector, a vector segment and its transpose), all elements distinct; written fresh, over a 12x2 matrix and over another expression of another shape" +
           std::string(thorough ? ", with a MODIFY reopen in between, and re-read into a pre-filled target" : "") + "; reference = the expression evaluated element by element"
           ". Oracle: std::map model; after each history a fresh READ handle reads every slot: bit-identical payload+shape, "
           "error for never-written names (every kind at depth<=1, attribute/dataset/group kinds deeper), READ-handle writes rejected and file bytes unchanged. state = handle level + per-slot current "
           "value + set of storage signatures written since truncation; distinct_nontrivial = distinct states reached";

  long long states = 0, transitions = 0;
  std::set<std::string> seen;

  auto evaluate = [&](const std::vector<Cand> &cand, int depth, std::vector<Cand> *next, bool count = true) {
    const long long n = (long long)cand.size(), BATCH = 256;
    long long pos = 0;
    while (pos < n) {
      long long hi = std::min(n, pos + BATCH), first_skipped = -1;
      bsx::contained(
          pos, hi,
          [&](long long i) {
            bsx::Outcome o;
            if (g_poisoned) { o.extra = "SKIP"; return o; }
            if (!g_silenced) { g_silenced = true; int fd = open("/dev/null", O_WRONLY); if (fd >= 0) { dup2(fd, 2); close(fd); } }
            *g_step = -2;
            const Cand &c = cand[i];
            o = run_history(c.init, c.ops, "h" + std::to_string(depth) + "_" + std::to_string(i) + ".h5", depth <= 1, c.mode);
            // a compact table creation may leave process-wide libhdf5 state behind: such a history is the last one of its child
            for (auto &op : c.ops) if (op.kind == 'W' && ALPHA[op.val].compact) g_poisoned = true;
            return o;
          },
          [&](long long i, const bsx::Outcome &res) {
            if (res.ok && res.extra == "SKIP") { if (first_skipped < 0) first_skipped = i; return; }
            if (first_skipped >= 0) return;  // (cannot happen: everything after the first skip is skipped)
            const Cand &c = cand[i];
            bsx::Outcome o = res;
            if (count) { R.eval(); transitions++; }
            std::string cas = candstr(c);
            if (!o.ok) {
              ::remove(("h" + std::to_string(depth) + "_" + std::to_string(i) + ".h5").c_str());
              if (o.key == "fatal") { o.what += "  [" + cas + "]"; R.counters["children_killed_by_sanitizer_or_signal"]++; }
              resolve(c.init, c.ops, o, *g_step);
              R.fail(o.key, o.what, cas);
              R.counters["failing_histories"]++;
              return;
            }
            if (c.mode) return;
            if (seen.insert(o.extra).second) {
              if (count) { states++; R.cls(o.cls); }
              if (next) next->push_back(c);
              if (depth >= 2 && (states % 97) == 3) R.sample(cas + " -> state " + o.extra);
            }
          },
          60);
      pos = first_skipped >= 0 ? first_skipped : hi;
    }
  };

  // depth 0 + 1
  std::vector<Cand> d1;
  long long idx = 0;
  for (char init : {'C', 'M'}) {
    std::vector<Cand> c0{{init, {}}};
    evaluate(c0, 0, nullptr, a.shard == 0);  // every shard knows the initial states, shard 0 counts them
    for (auto &op : full) {
      // shard by a hash of the op (the alphabet has 4*16 values: plain round robin would give a shard the same values on every path)
      if (a.mine((long long)(bsx::fnv(opstr(op) + init + std::to_string(idx++)) % 1000003ull))) {
        d1.push_back({init, {op}});
        if (init == 'C' && op.kind == 'W' && op.route != 'd') d1.push_back({init, {op}, 1});
      }
    }
  }
  std::stable_partition(d1.begin(), d1.end(), [&](const Cand &c) { return allin(c, deepset); });
  std::vector<Cand> f1;
  evaluate(d1, 1, &f1);
  R.counters["depth1_histories"] = (long long)d1.size();

  // depth 2
  std::vector<Cand> d2, f2;
  for (auto &c : f1) {
    const Op &first = c.ops[0];
    bool first_deep = deepset.count(opstr(first)) > 0;
    for (auto &op : full) {
      bool op_deep = deepset.count(opstr(op)) > 0;
      bool take;
      take = first_deep && op_deep;
      if (c.init == 'C' && op.kind != 'W') take = true;
      if (thorough) {
        if (c.init == 'C' && op_deep) take = true;
        if (c.init == 'C' && first.kind == 'W' && op.kind == 'W' && first.loc == op.loc && first.name == op.name) take = true;
      } else {
        if (c.init == 'C' && first.kind == 'W' && op.kind == 'W' && first.name == 0 && op.name == 0 && op.route == first.route && (first.route == 'r' || first.route == 'c')) take = true;
      }
      if (take) d2.push_back({c.init, {first, op}});
    }
  }
  // histories inside the reduced alphabets first, so that they represent their states in the next frontier
  std::stable_partition(d2.begin(), d2.end(), [&](const Cand &c) { return allin(c, deepset); });
  std::stable_partition(d2.begin(), d2.end(), [&](const Cand &c) { return allin(c, deeperset); });
  std::stable_partition(d2.begin(), d2.end(), [&](const Cand &c) { return allin(c, deepestset); });
  evaluate(d2, 2, &f2);
  R.counters["depth2_histories"] = (long long)d2.size();

  // depth 3 (the MODIFY-created initial file is covered to depth 2)
  std::vector<Cand> d3, f3;
  for (auto &c : f2) {
    if (c.init != 'C' || !allin(c, set3)) continue;
    for (auto &op : ops3) { Cand n = c; n.ops.push_back(op); d3.push_back(n); }
  }
  std::stable_partition(d3.begin(), d3.end(), [&](const Cand &c) { return allin(c, deepestset); });
  evaluate(d3, 3, &f3);
  R.counters["depth3_histories"] = (long long)d3.size();

  if (thorough) {
    std::vector<Cand> d4;
    for (auto &c : f3) {
      if (!allin(c, deepestset)) continue;
      for (auto &op : deepest) { Cand n = c; n.ops.push_back(op); d4.push_back(n); }
    }
    evaluate(d4, 4, nullptr);
    R.counters["depth4_histories"] = (long long)d4.size();
  }

  // ---- sizes phase: container sizes across the decimal-name and small/large boundaries (see build_sized)
  {
    const int NS = thorough ? 12 : 10;
    std::vector<Cand> sz;
    auto push = [&](const Cand &c) {
      if (a.mine((long long)(bsx::fnv(candstr(c)) % 1000003ull))) sz.push_back(c);
    };
    for (char rt : {'r', 'c'})
      for (auto &g : SIZED) {
        for (size_t j = 0; j < g.variants.size(); j++)
          for (int k = 0; k < NS; k++) {
            int v = g.variants[j][k];
            if (v < 0) continue;
            push({'C', {W(rt, 0, v)}, 0});
            if (j == 0) push({'C', {W(rt, 0, v)}, 1});
            if (j == 0 && g.table) { push({'C', {W(rt, 0, v)}, 2}); push({'C', {W(rt, 0, v)}, 3}); }
          }
        for (int k1 = 0; k1 < NS; k1++)
          for (size_t j = 1; j < g.variants.size(); j++)
            for (int k2 = 0; k2 < NS; k2++) {
              if (g.variants[j][k2] < 0) continue;
              push({'C', {W(rt, 0, g.variants[0][k1]), W(rt, 0, g.variants[j][k2])}, 0});
              if (thorough) push({'C', {W(rt, 0, g.variants[0][k1]), O('M'), W(rt, 0, g.variants[j][k2])}, 0});
            }
      }
    evaluate(sz, 7, nullptr);
    R.counters["sizes_histories"] = (long long)sz.size();
  }

  // ---- expression phase: Eigen expression shape x storage order x scalar through the MatrixBase overload (see build_exprs)
  {
    std::vector<Cand> ex;
    auto push = [&](const Cand &c) { if (a.mine((long long)(bsx::fnv(candstr(c)) % 1000003ull))) ex.push_back(c); };
    const int plainother = BYLABEL.at("mc#12");                                     // a 12x2 double matrix
    std::vector<char> routes = {'r', 'c'};
    if (thorough) routes.push_back('a');
    for (char rt : routes)
      for (int v : EXPRVALS) {
        const Val &val = ALPHA[v];
        // another expression value of the same scalar and order but of another shape
        int otherexpr = BYLABEL.at(std::string("x") + val.scalar + (val.order ? "R" : "C") + "." + (dims(val) == "3x2" ? "plain" : "blk-inner"));
        push({'C', {W(rt, 0, v)}, 0});
        push({'C', {W(rt, 0, plainother), W(rt, 0, v)}, 0});
        push({'C', {W(rt, 0, otherexpr), W(rt, 0, v)}, 0});
        if (thorough) { push({'C', {W(rt, 0, plainother), O('M'), W(rt, 0, v)}, 0}); push({'C', {W(rt, 0, v)}, 1}); }
      }
    evaluate(ex, 8, nullptr);
    R.counters["expr_histories"] = (long long)ex.size();
  }

  R.states = states; R.transitions = transitions; R.traces = transitions;
  R.assumptions = {
      "a value is compared through a canonical string of its shape and raw payload bytes (NaN/-0.0/denormals bit-exact)",
      "a slot is read back with the C++ type it was last written with; reading with another type is not specified by the statement and not checked",
      "getWriter(\"/a/b\") while /a does not exist may be refused (then nothing must change); the openChild route must always work",
      "strings with embedded NUL are outside the alphabet (variable-length C strings)",
      "CptTable::write/read(buffer,start,end): buffer points at row `start` (the memory space has end-start rows), as writeToRow/readFromRow pass it",
      "ASan (memcpy/heap interceptors; libhdf5 itself is not instrumented) decides whether writer/reader stay inside the caller's buffers",
      "states are de-duplicated per shard; the per-shard sums of `states` may count a state reached in two shards twice, distinct_nontrivial is exact",
      "equal canonical state (current values + set of storage signatures ever written per slot + handle level) is assumed to imply equal future behaviour"};
  if (!R.write(a.out)) { fprintf(stderr, "cannot write %s\n", a.out.c_str()); return 2; }
  return 0;
}
