// C14 seam: replaces votca/tools/random.h inside the C14 harness only.
//
// KMCCalculator::Promotetime / ChooseHoppingDest (kmccalculator.cc, compiled from
// the source tree into the harness) draw their uniform number from
// tools::Random::rand_uniform(), a header-inline std::mt19937 wrapper.  The
// property is decided through the inverse-CDF identity on CHOSEN uniform numbers
// (0, 1-2^-53, ... - no sampling), so the uniform source is scripted here.  This
// header is force-included (-include) before anything else and pre-defines the
// include guard of the real header; nothing of the code under test is transcribed.
#pragma once
#define VOTCA_TOOLS_RANDOM_H
#include <random>
#include <stdexcept>
#include <vector>

#include "votca/tools/types.h"

namespace votca {
namespace tools {

class Random {
 public:
  void init(Index seed) {
    if (seed < 0) {
      throw std::runtime_error("seed integer must be positive.");
    }
  }
  // scripted "random" double from [0,1): the harness pushes the values to return
  double rand_uniform() {
    if (next_ >= script_.size()) {
      throw std::runtime_error("C14 seam: uniform script exhausted");
    }
    return script_[next_++];
  }
  void setMaxInt(Index maxint) { maxint_ = maxint; }
  Index rand_uniform_int() {
    if (next_int_ >= int_script_.size()) {
      throw std::runtime_error("C14 seam: integer script exhausted");
    }
    return int_script_[next_int_++];
  }

  // --- harness side
  void script(const std::vector<double>& u) {
    script_ = u;
    next_ = 0;
  }
  std::size_t consumed() const { return next_; }

 private:
  std::vector<double> script_;
  std::size_t next_ = 0;
  std::vector<Index> int_script_;
  std::size_t next_int_ = 0;
  Index maxint_ = 0;
};

}  // namespace tools
}  // namespace votca
