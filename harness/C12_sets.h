// C12_sets.h — the spline data-set alphabet shared by C12_spline.cc and C07_deriv.cc:
// grids (all sequences of spacings from {0.5,1,2}), ordinate vectors (all vectors over
// {-1,0,1,2}), spline factory, exact (hex) vector <-> string conversion.
#pragma once
#include <memory>
#include <stdexcept>
#include <string>
#include <vector>

#include "bsx.h"
#include "votca/tools/akimaspline.h"
#include "votca/tools/cubicspline.h"
#include "votca/tools/linspline.h"

namespace c12 {
using Vec = std::vector<double>;

// all grids with nk knots: first knot x0, spacings from the given alphabet (default {1,0.5,2}); uniform ones first
inline std::vector<Vec> grids(int nk, double x0, const Vec &S = Vec{1.0, 0.5, 2.0}) {
  std::vector<Vec> uni, non;
  std::vector<int> idx(nk - 1, 0), radix(nk - 1, (int)S.size());
  do {
    Vec g{x0};
    bool u = true;
    for (int k = 0; k < nk - 1; k++) {
      g.push_back(g.back() + S[idx[k]]);
      if (idx[k] != idx[0]) u = false;
    }
    (u ? uni : non).push_back(g);
  } while (bsx::next(idx, radix));
  uni.insert(uni.end(), non.begin(), non.end());
  return uni;
}

// all ordinate vectors over the alphabet (default {0,1,-1,2}) of length n (periodic: y[n-1] = y[0])
inline std::vector<Vec> ordinates(int n, bool periodic, const Vec &A = Vec{0.0, 1.0, -1.0, 2.0}) {
  int free_n = periodic ? n - 1 : n;
  std::vector<Vec> out;
  std::vector<int> idx(free_n, 0), radix(free_n, (int)A.size());
  do {
    Vec y(n);
    for (int k = 0; k < free_n; k++) y[k] = A[idx[k]];
    if (periodic) y[n - 1] = y[0];
    out.push_back(y);
  } while (bsx::next(idx, radix));
  return out;
}

inline std::unique_ptr<votca::tools::Spline> make(const std::string &type, bool periodic) {
  std::unique_ptr<votca::tools::Spline> s;
  if (type == "linear") s = std::make_unique<votca::tools::LinSpline>();
  else if (type == "cubic") s = std::make_unique<votca::tools::CubicSpline>();
  else if (type == "akima") s = std::make_unique<votca::tools::AkimaSpline>();
  else throw std::runtime_error("unknown spline type " + type);
  s->setBC(periodic ? votca::tools::Spline::splinePeriodic : votca::tools::Spline::splineNormal);
  return s;
}
inline int minknots(const std::string &type) { return type == "linear" ? 2 : (type == "cubic" ? 3 : 4); }

inline std::string vecstr(const Vec &v) {
  std::string s;
  for (size_t i = 0; i < v.size(); i++) s += (i ? "," : "") + bsx::hexd(v[i]);
  return s;
}
inline Vec parsevec(const std::string &s) {
  Vec v;
  if (s.empty()) return v;
  for (auto &t : bsx::split(s, ',')) v.push_back(bsx::unhex(t));
  return v;
}
inline std::string show(const Vec &v) {
  std::string s = "(";
  for (size_t i = 0; i < v.size(); i++) s += (i ? "," : "") + bsx::fmt(v[i]);
  return s + ")";
}
inline Eigen::VectorXd eig(const Vec &v) {
  Eigen::VectorXd e(v.size());
  for (size_t i = 0; i < v.size(); i++) e(i) = v[i];
  return e;
}
}  // namespace c12
