#!/usr/bin/env python3
"""C19 part 'calculus': table_integrate.pl and differentiation by the built csg_resample are inverse
to each other up to the discretisation error, and the flag column survives both.

forward  f --table_integrate.pl--> F --csg_resample --derivative--> D     demand D ~ f
backward y --csg_resample --derivative (linear)--> D --table_integrate.pl--> G   demand G ~ y - y(zero point)

Derived bounds (h = grid step, m_k = (f_k+f_{k+1})/2 = slope of F on interval k, trapezoid rule):
  linear : D_j is the slope of an interval adjacent to node j           -> D_j in hull(m_{j-1}, m_j)
  akima  : node slope = convex combination of the two adjacent interval slopes; the end nodes use a
           quadratic extrapolation (slope 2 m_0 - m_1)                   -> |D_0 - m_0| <= |m_1 - m_0| (same at the right end)
  cubic  : natural spline, S'(x_j) = m_j - h (2 M_j + M_{j+1})/6, |M| <= 3 max|F''_discrete| (diagonal dominance)
                                                                         -> |D_j - f_j| <= 2 max_k |f_{k+1} - f_k|
  backward (linear): every trapezoid piece errs by at most h (|m_k - m_{k-1}| + |m_{k+1} - m_k|)/2
csg_resample prints 10 digits: 1e-9 relative tolerance on top.

Case string:  calc|dir=fwd,type=linear,from=left|a|y,y,..;flags
"""
import sys, os, itertools, subprocess, shutil, time

sys.path.insert(0, os.path.join(os.environ.get("VERIF_ROOT", os.path.join(os.path.dirname(os.path.abspath(__file__)), "..")), "lib"))
sys.path.insert(0, os.path.dirname(os.path.abspath(__file__)))
import pybsx
import importlib.util

_spec = importlib.util.spec_from_file_location("c19_tables", os.path.join(os.path.dirname(os.path.abspath(__file__)), "C19_tables.py"))
T = importlib.util.module_from_spec(_spec)
_spec.loader.exec_module(T)

Y = T.Y
PTOL = 1e-9


def resample(infile, outfile, derfile, xs, typ):
    exe = pybsx.exe("csg_resample")
    for f in (outfile, derfile):
        if os.path.exists(f):
            os.remove(f)
    g = "%s:%s:%s" % (xs[0], repr(float(xs[1]) - float(xs[0])), xs[-1])
    for attempt in range(8):
        rc, so, se = T.spawn_patient([exe, "--in", infile, "--out", outfile, "--derivative", derfile, "--grid", g, "--type", typ],
                                     None, 120, subprocess.STDOUT)
        log = so.decode(errors="replace")[-300:]
        if rc in (126, 127) and "shared libraries" in log:
            time.sleep(3)        # the dynamic loader met a library that is being re-linked by a concurrent build: not a result
            continue
        break
    return rc, log


# ---------------------------------------------------------------- flag column through csg_resample on long grids
# csg_resample builds its output grid by repeated r += step, which drifts by some ulps from the decimal x of the input
# file once |x| ~ 1 or after a few dozen additions; the flag of input row i must still arrive at output row i.
RGRIDS = {"r3": ("0", "0.1", "3"), "r15": ("0", "0.01", "1.5"), "r12": ("0", "0.002", "1.2"),
          "dih": ("-3.14", "0.02", "3.14"), "ang": ("0", "0.01", "3.14")}
YCYC = ["0", "0.5", "1", "2", "1e-11"]


def rgrid(gk):
    lo, st, hi = (float(v) for v in RGRIDS[gk])
    n = int(round((hi - lo) / st)) + 1
    return ["%.10g" % (lo + k * st) for k in range(n)], st


def rflags(pattern, n):
    kind, _, arg = pattern.partition("@")
    if kind == "oi":
        k = int(arg)
        return "o" * k + "i" * (n - k)
    if kind == "io":
        k = int(arg)
        return "i" * k + "o" * (n - k)
    if kind == "u":                      # a hole of `len` rows flagged u starting at row k in an all-i table
        k, ln = (int(v) for v in arg.split("+"))
        return "i" * k + "u" * ln + "i" * (n - k - ln)
    if kind == "cyc":                    # every row differs from its neighbours: i,o,u,i,o,u,... shifted
        return "".join("iou"[(j + int(arg)) % 3] for j in range(n))
    raise ValueError(pattern)


def run_rflag(case, verbose=False):
    script, opts, gk, tabs = T.parsecase(case)
    pattern = tabs[0][1]
    xs, st = rgrid(gk)
    n = len(xs)
    flags = rflags(pattern, n)
    ys = [YCYC[k % 5] for k in range(n)]
    open("r_in.tab", "w").write("".join("%s %s %s\n" % (xs[k], ys[k], flags[k]) for k in range(n)))
    der = opts.get("der") == "1"
    for f in ("r_out.tab", "r_der.tab"):
        if os.path.exists(f):
            os.remove(f)
    cmd = [pybsx.exe("csg_resample"), "--in", "r_in.tab", "--out", "r_out.tab", "--grid", ":".join(RGRIDS[gk]), "--type", opts["type"]]
    if der:
        cmd += ["--derivative", "r_der.tab"]
    for attempt in range(8):
        rc, so, se = T.spawn_patient(cmd, None, 120, subprocess.STDOUT)
        log = so.decode(errors="replace")[-300:]
        if rc in (126, 127) and "shared libraries" in log:
            time.sleep(3)
            continue
        break
    if rc is None:
        return [("csg_resample-hang", "csg_resample did not terminate within 120 s and, re-run alone, within 1200 s")], "hang"
    if rc != 0:
        return [("resample-failed", "csg_resample rc=%d: %s" % (rc, log))], "died"
    fails = []
    moved = 0
    for who, path in (("out", "r_out.tab"),) + ((("derivative", "r_der.tab"),) if der else ()):
        if not os.path.exists(path):
            fails.append(("resample-%s-no-output" % who, "no table %s written" % path))
            continue
        rows = T.rows_of(open(path).read())
        if len(rows) != n or any(len(r) != 3 for r in rows):
            fails.append(("resample-%s-malformed-table" % who, "%d rows (input %d): %r" % (len(rows), n, rows[:3])))
            continue
        ox = [T.fl(r[0]) for r in rows]
        bad = []
        j = 0
        for i in range(n):                  # output row at nominally the same x: nearest, within step/2
            xi = float(xs[i])
            while j + 1 < n and abs(ox[j + 1] - xi) < abs(ox[j] - xi):
                j += 1
            if abs(ox[j] - xi) > st / 2:
                fails.append(("resample-%s-grid-changed" % who, "no output row within step/2 of x=%s" % xs[i]))
                break
            if rows[j][2] != flags[i]:
                bad.append((i, j))
            if who == "out" and abs(T.fl(rows[j][1]) - float(ys[i])) > 1e-8:
                fails.append(("resample-same-grid-not-identity", "x=%s: y=%s, input %s" % (xs[i], rows[j][1], ys[i])))
                break
        if bad:
            i, j = bad[0]
            moved += len(bad)
            nb = flags[i + 1] if i + 1 < n else "-"
            fails.append(("resample-%s-flag-moved-on-long-grid" % who,
                          "grid %s, flags %s: %d row(s) carry the wrong flag, first at x=%s: output flag %s, input flag %s (next input row has %s)"
                          % (":".join(RGRIDS[gk]), pattern, len(bad), xs[i], rows[j][2], flags[i], nb)))
        if verbose:
            print(who, "first rows:", rows[:4], "... mismatches:", bad[:10])
    return fails, ("rflag", gk, opts["type"], der, pattern.partition("@")[0])


def gen_rflag(tier):
    th = tier == "thorough"
    for gk in (("r3", "r15", "r12", "dih", "ang") if th else ("r3", "r15")):
        n = len(rgrid(gk)[0])
        pats = ["cyc@0", "cyc@1", "cyc@2"]
        pats += ["oi@%d" % k for k in range(1, n)] + ["io@%d" % k for k in range(1, n)]       # every border position
        pats += ["u@%d+1" % k for k in range(1, n - 1)]                                       # hole start at k, end at k+1
        if th or gk == "r3":
            pats += ["u@%d+3" % k for k in range(1, n - 3)]
        full = th or gk == "r3"
        combos = [("linear", "1"), ("akima", "1"), ("cubic", "1"), ("linear", "0")] + ([("akima", "0"), ("cubic", "0")] if full and gk in ("r3", "r15") else [])
        for pat in pats:
            for typ, d in combos:
                yield T.mkcase("rflag", dict(type=typ, der=d), gk, [[["p"], pat]])


def integrate(infile, outfile, frm):
    if os.path.exists(outfile):
        os.remove(outfile)
    rc, so, se = T.spawn_patient([T.PERL, os.path.join(T.SDIR, T.FILES["integrate"]), "--from", frm, infile, outfile],
                                 T.perl_env(), 120)
    return rc, se.decode(errors="replace")[-300:]


def table_rows(path, n, xs, flags, fails, who):
    if not os.path.exists(path):
        fails.append((who + "-no-output", "no table %s written" % path))
        return None
    rows = T.rows_of(open(path).read())
    if len(rows) != n or any(len(r) != 3 for r in rows):
        fails.append((who + "-malformed-table", "%s: %r" % (path, rows[:8])))
        return None
    for k, r in enumerate(rows):
        if abs(T.fl(r[0]) - float(xs[k])) > 1e-9:
            fails.append((who + "-grid-changed", "row %d x=%s expected %s" % (k, r[0], xs[k])))
            return None
    got = "".join(r[2] for r in rows)
    if got != flags:
        fails.append((who + "-flag-column", "flags %s, input %s" % (got, flags)))
    return rows


def in_hull(v, a, b, tol):
    return min(a, b) - tol <= v <= max(a, b) + tol


def run_case(case, verbose=False):
    if case.startswith("rflag|"):
        return run_rflag(case, verbose)
    script, opts, g, tabs = T.parsecase(case)
    ys, flags = tabs[0][0], tabs[0][1]
    n = len(ys)
    xs = T.grid(g, n)
    h = float(xs[1]) - float(xs[0])
    f = [float(v) for v in ys]
    typ, frm, direction = opts["type"], opts["from"], opts["dir"]
    fails = []
    open("c_in.tab", "w").write(T.tabtext(g, tabs[0]))
    tol = PTOL * (1.0 + max(abs(v) for v in f)) * 4
    if direction == "fwd":
        rc, err = integrate("c_in.tab", "c_F.tab", frm)
        if rc is None:
            return [("integrate-hang", "table_integrate.pl did not terminate within 120 s and, re-run alone, within 1200 s")], "hang"
        if rc != 0:
            return [("integrate-script-died", err)], "died"
        Frows = table_rows("c_F.tab", n, xs, flags, fails, "integrate")
        if Frows is None:
            return fails, "died"
        rc, log = resample("c_F.tab", "c_R.tab", "c_D.tab", xs, typ)
        if rc is None:
            return [("csg_resample-hang", "csg_resample did not terminate within 120 s and, re-run alone, within 1200 s")], "hang"
        if rc != 0:
            return [("resample-failed", "csg_resample rc=%d: %s" % (rc, log))], "died"
        R = table_rows("c_R.tab", n, xs, flags, fails, "resample")
        D = table_rows("c_D.tab", n, xs, flags, fails, "derivative")
        if R is None or D is None:
            return fails, "died"
        if verbose:
            print("F:", Frows, "\nR:", R, "\nD:", D)
        Fv = [T.fl(r[1]) for r in Frows]
        for k in range(n):
            if abs(T.fl(R[k][1]) - Fv[k]) > PTOL * (1 + sum(abs(v) for v in f)):
                fails.append(("resample-same-grid-not-identity", "row %d: %s vs integral %s" % (k, R[k][1], Frows[k][1])))
                break
        m = [(f[k] + f[k + 1]) / 2 for k in range(n - 1)]
        maxd = max(abs(f[k + 1] - f[k]) for k in range(n - 1))
        for j in range(n):
            d = T.fl(D[j][1])
            lo, hi = m[max(j - 1, 0)], m[min(j, n - 2)]
            if typ == "linear" or (typ == "akima" and 0 < j < n - 1):
                ok = in_hull(d, lo, hi, tol)
                bound = "hull(%g,%g)" % (lo, hi)
            elif typ == "akima":
                e = abs(m[1] - m[0]) if j == 0 else abs(m[n - 2] - m[n - 3])
                mm = m[0] if j == 0 else m[n - 2]
                ok = abs(d - mm) <= e + tol
                bound = "%g +- %g" % (mm, e)
            else:
                ok = abs(d - f[j]) <= 2 * maxd + tol
                bound = "%g +- %g" % (f[j], 2 * maxd)
            if not ok:
                fails.append(("derivative-of-integral-is-not-the-function", "%s/%s row %d: d/dx of the integral = %s, f = %s, discretisation bound %s"
                              % (typ, frm, j, D[j][1], ys[j], bound)))
                break
        sig = ("fwd", typ, frm, flags, "".join("%d" % (T.fl(r[1]) != 0) for r in D))
    else:
        rc, log = resample("c_in.tab", "c_R.tab", "c_D.tab", xs, typ)
        if rc is None:
            return [("csg_resample-hang", "csg_resample did not terminate within 120 s and, re-run alone, within 1200 s")], "hang"
        if rc != 0:
            return [("resample-failed", "csg_resample rc=%d: %s" % (rc, log))], "died"
        D = table_rows("c_D.tab", n, xs, flags, fails, "derivative")
        if D is None:
            return fails, "died"
        rc, err = integrate("c_D.tab", "c_G.tab", frm)
        if rc is None:
            return [("integrate-hang", "table_integrate.pl did not terminate within 120 s and, re-run alone, within 1200 s")], "hang"
        if rc != 0:
            return [("integrate-script-died", err)], "died"
        G = table_rows("c_G.tab", n, xs, flags, fails, "integrate")
        if G is None:
            return fails, "died"
        if verbose:
            print("D:", D, "\nG:", G)
        m = [(f[k + 1] - f[k]) / h for k in range(n - 1)]
        piece = []
        for k in range(n - 1):
            a = abs(m[k] - m[k - 1]) if k >= 1 else 0.0
            b = abs(m[k + 1] - m[k]) if k + 1 <= n - 2 else 0.0
            piece.append(h * (a + b) / 2)
        zero = 0 if frm == "left" else n - 1
        for j in range(n):
            lo, hi = min(j, zero), max(j, zero)
            bound = sum(piece[lo:hi])
            exp = f[j] - f[zero]
            gj = T.fl(G[j][1])
            if not abs(gj - exp) <= bound + tol * n:
                fails.append(("integral-of-derivative-is-not-the-function", "%s row %d: integral of dy/dx = %s, y - y(zero point) = %g, discretisation bound %g"
                              % (frm, j, G[j][1], exp, bound)))
                break
        sig = ("bwd", typ, frm, flags, "".join("%d" % (T.fl(r[1]) != 0) for r in G))
    return fails, sig


def gen(tier):
    th = tier == "thorough"
    fams = []
    for fs in ("iii", "iou", "uoi"):
        fams.append(T.values(3, Y, fs))
    fams.append(T.values(4, Y, "iiii"))
    if th:
        fams.append(T.values(4, Y, "ouio"))
        fams.append(T.values(7, ["0", "1", "2"], "iiiiiii"))
    else:
        fams.append(T.values(7, ["0", "2"], "oiiiiiu"))
    base = ["0.5", "1", "2", "2", "1", "0.5", "1"]
    one = [base]
    for p in range(7):
        for v in Y:
            if v != base[p]:
                one.append(base[:p] + [v] + base[p + 1:])
    fams.append([[y, "ioiuiii"] for y in one])
    for fam in fams:
        for t in fam:
            n = len(t[0])
            for typ, frm in (("linear", "left"), ("linear", "right"), ("cubic", "left"), ("akima", "left"), ("cubic", "right"), ("akima", "right")):
                if typ == "akima" and n < 4:
                    continue          # AkimaSpline needs 4 points
                if frm == "right" and typ != "linear" and not th:
                    continue
                yield T.mkcase("calc", dict(dir="fwd", type=typ, **{"from": frm}), "a", [t])
            for frm in ("left", "right"):
                yield T.mkcase("calc", dict(dir="bwd", type="linear", **{"from": frm}), "a", [t])


def main():
    a = pybsx.parse()
    if a.case is not None:
        print("case:", a.case)
        fails, sig = run_case(a.case, True)
        for key, what in fails:
            print("FAIL %s: %s" % (key, what))
        print("signature:", sig)
        sys.exit(3 if fails else 0)
    R = pybsx.Report("C19", "calculus", a.tier)
    R.rule = ("f over all 3-row ({0,1e-11,0.5,1,2}^3 x flags {iii,iou,uoi}) and 4-row tables, 7-row tables over {0,2}^7 (thorough {0,1,2}^7) "
              "and all one-cell deviations of a 7-row base; table_integrate.pl --from left|right then csg_resample --derivative "
              "--type linear|cubic|akima on the same grid (forward), and csg_resample --derivative (linear) then table_integrate.pl (backward); "
              "oracle: derived discretisation bounds (see file header) + 1e-9 print precision, flags and grid preserved by both tools. "
              "Distinct = (direction, type, from, flags, zero pattern of the result). "
              "Flag column on long grids (rflag): same-grid csg_resample --type linear|akima|cubic with and without --derivative on "
              "0:0.1:3 and 0:0.01:1.5 (thorough also 0:0.002:1.2, -3.14:0.02:3.14, 0:0.01:3.14), flags = EVERY position of an o|i border, "
              "of an i|o border, of a 1-row (and 3-row) u hole, plus the 3 shifts of the cyclic i,o,u pattern; oracle: the output row nearest "
              "(within step/2) to input x_i carries input flag i in the --out and the --derivative table, y(out)=y(in).")
    for i, cs in enumerate(itertools.chain(gen(a.tier), gen_rflag(a.tier))):
        if not a.mine(i):
            continue
        fails, sig = run_case(cs)
        R.eval()
        R.cls(sig)
        R.count(cs.split("|")[1] if not cs.startswith("rflag|") else "rflag." + cs.split("|")[2])
        for key, what in fails:
            R.fail(key, what, cs)
        if not fails and i % 997 == 500:
            R.sample("%s -> %s" % (cs, sig))
    for k, v in T.STATS.items():
        R.count(k, v)
    R.write(a.out)


if __name__ == "__main__":
    main()
