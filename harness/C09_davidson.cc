// C09 — the iterative (Davidson) eigensolver agrees with dense diagonalisation.
//
// Bounded-scope exhaustive enumeration: deterministic matrix families x every
// option combination of the REAL votca::xtp::DavidsonSolver (davidsonsolver.cc and
// matrixfreeoperator.cc are compiled into this harness from the source tree), each
// result compared with Eigen's dense solvers.
//
//  family a  A = Q diag(s) Q^T, one fixed orthogonal Q per size (dense, or close to the
//            identity), spectra alphabet {separated, clustered 1e-6, exactly degenerate
//            pairs, all negative, spread over 8 decades}
//  family b  strictly diagonally dominant matrices (success REQUIRED)
//  family c  the complete lattice of symmetric 4x4 matrices, diagonal in {0,1,2,3},
//            off-diagonals in {-1,0,1}  (186 624 matrices)
//  family d  BSE block form [[A,B],[-B,-A]] with A+B, A-B positive definite, HAM mode
//            (complete 2x2-block lattice, reduced 3x3-block lattice, dense blocks)
//  family e  large-norm operators: dd matrix + uniform shift +-3e4..3e6, graded diagonals 1..1e6/1e8,
//            SYMM and as BSE block (HAM); residuals recomputed in long double for every family
//  x {DPR,OLSEN} x {min,safe,max} x {loose,normal,strict,lapack} x max-search-space
//  {default, 3*neigen (forces restarts)} x neigen in {1,2,3,n/4} x {dense, matrix-free}.
//
// Oracle (exactly the statement of C09):
//  * Success (SYMM): values ascending, |theta_k-lambda_k| <= 2 tol against the k lowest
//    eigenvalues of SelfAdjointEigenSolver, |v|=1, |vi.vj| small, |A v-theta v| <= tol.
//  * strictly diagonally dominant matrix (any family): Success is required.
//  * NoConvergence: every root that is NOT flagged (zero vector, value 0) must be a
//    converged one (unit norm, residual <= tol).
//  * HAM: on Success the returned values (as a multiset) are the lowest positive
//    eigenvalues of H (reference: sqrt(eig(L^T (A-B) L)), A+B = L L^T).
//  * an exception thrown by solve() is a non-success outcome (allowed, except where
//    success is required).
//
// Classification of "Success with genuine eigenpairs that are not the lowest ones" (see notes/C09.md).
// (K1, finding #20) In exact arithmetic the solver never leaves W = the smallest subspace that contains its start
// vectors (unit vectors on the lowest diagonal entries) and is invariant under A and under the spectral projectors
// P_d of diag(A) (the diagonal preconditioner -r/(D-lambda), with non-finite entries zeroed, is a function of D).
// A failure is attributed to `root-outside-reachable-subspace` only if
//   (1) W was computed exactly (rational arithmetic, integer matrices) or as a structural superset (connected
//       components of the non-zero pattern; then the claim still holds),
//   (2) the best any W-confined method can do provably fails the value test: dim W < neigen or
//       mu_k(A|W) - lambda_k(A) > 2 tol (+margin) for some k <= neigen (Cauchy interlacing: theta_k >= mu_k), and
//   (3) the returned values ARE the lowest roots of A|W (the restricted problem was solved correctly).
// (K2/K3) `converged-on-start-space-not-lowest` / `converged-on-explored-subspace-not-lowest`: certified from the
// trajectory recorded by the operator wrapper: prescribed start vectors, 1..size_update new vectors per iteration,
// thick restarts replayed, returned vectors inside the final search space and returned values = its lowest
// (harmonic) Ritz values, i.e. the solver stopped legitimately on what it had explored.
// Everything else is a violation (`success-not-lowest*`).
#include <omp.h>

#include <cfloat>

#include <Eigen/Dense>
#include <iostream>
#include <stdexcept>

#include "bsx.h"
#include "votca/xtp/davidsonsolver.h"
#include "votca/xtp/matrixfreeoperator.h"

using Eigen::MatrixXd;
using Eigen::VectorXd;
using votca::Index;
using votca::xtp::DavidsonSolver;
using votca::xtp::Logger;

// ------------------------------------------------------------------ alphabet
static const char *CORR[] = {"DPR", "OLSEN"};
static const char *UPD[] = {"min", "safe", "max"};
static const char *TOL[] = {"loose", "normal", "strict", "lapack"};
static const double TOLV[] = {1e-3, 1e-4, 1e-5, 1e-9};

struct Case {
  char fam = 'c';
  int n = 4;
  long p[4] = {0, 0, 0, 0};
  int corr = 0, upd = 1, tol = 1, tight = 0, k = 1, mf = 0;
  int it = 50;  // iter_max (50 = the solver default; only the reuse histories use other values)
  int lim = 0;  // 1 = iteration-limit calibration of this case (run_limit)
};

static std::string cstr(const Case &c) {
  std::ostringstream s;
  s << "fam=" << c.fam << ";n=" << c.n << ";p=" << c.p[0] << "," << c.p[1] << "," << c.p[2] << "," << c.p[3]
    << ";corr=" << CORR[c.corr] << ";upd=" << UPD[c.upd] << ";tol=" << TOL[c.tol] << ";tight=" << c.tight
    << ";k=" << c.k << ";mf=" << c.mf;
  if (c.it != 50) s << ";it=" << c.it;
  if (c.lim) s << ";lim=" << c.lim;
  return s.str();
}
static int find(const char *const *tab, int n, const std::string &s) {
  for (int i = 0; i < n; i++)
    if (s == tab[i]) return i;
  throw std::runtime_error("bad option value " + s);
}
static Case cparse(const std::string &s) {
  auto m = bsx::kvs(s);
  Case c;
  c.fam = m.at("fam").at(0);
  c.n = atoi(m.at("n").c_str());
  auto pp = bsx::split(m.at("p"), ',');
  for (size_t i = 0; i < 4 && i < pp.size(); i++) c.p[i] = atol(pp[i].c_str());
  c.corr = find(CORR, 2, m.at("corr"));
  c.upd = find(UPD, 3, m.at("upd"));
  c.tol = find(TOL, 4, m.at("tol"));
  c.tight = atoi(m.at("tight").c_str());
  c.k = atoi(m.at("k").c_str());
  c.mf = atoi(m.at("mf").c_str());
  if (m.count("it")) c.it = atoi(m.at("it").c_str());
  if (m.count("lim")) c.lim = atoi(m.at("lim").c_str());
  return c;
}

// ------------------------------------------------------------------ matrices
// fixed dense generator matrix (integer formula, no random numbers)
static MatrixXd genM(int n) {
  MatrixXd M(n, n);
  for (long i = 0; i < n; i++)
    for (long j = 0; j < n; j++)
      M(i, j) = double(((i + 1) * (j + 3) * 37 + (i + 2) * (i + 5) * 11 + (j + 1) * (j + 1) * 7 + ((i * j) % 13) * 5) % 101 - 50) / 50.0;
  return M;
}
// one fixed orthogonal Q per (n, mix): mix 0 = generic dense, mix 1 = close to identity
static const MatrixXd &fixedQ(int n, int mix) {
  static std::map<std::pair<int, int>, MatrixXd> cache;
  auto key = std::make_pair(n, mix);
  auto it = cache.find(key);
  if (it != cache.end()) return it->second;
  MatrixXd M = genM(n);
  if (mix == 1) M = MatrixXd::Identity(n, n) + (0.3 / std::sqrt(double(n))) * M;
  Eigen::HouseholderQR<MatrixXd> qr(M);
  MatrixXd Q = qr.householderQ();
  return cache[key] = Q;
}
__attribute__((unused)) static const char *SPECNAME[] = {"separated", "clustered1e-6", "degenerate-pairs", "all-negative", "8-decades"};
static VectorXd spectrum(int n, int shape) {
  VectorXd s(n);
  for (int i = 0; i < n; i++) {
    switch (shape) {
      case 0: s(i) = double(i + 1); break;
      case 1: s(i) = double(i / 2 + 1) + (i % 2) * 1e-6; break;
      case 2: s(i) = double(i / 2 + 1); break;
      case 3: s(i) = double(i - n); break;
      default: s(i) = std::pow(10.0, -4.0 + 8.0 * double(i) / double(n - 1)); break;
    }
  }
  return s;
}
static MatrixXd symmetrise(const MatrixXd &A) { return 0.5 * (A + A.transpose()); }

static MatrixXd famA(int n, int shape, int mix) {
  const MatrixXd &Q = fixedQ(n, mix);
  return symmetrise(Q * spectrum(n, shape).asDiagonal() * Q.transpose());
}
// diagonal shapes of the diagonally dominant family (index 0..3 positive, 4 negative)
__attribute__((unused)) static const char *DIAGNAME[] = {"1..n", "degenerate-pairs", "clustered1e-6", "shuffled 1..n", "-n..-1"};
static VectorXd ddiag(int n, int shape) {
  VectorXd d(n);
  for (int i = 0; i < n; i++) {
    switch (shape) {
      case 0: d(i) = double(i + 1); break;
      case 1: d(i) = double(i / 2 + 1); break;
      case 2: d(i) = double(i / 2 + 1) + (i % 2) * 1e-6; break;
      case 3: d(i) = double(1 + (i * 7 + 3) % n); break;  // gcd(7,n)=1 for all n used
      default: d(i) = double(i - n); break;
    }
  }
  return d;
}
__attribute__((unused)) static const char *PATNAME[] = {"generic-dense", "dense-signs(rank<=3)", "tridiagonal", "all-ones(rank 1)"};
static const int NPAT = 4;
// |p_ij| <= 1, p_ij = p_ji (called with i < j)
static double pattern(int pat, long i, long j) {
  if (i == j) return 0;
  switch (pat) {
    case 0: return double(((i + 1) * (j + 3) * 37 + (i + 2) * (i + 5) * 11 + (j + 1) * (j + 1) * 7 + ((i * j) % 13) * 5) % 101 - 50) / 50.0;
    case 1: return double(((i * j + i + j) % 3) - 1);
    case 2: return (j - i == 1) ? 1.0 : 0.0;
    default: return 1.0;
  }
}
static const double EPSV[] = {0.01, 0.1, 0.5};
// a_ij = eps * p_ij * min(|d_i|,|d_j|) / w, w = max number of off-diagonal non-zeros per row
// => sum_j |a_ij| <= eps |d_i| < |d_i| : strictly diagonally dominant, symmetric
static MatrixXd offdiag(const VectorXd &d, int pat, double eps) {
  int n = int(d.size());
  double w = (pat == 2) ? 2.0 : double(n - 1);
  MatrixXd A = MatrixXd::Zero(n, n);
  for (int i = 0; i < n; i++)
    for (int j = 0; j < n; j++)
      if (i != j) A(i, j) = eps * pattern(pat, std::min(i, j), std::max(i, j)) * std::min(std::fabs(d(i)), std::fabs(d(j))) / w;
  return A;
}
static MatrixXd famB(int n, int dshape, int pat, int ieps) {
  VectorXd d = ddiag(n, dshape);
  MatrixXd A = offdiag(d, pat, EPSV[ieps]);
  A.diagonal() = d;
  return A;
}
static MatrixXd famC(long code) {
  MatrixXd A(4, 4);
  for (int i = 0; i < 4; i++) { A(i, i) = double(code % 4); code /= 4; }
  for (int i = 0; i < 4; i++)
    for (int j = i + 1; j < 4; j++) { A(i, j) = A(j, i) = double(code % 3) - 1.0; code /= 3; }
  return A;
}
static const long NLATC = 256L * 729L;

// BSE blocks.  returns false when A+B or A-B is not positive definite (case not in the space)
static const double BETAV[] = {0.01, 0.2, 0.3};
static bool famD(const Case &c, MatrixXd &A, MatrixXd &B) {
  long sub = c.p[0], code = c.p[1];
  if (sub == 0) {  // complete lattice, m = 2
    A.resize(2, 2); B.resize(2, 2);
    A(0, 0) = double(1 + code % 4); code /= 4;
    A(1, 1) = double(1 + code % 4); code /= 4;
    A(0, 1) = A(1, 0) = double(code % 3) - 1; code /= 3;
    B(0, 0) = double(code % 3) - 1; code /= 3;
    B(1, 1) = double(code % 3) - 1; code /= 3;
    B(0, 1) = B(1, 0) = double(code % 3) - 1;
  } else if (sub == 1) {  // reduced lattice, m = 3
    A.resize(3, 3); B.resize(3, 3);
    for (int i = 0; i < 3; i++) { A(i, i) = double(2 + code % 2); code /= 2; }
    for (int i = 0; i < 3; i++)
      for (int j = i + 1; j < 3; j++) { A(i, j) = A(j, i) = double(code % 3) - 1; code /= 3; }
    for (int i = 0; i < 3; i++) { B(i, i) = double(code % 2); code /= 2; }
    for (int i = 0; i < 3; i++)
      for (int j = i + 1; j < 3; j++) { B(i, j) = B(j, i) = double(code % 2); code /= 2; }
  } else {  // dense blocks: A from the diagonally dominant family, B = beta * pattern
    int m = c.n / 2;
    VectorXd d = ddiag(m, int(c.p[1]));
    A = offdiag(d, int(c.p[2]), EPSV[c.p[3]]);
    A.diagonal() = d;
    B = offdiag(d, (int(c.p[2]) + 1) % NPAT, BETAV[c.p[3]]);
    for (int i = 0; i < m; i++) B(i, i) = BETAV[c.p[3]] * 0.5 * d(i) * ((i % 2) ? -1.0 : 1.0);
  }
  Eigen::LLT<MatrixXd> l1(A + B), l2(A - B);
  if (l1.info() != Eigen::Success || l2.info() != Eigen::Success) return false;
  // positive definite with a margin (exclude numerically semi-definite members)
  Eigen::SelfAdjointEigenSolver<MatrixXd> e1(A + B, Eigen::EigenvaluesOnly), e2(A - B, Eigen::EigenvaluesOnly);
  return e1.eigenvalues()(0) > 1e-6 && e2.eigenvalues()(0) > 1e-6;
}
// family e: large-norm operators.  kind 0/2: strictly diagonally dominant matrix (diagonal 1..m, generic dense pattern) plus a
// uniform shift s*I; kind 1/3: graded diagonal 1 .. g (geometric), optionally shuffled.  kinds 2,3 = the same as block A of the
// BSE form with a small B.  The wanted roots of the graded members are O(1) although max|A_ii| is 1e6 / 1e8.
static const double SHIFTV[] = {3e4, -3e4, 3e5, -3e5, 3e6, -3e6};
static const double GRADEV[] = {1e6, 1e8, 1e10};
static const int NGRADE = 2;  // 1e10 is kept for --case only: there the unchanged solver stagnates at ~2e-9 and falls into the Gram-Schmidt defect (notes/C09.md)
static bool famE(const Case &c, MatrixXd &H, bool &ham) {
  int kind = int(c.p[0]);
  ham = kind >= 2;
  int m = ham ? c.n / 2 : c.n;
  int isc = int(c.p[1]), order = int(c.p[3]);
  VectorXd d(m);  // shifted kinds: the unshifted diagonal 1..m, graded kinds: 1 .. g geometrically (optionally shuffled)
  for (int i = 0; i < m; i++) {
    int pos = order ? (i * 7 + 3) % m : i;
    d(i) = (kind % 2 == 0) ? double(pos + 1) : std::pow(GRADEV[isc], double(pos) / double(m - 1));
  }
  MatrixXd A = offdiag(d, 0, EPSV[c.p[2]]);
  MatrixXd B = offdiag(d, 1, 0.05);
  for (int i = 0; i < m; i++) B(i, i) = 0.025 * d(i) * ((i % 2) ? -1.0 : 1.0);
  A.diagonal() = d;
  if (kind % 2 == 0) A.diagonal().array() += SHIFTV[isc];  // uniform shift of a diagonally dominant matrix
  if (!ham) { H = A; return true; }
  Eigen::LLT<MatrixXd> l1(A + B), l2(A - B);
  if (l1.info() != Eigen::Success || l2.info() != Eigen::Success) return false;
  H.resize(2 * m, 2 * m);
  H.topLeftCorner(m, m) = A;
  H.topRightCorner(m, m) = B;
  H.bottomLeftCorner(m, m) = -B;
  H.bottomRightCorner(m, m) = -A;
  return true;
}
static const long NLATD0 = 16L * 81L;
static const long NLATD1 = 8L * 27L * 8L * 8L;

// builds the matrix the solver sees; false = case outside the space (skipped)
static bool build(const Case &c, MatrixXd &H, bool &ham) {
  ham = false;
  switch (c.fam) {
    case 'a': H = famA(c.n, int(c.p[0]), int(c.p[1])); return true;
    case 'b': H = famB(c.n, int(c.p[0]), int(c.p[1]), int(c.p[2])); return true;
    case 'c': H = famC(c.p[0]); return true;
    case 'e': return famE(c, H, ham);
    case 'd': {
      MatrixXd A, B;
      if (!famD(c, A, B)) return false;
      Index m = A.rows();
      H.resize(2 * m, 2 * m);
      H.topLeftCorner(m, m) = A;
      H.topRightCorner(m, m) = B;
      H.bottomLeftCorner(m, m) = -B;
      H.bottomRightCorner(m, m) = -A;
      ham = true;
      return true;
    }
  }
  throw std::runtime_error("unknown family");
}

// matrix-free wrapper (the code under test only sees rows/diagonal/matmul); it can record
// every block of vectors the solver multiplies = the trajectory of the search space
class DenseOp : public votca::xtp::MatrixFreeOperator {
 public:
  explicit DenseOp(const MatrixXd &m, std::vector<MatrixXd> *rec = nullptr) : mat_(m), rec_(rec) { set_size(m.rows()); }
  Eigen::VectorXd diagonal() const override { return mat_.diagonal(); }
  Eigen::MatrixXd matmul(const Eigen::MatrixXd &x) const override {
    if (rec_) rec_->push_back(x);
    return mat_ * x;
  }

 private:
  const MatrixXd &mat_;
  std::vector<MatrixXd> *rec_;
};

// ------------------------------------------------------------------ exact reachable subspace
typedef __int128 i128;
struct Ovf {};
static i128 gcd128(i128 a, i128 b) {
  if (a < 0) a = -a;
  if (b < 0) b = -b;
  while (b) { i128 t = a % b; a = b; b = t; }
  return a;
}
struct Fr {
  i128 n = 0, d = 1;
  Fr() {}
  Fr(i128 nn, i128 dd = 1) : n(nn), d(dd) { norm(); }
  void norm() {
    if (d < 0) { n = -n; d = -d; }
    i128 g = gcd128(n, d);
    if (g > 1) { n /= g; d /= g; }
    if (n == 0) d = 1;
  }
  bool zero() const { return n == 0; }
};
static i128 mul(i128 a, i128 b) {
  i128 r;
  if (__builtin_mul_overflow(a, b, &r)) throw Ovf();
  return r;
}
static i128 add(i128 a, i128 b) {
  i128 r;
  if (__builtin_add_overflow(a, b, &r)) throw Ovf();
  return r;
}
static Fr operator*(const Fr &a, const Fr &b) { return Fr(mul(a.n, b.n), mul(a.d, b.d)); }
static Fr operator-(const Fr &a, const Fr &b) { return Fr(add(mul(a.n, b.d), -mul(b.n, a.d)), mul(a.d, b.d)); }
static Fr operator+(const Fr &a, const Fr &b) { return Fr(add(mul(a.n, b.d), mul(b.n, a.d)), mul(a.d, b.d)); }
static Fr operator/(const Fr &a, const Fr &b) { return Fr(mul(a.n, b.d), mul(a.d, b.n)); }
typedef std::vector<Fr> FVec;

struct Rref {  // reduced row echelon basis over Q
  std::vector<FVec> rows;
  std::vector<int> piv;
  bool insert(FVec v) {  // true when the rank grew
    for (size_t r = 0; r < rows.size(); r++)
      if (!v[piv[r]].zero()) {
        Fr f = v[piv[r]];
        for (size_t j = 0; j < v.size(); j++) v[j] = v[j] - f * rows[r][j];
      }
    int p = -1;
    for (size_t j = 0; j < v.size(); j++)
      if (!v[j].zero()) { p = int(j); break; }
    if (p < 0) return false;
    Fr f = v[p];
    for (auto &x : v) x = x / f;
    for (size_t r = 0; r < rows.size(); r++)
      if (!rows[r][p].zero()) {
        Fr g = rows[r][p];
        for (size_t j = 0; j < v.size(); j++) rows[r][j] = rows[r][j] - g * v[j];
      }
    rows.push_back(v);
    piv.push_back(p);
    return true;
  }
};

struct Reach {
  bool exact = false;  // W computed exactly (else: structural superset)
  MatrixXd basis;      // orthonormal columns spanning W (or the superset)
  Index dim() const { return basis.cols(); }
};

static bool small_integer(const MatrixXd &H) {
  if (H.rows() > 16) return false;
  for (Index i = 0; i < H.rows(); i++)
    for (Index j = 0; j < H.cols(); j++)
      if (H(i, j) != std::floor(H(i, j)) || std::fabs(H(i, j)) > 1e6) return false;
  return true;
}

static Reach reachable(const MatrixXd &H, const std::vector<Index> &start) {
  Reach R;
  Index n = H.rows();
  if (small_integer(H)) {
    try {
      // classes of equal diagonal entries = spectral projectors of diag(H)
      std::map<double, std::vector<int>> classes;
      for (Index i = 0; i < n; i++) classes[H(i, i)].push_back(int(i));
      Rref W;
      std::vector<FVec> gens;
      for (Index s : start) {
        FVec e(n);
        e[s] = Fr(1);
        if (W.insert(e)) gens.push_back(e);
      }
      for (size_t g = 0; g < gens.size(); g++) {
        FVec v = gens[g];  // copy: gens grows
        std::vector<FVec> cand;
        FVec av(n);
        for (Index i = 0; i < n; i++) {
          Fr s;
          for (Index j = 0; j < n; j++)
            if (H(i, j) != 0.0 && !v[j].zero()) s = s + Fr((i128)(long long)H(i, j)) * v[j];
          av[i] = s;
        }
        cand.push_back(av);
        for (auto &kv : classes) {
          FVec pv(n);
          for (int i : kv.second) pv[i] = v[i];
          cand.push_back(pv);
        }
        for (auto &cv : cand)
          if (W.insert(cv)) gens.push_back(cv);
      }
      MatrixXd Bm(n, Index(W.rows.size()));
      for (size_t r = 0; r < W.rows.size(); r++)
        for (Index j = 0; j < n; j++) Bm(j, Index(r)) = double(W.rows[r][j].n) / double(W.rows[r][j].d);
      Eigen::HouseholderQR<MatrixXd> qr(Bm);
      R.basis = qr.householderQ() * MatrixXd::Identity(n, Bm.cols());
      R.exact = true;
      return R;
    } catch (Ovf &) {
      // fall through to the structural superset
    }
  }
  // structural superset: coordinates connected to a start index in the non-zero pattern
  std::vector<char> in(n, 0);
  std::vector<Index> stack(start.begin(), start.end());
  for (Index s : start) in[s] = 1;
  while (!stack.empty()) {
    Index i = stack.back();
    stack.pop_back();
    for (Index j = 0; j < n; j++)
      if (!in[j] && (H(j, i) != 0.0 || H(i, j) != 0.0)) { in[j] = 1; stack.push_back(j); }
  }
  Index dim = 0;
  for (Index i = 0; i < n; i++) dim += in[i];
  R.basis = MatrixXd::Zero(n, dim);
  Index c = 0;
  for (Index i = 0; i < n; i++)
    if (in[i]) R.basis(i, c++) = 1.0;
  return R;
}

// start vectors exactly as the solver chooses them (real code, private member)
static std::vector<Index> start_indices(const VectorXd &diag, bool ham, Index nguess) {
  Logger log;
  DavidsonSolver tmp(log);
  tmp.Adiag_ = diag;
  if (ham) tmp.set_matrix_type("HAM");
  MatrixXd G = tmp.setupInitialEigenvectors(nguess);
  std::vector<Index> idx;
  for (Index j = 0; j < G.cols(); j++) {
    Index r;
    G.col(j).maxCoeff(&r);
    idx.push_back(r);
  }
  return idx;
}

// lowest positive eigenvalues of a real matrix with real spectrum (used for H restricted to W)
static std::vector<double> positive_eigs(const MatrixXd &M, double *maximag = nullptr) {
  std::vector<double> r;
  if (M.rows() == 0) return r;
  Eigen::EigenSolver<MatrixXd> es(M, false);
  double mi = 0;
  for (Index i = 0; i < M.rows(); i++) {
    mi = std::max(mi, std::fabs(es.eigenvalues()(i).imag()));
    if (es.eigenvalues()(i).real() > 0) r.push_back(es.eigenvalues()(i).real());
  }
  if (maximag) *maximag = mi;
  std::sort(r.begin(), r.end());
  return r;
}

// ------------------------------------------------------------------ one case
struct Tracker {  // first case of every (family,status,flag) gets written out as a sample
  std::set<std::string> seen;
};
static Tracker g_track;

static bool strictly_dd(const MatrixXd &A) {
  for (Index i = 0; i < A.rows(); i++) {
    double s = 0;
    for (Index j = 0; j < A.cols(); j++)
      if (j != i) s += std::fabs(A(i, j));
    if (!(std::fabs(A(i, i)) > s)) return false;
  }
  return true;
}
static bool has_equal_diagonal_entries(const MatrixXd &A) {
  std::set<double> s;
  for (Index i = 0; i < A.rows(); i++)
    if (!s.insert(A(i, i)).second) return true;
  return false;
}
static std::string vecstr(const VectorXd &v, Index maxn = 6) {
  std::string s = "(";
  for (Index i = 0; i < v.size() && i < maxn; i++) s += (i ? " " : "") + bsx::fmt(v(i));
  if (v.size() > maxn) s += " ...";
  return s + ")";
}
// size of the correction block, as documented for min|safe|max
static Index size_update(int upd, Index k) {
  if (upd == 0) return k;
  if (upd == 1) return k < 20 ? Index(1.5 * double(k)) : k + 10;
  return 2 * k;
}

struct Run {
  std::string threw, status;  // status S|N|X
  Index iters = 0;
  VectorXd th;
  MatrixXd V;
};
// options exactly as a caller sets them through the public setters; max_search_space: 1 = set 3*neigen, 0 = leave
// alone, -1 = reset to 0 (the member default)
static void apply_options(DavidsonSolver &DS, const Case &c, bool ham, int mss_mode) {
  DS.set_correction(CORR[c.corr]);
  DS.set_size_update(UPD[c.upd]);
  DS.set_tolerance(TOL[c.tol]);
  DS.set_iter_max(c.it);
  DS.set_matrix_type(ham ? "HAM" : "SYMM");
  if (mss_mode > 0) DS.set_max_search_space(3 * c.k);
  if (mss_mode < 0) DS.set_max_search_space(0);
}
static Run solve_on(DavidsonSolver &DS, const MatrixXd &H, const Case &c, bool matrix_free, std::vector<MatrixXd> *rec) {
  Run r;
  try {
    if (matrix_free) {
      DenseOp op(H, rec);
      DS.solve(op, c.k);
    } else {
      DS.solve(H, c.k);
    }
  } catch (const std::exception &e) {
    r.threw = e.what();
    if (r.threw.empty()) r.threw = "exception";
  }
  r.iters = DS.num_iterations();
  if (!r.threw.empty()) {
    r.status = "X";
    return r;
  }
  r.status = DS.info() == Eigen::Success ? "S" : (DS.info() == Eigen::NoConvergence ? "N" : "?");
  r.th = DS.eigenvalues();
  r.V = DS.eigenvectors();
  return r;
}
static Run solve_real(const MatrixXd &H, bool ham, const Case &c, bool matrix_free, std::vector<MatrixXd> *rec, bool trace = false) {
  Logger log;
  DavidsonSolver DS(log);
  apply_options(DS, c, ham, c.tight ? 1 : 0);
  Run r = solve_on(DS, H, c, matrix_free, rec);
  if (trace) {
    std::cout << log << std::endl;
    std::cout << "H=\n" << H << "\nthrew=" << r.threw << " info=" << DS.info() << " theta=" << DS.eigenvalues().transpose() << "\nV=\n"
              << DS.eigenvectors() << std::endl;
  }
  return r;
}

static bsx::Outcome run_history(const Case &c, bool verbose);
static bsx::Outcome run_limit(const Case &c, bool verbose);

// `given`: evaluate the per-solve oracle on this result (obtained on a reused solver object) instead of solving
static bsx::Outcome run_case(const Case &c, bool verbose = false, const Run *given = nullptr) {
  if (c.fam == 'r') return run_history(c, verbose);
  if (c.lim && !given) return run_limit(c, verbose);
  bsx::Outcome o;
  std::string cas = cstr(c);
  auto failwith = [&](const std::string &key, const std::string &what) {
    o.ok = false;
    o.key = key;
    o.what = what + "  [" + cas + "]";
    return o;
  };
  MatrixXd H;
  bool ham = false;
  if (!build(c, H, ham)) {
    o.extra = "skip";
    return o;
  }
  const Index n = H.rows();
  const Index k = c.k;
  const double tol = TOLV[c.tol];
  const double scale = std::max(1.0, H.cwiseAbs().maxCoeff());
  bool dd = !ham && c.it == 50 && strictly_dd(H);  // "within the iteration limit" = the default limit

  // ---- reference
  VectorXd ref;  // SYMM: all eigenvalues ascending; HAM: positive eigenvalues ascending
  double kappa = 1.0;
  typedef Eigen::Matrix<long double, Eigen::Dynamic, Eigen::Dynamic> MatrixXld;
  const bool ldref = c.fam == 'e';  // large-norm family: dense reference in long double (its error eps_ld*n*|A| stays far below tol)
  if (!ham && ldref) {
    Eigen::SelfAdjointEigenSolver<MatrixXld> es(H.cast<long double>(), Eigen::EigenvaluesOnly);
    if (es.info() != Eigen::Success) return failwith("machinery-reference", "dense reference solver failed");
    ref = es.eigenvalues().cast<double>();
  } else if (!ham) {
    Eigen::SelfAdjointEigenSolver<MatrixXd> es(H, Eigen::EigenvaluesOnly);
    if (es.info() != Eigen::Success) return failwith("machinery-reference", "dense reference solver failed");
    ref = es.eigenvalues();
  } else {
    Index m = n / 2;
    MatrixXd A = H.topLeftCorner(m, m), B = H.topRightCorner(m, m);
    Eigen::LLT<MatrixXd> llt(A + B);
    MatrixXd L = llt.matrixL();
    MatrixXd S = symmetrise(L.transpose() * (A - B) * L);
    Eigen::SelfAdjointEigenSolver<MatrixXd> es(S, Eigen::EigenvaluesOnly);
    if (!ldref && (es.info() != Eigen::Success || es.eigenvalues()(0) <= 0))
      return failwith("machinery-reference", "BSE reference reduction failed");
    if (!ldref) ref = es.eigenvalues().cwiseSqrt();
    if (ldref) {  // the squared reduction loses the small roots of a graded operator: general solver in long double
      Eigen::EigenSolver<MatrixXld> esl(H.cast<long double>(), false);
      if (esl.info() != Eigen::Success) return failwith("machinery-reference", "BSE long double reference failed");
      std::vector<double> pos;
      for (Index i = 0; i < n; i++)
        if (esl.eigenvalues()(i).real() > 0) pos.push_back(double(esl.eigenvalues()(i).real()));
      std::sort(pos.begin(), pos.end());
      if (Index(pos.size()) != m) return failwith("machinery-reference", "BSE long double reference: wrong number of positive roots");
      ref = Eigen::Map<VectorXd>(pos.data(), m);
    }
    // eigenvector conditioning of H (Bauer-Fike constant for the value tolerance)
    Eigen::EigenSolver<MatrixXd> ges(H);
    MatrixXd X = ges.eigenvectors().real();
    double maximag = ges.eigenvalues().imag().cwiseAbs().maxCoeff();
    if (maximag > 1e-7 * scale) return failwith("machinery-reference", "BSE matrix has complex eigenvalues");
    Eigen::JacobiSVD<MatrixXd> svd(X);
    double smin = svd.singularValues()(n - 1);
    kappa = smin > 0 ? svd.singularValues()(0) / smin : 1e300;
    if (!(kappa < 1e6)) {
      o.extra = "skip-illconditioned";  // (nearly) defective H: no meaningful value tolerance
      return o;
    }
  }

  // success is only demanded where a residual below tol can be resolved in double precision at all:
  // eps * n * |wanted eigenvalue| <= tol/100 (e.g. not for |lambda| ~ 3e6 with tolerance 1e-9)
  const bool resolvable = DBL_EPSILON * double(n) * std::max(std::fabs(ref(0)), std::fabs(ref(k - 1))) <= 0.01 * tol;
  dd = dd && resolvable;
  if (c.fam == 'e' && !resolvable) {  // large-norm family: such (operator, tolerance) pairs are not part of the space
    o.extra = "skip-unresolvable";
    return o;
  }

  // ---- input predicates used for narrow failure keys
  const Index su = size_update(c.upd, k);
  const Index mss_eff = std::min<Index>(n, c.tight ? 3 * k : 5 * k);
  // the search space can grow beyond the dimension of the matrix before a restart shrinks it
  const bool p_over = std::max<Index>(mss_eff, 2 * k + su) + su > n;
  const std::vector<Index> start = start_indices(H.diagonal(), ham, 2 * k);
  // narrow input classes for failure keys (only evaluated when a case fails)
  auto input_class = [&]() -> std::string {
    if (p_over) return "-search-space-may-exceed-dimension";
    // coupling block C = H[rest,start]: the first correction vectors are F_j C u_j (F_j diagonal), so a rank of C below the
    // number of correction vectors makes them (numerically) linearly dependent
    std::vector<char> inS(n, 0);
    for (Index s : start) inS[s] = 1;
    Index rankC = 0;
    {
      MatrixXd C(n - Index(start.size()), Index(start.size()));
      Index row = 0;
      for (Index i = 0; i < n; i++) {
        if (inS[i]) continue;
        for (size_t j = 0; j < start.size(); j++) C(row, Index(j)) = H(i, start[j]);
        row++;
      }
      if (C.rows() > 0 && C.cwiseAbs().maxCoeff() > 0) {
        Eigen::JacobiSVD<MatrixXd> svd(C);
        for (Index i = 0; i < svd.singularValues().size(); i++) rankC += svd.singularValues()(i) > 1e-10 * svd.singularValues()(0);
      }
    }
    const bool p_lowrank = rankC < su;
    // a start unit vector that is not coupled to the other start vectors is itself a Ritz vector whose Ritz value equals
    // its diagonal entry exactly: D_i - lambda = 0 in the preconditioner
    bool p_isolated = false;
    for (Index s : start) {
      bool iso = true;
      for (Index t : start) iso = iso && (t == s || (H(s, t) == 0.0 && H(t, s) == 0.0));
      p_isolated = p_isolated || iso;
    }
    // ... or a Ritz value of the start block rounds to a diagonal entry exactly (large uniform shift)
    if (!p_isolated && !ham) {
      MatrixXd T0(Index(start.size()), Index(start.size()));
      for (size_t a = 0; a < start.size(); a++)
        for (size_t b = 0; b < start.size(); b++) T0(Index(a), Index(b)) = H(start[a], start[b]);
      Eigen::SelfAdjointEigenSolver<MatrixXd> es0(T0, Eigen::EigenvaluesOnly);
      for (Index j = 0; j < std::min<Index>(su, T0.rows()); j++)
        for (Index i = 0; i < n; i++) p_isolated = p_isolated || es0.eigenvalues()(j) == H(i, i);
    }
    const bool p_eqd = has_equal_diagonal_entries(H);
    bool p_tridiag = !ham;  // banded: every iteration can only add the few rows next to the current support
    for (Index i = 0; p_tridiag && i < n; i++)
      for (Index j = 0; j < n; j++)
        if (std::abs(i - j) > 1 && H(i, j) != 0.0) { p_tridiag = false; break; }
    if (p_lowrank) return "-coupling-rank-below-update-size";
    if (p_tridiag) return "-tridiagonal-matrix";
    if (p_isolated && c.corr == 1) return "-olsen-ritz-value-equals-diagonal-entry";
    if (p_eqd) return "-equal-diagonal-entries";
    return "";
  };

  // ---- the real solver
  std::vector<MatrixXd> traj;
  Run r = given ? *given : solve_real(H, ham, c, c.mf != 0, c.mf ? &traj : nullptr, getenv("C09_TRACE") != nullptr);
  if (getenv("C09_TRACE")) {
    std::vector<MatrixXd> tr;
    solve_real(H, ham, c, true, &tr);
    MatrixXd all(n, 0);
    for (size_t t = 0; t < tr.size(); t++) {
      MatrixXd G = tr[t].transpose() * tr[t];
      double self = (G - MatrixXd::Identity(G.rows(), G.cols())).cwiseAbs().maxCoeff();
      double cross = all.cols() ? (all.transpose() * tr[t]).cwiseAbs().maxCoeff() : 0.0;
      std::cout << "block " << t << ": " << tr[t].cols() << " cols, |X^T X - I|max=" << self << " cross-overlap with earlier=" << cross
                << " norms " << tr[t].colwise().norm() << std::endl;
      all.conservativeResize(n, all.cols() + tr[t].cols());
      all.rightCols(tr[t].cols()) = tr[t];
    }
  }
  // with assertions enabled GeneralizedEigenSolver::info() asserts instead of reporting the QZ failure that the
  // solver turns into runtime_error("Small generalized eigenvalue problem failed."): same outcome as in production
  if (r.threw.find("EigenSolver is not initialized") != std::string::npos) r.threw = "Small generalized eigenvalue problem failed.";
  if (r.threw.find("eigen_assert") != std::string::npos)
    return failwith("eigen-assert", "Eigen index/size assertion inside solve(): " + r.threw);
  const std::string &status = r.status;
  const Index iters = r.iters;
  const VectorXd &th = r.th;
  const MatrixXd &V = r.V;
  if (status == "?") return failwith("status-unknown", "info() is neither Success nor NoConvergence");
  if (status != "X") {
    if (th.size() != k || V.cols() != k || V.rows() != n)
      return failwith("result-shape", "eigenvalues/eigenvectors have the wrong shape");
    if (!th.allFinite() || !V.allFinite())
      return failwith("result-nonfinite" + input_class(), "NaN/inf in the " + status + " result after " + std::to_string(iters) + " it.");
  }

  // ---- reachable subspace (always for small integer matrices; otherwise only on demand)
  bool have_reach = false;
  Reach W;
  VectorXd muW;  // lowest roots available inside W
  auto need_reach = [&]() {
    if (have_reach) return;
    have_reach = true;
    W = reachable(H, start);
    if (W.dim() == 0) return;
    MatrixXd HW = W.basis.transpose() * H * W.basis;
    if (!ham) {
      Eigen::SelfAdjointEigenSolver<MatrixXd> es(symmetrise(HW), Eigen::EigenvaluesOnly);
      muW = es.eigenvalues();
    } else {
      std::vector<double> pe = positive_eigs(HW);
      muW = Eigen::Map<VectorXd>(pe.data(), Index(pe.size()));
    }
  };
  // value tolerance 2 tol (x kappa in HAM) + the error of the dense reference (double: 1e-10*|A|; long double: 64 n eps_ld |A| kappa)
  const double valtol = (ham ? 2.0 * kappa : 2.0) * tol + (ldref ? 64.0 * double(n) * double(LDBL_EPSILON) * scale * kappa : 1e-10 * scale);
  // 'u' = the k lowest roots are provably NOT all available in W, 'r' = they are (within valtol)
  auto reachflag = [&]() -> char {
    need_reach();
    if (muW.size() < k) return 'u';
    for (Index j = 0; j < k; j++)
      if (muW(j) - ref(j) > valtol + 1e-9 * scale) return 'u';
    return 'r';
  };
  char rf = '-';
  if (small_integer(H)) rf = reachflag();

  auto finish_ok = [&](const std::string &detail) {
    int nflag = 0;
    if (status == "N")
      for (Index j = 0; j < k; j++) nflag += (V.col(j).squaredNorm() == 0.0);
    std::string sig = std::string(1, c.fam) + "|" + status + "|" + std::to_string(iters) + "|" + std::to_string(nflag) + "|" + rf +
                      (dd ? "|dd" : "");
    o.cls = bsx::fnv(sig);
    o.extra = status + std::string(1, rf) + (dd ? "d" : "");
    std::string skey = std::string(1, c.fam) + status + rf;
    if (verbose || g_track.seen.insert(skey).second)
      o.what = cas + " -> " + (status == "S" ? "Success" : status == "N" ? "NoConvergence" : "threw '" + r.threw + "'") + " after " +
               std::to_string(iters) + " it., " + detail;
    return o;
  };

  // ---- success required?
  if (dd && status != "S") {
    std::string how, site;
    if (status == "N") {
      how = "NoConvergence after " + std::to_string(iters) + " iterations";
      site = "noconvergence";
    } else {
      how = "threw '" + r.threw + "' in iteration " + std::to_string(iters);
      site = r.threw.find("Linear dependencies") != std::string::npos ? "threw-linear-dependencies"
             : r.threw.find("eigenvalue problem failed") != std::string::npos ? "threw-small-eigenproblem-failed"
                                                                               : "threw-other";
    }
    std::string cls = input_class();
    if (cls.empty() && c.tol == 3) cls = "-lapack-tolerance";
    return failwith("dd-" + site + cls, "strictly diagonally dominant matrix but " + how + " (lowest reference roots " + vecstr(ref.head(k)) + ")");
  }
  if (status == "X") return finish_ok("");

  // ---- residuals / norms of what was returned
  VectorXd resn(k), nrm(k);
  double recomp = 0;
  for (Index j = 0; j < k; j++) {
    nrm(j) = V.col(j).norm();
    // residual recomputed independently in long double
    Eigen::Matrix<long double, Eigen::Dynamic, 1> vl = V.col(j).cast<long double>();
    Eigen::Matrix<long double, Eigen::Dynamic, 1> rl = H.cast<long double>() * vl - (long double)th(j) * vl;
    resn(j) = double(rl.norm());
    // componentwise bound of the rounding of this recomputation: 4 n eps_longdouble * || |A||v| + |theta||v| ||
    Eigen::Matrix<long double, Eigen::Dynamic, 1> bl = H.cast<long double>().cwiseAbs() * vl.cwiseAbs() + std::fabs((long double)th(j)) * vl.cwiseAbs();
    recomp = std::max(recomp, 4.0 * double(n) * double(LDBL_EPSILON) * double(bl.norm()));
  }
  // the SELECTED tolerance + 0.1 % + the rounding of the recomputation (for every operator used here < 1e-3 tol)
  const double restol = tol * (1 + 1e-3) + recomp;

  if (status == "N") {
    int nflag = 0;
    for (Index j = 0; j < k; j++) {
      if (nrm(j) == 0.0) {
        nflag++;
        continue;
      }
      if (std::fabs(nrm(j) - 1.0) > 1e-10 || resn(j) > restol)
        return failwith("noconv-unconverged-root-not-flagged" + input_class(),
                        "status NoConvergence but root " + std::to_string(j) + " is returned unflagged with |v|=" + bsx::fmt(nrm(j)) +
                            " residual " + bsx::fmt(resn(j)) + " > tol " + bsx::fmt(tol));
    }
    // (a NoConvergence status with no flagged root would still "say so through its status": not demanded)
    return finish_ok(std::to_string(nflag) + " of " + std::to_string(k) + " roots flagged");
  }

  // ---- Success
  VectorXd lam = ref.head(k);
  if (!ham) {
    for (Index j = 0; j < k; j++)
      if (std::fabs(nrm(j) - 1.0) > 1e-10)
        return failwith((nrm(j) == 0.0 ? "success-zero-vector" : "success-not-normalised") + input_class(),
                        "Success after " + std::to_string(iters) + " it. but |v_" + std::to_string(j) + "| = " + bsx::fmt(nrm(j)) + ", theta " +
                            vecstr(th) + " reference " + vecstr(lam));
    for (Index j = 0; j + 1 < k; j++)
      if (th(j) > th(j + 1) + 1e-12 * scale)
        return failwith("success-not-ascending" + input_class(), "Success but values not ascending: " + vecstr(th, 40));
    for (Index j = 0; j < k; j++)
      if (resn(j) > restol)
        return failwith("success-residual-above-tolerance" + input_class(),
                        "Success after " + std::to_string(iters) + " it. but |A v - theta v| = " + bsx::fmt(resn(j)) + " > " + bsx::fmt(tol) +
                            " for root " + std::to_string(j));
    double maxov = 0;
    for (Index i = 0; i < k; i++)
      for (Index j = i + 1; j < k; j++) maxov = std::max(maxov, std::fabs(V.col(i).dot(V.col(j))));
    if (maxov > 1e-9) return failwith("success-not-orthogonal" + input_class(), "Success but max |vi.vj| = " + bsx::fmt(maxov));
  } else {
    // HAM: a zero vector with value 0 cannot be a "lowest positive eigenvalue"; caught by the value test below
  }
  VectorXd ths = th;
  if (ham) std::sort(ths.data(), ths.data() + ths.size());  // HAM: a multiset of values is promised, not an order
  Index bad = -1;
  for (Index j = 0; j < k; j++)
    if (!(std::fabs(ths(j) - lam(j)) <= valtol)) { bad = j; break; }
  if (bad < 0) return finish_ok("theta " + vecstr(th) + " reference " + vecstr(lam) + " max residual " + bsx::fmt(resn.maxCoeff()));

  // ---- Success with values that are not the lowest ones: which class?
  const std::string pre = ham ? "ham-" : "";
  std::string desc = std::string("Success after ") + std::to_string(iters) + " it. but returned " + vecstr(ths, 40) + " while the lowest " +
                     (ham ? "positive " : "") + "reference eigenvalues are " + vecstr(lam, 40);
  // genuine eigenpairs at all?  (SYMM was checked above)
  if (ham)
    for (Index j = 0; j < k; j++)
      if (std::fabs(nrm(j) - 1.0) > 1e-10 || resn(j) > restol)
        return failwith("ham-success-unconverged-root" + input_class(), desc + "; root " + std::to_string(j) + " has |v|=" + bsx::fmt(nrm(j)) +
                                                                            " residual " + bsx::fmt(resn(j)));
  // (K1) provably outside the reachable subspace, and the restricted problem was solved correctly
  rf = reachflag();
  if (rf == 'u') {
    bool solved_restricted = muW.size() >= k;
    for (Index j = 0; solved_restricted && j < k; j++)
      if (!(std::fabs(ths(j) - muW(j)) <= valtol)) solved_restricted = false;
    if (solved_restricted)
      return failwith(pre + "root-outside-reachable-subspace",
                      desc + "; reachable subspace W (" + (W.exact ? "exact" : "structural superset") + ") has dim " + std::to_string(W.dim()) +
                          " of " + std::to_string(n) + " and A|W has lowest roots " + vecstr(muW.head(k), 40));
  }
  // (K2/K3) legitimate stop on the explored subspace: trajectory certificate from the recording operator
  {
    std::vector<MatrixXd> tr = traj;
    std::string why;
    if (!c.mf || given) {  // dense (or reused-object) run: the twin through the recording operator must reproduce it
      tr.clear();
      Run t = solve_real(H, ham, c, true, &tr);
      if (t.status != "S" || t.iters != iters || t.th.size() != k || (t.th - th).cwiseAbs().maxCoeff() > 1e-9 * scale)
        why = "recording twin run differs from the dense run";
    }
    if (why.empty() && ham) {  // HAM multiplies V and then A*V: the search vectors are the even calls
      if (tr.size() % 2) why = "odd number of operator calls in HAM mode";
      std::vector<MatrixXd> ev;
      for (size_t t = 0; t < tr.size(); t += 2) ev.push_back(tr[t]);
      tr.swap(ev);
    }
    Index cols = 0;
    for (auto &b : tr) cols += b.cols();
    if (why.empty() && (tr.empty() || Index(tr.size()) != iters + 1)) why = "unexpected number of operator calls";
    if (why.empty()) {
      // (4) first block = unit vectors on a valid choice of the lowest diagonal entries
      const MatrixXd &X0 = tr[0];
      VectorXd sd = H.diagonal();
      std::sort(sd.data(), sd.data() + sd.size());
      Index off = ham ? n / 2 : 0;
      std::vector<double> got;
      bool unit = X0.cols() == 2 * k;
      for (Index j = 0; unit && j < X0.cols(); j++) {
        Index row;
        X0.col(j).cwiseAbs().maxCoeff(&row);
        VectorXd e = VectorXd::Zero(n);
        e(row) = 1.0;
        if ((X0.col(j) - e).norm() != 0.0) unit = false;
        got.push_back(H(row, row));
      }
      std::sort(got.begin(), got.end());
      for (Index j = 0; unit && j < 2 * k; j++)
        if (got[j] != sd(off + j)) unit = false;
      if (!unit) why = "start vectors are not unit vectors on the lowest diagonal entries";
      // (5) every correction block has 1..size_update columns
      for (size_t t = 1; why.empty() && t < tr.size(); t++)
        if (tr[t].cols() < 1 || tr[t].cols() > su) why = "correction block " + std::to_string(t) + " has " + std::to_string(tr[t].cols()) + " columns";
    }
    if (why.empty()) {
      // E = the search space at the moment of the stop.  Without restart this is everything that was multiplied.  A SYMM
      // restart replaces the space by its restart_size lowest Ritz vectors plus the new block (documented thick restart);
      // that is replayed here on the recorded blocks.  If the cut is ambiguous (degenerate Ritz values) or in HAM mode the
      // union of all blocks (a superset of the final space) is used instead.
      MatrixXd E = tr[0];
      bool superset = false;
      for (size_t t = 1; t < tr.size() && !superset; t++) {
        if (E.cols() + tr[t].cols() > mss_eff) {
          if (ham) { superset = true; break; }
          Eigen::SelfAdjointEigenSolver<MatrixXd> es(symmetrise(E.transpose() * H * E));
          Index rs = 2 * k;
          if (es.info() != Eigen::Success || rs > E.cols() ||
              (rs < E.cols() && es.eigenvalues()(rs) - es.eigenvalues()(rs - 1) < 1e-9 * scale)) { superset = true; break; }
          MatrixXd keep = E * es.eigenvectors().leftCols(rs);
          E.resize(n, rs + tr[t].cols());
          E.leftCols(rs) = keep;
          E.rightCols(tr[t].cols()) = tr[t];
        } else {
          E.conservativeResize(n, E.cols() + tr[t].cols());
          E.rightCols(tr[t].cols()) = tr[t];
        }
      }
      if (superset) {
        E.resize(n, cols);
        Index at = 0;
        for (auto &b : tr) { E.middleCols(at, b.cols()) = b; at += b.cols(); }
      }
      Eigen::ColPivHouseholderQR<MatrixXd> qr(E);
      qr.setThreshold(1e-9);
      Index rk = qr.rank();
      MatrixXd Q = qr.householderQ() * MatrixXd::Identity(n, rk);
      // (1) returned vectors inside the explored subspace
      for (Index j = 0; why.empty() && j < k; j++)
        if ((V.col(j) - Q * (Q.transpose() * V.col(j))).norm() > 1e-8) why = "returned vector " + std::to_string(j) + " is outside the explored subspace";
      // (2) returned values are the lowest (positive) Ritz values of everything that was explored
      if (why.empty()) {
        MatrixXd HE = Q.transpose() * H * Q;
        VectorXd mu;
        if (!ham) {
          Eigen::SelfAdjointEigenSolver<MatrixXd> es(symmetrise(HE), Eigen::EigenvaluesOnly);
          mu = es.eigenvalues();
        } else {
          // HAM ranks by harmonic Ritz value (Morgan 1991): T x = mu (Q^T H H Q) x, largest mu first; the value reported
          // for a harmonic Ritz vector is its Rayleigh quotient x^T T x
          MatrixXd BE = Q.transpose() * (H * (H * Q));
          Eigen::GeneralizedEigenSolver<MatrixXd> ges;
          bool okg = true;
          try {
            ges.compute(HE, BE, true);
            okg = ges.info() == Eigen::Success;
          } catch (const std::exception &) {
            okg = false;
          }
          std::vector<std::pair<double, double>> hr;  // (mu, Rayleigh quotient)
          if (okg)
            for (Index i = 0; i < rk; i++) {
              std::complex<double> ev = ges.eigenvalues()(i);
              if (!std::isfinite(ev.real()) || std::fabs(ev.imag()) > 1e-9) continue;
              VectorXd x = ges.eigenvectors().col(i).real();
              if (x.norm() == 0) continue;
              x.normalize();
              hr.push_back({ev.real(), x.dot(HE * x)});
            }
          std::sort(hr.begin(), hr.end(), [](const std::pair<double, double> &a, const std::pair<double, double> &b) { return a.first > b.first; });
          std::vector<double> sel;
          for (Index j = 0; j < k && j < Index(hr.size()); j++) sel.push_back(hr[j].second);
          std::sort(sel.begin(), sel.end());
          mu = Eigen::Map<VectorXd>(sel.data(), Index(sel.size()));
        }
        if (mu.size() < k) why = "explored subspace has fewer than neigen roots";
        for (Index j = 0; why.empty() && j < k; j++)
          if (!(std::fabs(ths(j) - mu(j)) <= valtol))
            why = "explored subspace (dim " + std::to_string(rk) + ") offers the root " + bsx::fmt(mu(j)) + " for position " + std::to_string(j);
        if (why.empty())
          return failwith(pre + (iters == 0 ? "converged-on-start-space-not-lowest" : "converged-on-explored-subspace-not-lowest"),
                          desc + "; the returned roots are converged and are the lowest Ritz values of the explored subspace (dim " +
                              std::to_string(rk) + " of " + std::to_string(n) + ", reachable dim " + std::to_string(W.dim()) + ")");
      }
    }
    bool restarted = false;  // did the search space ever exceed the limit (then parts of the explored subspace were dropped)?
    {
      Index cc = 0;
      for (size_t t = 0; t < tr.size(); t++) {
        cc += tr[t].cols();
        if (t > 0 && cc > std::min<Index>(n, c.tight ? 3 * k : 5 * k)) { restarted = true; cc = 2 * k + tr[t].cols(); }
      }
    }
    return failwith(pre + "success-not-lowest" + (restarted ? std::string("-after-restart") : input_class()), desc + "; no certificate of a legitimate stop: " + why + "; reachable subspace dim " +
                                                                    std::to_string(W.dim()));
  }
}

// ------------------------------------------------------------------ solver-object reuse histories
// One DavidsonSolver object, several solve() calls; options are set through the public setters before every solve
// exactly as a caller would (set_max_search_space only when the element asks for a limit, or to reset a limit an
// earlier element of the history has set).  After EVERY solve: (b) status, iteration count, eigenvalues and
// eigenvectors must equal those of a FRESH solver given the same matrix and options (the start vectors are
// deterministic, so 1e-12), then (a) the usual per-solve oracle on the reused object's result.
static const int NELEM = 9;
static Case element(int e) {
  static const char *tab[NELEM] = {
      "fam=b;n=16;p=0,0,0,0;corr=DPR;upd=safe;tol=normal;tight=0;k=2;mf=0",          // easy, diagonally dominant: Success
      "fam=b;n=16;p=0,0,0,0;corr=OLSEN;upd=max;tol=strict;tight=0;k=2;mf=1",         // same matrix, OLSEN, matrix-free
      "fam=a;n=40;p=0,0,0,0;corr=DPR;upd=safe;tol=lapack;tight=0;k=3;mf=0;it=2",     // dense Q, iter_max 2: NoConvergence
      "fam=b;n=40;p=3,0,1,0;corr=DPR;upd=safe;tol=normal;tight=0;k=3;mf=0",          // other size and neigen: Success
      "fam=b;n=8;p=0,0,0,0;corr=DPR;upd=safe;tol=normal;tight=0;k=1;mf=0",           // small n (search space clipped to 5)
      "fam=d;n=16;p=2,0,0,0;corr=DPR;upd=safe;tol=normal;tight=0;k=2;mf=1",          // HAM mode: Success
      "fam=d;n=40;p=2,0,0,1;corr=OLSEN;upd=safe;tol=lapack;tight=0;k=3;mf=0;it=1",   // HAM, iter_max 1: NoConvergence
      "fam=b;n=40;p=0,0,0,0;corr=OLSEN;upd=min;tol=loose;tight=1;k=3;mf=0",          // explicit search-space limit 3*neigen
      "fam=a;n=16;p=4,1,0,0;corr=DPR;upd=safe;tol=lapack;tight=0;k=4;mf=0;it=3",     // iter_max 3: NoConvergence
  };
  return cparse(tab[e]);
}
static bsx::Outcome run_history(const Case &hc, bool verbose) {
  bsx::Outcome o;
  const int len = int(hc.p[1]);
  std::vector<int> hist;
  {
    long code = hc.p[0];
    for (int i = 0; i < len; i++) { hist.push_back(int(code % NELEM)); code /= NELEM; }
  }
  std::string cas = cstr(hc);
  std::string hs;
  for (int e : hist) hs += (hs.empty() ? "" : " -> ") + std::string("E") + std::to_string(e);
  auto failwith = [&](const std::string &key, const std::string &what) {
    o.ok = false;
    o.key = key;
    o.what = what + "  [history " + hs + "; " + cas + "]";
    return o;
  };
  Logger log;
  DavidsonSolver DS(log);
  bool limit_was_set = false;
  Index stale_mss = 0;  // model of the only option the caller did not touch: the max_search_space_ member
  std::string statuses;
  for (int step = 0; step < len; step++) {
    Case c = element(hist[size_t(step)]);
    MatrixXd H;
    bool ham = false;
    if (!build(c, H, ham)) return failwith("machinery-reuse-alphabet", "alphabet element is not in the space");
    const double scale = std::max(1.0, H.cwiseAbs().maxCoeff());
    int mss_mode = c.tight ? 1 : (limit_was_set ? -1 : 0);
    if (mss_mode != 0) stale_mss = c.tight ? 3 * c.k : 0;
    limit_was_set = limit_was_set || c.tight;
    apply_options(DS, c, ham, mss_mode);
    Run reused = solve_on(DS, H, c, c.mf != 0, nullptr);
    Run fresh = solve_real(H, ham, c, c.mf != 0, nullptr);
    // what the member max_search_space_ is during this solve on the reused object vs on a fresh one
    Index eff_reused = stale_mss < c.k ? 5 * c.k : stale_mss;
    eff_reused = std::min<Index>(eff_reused, H.rows());
    Index eff_fresh = std::min<Index>(c.tight ? 3 * c.k : 5 * c.k, H.rows());
    stale_mss = eff_reused;
    const std::string cls = eff_reused != eff_fresh ? "-stale-max-search-space" : "";
    std::string at = "solve #" + std::to_string(step + 1) + " (" + cstr(c) + ") on the reused object";
    if (eff_reused != eff_fresh)
      at += " [max_search_space_ left at " + std::to_string(eff_reused) + " by an earlier solve, a fresh solver uses " + std::to_string(eff_fresh) + "]";
    auto sname = [](const Run &r) { return r.status == "S" ? std::string("Success") : r.status == "N" ? std::string("NoConvergence") : "threw '" + r.threw + "'"; };
    if (reused.status != fresh.status || reused.threw != fresh.threw)
      return failwith("reuse-status-differs-from-fresh" + cls, at + " reports " + sname(reused) + ", a fresh solver reports " + sname(fresh));
    if (reused.iters != fresh.iters)
      return failwith("reuse-iterations-differ-from-fresh" + cls, at + " needs " + std::to_string(reused.iters) + " iterations, a fresh solver " + std::to_string(fresh.iters));
    if (reused.status != "X") {
      if (reused.th.size() != fresh.th.size() || reused.V.rows() != fresh.V.rows() || reused.V.cols() != fresh.V.cols())
        return failwith("reuse-shape-differs-from-fresh" + cls, at + " returns " + std::to_string(reused.th.size()) + " values / " +
                                                                     std::to_string(reused.V.rows()) + "x" + std::to_string(reused.V.cols()) + " vectors");
      // NaN-safe comparisons
      if (!((reused.th - fresh.th).cwiseAbs().maxCoeff() <= 1e-12 * scale))
        return failwith("reuse-values-differ-from-fresh" + cls, at + " returns " + vecstr(reused.th) + ", a fresh solver " + vecstr(fresh.th));
      if (!((reused.V - fresh.V).cwiseAbs().maxCoeff() <= 1e-12))
        return failwith("reuse-vectors-differ-from-fresh" + cls, at + " returns eigenvectors that differ from a fresh solver's by " +
                                                                      bsx::fmt((reused.V - fresh.V).cwiseAbs().maxCoeff()));
    }
    // (a) the per-solve oracle on what the reused object returned
    bsx::Outcome po = run_case(c, false, &reused);
    if (!po.ok) return failwith(po.key, at + ": " + po.what);
    statuses += reused.status;
  }
  o.cls = bsx::fnv("r|" + statuses + "|" + std::to_string(hc.p[0]));
  o.extra = statuses;
  if (verbose || g_track.seen.insert("r" + statuses).second)
    o.what = cas + " = history " + hs + " on one solver object -> " + statuses + ", every solve identical to a fresh solver and passing the per-solve oracle";
  return o;
}

// ------------------------------------------------------------------ iteration limit as a dimension (lim=1)
// "for diagonally dominant matrices it does report success within the iteration limit": a solve that needs k iterations must
// report Success whenever iter_max >= k.  Self-calibrating per tree: K = num_iterations() of a solve with the default limit (50) on
// the tree under test = index of the iteration in which it converged, i.e. it needs K+1 iterations (the trajectory does not
// depend on the limit).  Then iter_max = K+1 and K+2 must give Success with the same roots, iter_max = K (if K >= 1) must give
// NoConvergence; each of these results also goes through the per-solve oracle.
static bsx::Outcome run_limit(const Case &c0, bool verbose) {
  bsx::Outcome o;
  std::string cas = cstr(c0);
  auto failwith = [&](const std::string &key, const std::string &what) {
    o.ok = false;
    o.key = key;
    o.what = what + "  [" + cas + "]";
    return o;
  };
  Case c = c0;
  c.lim = 0;
  MatrixXd H;
  bool ham = false;
  if (!build(c, H, ham)) { o.extra = "skip"; return o; }
  const Index n = H.rows();
  const double scale = std::max(1.0, H.cwiseAbs().maxCoeff());
  bool demanded = !ham && strictly_dd(H);
  if (demanded) {
    Eigen::SelfAdjointEigenSolver<Eigen::Matrix<long double, Eigen::Dynamic, Eigen::Dynamic>> es(H.cast<long double>(), Eigen::EigenvaluesOnly);
    double lam = std::max(std::fabs(double(es.eigenvalues()(0))), std::fabs(double(es.eigenvalues()(c.k - 1))));
    demanded = DBL_EPSILON * double(n) * lam <= 0.01 * TOLV[c.tol];
  }
  if (!demanded) { o.extra = "skip-limit-not-demanded"; return o; }
  c.it = 50;  // the default limit: everything beyond it is outside the ordinary space (and meets the Gram-Schmidt defect at ~65 it.)
  Run big = solve_real(H, ham, c, c.mf != 0, nullptr);
  if (big.status != "S") {  // does not converge at all / throws: the ordinary cases (and their known classes) cover that
    o.extra = "skip-limit-no-success-with-50";
    return o;
  }
  const Index K = big.iters;
  auto sname = [](const Run &r) { return r.status == "S" ? std::string("Success") : r.status == "N" ? std::string("NoConvergence") : "threw '" + r.threw + "'"; };
  const std::string need = "the solve converges in iteration index " + std::to_string(K) + " (needs " + std::to_string(K + 1) + " iterations, measured with iter_max=50)";
  for (Index lim : {K + 1, K + 2, K}) {
    if (lim < 1) continue;
    c.it = int(lim);
    Run r = solve_real(H, ham, c, c.mf != 0, nullptr);
    if (lim > K) {
      const char *which = lim == K + 1 ? "limit-exactly-sufficient-not-success" : "limit-more-than-sufficient-not-success";
      if (r.status != "S")
        return failwith(which, need + " but with iter_max=" + std::to_string(lim) + " the solver reports " + sname(r) + " after iteration index " +
                                   std::to_string(r.iters) + " (diagonally dominant: success is required within the limit)");
      if (r.iters != K || !((r.th - big.th).cwiseAbs().maxCoeff() <= 1e-12 * scale) || !((r.V - big.V).cwiseAbs().maxCoeff() <= 1e-12))
        return failwith("limit-changes-result", need + " but with iter_max=" + std::to_string(lim) + " it stops in iteration " + std::to_string(r.iters) +
                                                    " with values " + vecstr(r.th) + " instead of " + vecstr(big.th));
    } else {
      if (r.status == "S")
        return failwith("limit-insufficient-reports-success", need + " but with iter_max=" + std::to_string(lim) + " the solver reports Success");
      if (r.status != "N")
        return failwith("limit-insufficient-not-noconvergence", need + " but with iter_max=" + std::to_string(lim) + " the solver " + sname(r));
    }
    bsx::Outcome po = run_case(c, false, &r);  // roots lowest / residuals / flagged roots
    if (!po.ok) return failwith(po.key, "iter_max=" + std::to_string(lim) + ": " + po.what);
  }
  o.cls = bsx::fnv("l|" + std::to_string(K) + "|" + std::string(1, c.fam));
  o.extra = "K" + std::to_string(std::min<Index>(K, 20));
  if (verbose || g_track.seen.insert("l" + o.extra).second)
    o.what = cas + " -> " + need + "; iter_max=" + std::to_string(K + 1) + "," + std::to_string(K + 2) + " Success with identical roots" +
             (K >= 1 ? ", iter_max=" + std::to_string(K) + " NoConvergence" : "");
  return o;
}

// ------------------------------------------------------------------ enumeration
struct Block {
  std::string name;
  long count;
  std::function<Case(long)> at;
};
static std::vector<int> neigens(int n, bool ham) {
  std::vector<int> r;
  for (int k : {1, 2, 3, n / 4}) {
    if (k < 1 || k > n / 4) continue;
    if (ham && 2 * k > n / 2) continue;
    if (std::find(r.begin(), r.end(), k) == r.end()) r.push_back(k);
  }
  return r;
}
// option index -> (corr, upd, tol, tight); optset 0 = all 48, 1 = 2 representative ones, 2 = the other 46
static void setopt48(Case &c, int o) {
  c.corr = o % 2; o /= 2;
  c.upd = o % 3; o /= 3;
  c.tol = o % 4; o /= 4;
  c.tight = o % 2;
}
static int opt48_of_reduced(int o) {  // (DPR,safe,normal,default search space) and (OLSEN,max,lapack,3*neigen)
  int corr = o % 2, tight = corr, upd = tight ? 2 : 1, tol = corr ? 3 : 1;
  return corr + 2 * (upd + 3 * (tol + 4 * tight));
}
static const int NRED = 2;
static int nopts(int optset) { return optset == 0 ? 48 : optset == 1 ? NRED : 48 - NRED; }
static void setopt(Case &c, int optset, int o) {
  if (optset == 0) return setopt48(c, o);
  if (optset == 1) return setopt48(c, opt48_of_reduced(o));
  static std::vector<int> others;
  if (others.empty()) {
    std::set<int> red;
    for (int r = 0; r < NRED; r++) red.insert(opt48_of_reduced(r));
    for (int f = 0; f < 48; f++)
      if (!red.count(f)) others.push_back(f);
  }
  return setopt48(c, others.at(size_t(o)));
}

// Order: the small complete lattices with a representative option set first (simplest counterexamples first), then the
// structured families by size, then the remaining option combinations of the lattices (the bulk of the cases).
static std::vector<Block> blocks(const std::string &tier) {
  bool thorough = tier == "thorough";
  std::vector<Block> bl;
  auto lattice_c = [&](int os) {
    bl.push_back({"c:lattice4x4/opts" + std::to_string(os), NLATC * nopts(os), [=](long i) {
                    Case c; c.fam = 'c'; c.n = 4; c.k = 1;
                    c.p[0] = i % NLATC;
                    setopt(c, os, int(i / NLATC));
                    return c; }});
  };
  auto lattice_d1 = [&](int os) {
    bl.push_back({"d:lattice-m3/opts" + std::to_string(os), NLATD1 * nopts(os), [=](long i) {
                    Case c; c.fam = 'd'; c.n = 6; c.k = 1; c.p[0] = 1;
                    c.p[1] = i % NLATD1;
                    setopt(c, os, int(i / NLATD1));
                    return c; }});
  };
  {  // solver-object reuse: all ordered pairs (quick) / triples (thorough) over the 9-element alphabet
    int len = thorough ? 3 : 2;
    long cnt = 1;
    for (int i = 0; i < len; i++) cnt *= NELEM;
    bl.push_back({"r:reuse-histories", cnt, [=](long i) {
                    Case c; c.fam = 'r'; c.n = 0; c.k = 0;
                    c.p[0] = i; c.p[1] = len;
                    return c; }});
  }
  lattice_c(1);
  // complete m=2 BSE lattice, all options
  bl.push_back({"d:lattice-m2", NLATD0 * 48, [=](long i) {
                  Case c; c.fam = 'd'; c.n = 4; c.k = 1; c.p[0] = 0;
                  c.p[1] = i % NLATD0;
                  setopt(c, 0, int(i / NLATD0));
                  return c; }});
  lattice_d1(1);
  std::vector<int> sizes = thorough ? std::vector<int>{8, 16, 40, 120} : std::vector<int>{8, 16, 40};
  for (int n : sizes) {
    std::vector<int> ks = neigens(n, false);
    long nk = long(ks.size());
    // b: diagonally dominant
    bl.push_back({"b:n" + std::to_string(n), 5L * NPAT * 3 * nk * 48 * 2, [=](long i) {
                    Case c; c.fam = 'b'; c.n = n;
                    c.mf = int(i % 2); i /= 2;
                    setopt(c, 0, int(i % 48)); i /= 48;
                    c.k = ks[i % nk]; i /= nk;
                    c.p[2] = i % 3; i /= 3;
                    c.p[1] = i % NPAT; i /= NPAT;
                    c.p[0] = i % 5;
                    return c; }});
    // a: Q diag(s) Q^T
    bl.push_back({"a:n" + std::to_string(n), 5L * 2 * nk * 48 * 2, [=](long i) {
                    Case c; c.fam = 'a'; c.n = n;
                    c.mf = int(i % 2); i /= 2;
                    setopt(c, 0, int(i % 48)); i /= 48;
                    c.k = ks[i % nk]; i /= nk;
                    c.p[1] = i % 2; i /= 2;
                    c.p[0] = i % 5;
                    return c; }});
    // d: dense BSE blocks, n = 2m
    if (n >= 16) {
      std::vector<int> hks = neigens(n, true);
      long nhk = long(hks.size());
      long npat = n >= 120 ? 1 : NPAT, ndiag = n >= 120 ? 2 : 4;
      bl.push_back({"d:dense-n" + std::to_string(n), ndiag * npat * 3 * nhk * 48 * 2, [=](long i) {
                      Case c; c.fam = 'd'; c.n = n; c.p[0] = 2;
                      c.mf = int(i % 2); i /= 2;
                      setopt(c, 0, int(i % 48)); i /= 48;
                      c.k = hks[i % nhk]; i /= nhk;
                      c.p[3] = i % 3; i /= 3;
                      c.p[2] = i % npat; i /= npat;
                      c.p[1] = i % ndiag;
                      return c; }});
    }
  }
  // iteration limit as a dimension of the diagonally dominant families (b, and the graded members of e)
  for (int n : thorough ? std::vector<int>{8, 16, 40} : std::vector<int>{16}) {
    std::vector<int> ks = neigens(n, false);
    long nk = long(ks.size());
    bl.push_back({"limit:b-n" + std::to_string(n), 5L * NPAT * 3 * nk * 48 * 2, [=](long i) {
                    Case c; c.fam = 'b'; c.n = n; c.lim = 1;
                    c.mf = int(i % 2); i /= 2;
                    setopt(c, 0, int(i % 48)); i /= 48;
                    c.k = ks[i % nk]; i /= nk;
                    c.p[2] = i % 3; i /= 3;
                    c.p[1] = i % NPAT; i /= NPAT;
                    c.p[0] = i % 5;
                    return c; }});
    bl.push_back({"limit:e-graded-n" + std::to_string(n), NGRADE * 2L * 2 * nk * 48 * 2, [=](long i) {
                    Case c; c.fam = 'e'; c.n = n; c.p[0] = 1; c.lim = 1;
                    c.mf = int(i % 2); i /= 2;
                    setopt(c, 0, int(i % 48)); i /= 48;
                    c.k = ks[i % nk]; i /= nk;
                    c.p[2] = i % 2; i /= 2;
                    c.p[3] = i % 2; i /= 2;
                    c.p[1] = i % NGRADE;
                    return c; }});
  }
  // ... and of the strictly diagonally dominant members of the 4x4 lattice (many are solved by the initial guess: iter_max=1)
  bl.push_back({"limit:c-lattice4x4", NLATC * nopts(1), [=](long i) {
                  Case c; c.fam = 'c'; c.n = 4; c.k = 1; c.lim = 1;
                  c.p[0] = i % NLATC;
                  setopt(c, 1, int(i / NLATC));
                  return c; }});
  // e: large-norm operators (shifted / graded diagonals), SYMM dense + matrix-free and HAM
  for (int n : thorough ? std::vector<int>{8, 16, 40} : std::vector<int>{8, 16}) {
    std::vector<int> ks = neigens(n, false);
    long nk = long(ks.size());
    for (int kind = 0; kind < 2; kind++) {
      long nsc = kind == 0 ? 6 : NGRADE, nord = kind == 0 ? 1 : 2;
      bl.push_back({std::string("e:") + (kind ? "graded" : "shifted") + "-n" + std::to_string(n), nsc * nord * 2 * nk * 48 * 2, [=](long i) {
                      Case c; c.fam = 'e'; c.n = n; c.p[0] = kind;
                      c.mf = int(i % 2); i /= 2;
                      setopt(c, 0, int(i % 48)); i /= 48;
                      c.k = ks[i % nk]; i /= nk;
                      c.p[2] = i % 2; i /= 2;
                      c.p[3] = i % nord; i /= nord;
                      c.p[1] = i % nsc;
                      return c; }});
    }
    if (n >= 16) {
      std::vector<int> hks = neigens(n, true);
      long nhk = long(hks.size());
      for (int kind = 2; kind < 4; kind++) {
        long nsc = kind == 2 ? 3 : NGRADE, nord = kind == 2 ? 1 : 2;  // HAM: positive shifts only
        bl.push_back({std::string("e:ham-") + (kind == 3 ? "graded" : "shifted") + "-n" + std::to_string(n), nsc * nord * nhk * 48 * 2, [=](long i) {
                        Case c; c.fam = 'e'; c.n = n; c.p[0] = kind;
                        c.mf = int(i % 2); i /= 2;
                        setopt(c, 0, int(i % 48)); i /= 48;
                        c.k = hks[i % nhk]; i /= nhk;
                        c.p[3] = i % nord; i /= nord;
                        c.p[1] = (kind == 2) ? 2 * (i % nsc) : i % nsc;
                        c.p[2] = 0;
                        return c; }});
      }
    }
  }
  if (thorough) {
    lattice_d1(2);
    lattice_c(2);
  }
  return bl;
}

int main(int argc, char **argv) {
  omp_set_num_threads(1);
  Eigen::setNbThreads(1);
  bsx::Args a = bsx::parse(argc, argv);
  // the solver prints matrices to std::cerr before throwing; keep the logs clean
  static std::stringbuf sink;
  std::cerr.rdbuf(&sink);

  if (a.has_case) {
    bsx::Outcome o;
    bsx::contained(
        0, 1, [&](long long) { return run_case(cparse(a.cas), true); }, [&](long long, const bsx::Outcome &r) { o = r; });
    if (o.ok) {
      printf("HOLDS %s %s\n", o.extra.c_str(), o.what.c_str());
      return 0;
    }
    printf("FAILS key=%s %s\n", o.key.c_str(), o.what.c_str());
    return 3;
  }

  bsx::Report R;
  R.property = "C09";
  R.part = "davidson";
  R.tier = a.tier;
  R.max_samples = 24;
  if (a.kv.count("maxfail")) R.max_fail_per_key = size_t(atol(a.kv["maxfail"].c_str()));  // development aid
  R.deadline_s = a.tier == "thorough" ? 560 : 150;
  R.rule =
      "every case = (matrix, correction DPR|OLSEN, update min|safe|max, tolerance loose|normal|strict|lapack, max search space "
      "default|3*neigen, neigen, dense|matrix-free operator) run through the real DavidsonSolver::solve and compared with "
      "Eigen::SelfAdjointEigenSolver (SYMM) or the Cholesky-reduced BSE reference (HAM). Families: a = Q diag(s) Q^T with a fixed dense "
      "or near-identity orthogonal Q, n in {8,16,40,120(thorough)}, 5 spectra; b = strictly diagonally dominant (5 diagonals x 4 "
      "off-diagonal patterns {generic dense, rank<=3 signs, tridiagonal, all-ones} x eps {0.01,0.1,0.5}); c = ALL symmetric 4x4 matrices with diagonal in {0..3} and off-diagonals in {-1,0,1}; d = BSE "
      "block form (all 2x2-block integer matrices, a reduced 3x3-block lattice, dense blocks n in {16,40,120(thorough)}), only "
      "members with A+B, A-B positive definite. A distinct outcome class is (family, status Success|NoConvergence|threw, iteration "
      "count, number of flagged roots, reachable-subspace flag, diagonally-dominant flag). quick: lattices with 2 representative "
      "option combinations (m=2 BSE lattice: all 48), thorough: all 48. Family e = large-norm operators: strictly diagonally dominant matrix + uniform shift s*I, s in {+-3e4,+-3e5,+-3e6}, and graded "
      "diagonals 1..1e6 / 1..1e8 (ascending and shuffled), n in {8,16,40(thorough)}, dense and matrix-free, all 48 option combinations, "
      "plus the same as block A of the BSE form (HAM); (operator, tolerance) pairs with eps*n*|wanted root| > tol/100 are not part of "
      "the space (counter skipped_tolerance_below_double_rounding_of_wanted_roots); reference in long double. For EVERY family the "
      "residual |A v - theta v| of every returned pair is recomputed in long double and must be <= selected tol * 1.001 + 4 n "
      "eps_longdouble || |A||v| + |theta||v| || (the rounding of the recomputation, < 1e-3 tol for all operators here). Iteration limit (lim=1) on the diagonally dominant "
      "families b and e/graded (n=16 quick; 8,16,40 thorough; all options) and the dd members of the 4x4 lattice (2 option sets): K = iteration index of convergence measured with iter_max=50 on "
      "the tree under test; iter_max=K+1 and K+2 must report Success with identical roots, iter_max=K NoConvergence, each result also "
      "through the per-solve oracle. Family r = solver-object reuse: all ordered pairs (quick) / "
      "triples (thorough) over 9 (matrix, options) elements {easy dd, OLSEN+matrix-free, iter_max 2/1/3 NoConvergence, other n and "
      "neigen, n=8, HAM, explicit search-space limit} solved on ONE solver object with options set through the public setters; after "
      "every solve the result must equal a fresh solver's (status, iterations, values, vectors to 1e-12) and pass the per-solve oracle.";
  R.assumptions = {
      "Eigen::SelfAdjointEigenSolver / LLT / EigenSolver are trusted as reference",
      "an exception out of solve() counts as an honest non-success (the statement does not mention exceptions)",
      "HAM value tolerance is 2*kappa(X)*tol (Bauer-Fike); members with kappa >= 1e6 are outside the space",
      "OpenMP threads = 1",
  };

  std::vector<Block> bl = blocks(a.tier);
  long total = 0;
  for (auto &b : bl) total += b.count;
  auto decode = [&](long g) {
    for (auto &b : bl) {
      if (g < b.count) return b.at(g);
      g -= b.count;
    }
    throw std::runtime_error("index out of range");
  };
  // my cases: global index g = j*nshards + shard
  int ns = std::max(1, a.nshards);
  long mine = (total - a.shard + ns - 1) / ns;
  if (a.shard >= total) mine = 0;
  long chunk = 20000;
  for (long lo = 0; lo < mine; lo += chunk) {
    if (R.out_of_time()) {
      R.cap("time limit: stopped after " + std::to_string(lo) + " of " + std::to_string(mine) + " cases of this shard");
      break;
    }
    long hi = std::min(mine, lo + chunk);
    bsx::contained(
        lo, hi, [&](long long j) { return run_case(decode(j * ns + a.shard)); },
        [&](long long j, const bsx::Outcome &o) {
          if (o.extra.rfind("skip-limit", 0) == 0) {
            R.counters[o.extra == "skip-limit-not-demanded" ? "limit_skipped_success_not_demanded" : "limit_skipped_no_success_with_iter_max_50"]++;
            return;
          }
          if (o.extra == "skip" || o.extra == "skip-illconditioned" || o.extra == "skip-unresolvable") {
            R.counters[o.extra == "skip" ? "skipped_not_positive_definite" : o.extra == "skip-unresolvable" ? "skipped_tolerance_below_double_rounding_of_wanted_roots" : "skipped_illconditioned_bse"]++;
            return;
          }
          Case c = decode(j * ns + a.shard);
          R.eval(c.fam == 'r' ? c.p[1] : 1);
          if (c.fam == 'r') R.counters["reuse_histories"]++;
          if (!o.ok) {
            R.fail(o.key, o.what, cstr(c));
            R.counters[std::string("fail_") + c.fam + "_" + o.key]++;
            return;
          }
          if (o.cls) R.cls(o.cls);
          R.counters[std::string("outcome_") + c.fam + "_" + o.extra]++;
          if (!o.what.empty()) R.sample(o.what);
        });
  }
  R.counters["cases_in_space"] = total;
  if (!a.out.empty() && !R.write(a.out)) return 2;
  printf("C09 %s shard %d/%d: %lld evaluations, %zu classes, %zu failure records, %.1fs\n", a.tier.c_str(), a.shard, ns,
         R.evaluations, R.classes.size(), R.failures.size(), R.elapsed());
  return 0;
}
