// C03 — neighbour search finds exactly the pairs and triples within the cutoff, once.
// Exhaustive placement of 2 and 3 beads on fractional lattices (negative coordinates, cell
// boundaries, box faces, far images) x boxes x cutoffs (2, 3, >=4 grid cells per direction),
// dense 64-bead blocks for multiplicity, N = 0/1, and all small molecule/interaction
// topologies for the exclusion clause, against an O(N^2)/O(N^3) brute-force reference with an
// independent image search in long double.  One harness, four parts (--part pair2|triple3|dense|excl).
#include <array>
#include <memory>

#include "bsx.h"
#include <votca/csg/beadlist.h>
#include <votca/csg/interaction.h>
#include <votca/csg/nblist.h>
#include <votca/csg/nblist_3body.h>
#include <votca/csg/nblistgrid.h>
#include <votca/csg/nblistgrid_3body.h>
#include <votca/csg/topology.h>

using namespace votca::csg;
using bsx::hexd;
using bsx::unhex;
typedef long double LD;
typedef std::array<LD, 3> L3;
typedef std::array<double, 3> D3;

static const LD NEAR = 1e-12L;  // |d - cutoff| below this: the pair may go either way
static const double VTOL = 1e-9;

// ------------------------------------------------------------------ box + reference geometry
struct Box {
  double ax = 0, by = 0, cz = 0, bx = 0, cx = 0, cy = 0;
  bool diagonal() const { return bx == 0 && cx == 0 && cy == 0; }
  Eigen::Matrix3d mat() const {
    Eigen::Matrix3d m = Eigen::Matrix3d::Zero();
    m(0, 0) = ax; m(1, 1) = by; m(2, 2) = cz; m(0, 1) = bx; m(0, 2) = cx; m(1, 2) = cy;
    return m;
  }
  std::string str() const { return hexd(ax) + "," + hexd(by) + "," + hexd(cz) + "," + hexd(bx) + "," + hexd(cx) + "," + hexd(cy); }
  std::string pretty() const {
    char b[200];
    snprintf(b, sizeof b, "a=(%g,0,0) b=(%g,%g,0) c=(%g,%g,%g)", ax, bx, by, cx, cy, cz);
    return b;
  }
  static Box parse(const std::string &s) {
    auto f = bsx::split(s, ',');
    Box b;
    b.ax = unhex(f[0]); b.by = unhex(f[1]); b.cz = unhex(f[2]); b.bx = unhex(f[3]); b.cx = unhex(f[4]); b.cy = unhex(f[5]);
    return b;
  }
  D3 place(const D3 &f) const {
    return {ax * f[0] + bx * f[1] + cx * f[2], by * f[1] + cy * f[2], cz * f[2]};
  }
  // the three plane distances of the parallelepiped (independent of the code under test)
  std::array<LD, 3> heights() const {
    L3 a = {ax, 0, 0}, b = {bx, by, 0}, c = {cx, cy, cz};
    auto cr = [](const L3 &u, const L3 &v) { return L3{u[1] * v[2] - u[2] * v[1], u[2] * v[0] - u[0] * v[2], u[0] * v[1] - u[1] * v[0]}; };
    auto nm = [](const L3 &u) { return sqrtl(u[0] * u[0] + u[1] * u[1] + u[2] * u[2]); };
    LD V = fabsl((LD)ax * by * cz);
    return {V / nm(cr(b, c)), V / nm(cr(c, a)), V / nm(cr(a, b))};
  }
  LD hmin() const { auto h = heights(); return std::min(h[0], std::min(h[1], h[2])); }
};
struct MinImg { L3 v; LD d; int k[3]; };
// independent minimum image: reduce the fractional difference to [-1/2,1/2]^3, then search 5^3 images
static MinImg minimg(const Box &B, const D3 &ri, const D3 &rj) {
  L3 D = {(LD)rj[0] - ri[0], (LD)rj[1] - ri[1], (LD)rj[2] - ri[2]};
  LD s2 = D[2] / B.cz;
  LD s1 = (D[1] - B.cy * s2) / B.by;
  LD s0 = (D[0] - B.bx * s1 - B.cx * s2) / B.ax;
  LD n0 = roundl(s0), n1 = roundl(s1), n2 = roundl(s2);
  L3 R = {D[0] - (B.ax * n0 + B.bx * n1 + B.cx * n2), D[1] - (B.by * n1 + B.cy * n2), D[2] - B.cz * n2};
  MinImg best; best.d = 1e300L;
  for (int i = -2; i <= 2; i++)
    for (int j = -2; j <= 2; j++)
      for (int k = -2; k <= 2; k++) {
        L3 v = {R[0] - ((LD)B.ax * i + (LD)B.bx * j + (LD)B.cx * k), R[1] - ((LD)B.by * j + (LD)B.cy * k), R[2] - (LD)B.cz * k};
        LD d = sqrtl(v[0] * v[0] + v[1] * v[1] + v[2] * v[2]);
        if (d < best.d) { best.d = d; best.v = v; best.k[0] = (int)n0 + i; best.k[1] = (int)n1 + j; best.k[2] = (int)n2 + k; }
      }
  return best;
}
// cells per direction the statement's "cells at least one cutoff thick" implies (only used for class keys / narrow failure keys)
static std::array<int, 3> ref_cells(const Box &B, double cut) {
  auto h = B.heights();
  std::array<int, 3> n;
  for (int i = 0; i < 3; i++) n[i] = (int)std::max((LD)1, floorl(h[i] / cut + 1e-9L));
  return n;
}
static std::string nclass(const Box &B, double cut) {
  auto n = ref_cells(B, cut);
  int mn = std::min(n[0], std::min(n[1], n[2]));
  return std::string(B.diagonal() ? "ortho" : "tric") + (mn <= 1 ? "-N1" : mn == 2 ? "-N2" : mn == 3 ? "-N3" : "-N4plus");
}

// ------------------------------------------------------------------ batch result (crosses the containment pipe)
struct Fail { std::string key, what, cas; };
struct Batch {
  long long evals = 0;
  std::set<uint64_t> cls;
  std::vector<Fail> fails;
  std::map<std::string, long long> failcount, counters;
  std::vector<std::string> samples;
  void fail(const std::string &key, const std::string &what, const std::string &cas) {
    if (++failcount[key] <= 3) fails.push_back({key, what, cas});
  }
  static std::string clean(std::string s) {
    for (char &c : s) if ((unsigned char)c < 0x20) c = ' ';
    return s;
  }
  std::string ser() const {
    std::string s = "E" + std::to_string(evals);
    for (uint64_t h : cls) s += "\x1d" "C" + std::to_string(h);
    for (auto &f : fails) s += "\x1d" "F" + clean(f.key) + "\x1c" + clean(f.what) + "\x1c" + clean(f.cas);
    for (auto &kv : failcount) s += "\x1d" "N" + kv.first + "\x1c" + std::to_string(kv.second);
    for (auto &kv : counters) s += "\x1d" "K" + kv.first + "\x1c" + std::to_string(kv.second);
    for (auto &x : samples) s += "\x1d" "S" + clean(x);
    return s;
  }
  static void merge(const std::string &s, bsx::Report &R) {
    for (auto &t : bsx::split(s, '\x1d')) {
      if (t.empty()) continue;
      std::string body = t.substr(1);
      auto f = bsx::split(body, '\x1c');
      switch (t[0]) {
        case 'E': R.eval(atoll(body.c_str())); break;
        case 'C': R.cls((uint64_t)strtoull(body.c_str(), nullptr, 10)); break;
        case 'F':
          if (R.failures.size() < 400) {
            size_t have = 0;
            for (auto &x : R.failures) if (x.key == f[0]) have++;
            if (have < R.max_fail_per_key) R.failures.push_back({f[0], f[1], f[2]});
          }
          break;
        case 'N': R.failcount[f[0]] += atoll(f[1].c_str()); break;
        case 'K': R.counters[f[0]] += atoll(f[1].c_str()); break;
        case 'S': R.sample(body); break;
      }
    }
  }
};

// ------------------------------------------------------------------ world
struct World {
  Topology top;
  std::vector<Bead *> beads;
  World(const std::vector<std::string> &types, const std::vector<std::string> &names) {
    for (size_t i = 0; i < types.size(); i++) beads.push_back(top.CreateBead(Bead::spherical, names[i], types[i], 1, 1.0, 0.0));
  }
  void setpos(size_t i, const D3 &r) { beads[i]->setPos(Eigen::Vector3d(r[0], r[1], r[2])); }
  D3 pos(size_t i) const { auto &p = beads[i]->getPos(); return {p[0], p[1], p[2]}; }
};
struct PairRec {
  struct Call { long i, j; Eigen::Vector3d r; double d; };
  std::vector<Call> calls;
  bool match(Bead *a, Bead *b, const Eigen::Vector3d &r, double d) { calls.push_back({(long)a->getId(), (long)b->getId(), r, d}); return true; }
};
struct TripleRec {
  long long calls = 0;
  bool match(Bead *, Bead *, Bead *, const Eigen::Vector3d &, const Eigen::Vector3d &, const Eigen::Vector3d &, const double, const double, const double) {
    calls++; return true;
  }
};

// pair variants
enum PV { NB1 = 0, GRID1, NB2, GRID2, NPV };
static const char *pvname[NPV] = {"nblist-1list", "grid-1list", "nblist-2list", "grid-2list"};
// triple variants
enum TV { T_NB1 = 0, T_GRID1, T_NB2, T_GRID2, T_NB3, T_GRID3, NTV };
static const char *tvname[NTV] = {"nb3-1type", "grid3-1type", "nb3-2type", "grid3-2type", "nb3-3type", "grid3-3type"};

static std::string vstr(const Eigen::Vector3d &v) {
  char b[120];
  snprintf(b, sizeof b, "(%.12g,%.12g,%.12g)", v[0], v[1], v[2]);
  return b;
}

// expected status of an unordered pair
enum St { MUSTNOT = 0, MAY = 1, MUST = 2 };
struct PairExp { St st = MUSTNOT; MinImg mi; bool excluded = false; bool within = false; };

// Run one pair variant and compare with the expectation.
// scope(i,j) (i<j): is the unordered pair a candidate of this variant at all (list membership).
// Returns "" or the failure key suffix + message through out parameters.
struct PairCheck {
  bool ok = true;
  std::string key, what;
  std::string sig;  // outcome signature for the class hash
  long long callbacks = 0;
};
static PairCheck run_pair_variant(World &W, const Box &B, double cut, int pv, BeadList &l1, BeadList &l2, bool excl,
                                  const std::function<PairExp(long, long)> &expect) {
  PairCheck pc;
  PairRec rec;
  std::unique_ptr<NBList> nb;
  if (pv == NB1 || pv == NB2) nb.reset(new NBList());
  else nb.reset(new NBListGrid());
  nb->setCutoff(cut);
  nb->SetMatchFunction(&rec, &PairRec::match);
  if (pv == NB1 || pv == GRID1) nb->Generate(l1, excl);
  else nb->Generate(l1, l2, excl);
  pc.callbacks = (long long)rec.calls.size();
  auto fail = [&](const std::string &k, const std::string &w) { if (pc.ok) { pc.ok = false; pc.key = k; pc.what = w; } };
  // candidate unordered pairs
  std::vector<std::pair<long, long>> scope;
  if (pv == NB1 || pv == GRID1) {
    for (auto i = l1.begin(); i != l1.end(); ++i)
      for (auto j = i + 1; j != l1.end(); ++j) scope.push_back({std::min((*i)->getId(), (*j)->getId()), std::max((*i)->getId(), (*j)->getId())});
  } else {
    for (auto i = l1.begin(); i != l1.end(); ++i)
      for (auto j = l2.begin(); j != l2.end(); ++j) scope.push_back({std::min((*i)->getId(), (*j)->getId()), std::max((*i)->getId(), (*j)->getId())});
  }
  std::map<std::pair<long, long>, int> ncall, nstore;
  auto chkvec = [&](long first, long second, const Eigen::Vector3d &r, double d, const char *where) {
    long i = std::min(first, second), j = std::max(first, second);
    PairExp e = expect(i, j);
    double sgn = first == i ? 1.0 : -1.0;  // connection vector = minimum image of pos(second) - pos(first)
    Eigen::Vector3d ev(sgn * (double)e.mi.v[0], sgn * (double)e.mi.v[1], sgn * (double)e.mi.v[2]);
    if ((r - ev).cwiseAbs().maxCoeff() > VTOL)
      fail("wrong-vector", std::string(where) + " pair (" + std::to_string(first) + "," + std::to_string(second) + ") has r=" + vstr(r) + ", minimum image of pos(second)-pos(first) is " + vstr(ev));
    else if (std::fabs(d - (double)e.mi.d) > VTOL)
      fail("wrong-distance", std::string(where) + " pair (" + std::to_string(first) + "," + std::to_string(second) + ") has dist=" + bsx::fmt(d) + " expected " + bsx::fmt((double)e.mi.d));
  };
  for (auto &c : rec.calls) {
    if (c.i == c.j) { fail("self-pair", "bead " + std::to_string(c.i) + " paired with itself"); continue; }
    ncall[{std::min(c.i, c.j), std::max(c.i, c.j)}]++;
  }
  for (auto it = nb->begin(); it != nb->end(); ++it) {
    long f = (long)(*it)->first()->getId(), s = (long)(*it)->second()->getId();
    nstore[{std::min(f, s), std::max(f, s)}]++;
  }
  std::set<std::pair<long, long>> inscope(scope.begin(), scope.end());
  for (auto &kv : ncall)
    if (!inscope.count(kv.first)) fail("pair-outside-lists", "callback got pair (" + std::to_string(kv.first.first) + "," + std::to_string(kv.first.second) + ") that is not (list1 x list2)");
  for (auto &kv : nstore)
    if (!inscope.count(kv.first)) fail("pair-outside-lists", "stored pair (" + std::to_string(kv.first.first) + "," + std::to_string(kv.first.second) + ") that is not (list1 x list2)");
  for (auto &p : inscope) {
    PairExp e = expect(p.first, p.second);
    int nc = ncall.count(p) ? ncall[p] : 0, ns = nstore.count(p) ? nstore[p] : 0;
    std::string ps = "(" + std::to_string(p.first) + "," + std::to_string(p.second) + ") d=" + bsx::fmt((double)e.mi.d) + " cutoff=" + bsx::fmt(cut);
    if (e.st == MUST && nc == 0) fail("missing-pair", "pair " + ps + " is within the cutoff and not excluded but was not delivered");
    if (e.st == MUST && nc >= 1 && ns == 0) fail("pair-not-stored", "pair " + ps + " was delivered to the callback but is not in the list");
    if (e.st == MUSTNOT && (nc > 0 || ns > 0))
      fail(e.excluded && e.within ? "excluded-pair-reported" : "spurious-pair", "pair " + ps + (e.excluded && e.within ? " is excluded but was reported" : " is beyond the cutoff but was reported"));
    if (nc > 1) fail("pair-delivered-twice", "pair " + ps + " was delivered to the match callback " + std::to_string(nc) + " times");
    if (ns > 1) fail("pair-stored-twice", "pair " + ps + " is stored " + std::to_string(ns) + " times");
    if (nc == 1 && ns == 1 && e.st != MUSTNOT) pc.sig += std::to_string(p.first) + "-" + std::to_string(p.second) + ":" + std::to_string(e.mi.k[0]) + "," + std::to_string(e.mi.k[1]) + "," + std::to_string(e.mi.k[2]) + ";";
  }
  if (pc.ok) {
    for (auto &c : rec.calls) chkvec(c.i, c.j, c.r, c.d, "callback");
    for (auto it = nb->begin(); it != nb->end(); ++it) chkvec((long)(*it)->first()->getId(), (long)(*it)->second()->getId(), (*it)->r(), (*it)->dist(), "stored");
  }
  return pc;
}

// triples: expectation per (centre,{j,k})
struct TripleCheck { bool ok = true; std::string key, what, sig; long long callbacks = 0, stored = 0; };
static TripleCheck run_triple_variant(World &W, double cut, int tv, BeadList &l1, BeadList &l2, BeadList &l3,
                                      const std::function<St(long, long, long)> &expect) {
  TripleCheck tc;
  TripleRec rec;
  std::unique_ptr<NBList_3Body> nb;
  bool grid = tv == T_GRID1 || tv == T_GRID2 || tv == T_GRID3;
  if (grid) nb.reset(new NBListGrid_3Body()); else nb.reset(new NBList_3Body());
  nb->setCutoff(cut);
  nb->SetMatchFunction(&rec, &TripleRec::match);
  int ntypes = (tv == T_NB1 || tv == T_GRID1) ? 1 : (tv == T_NB2 || tv == T_GRID2) ? 2 : 3;
  if (ntypes == 1) nb->Generate(l1, false);
  else if (ntypes == 2) nb->Generate(l1, l2, false);
  else nb->Generate(l1, l2, l3, false);
  tc.callbacks = rec.calls;
  auto fail = [&](const std::string &k, const std::string &w) { if (tc.ok) { tc.ok = false; tc.key = k; tc.what = w; } };
  typedef std::array<long, 3> T3;
  std::set<T3> scope;
  BeadList &m2 = ntypes == 1 ? l1 : l2;
  BeadList &m3 = ntypes == 1 ? l1 : ntypes == 2 ? l2 : l3;
  for (auto i = l1.begin(); i != l1.end(); ++i)
    for (auto j = m2.begin(); j != m2.end(); ++j)
      for (auto k = m3.begin(); k != m3.end(); ++k) {
        long a = (*i)->getId(), b = (*j)->getId(), c = (*k)->getId();
        if (a == b || a == c || b == c) continue;
        scope.insert({a, std::min(b, c), std::max(b, c)});
      }
  std::map<T3, int> nstore;
  for (auto it = nb->begin(); it != nb->end(); ++it) {
    long a = (long)std::get<0>(**it)->getId(), b = (long)std::get<1>(**it)->getId(), c = (long)std::get<2>(**it)->getId();
    if (a == b || a == c || b == c) { fail("degenerate-triple", "triple with a repeated bead"); continue; }
    nstore[{a, std::min(b, c), std::max(b, c)}]++;
    tc.stored++;
  }
  for (auto &kv : nstore)
    if (!scope.count(kv.first)) fail("triple-outside-lists", "stored triple (" + std::to_string(kv.first[0]) + ",{" + std::to_string(kv.first[1]) + "," + std::to_string(kv.first[2]) + "}) is not in list1 x list2 x list3");
  for (auto &t : scope) {
    St st = expect(t[0], t[1], t[2]);
    int ns = nstore.count(t) ? nstore[t] : 0;
    std::string ts = "(centre " + std::to_string(t[0]) + ",{" + std::to_string(t[1]) + "," + std::to_string(t[2]) + "})";
    if (st == MUST && ns == 0) fail("missing-triple", "triple " + ts + " has both centre distances below the cutoff but is not reported");
    if (st == MUSTNOT && ns > 0) fail("spurious-triple", "triple " + ts + " is reported although a centre distance is beyond the cutoff");
    if (ns > 1) fail("triple-stored-twice", "triple " + ts + " is stored " + std::to_string(ns) + " times");
    if (ns == 1 && st != MUSTNOT) tc.sig += std::to_string(t[0]) + ":" + std::to_string(t[1]) + "," + std::to_string(t[2]) + ";";
  }
  return tc;
}

// ------------------------------------------------------------------ configurations
struct Config { Box box; double cut; bool cellfamily = false; };  // cellfamily: the 27 boxes that only vary the cells per direction
static std::vector<Config> configs_pair_v1(bool thorough) {
  std::vector<Config> c;
  auto ortho = [](double x, double y, double z) { Box b; b.ax = x; b.by = y; b.cz = z; return b; };
  // cubic L=3: 2 cells (cutoff just below L/2), 3 cells exactly one cutoff thick, 3, 4, 7 cells
  for (double cut : {1.49, 1.0, 0.9, 0.7, 0.4}) c.push_back({ortho(3, 3, 3), cut});
  // every combination of 2,3,4 cells per direction
  for (double x : {2.5, 3.5, 4.5}) for (double y : {2.5, 3.5, 4.5}) for (double z : {2.5, 3.5, 4.5}) {
    if (!thorough && !((x == 2.5 && y == 3.5 && z == 4.5) || (x == 4.5 && y == 2.5 && z == 3.5) || (x == 3.5 && y == 4.5 && z == 2.5) || (x == 2.5 && y == 2.5 && z == 4.5))) continue;
    c.push_back({ortho(x, y, z), 1.0, true});
  }
  c.push_back({ortho(2.5, 3.5, 4.5), 1.2});
  c.push_back({ortho(2.5, 3.5, 4.5), 0.6});
  // reduced triclinic: extreme positive tilts, mixed-sign extreme tilts, generic quarter tilts
  std::vector<Box> tri;
  { Box b; b.ax = 3; b.by = 3; b.cz = 3; b.bx = 1.5; b.cx = 1.5; b.cy = 1.5; tri.push_back(b); }
  { Box b; b.ax = 3; b.by = 3; b.cz = 3; b.bx = -1.5; b.cx = 1.5; b.cy = -1.5; tri.push_back(b); }
  { Box b; b.ax = 2.5; b.by = 3.5; b.cz = 4.5; b.bx = 0.625; b.cx = -1.25; b.cy = 0.875; tri.push_back(b); }
  for (auto &b : tri) {
    double h = (double)b.hmin();
    for (double f : {0.49, 0.33, 0.24}) c.push_back({b, f * h});
  }
  return c;
}
// triclinic boxes of the deep (thorough) tier: extreme positive / mixed-sign / generic / all-negative tilts and the three single-tilt shapes
static std::vector<Box> deep_triclinic() {
  std::vector<Box> tri;
  auto mk = [](double ax, double by, double cz, double bx, double cx, double cy) { Box b; b.ax = ax; b.by = by; b.cz = cz; b.bx = bx; b.cx = cx; b.cy = cy; return b; };
  tri.push_back(mk(3, 3, 3, 1.5, 1.5, 1.5));
  tri.push_back(mk(3, 3, 3, -1.5, 1.5, -1.5));
  tri.push_back(mk(2.5, 3.5, 4.5, 0.625, -1.25, 0.875));
  tri.push_back(mk(3, 3, 3, -1.5, -1.5, -1.5));
  tri.push_back(mk(3, 3.5, 4, 1.5, 0, 0));     // b_x only
  tri.push_back(mk(3, 3.5, 4, 0, -1.5, 0));    // c_x only, negative
  tri.push_back(mk(3, 3.5, 4, 0, 0, 1.75));    // c_y only
  return tri;
}
static std::vector<Config> configs_pair(bool thorough) {
  if (!thorough) return configs_pair_v1(false);
  std::vector<Config> c;
  auto ortho = [](double x, double y, double z) { Box b; b.ax = x; b.by = y; b.cz = z; return b; };
  // cubic L=3: 2,2,3 (exactly one cutoff thick),3,4,5,6,7 cells
  for (double cut : {1.49, 1.2, 1.0, 0.9, 0.7, 0.55, 0.45, 0.4}) c.push_back({ortho(3, 3, 3), cut});
  // every combination of 2,3,4 cells per direction (cutoff 1) and of 4,5,7 cells per direction (cutoff 0.62)
  for (double cut : {1.0, 0.62})
    for (double x : {2.5, 3.5, 4.5}) for (double y : {2.5, 3.5, 4.5}) for (double z : {2.5, 3.5, 4.5}) c.push_back({ortho(x, y, z), cut, true});
  c.push_back({ortho(2.5, 3.5, 4.5), 1.2});   // 2,2,3
  c.push_back({ortho(2.5, 3.5, 4.5), 0.6});   // 4,5,7
  c.push_back({ortho(2.5, 3.5, 4.5), 0.5});   // 5,7,9
  for (auto &b : deep_triclinic()) {
    double h = (double)b.hmin();
    for (double f : {0.49, 0.33, 0.24, 0.19, 0.14}) c.push_back({b, f * h});   // 2,3,4,5,7 cells along the shortest direction, more along the others
  }
  return c;
}
static std::vector<Config> configs_triple_v1(bool thorough) {
  std::vector<Config> c;
  auto ortho = [](double x, double y, double z) { Box b; b.ax = x; b.by = y; b.cz = z; return b; };
  c.push_back({ortho(3, 3, 3), 1.49});
  c.push_back({ortho(3, 3, 3), 0.9});
  if (thorough) c.push_back({ortho(3, 3, 3), 0.7});
  c.push_back({ortho(2.5, 3.5, 4.5), 1.0});
  { Box b; b.ax = 3; b.by = 3; b.cz = 3; b.bx = 1.5; b.cx = 1.5; b.cy = 1.5; double h = (double)b.hmin(); c.push_back({b, 0.49 * h}); if (thorough) c.push_back({b, 0.33 * h}); }
  { Box b; b.ax = 2.5; b.by = 3.5; b.cz = 4.5; b.bx = 0.625; b.cx = -1.25; b.cy = 0.875; double h = (double)b.hmin(); c.push_back({b, 0.49 * h}); if (thorough) c.push_back({b, 0.3 * h}); }
  return c;
}
static std::vector<Config> configs_triple(bool thorough) {
  if (!thorough) return configs_triple_v1(false);
  std::vector<Config> c;
  auto ortho = [](double x, double y, double z) { Box b; b.ax = x; b.by = y; b.cz = z; return b; };
  for (double cut : {1.49, 0.9, 0.7, 0.45}) c.push_back({ortho(3, 3, 3), cut});
  c.push_back({ortho(2.5, 3.5, 4.5), 1.0});
  c.push_back({ortho(2.5, 3.5, 4.5), 0.62});
  c.push_back({ortho(2.5, 4.5, 3.5), 1.0}); c.push_back({ortho(3.5, 2.5, 4.5), 1.0}); c.push_back({ortho(3.5, 4.5, 2.5), 1.0});
  c.push_back({ortho(4.5, 2.5, 3.5), 1.0}); c.push_back({ortho(4.5, 3.5, 2.5), 1.0});
  auto tri = deep_triclinic();
  for (int k : {0, 1, 2, 3, 4, 5, 6}) { double h = (double)tri[k].hmin(); c.push_back({tri[k], 0.49 * h}); c.push_back({tri[k], 0.3 * h}); }
  return c;
}
// fractional lattices (per axis)
static std::vector<double> lat_pair(bool thorough) {
  if (thorough) return {-1.0, -1.0 / 3, 0.0, 0.25, 1.0 / 3, 0.5, 10.0 / 12, 16.0 / 12};
  return {-1.0 / 3, 0.0, 0.25, 0.5, 16.0 / 12};
}
// "near" enumeration: first bead on this lattice (just below 0 and just below 1 included), second bead = first + a
// Cartesian displacement (multiples of the cutoff, straddling it), given raw and wrapped into the primary cell
static std::vector<double> lat_near(bool thorough) {
  if (thorough) return {-6.0 - 1.0 / 48, -1.0 / 3, -1.0 / 48, 0.0, 0.25, 0.5, 47.0 / 48, 16.0 / 12};
  return {-1.0 / 3, -1.0 / 48, 0.0, 0.5, 47.0 / 48};
}
static std::vector<double> disp_near(bool thorough) {
  if (thorough) return {-0.9, -0.5, 0.0, 0.5, 0.9};
  return {-0.9, 0.0, 0.5};
}
static D3 wrap_primary(const Box &B, const D3 &r) {
  double s2 = r[2] / B.cz, s1 = (r[1] - B.cy * s2) / B.by, s0 = (r[0] - B.bx * s1 - B.cx * s2) / B.ax;
  return B.place({s0 - std::floor(s0), s1 - std::floor(s1), s2 - std::floor(s2)});
}
static std::vector<double> lat_triple(bool thorough) {
  if (thorough) return {-0.3, 0.0, 0.5, 1.2};
  return {-0.3, 0.0, 0.5};
}
static std::vector<D3> cube(const std::vector<double> &l) {
  std::vector<D3> p;
  for (double x : l) for (double y : l) for (double z : l) p.push_back({x, y, z});
  return p;
}
static std::string p3(const D3 &r) { return hexd(r[0]) + "," + hexd(r[1]) + "," + hexd(r[2]); }
static D3 u3(const std::string &s) { auto f = bsx::split(s, ','); return {unhex(f[0]), unhex(f[1]), unhex(f[2])}; }
static std::string pp(const D3 &r) { char b[100]; snprintf(b, sizeof b, "(%.6g,%.6g,%.6g)", r[0], r[1], r[2]); return b; }

// ------------------------------------------------------------------ part pair2
struct Pair2 {
  World W{{"A", "B"}, {"X", "Y"}};
  BeadList all, la, lb;
  Pair2() { all.Generate(W.top, "*"); la.Generate(W.top, "A"); lb.Generate(W.top, "B"); }
  // one placement, one variant (pv) or all (-1)
  void one(const Config &cf, const D3 &r0, const D3 &r1, int only, Batch &out) {
    W.setpos(0, r0); W.setpos(1, r1);
    MinImg mi = minimg(cf.box, r0, r1);
    PairExp e; e.mi = mi; e.within = mi.d < cf.cut;
    e.st = fabsl(mi.d - cf.cut) <= NEAR ? MAY : (mi.d < cf.cut ? MUST : MUSTNOT);
    auto expect = [&](long, long) { return e; };
    std::string nc = nclass(cf.box, cf.cut);
    for (int pv = 0; pv < NPV; pv++) {
      if (only >= 0 && pv != only) continue;
      if (only < 0 && cf.cellfamily && (pv == NB1 || pv == NB2)) continue;  // the simple search does not depend on the cell grid
      PairCheck pc = run_pair_variant(W, cf.box, cf.cut, pv, (pv == NB1 || pv == GRID1) ? all : la, lb, false, expect);
      out.evals++;
      if (!pc.ok) {
        std::string cas = "p2;box=" + cf.box.str() + ";cut=" + hexd(cf.cut) + ";r0=" + p3(r0) + ";r1=" + p3(r1) + ";var=" + std::to_string(pv);
        bool grid = pv == GRID1 || pv == GRID2;
        out.fail(std::string(pvname[pv]) + "-" + pc.key + "-" + (grid ? nc : std::string(cf.box.diagonal() ? "ortho" : "tric")),
                 pc.what + "  [" + cf.box.pretty() + " cutoff=" + bsx::fmt(cf.cut) + " r0=" + pp(r0) + " r1=" + pp(r1) + "]", cas);
      } else {
        auto n = ref_cells(cf.box, cf.cut);
        char t[200];
        snprintf(t, sizeof t, "p2|%d|%d%d%d|%s|%s", pv, std::min(n[0], 4), std::min(n[1], 4), std::min(n[2], 4), cf.box.diagonal() ? "o" : "t", pc.sig.c_str());
        if (!pc.sig.empty()) out.cls.insert(bsx::fnv(t));
        out.counters[pc.sig.empty() ? "p2_no_pair" : "p2_pair_found"]++;
        if (e.st == MAY) out.counters["p2_on_cutoff_either_way"]++;
      }
    }
  }
};

// ------------------------------------------------------------------ part triple3
struct Triple3 {
  World W{{"A", "B", "C"}, {"X", "Y", "Y"}};
  BeadList all, la, lb, lc, ly;
  Triple3() { all.Generate(W.top, "*"); la.Generate(W.top, "A"); lb.Generate(W.top, "B"); lc.Generate(W.top, "C"); ly.Generate(W.top, "name:Y"); }
  void one(const Config &cf, const D3 &r0, const D3 &r1, const D3 &r2, int only, Batch &out) {
    W.setpos(0, r0); W.setpos(1, r1); W.setpos(2, r2);
    D3 r[3] = {r0, r1, r2};
    PairExp pe[3][3];
    for (int i = 0; i < 3; i++)
      for (int j = 0; j < 3; j++) {
        if (i == j) continue;
        pe[i][j].mi = minimg(cf.box, r[i], r[j]);
        pe[i][j].within = pe[i][j].mi.d < cf.cut;
        pe[i][j].st = fabsl(pe[i][j].mi.d - cf.cut) <= NEAR ? MAY : (pe[i][j].mi.d < cf.cut ? MUST : MUSTNOT);
      }
    auto pexp = [&](long i, long j) { return pe[i][j]; };
    auto texp = [&](long c, long j, long k) {
      St a = pe[c][j].st, b = pe[c][k].st;
      if (a == MUSTNOT || b == MUSTNOT) return MUSTNOT;
      if (a == MAY || b == MAY) return MAY;
      return MUST;
    };
    std::string nc = nclass(cf.box, cf.cut);
    std::string oc = cf.box.diagonal() ? "ortho" : "tric";
    auto cas = [&](int var) {
      return "p3;box=" + cf.box.str() + ";cut=" + hexd(cf.cut) + ";r0=" + p3(r0) + ";r1=" + p3(r1) + ";r2=" + p3(r2) + ";var=" + std::to_string(var);
    };
    auto where = [&]() { return "  [" + cf.box.pretty() + " cutoff=" + bsx::fmt(cf.cut) + " r0=" + pp(r0) + " r1=" + pp(r1) + " r2=" + pp(r2) + "]"; };
    auto n = ref_cells(cf.box, cf.cut);
    // var 0..5 = triple variants, 6 = nblist-1list, 7 = grid-1list, 8 = nblist-2list ({0} x {1,2}), 9 = grid-2list
    for (int tv = 0; tv < NTV; tv++) {
      if (only >= 0 && only != tv) continue;
      int nt = tv / 2 + 1;
      TripleCheck tc = run_triple_variant(W, cf.cut, tv, nt == 1 ? all : la, nt == 2 ? ly : lb, lc, texp);
      out.evals++;
      bool grid = tv % 2 == 1;
      if (!tc.ok) out.fail(std::string(tvname[tv]) + "-" + tc.key + "-" + (grid ? nc : oc), tc.what + where(), cas(tv));
      else {
        char t[200];
        snprintf(t, sizeof t, "p3|%d|%d%d%d|%s|%s", tv, std::min(n[0], 4), std::min(n[1], 4), std::min(n[2], 4), oc.c_str(), tc.sig.c_str());
        if (!tc.sig.empty()) out.cls.insert(bsx::fnv(t));
        out.counters[tc.sig.empty() ? "p3_no_triple" : "p3_triples_found"]++;
        if (tc.stored) { out.counters[std::string("callbacks_") + tvname[tv]] += tc.callbacks; out.counters[std::string("stored_") + tvname[tv]] += tc.stored; }
      }
    }
    for (int pv = 0; pv < NPV; pv++) {
      int var = 6 + pv;
      if (only >= 0 && only != var) continue;
      bool one = pv == NB1 || pv == GRID1;
      if (only < 0 && !one) continue;  // two-list pair search on 3 beads adds nothing over pair2 + dense
      PairCheck pc = run_pair_variant(W, cf.box, cf.cut, pv, one ? all : la, ly, false, pexp);
      out.evals++;
      bool grid = pv == GRID1 || pv == GRID2;
      if (!pc.ok) out.fail(std::string(pvname[pv]) + "-" + pc.key + "-" + (grid ? nc : oc) + "-3beads", pc.what + where(), cas(var));
      else if (!pc.sig.empty()) {
        char t[200];
        snprintf(t, sizeof t, "p3p|%d|%d%d%d|%s|%s", pv, std::min(n[0], 4), std::min(n[1], 4), std::min(n[2], 4), oc.c_str(), pc.sig.c_str());
        out.cls.insert(bsx::fnv(t));
      }
    }
  }
};

// ------------------------------------------------------------------ part dense: N = 0, 1 and 4x4x4 blocks
struct DenseCfg { Config cf; int n; int origin; double spacing_frac; };
static std::vector<D3> dense_origins() { return {{0, 0, 0}, {-0.4, 0.1, -0.05}, {0.9, -1.2, 0.3}, {0.49, 0.49, -2.3}, {-7.3, 11.2, -4.6}}; }
static void dense_one(const DenseCfg &dc, int only, Batch &out) {
  const Config &cf = dc.cf;
  int n = dc.n;
  std::vector<std::string> types, names;
  const char *ty[3] = {"A", "B", "C"};
  for (int i = 0; i < n; i++) { types.push_back(ty[i % 3]); names.push_back(i % 3 == 0 ? "X" : "Y"); }
  World W(types, names);
  W.top.setBox(cf.box.mat());
  // block: 4 per axis with spacing = spacing_frac * cutoff (Cartesian, so it cuts through the cells obliquely for triclinic boxes)
  D3 org = cf.box.place(dense_origins()[dc.origin]);
  double s = dc.spacing_frac * cf.cut;
  for (int i = 0; i < n; i++) {
    int x = i % 4, y = (i / 4) % 4, z = i / 16;
    // a small deterministic skew so that no two distances coincide with the cutoff by construction
    D3 r = {org[0] + s * x + 0.013 * s * y, org[1] + s * y + 0.007 * s * z, org[2] + s * z + 0.011 * s * x};
    // every third bead (the type-B ones) is given by its image in the primary cell, so neighbours are connected through different images
    W.setpos(i, i % 3 == 1 ? wrap_primary(cf.box, r) : r);
  }
  BeadList all, la, lb, lc, ly;
  all.Generate(W.top, "*"); la.Generate(W.top, "A"); lb.Generate(W.top, "B"); lc.Generate(W.top, "C"); ly.Generate(W.top, "name:Y");
  std::vector<std::vector<PairExp>> pe(n, std::vector<PairExp>(n));
  for (int i = 0; i < n; i++)
    for (int j = 0; j < n; j++) {
      if (i == j) continue;
      pe[i][j].mi = minimg(cf.box, W.pos(i), W.pos(j));
      pe[i][j].within = pe[i][j].mi.d < cf.cut;
      pe[i][j].st = fabsl(pe[i][j].mi.d - cf.cut) <= NEAR ? MAY : (pe[i][j].mi.d < cf.cut ? MUST : MUSTNOT);
    }
  auto pexp = [&](long i, long j) { return pe[i][j]; };
  auto texp = [&](long c, long j, long k) {
    St a = pe[c][j].st, b = pe[c][k].st;
    if (a == MUSTNOT || b == MUSTNOT) return MUSTNOT;
    if (a == MAY || b == MAY) return MAY;
    return MUST;
  };
  std::string nc = nclass(cf.box, cf.cut), oc = cf.box.diagonal() ? "ortho" : "tric";
  auto cas = [&](int var) {
    return "dense;box=" + cf.box.str() + ";cut=" + hexd(cf.cut) + ";n=" + std::to_string(n) + ";org=" + std::to_string(dc.origin) + ";sp=" + hexd(dc.spacing_frac) + ";var=" + std::to_string(var);
  };
  std::string where = "  [" + cf.box.pretty() + " cutoff=" + bsx::fmt(cf.cut) + " " + std::to_string(n) + " beads, block origin #" + std::to_string(dc.origin) + " spacing " + bsx::fmt(s) + "]";
  for (int pv = 0; pv < NPV; pv++) {
    if (only >= 0 && only != pv) continue;
    bool one = pv == NB1 || pv == GRID1;
    PairCheck pc = run_pair_variant(W, cf.box, cf.cut, pv, one ? all : la, ly, false, pexp);
    out.evals++;
    bool grid = pv == GRID1 || pv == GRID2;
    if (!pc.ok) out.fail(std::string(pvname[pv]) + "-" + pc.key + "-" + (grid ? nc : oc) + "-dense", pc.what + where, cas(pv));
    else {
      out.cls.insert(bsx::fnv("dense|" + std::to_string(pv) + "|" + pc.sig));
      out.counters["dense_pairs_reported"] += pc.callbacks;
      if (n <= 1 && pc.callbacks == 0) out.counters["empty_or_single_bead_lists"]++;
    }
  }
  for (int tv = 0; tv < NTV; tv++) {
    if (only >= 0 && only != 4 + tv) continue;
    int nt = tv / 2 + 1;
    TripleCheck tc = run_triple_variant(W, cf.cut, tv, nt == 1 ? all : la, nt == 2 ? ly : lb, lc, texp);
    out.evals++;
    bool grid = tv % 2 == 1;
    if (!tc.ok) out.fail(std::string(tvname[tv]) + "-" + tc.key + "-" + (grid ? nc : oc) + "-dense", tc.what + where, cas(4 + tv));
    else {
      out.cls.insert(bsx::fnv("denset|" + std::to_string(tv) + "|" + tc.sig));
      out.counters["dense_triples_reported"] += tc.stored;
      if (tc.stored) { out.counters[std::string("callbacks_") + tvname[tv]] += tc.callbacks; out.counters[std::string("stored_") + tvname[tv]] += tc.stored; }
    }
  }
}

// ------------------------------------------------------------------ part excl: molecules + bonded interactions
// A topology: nb beads, molecule id per bead (0/1), a set of interactions (each a bead subset of size 2,3,4).
struct ExclTopo { int nb; std::vector<int> mol; std::vector<std::vector<int>> ias; };
static std::vector<ExclTopo> excl_topos(bool thorough) {
  std::vector<ExclTopo> out;
  for (int nb = 2; nb <= (thorough ? 5 : 4); nb++) {
    // interaction alphabet: all bonds, all angles (as ordered i<j<k, centre irrelevant for exclusions), one dihedral
    std::vector<std::vector<int>> alpha;
    for (int i = 0; i < nb; i++) for (int j = i + 1; j < nb; j++) alpha.push_back({i, j});
    for (int i = 0; i < nb; i++) for (int j = i + 1; j < nb; j++) for (int k = j + 1; k < nb; k++) alpha.push_back({j, i, k});
    if (nb >= 4) alpha.push_back({0, 1, 2, 3});
    if (nb == 5) alpha.push_back({1, 2, 3, 4});
    // also bonds written high-id first (ordering of the ids inside an interaction must not matter)
    for (int i = 0; i < nb; i++) for (int j = i + 1; j < nb; j++) alpha.push_back({j, i});
    int maxia = thorough ? (nb == 5 ? 2 : 3) : 2;
    // all molecule assignments with bead 0 in molecule 0 (relabelling symmetry); quick: 2 molecules, thorough: 3 molecules
    int nmol = thorough ? 3 : 2, nassign = 1;
    for (int b = 1; b < nb; b++) nassign *= nmol;
    for (int mm = 0; mm < nassign; mm++) {
      std::vector<int> mol(nb, 0);
      { int q = mm; for (int b = 1; b < nb; b++) { mol[b] = q % nmol; q /= nmol; } }
      // all interaction subsets of size 0..maxia
      size_t A = alpha.size();
      out.push_back({nb, mol, {}});
      for (size_t a = 0; a < A; a++) {
        out.push_back({nb, mol, {alpha[a]}});
        if (maxia >= 2)
          for (size_t b = a + 1; b < A; b++) {
            out.push_back({nb, mol, {alpha[a], alpha[b]}});
            if (maxia >= 3)
              for (size_t c = b + 1; c < A; c++) out.push_back({nb, mol, {alpha[a], alpha[b], alpha[c]}});
          }
      }
    }
  }
  return out;
}
static std::string topo_str(const ExclTopo &t) {
  std::string s = "nb=" + std::to_string(t.nb) + ";mol=";
  for (size_t i = 0; i < t.mol.size(); i++) s += (i ? "," : "") + std::to_string(t.mol[i]);
  s += ";ia=";
  for (size_t i = 0; i < t.ias.size(); i++) {
    if (i) s += "/";
    for (size_t j = 0; j < t.ias[i].size(); j++) s += (j ? "," : "") + std::to_string(t.ias[i][j]);
  }
  return s;
}
static ExclTopo topo_parse(std::map<std::string, std::string> &m) {
  ExclTopo t;
  t.nb = atoi(m["nb"].c_str());
  for (auto &x : bsx::split(m["mol"], ',')) t.mol.push_back(atoi(x.c_str()));
  if (!m["ia"].empty())
    for (auto &g : bsx::split(m["ia"], '/')) {
      std::vector<int> ia;
      for (auto &x : bsx::split(g, ',')) ia.push_back(atoi(x.c_str()));
      t.ias.push_back(ia);
    }
  return t;
}
// arrangements: all beads mutually within the cutoff (so every pair is a candidate), at the cell centre / across the periodic boundary
static void excl_one(const ExclTopo &t, int arr, int only, Batch &out) {
  Box B; B.ax = 3; B.by = 3.5; B.cz = 4; if (arr == 2) { B.bx = 0.75; B.cx = -1.5; B.cy = 0.875; }
  double cut = arr == 2 ? 0.45 * (double)B.hmin() : 1.0;
  std::vector<std::string> types(t.nb, "A"), names;
  for (int i = 0; i < t.nb; i++) names.push_back(i % 2 == 0 ? "X" : "Y");
  World W(types, names);
  W.top.setBox(B.mat());
  // molecules 0 and 1 (created even if empty so that ids are 0/1)
  Molecule *m0 = W.top.CreateMolecule("M0");
  Molecule *m1 = W.top.CreateMolecule("M1");
  Molecule *m2 = W.top.CreateMolecule("M2");
  for (int i = 0; i < t.nb; i++) (t.mol[i] == 0 ? m0 : t.mol[i] == 1 ? m1 : m2)->AddBead(W.beads[i], "b" + std::to_string(i));
  int idx = 0;
  for (auto &ia : t.ias) {
    Interaction *ic = nullptr;
    if (ia.size() == 2) ic = new IBond(ia[0], ia[1]);
    else if (ia.size() == 3) ic = new IAngle(ia[0], ia[1], ia[2]);
    else ic = new IDihedral(ia[0], ia[1], ia[2], ia[3]);
    ic->setGroup(ia.size() == 2 ? "bond" : ia.size() == 3 ? "angle" : "dihedral");
    ic->setIndex(idx++);
    ic->setMolecule(t.mol[ia[0]]);
    W.top.AddBondedInteraction(ic);
  }
  W.top.RebuildExclusions();
  const double off[5][3] = {{0, 0, 0}, {0.3, 0.1, 0}, {0, 0.35, 0.2}, {0.25, 0.25, 0.3}, {0.1, 0.3, 0.35}};
  D3 org = arr == 0 ? D3{1.4, 1.6, 1.9} : arr == 1 ? D3{-0.1, 3.4, -4.1} : B.place({0.95, -0.05, 1.0});
  for (int i = 0; i < t.nb; i++) W.setpos(i, {org[0] + off[i][0], org[1] + off[i][1], org[2] + off[i][2]});
  // reference: excluded iff same molecule and some interaction contains both
  auto refexcl = [&](long i, long j) {
    if (t.mol[i] != t.mol[j]) return false;
    for (auto &ia : t.ias) {
      bool hi = false, hj = false;
      for (int b : ia) { if (b == i) hi = true; if (b == j) hj = true; }
      if (hi && hj) return true;
    }
    return false;
  };
  std::string tcase = "excl;" + topo_str(t) + ";arr=" + std::to_string(arr);
  std::string where = "  [molecule of bead: " + bsx::split(topo_str(t), ';')[1] + " interactions: " + bsx::split(topo_str(t), ';')[2] + " arrangement " + std::to_string(arr) + "]";
  bool anyexcl = false, anyintermol = false;
  for (int i = 0; i < t.nb; i++) for (int j = i + 1; j < t.nb; j++) {
    if (refexcl(i, j)) anyexcl = true;
    if (t.mol[i] != t.mol[j]) for (auto &ia : t.ias) { bool hi = false, hj = false; for (int b : ia) { if (b == i) hi = true; if (b == j) hj = true; } if (hi && hj) anyintermol = true; }
  }
  std::string kcls = anyintermol ? "intermolecular-interaction" : anyexcl ? "intramolecular" : "no-shared-interaction";
  // var 0: ExclusionList::IsExcluded directly, both argument orders
  if (only < 0 || only == 0) {
    out.evals++;
    bool ok = true;
    std::string sig;
    for (int i = 0; i < t.nb && ok; i++)
      for (int j = 0; j < t.nb && ok; j++) {
        if (i == j) continue;
        bool got = W.top.getExclusions().IsExcluded(W.beads[i], W.beads[j]);
        bool exp = refexcl(i, j);
        if (got != exp) {
          ok = false;
          out.fail(std::string("isexcluded-") + (exp ? "misses-" : "invents-") + kcls,
                   "IsExcluded(" + std::to_string(i) + "," + std::to_string(j) + ") = " + (got ? "true" : "false") + ", expected " + (exp ? "true" : "false") + where, tcase + ";var=0");
        }
        if (got && i < j) sig += std::to_string(i) + "-" + std::to_string(j) + ";";
      }
    if (ok && !sig.empty()) out.cls.insert(bsx::fnv("ex|" + std::to_string(t.nb) + "|" + sig));
    if (ok) out.counters[sig.empty() ? "excl_none_excluded" : "excl_some_excluded"]++;
  }
  BeadList all, lx, ly;
  all.Generate(W.top, "*"); lx.Generate(W.top, "name:X"); ly.Generate(W.top, "name:Y");
  std::vector<std::vector<PairExp>> pe(t.nb, std::vector<PairExp>(t.nb));
  for (int ex = 0; ex < 2; ex++) {
    for (int i = 0; i < t.nb; i++)
      for (int j = 0; j < t.nb; j++) {
        if (i == j) continue;
        PairExp &e = pe[i][j];
        e.mi = minimg(B, W.pos(i), W.pos(j));
        e.within = e.mi.d < cut;
        e.excluded = ex == 1 && refexcl(i, j);
        e.st = e.excluded ? MUSTNOT : (fabsl(e.mi.d - cut) <= NEAR ? MAY : (e.mi.d < cut ? MUST : MUSTNOT));
      }
    auto pexp = [&](long i, long j) { return pe[i][j]; };
    for (int pv = 0; pv < NPV; pv++) {
      int var = 1 + ex * NPV + pv;
      if (only >= 0 && only != var) continue;
      bool one = pv == NB1 || pv == GRID1;
      if (!one && (lx.empty() || ly.empty())) continue;
      PairCheck pc = run_pair_variant(W, B, cut, pv, one ? all : lx, ly, ex == 1, pexp);
      out.evals++;
      if (!pc.ok) {
        std::string k = pc.key;
        if (k == "missing-pair" && ex == 1) k = "nonexcluded-pair-suppressed";
        out.fail(std::string(pvname[pv]) + "-" + k + "-" + (ex ? "with-exclusions-" : "exclusions-off-") + kcls, pc.what + where, tcase + ";var=" + std::to_string(var));
      } else if (!pc.sig.empty())
        out.cls.insert(bsx::fnv("exp|" + std::to_string(pv) + "|" + std::to_string(ex) + "|" + pc.sig));
    }
  }
}

// ------------------------------------------------------------------ part prochist: process histories
// A history = an ordered sequence of searches in ONE process, every search on FRESH Topology / BeadList / list objects.
// Anything a search leaves behind in the process (static / thread_local caches, globals) is the only way an earlier search
// can influence a later one.  One forked child per history; --case carries the whole history.  The LAST search of a history
// is compared with the absolute brute-force reference (never with another object of the same process); the earlier searches
// only run (every prefix is itself the end of a shorter history of the enumeration).
struct PScene { Box box; double cut; bool inrange; std::string sig; };
static std::vector<PScene> proc_scenes() {
  std::vector<PScene> sc;
  auto add = [&](const Box &b, double cut) {
    PScene p; p.box = b; p.cut = cut; p.inrange = cut < 0.5 * (double)b.hmin();
    auto n = ref_cells(b, cut);
    p.sig = std::string(b.diagonal() ? "o" : "t") + std::to_string(std::min(n[0], 3)) + std::to_string(std::min(n[1], 3)) + std::to_string(std::min(n[2], 3));
    sc.push_back(p);
  };
  // orthorhombic, cutoff 1: edges 1.6 / 2.5 / 3.5 = 1 / 2 / 3 cells -> all 27 signatures of {1,2,>=3} per axis
  // (a 1-cell axis needs cutoff > L/2, i.e. outside the statement's cutoff range: such scenes only serve as history prefixes)
  for (double x : {1.6, 2.5, 3.5}) for (double y : {1.6, 2.5, 3.5}) for (double z : {1.6, 2.5, 3.5}) { Box b; b.ax = x; b.by = y; b.cz = z; add(b, 1.0); }
  auto tri = deep_triclinic();
  add(tri[0], 0.49 * (double)tri[0].hmin()); add(tri[0], 0.33 * (double)tri[0].hmin());
  add(tri[2], 0.49 * (double)tri[2].hmin()); add(tri[2], 0.30 * (double)tri[2].hmin());
  return sc;
}
// bead set of a scene: a periodic lattice with spacing ~0.8-0.9 cutoff along every box direction (so every bead has a neighbour within the cutoff
// across every cell-layer boundary and across every periodic face), slightly skewed, some beads moved by whole box vectors (negative / outside)
struct PWorld {
  std::unique_ptr<World> W;
  BeadList all, la, lb, lc, ly;
  int n = 0;
  PWorld(const PScene &s) {
    auto h = s.box.heights();
    int m[3];
    for (int k = 0; k < 3; k++) m[k] = std::min(4, std::max(2, (int)floorl(h[k] / (0.8L * s.cut))));
    n = m[0] * m[1] * m[2];
    std::vector<std::string> types, names;
    const char *ty[3] = {"A", "B", "C"};
    for (int i = 0; i < n; i++) { types.push_back(ty[i % 3]); names.push_back(i % 3 == 0 ? "X" : "Y"); }
    W.reset(new World(types, names));
    W->top.setBox(s.box.mat());
    int i = 0;
    for (int x = 0; x < m[0]; x++) for (int y = 0; y < m[1]; y++) for (int z = 0; z < m[2]; z++, i++) {
      D3 f = {(x + 0.13 + 0.011 * y) / m[0], (y + 0.07 + 0.013 * z) / m[1], (z + 0.21 + 0.007 * x) / m[2]};
      if (i % 4 == 1) f[2] -= 1.0;
      if (i % 5 == 2) f[0] += 1.0;
      if (i % 7 == 3) { f[1] -= 1.0; f[2] -= 2.0; }
      W->setpos(i, s.box.place(f));
    }
    all.Generate(W->top, "*"); la.Generate(W->top, "A"); lb.Generate(W->top, "B"); lc.Generate(W->top, "C"); ly.Generate(W->top, "name:Y");
  }
};
// run the grid searches of a scene without looking at the result (history prefix)
static void proc_prefix_search(const PScene &s, bool thorough) {
  PWorld P(s);
  try {
    { NBListGrid nb; nb.setCutoff(s.cut); nb.Generate(P.all, false); }
    { NBListGrid nb; nb.setCutoff(s.cut); nb.Generate(P.la, P.ly, false); }
    { NBList nb; nb.setCutoff(s.cut); nb.Generate(P.all, false); }
    if (thorough) {
      { NBListGrid_3Body nb; nb.setCutoff(s.cut); nb.Generate(P.all, false); }
      { NBListGrid_3Body nb; nb.setCutoff(s.cut); nb.Generate(P.la, P.ly, false); }
      { NBListGrid_3Body nb; nb.setCutoff(s.cut); nb.Generate(P.la, P.lb, P.lc, false); }
    }
  } catch (const std::exception &) {
    // a cutoff outside the stated range may legitimately be refused
  }
}
// variants of the asserted search: 0 grid-1list, 1 grid-2list, 2 nblist-1list (control), 3 nblist-2list (control), 4 grid3-1type, 5 grid3-2type, 6 grid3-3type, 7 nb3-1type (control)
static const int PH_PV[4] = {GRID1, GRID2, NB1, NB2};
static const int PH_TV[4] = {T_GRID1, T_GRID2, T_GRID3, T_NB1};
static std::string ph_case(bool thorough, const std::vector<int> &seq, int var) {
  std::string s = std::string("ph;t=") + (thorough ? "1" : "0") + ";seq=";
  for (size_t i = 0; i < seq.size(); i++) s += (i ? "," : "") + std::to_string(seq[i]);
  if (var >= 0) s += ";var=" + std::to_string(var);
  return s;
}
static void proc_history(const std::vector<PScene> &sc, const std::vector<int> &seq, bool thorough, int only, Batch &out) {
  for (size_t k = 0; k + 1 < seq.size(); k++) proc_prefix_search(sc[seq[k]], thorough);
  const PScene &s = sc[seq.back()];
  if (!s.inrange) return;  // nothing is demanded for this cutoff
  std::string prefix;
  for (size_t k = 0; k + 1 < seq.size(); k++) prefix += (k ? "+" : "") + sc[seq[k]].sig;
  std::string hcls = "last-" + s.sig + (prefix.empty() ? "-alone" : "-after-" + prefix);
  std::string where = "  [process history:";
  for (size_t k = 0; k < seq.size(); k++) {
    auto n = ref_cells(sc[seq[k]].box, sc[seq[k]].cut);
    where += std::string(k ? " ->" : "") + " search " + std::to_string(k + 1) + " " + sc[seq[k]].box.pretty() + " cutoff=" + bsx::fmt(sc[seq[k]].cut) + " cells " + std::to_string(n[0]) + "x" + std::to_string(n[1]) + "x" + std::to_string(n[2]);
  }
  where += "; every search on fresh Topology/BeadList/list objects; the last one is compared with the brute force]";
  PWorld P(s);
  int n = P.n;
  std::vector<std::vector<PairExp>> pe(n, std::vector<PairExp>(n));
  for (int i = 0; i < n; i++)
    for (int j = 0; j < n; j++) {
      if (i == j) continue;
      pe[i][j].mi = minimg(s.box, P.W->pos(i), P.W->pos(j));
      pe[i][j].within = pe[i][j].mi.d < s.cut;
      pe[i][j].st = fabsl(pe[i][j].mi.d - s.cut) <= NEAR ? MAY : (pe[i][j].mi.d < s.cut ? MUST : MUSTNOT);
    }
  auto pexp = [&](long i, long j) { return pe[i][j]; };
  auto texp = [&](long c, long j, long k) {
    St a = pe[c][j].st, b = pe[c][k].st;
    if (a == MUSTNOT || b == MUSTNOT) return MUSTNOT;
    if (a == MAY || b == MAY) return MAY;
    return MUST;
  };
  int nvar = thorough ? 8 : 3;
  for (int v = 0; v < nvar; v++) {
    if (only >= 0 && only != v) continue;
    out.evals++;
    if (v < 4) {
      int pv = PH_PV[v];
      bool one = pv == NB1 || pv == GRID1;
      PairCheck pc = run_pair_variant(*P.W, s.box, s.cut, pv, one ? P.all : P.la, P.ly, false, pexp);
      if (!pc.ok) out.fail(std::string("prochist-") + pvname[pv] + "-" + pc.key + "-" + hcls, pc.what + where, ph_case(thorough, seq, v));
      else { out.cls.insert(bsx::fnv("ph|" + std::to_string(v) + "|" + s.sig + "|" + pc.sig)); out.counters["prochist_pairs_reported"] += pc.callbacks; }
    } else {
      int tv = PH_TV[v - 4];
      int nt = tv / 2 + 1;
      TripleCheck tc = run_triple_variant(*P.W, s.cut, tv, nt == 1 ? P.all : P.la, nt == 2 ? P.ly : P.lb, P.lc, texp);
      if (!tc.ok) out.fail(std::string("prochist-") + tvname[tv] + "-" + tc.key + "-" + hcls, tc.what + where, ph_case(thorough, seq, v));
      else { out.cls.insert(bsx::fnv("pht|" + std::to_string(v) + "|" + s.sig + "|" + tc.sig)); out.counters["prochist_triples_reported"] += tc.stored; }
    }
  }
  if (only < 0 && out.fails.empty() && seq.size() >= 2 && seq[0] % 7 == 2 && seq.back() % 5 == 4)
    out.samples.push_back("history " + hcls + " (" + std::to_string(n) + " beads in the last search): " + std::to_string(out.counters["prochist_pairs_reported"]) + " pair deliveries" +
                          (thorough ? ", " + std::to_string(out.counters["prochist_triples_reported"]) + " stored triples" : "") + " over " + std::to_string(nvar) + " variants, all equal to the brute-force reference");
}
static std::vector<std::vector<int>> proc_histories(const std::vector<PScene> &sc, bool thorough) {
  std::vector<std::vector<int>> H;
  int n = (int)sc.size();
  for (int l = 0; l < n; l++) {
    if (!sc[l].inrange) continue;
    H.push_back({l});
    for (int i = 0; i < n; i++) H.push_back({i, l});
  }
  if (thorough)
    for (int l = 0; l < n; l++) {
      if (!sc[l].inrange) continue;
      for (int i = 0; i < n; i++) for (int j = 0; j < n; j++) H.push_back({i, j, l});
    }
  return H;
}
static int run_prochist(const bsx::Args &a) {
  bool thorough = a.tier == "thorough";
  std::vector<PScene> sc = proc_scenes();
  if (a.has_case) {
    auto m = bsx::kvs(a.cas);
    std::vector<int> seq;
    for (auto &t : bsx::split(m["seq"], ',')) seq.push_back(atoi(t.c_str()));
    Batch out;
    proc_history(sc, seq, m["t"] == "1", m.count("var") ? atoi(m["var"].c_str()) : -1, out);  // this process IS the history's process
    if (out.fails.empty()) { printf("case holds\n"); return 0; }
    printf("case FAILS: key=%s %s\n", out.fails[0].key.c_str(), out.fails[0].what.c_str());
    return 3;
  }
  std::vector<std::vector<int>> H = proc_histories(sc, thorough);
  bsx::Report R;
  R.property = "C03"; R.part = "prochist"; R.tier = a.tier;
  R.max_samples = 6;
  int nin = 0;
  for (auto &s : sc) nin += s.inrange;
  R.rule = "process histories: ordered sequences of 1, 2" + std::string(thorough ? " and 3" : "") + " searches in ONE forked process per history, every search on fresh Topology/BeadList/list objects, over " +
           std::to_string(sc.size()) + " scenes: orthorhombic edges {1.6,2.5,3.5}^3 at cutoff 1 = all 27 signatures of {1,2,>=3} grid cells per axis, plus 2 reduced triclinic boxes at 2 cutoffs each; bead set = periodic lattice "
           "(spacing 0.8-0.9 cutoff along every box direction, 8..64 beads, some moved by whole box vectors), types A,B,C. Earlier searches run NBListGrid (1 and 2 lists), NBList" + std::string(thorough ? ", NBListGrid_3Body (1,2,3 types)" : "") +
           " unchecked; the LAST search of every history whose last scene has cutoff < half the shortest height (" + std::to_string(nin) + " scenes; a 1-cell axis implies a cutoff outside the stated range) is compared with the absolute "
           "brute-force minimum-image reference: " + std::string(thorough ? "NBListGrid 1/2 lists, NBList 1/2 lists (control), NBListGrid_3Body 1/2/3 types, NBList_3Body 1 type (control)" : "NBListGrid 1/2 lists, NBList 1 list (control)") +
           ": exact pair/triple set, each pair delivered and stored once, vectors and distances. --case replays the whole history in a fresh process. distinct_nontrivial = distinct (variant, last scene, reported set)";
  R.assumptions = {"searches whose cutoff is not below half the shortest box height (every scene with a 1-cell axis) are only history prefixes: the statement demands nothing for them, an exception there is tolerated",
                   "only the last search of a history is asserted; each prefix is itself the asserted end of a shorter history of the same enumeration"};
  for (long long i = 0; i < (long long)H.size(); i++) {
    if (!a.mine(i)) continue;
    const std::vector<int> &seq = H[i];
    // one forked child per history
    bsx::contained(
        0, 1, [&](long long) { bsx::Outcome o; Batch b; proc_history(sc, seq, thorough, -1, b); o.extra = b.ser(); return o; },
        [&](long long, const bsx::Outcome &o) {
          R.counters["histories_len" + std::to_string(seq.size())]++;
          if (!o.ok) {
            std::string prefix;
            for (size_t k = 0; k + 1 < seq.size(); k++) prefix += (k ? "+" : "") + sc[seq[k]].sig;
            R.eval();
            R.fail("prochist-crash-last-" + sc[seq.back()].sig + (prefix.empty() ? "-alone" : "-after-" + prefix), "a search of the history crashed: " + o.what, ph_case(thorough, seq, -1));
            return;
          }
          Batch::merge(o.extra, R);
        },
        300);
  }
  if (!R.write(a.out)) { fprintf(stderr, "cannot write %s\n", a.out.c_str()); return 2; }
  return 0;
}

// ------------------------------------------------------------------ --case
static int run_case(const std::string &cas) {
  auto m = bsx::kvs(cas);
  Batch out;
  int var = m.count("var") ? atoi(m["var"].c_str()) : -1;
  if (cas.rfind("p2;", 0) == 0) {
    Config cf{Box::parse(m["box"]), unhex(m["cut"])};
    Pair2 P; P.W.top.setBox(cf.box.mat());
    P.one(cf, u3(m["r0"]), u3(m["r1"]), var, out);
  } else if (cas.rfind("p3;", 0) == 0) {
    Config cf{Box::parse(m["box"]), unhex(m["cut"])};
    Triple3 T; T.W.top.setBox(cf.box.mat());
    T.one(cf, u3(m["r0"]), u3(m["r1"]), u3(m["r2"]), var, out);
  } else if (cas.rfind("dense;", 0) == 0) {
    DenseCfg dc{{Box::parse(m["box"]), unhex(m["cut"])}, atoi(m["n"].c_str()), atoi(m["org"].c_str()), unhex(m["sp"])};
    dense_one(dc, var, out);
  } else if (cas.rfind("excl;", 0) == 0) {
    excl_one(topo_parse(m), atoi(m["arr"].c_str()), var, out);
  } else if (cas.rfind("batch;", 0) == 0) {
    // a batch that crashed the contained child: re-run it here, uncontained (the crash itself is the failure)
    return -1;
  } else { fprintf(stderr, "bad case\n"); return 2; }
  if (out.fails.empty()) { printf("case holds\n"); return 0; }
  printf("case FAILS: key=%s %s\n", out.fails[0].key.c_str(), out.fails[0].what.c_str());
  return 3;
}

int main(int argc, char **argv) {
  bsx::Args a = bsx::parse(argc, argv);
  std::string part = a.kv.count("part") ? a.kv["part"] : "pair2";
  if (part == "prochist" || (a.has_case && a.cas.rfind("ph;", 0) == 0)) return run_prochist(a);
  bool thorough = a.tier == "thorough";
  // batches (shared by the enumeration and by --case batch;...)
  std::vector<Config> pc = configs_pair(thorough), tc = configs_triple(thorough);
  const std::vector<D3> lpq = cube(lat_pair(false));
  std::vector<D3> lp = cube(lat_pair(thorough)), ln = cube(lat_near(thorough)), ld = cube(disp_near(thorough)), lt = cube(lat_triple(thorough));
  struct PB { int first, second, kind; };  // (config, index of the first bead's lattice point, 0 = full product / 1 = near enumeration)
  std::vector<PB> pbatch;
  auto build_pbatch = [&]() {
    pbatch.clear();
    for (size_t c = 0; c < pc.size(); c++) {
      // thorough: configurations with more than 130 grid cells (small cutoffs: almost every lattice pair is far beyond the cutoff and every
      // Generate is expensive) take the 5-per-axis lattice for the full product; the near enumeration is what probes them
      auto nc = ref_cells(pc[c].box, pc[c].cut);
      bool heavy = thorough && (long long)nc[0] * nc[1] * nc[2] > 130;
      if (heavy) { for (size_t i = 0; i < lpq.size(); i++) pbatch.push_back({(int)c, (int)i, 2}); }
      else
      for (size_t i = 0; i < lp.size(); i++) pbatch.push_back({(int)c, (int)i, 0});
      for (size_t i = 0; i < ln.size(); i++) pbatch.push_back({(int)c, (int)i, 1});
    }
  };
  build_pbatch();
  std::vector<DenseCfg> dcs;
  {
    std::vector<Config> base = thorough ? configs_pair(true) : configs_pair_v1(true);
    for (auto &cf : base) {
      for (int org = 0; org < (thorough ? 5 : 4); org++)
        for (double sp : {0.45, 0.8}) {
          if ((org % 2 == 0) != (sp == 0.45)) continue;   // origins 0,2 dense spacing; 1,3 wide spacing
          if (!thorough && org >= 2) continue;
          dcs.push_back({cf, 64, org, sp});
        }
      dcs.push_back({cf, 0, 0, 0.5});
      dcs.push_back({cf, 1, 1, 0.5});
      dcs.push_back({cf, 2, 1, 0.5});
      dcs.push_back({cf, 5, 2, 0.5});
    }
  }
  std::vector<ExclTopo> topos = excl_topos(thorough);
  long long nbatch = part == "pair2" ? (long long)pbatch.size() : part == "triple3" ? (long long)tc.size() * lt.size() + (long long)tc.size() * ln.size()
                     : part == "dense" ? (long long)dcs.size() : (long long)topos.size();
  auto run_batch = [&](long long b) {
    Batch out;
    if (part == "pair2") {
      const Config &cf = pc[pbatch[b].first];
      const std::vector<D3> &L = pbatch[b].kind == 2 ? lpq : lp;
      Pair2 P; P.W.top.setBox(cf.box.mat());
      if (pbatch[b].kind == 1) {
        D3 r0 = cf.box.place(ln[pbatch[b].second]);
        for (auto &d : ld) {
          D3 r1 = {r0[0] + d[0] * cf.cut, r0[1] + d[1] * cf.cut, r0[2] + d[2] * cf.cut};
          P.one(cf, r0, r1, -1, out);
          P.one(cf, r0, wrap_primary(cf.box, r1), -1, out);
          out.counters["p2_near_cases"] += 2;
        }
        return out;
      }
      D3 r0 = cf.box.place(L[pbatch[b].second]);
      for (auto &f1 : L) P.one(cf, r0, cf.box.place(f1), -1, out);
      if (b % 64 == 0 || pbatch[b].second == 3) {
        auto n = ref_cells(cf.box, cf.cut);
        bool in = false, outp = false;
        for (auto &f1 : L) {
          D3 r1 = cf.box.place(f1);
          MinImg mi = minimg(cf.box, r0, r1);
          if (mi.d == 0 || fabsl(mi.d - cf.cut) <= NEAR) continue;
          bool within = mi.d < cf.cut;
          if ((within && in) || (!within && outp)) continue;
          (within ? in : outp) = true;
          out.samples.push_back(cf.box.pretty() + " cutoff=" + bsx::fmt(cf.cut) + " cells " + std::to_string(n[0]) + "x" + std::to_string(n[1]) + "x" + std::to_string(n[2]) + " r0=" + pp(r0) + " r1=" + pp(r1) +
                                " min-image d=" + bsx::fmt((double)mi.d) + " image (" + std::to_string(mi.k[0]) + "," + std::to_string(mi.k[1]) + "," + std::to_string(mi.k[2]) + ")" +
                                (within ? " -> pair delivered and stored once by every variant, r and dist as expected" : " -> no pair from any variant"));
        }
      }
    } else if (part == "triple3" && b >= (long long)(tc.size() * lt.size())) {
      // near enumeration: centre on the 'near' lattice, the two partners = centre + displacement (7 displacements of 0.6/0.87 cutoff),
      // all three raw, or the partners wrapped into the primary cell
      long long q = b - (long long)(tc.size() * lt.size());
      const Config &cf = tc[q / ln.size()];
      Triple3 T; T.W.top.setBox(cf.box.mat());
      D3 r0 = cf.box.place(ln[q % ln.size()]);
      const double D7[7][3] = {{0.6, 0, 0}, {-0.6, 0, 0}, {0, 0.6, 0}, {0, -0.6, 0}, {0, 0, 0.6}, {0, 0, -0.6}, {0.5, 0.5, 0.5}};
      for (int i = 0; i < 7; i++)
        for (int j = 0; j < 7; j++) {
          D3 r1 = {r0[0] + D7[i][0] * cf.cut, r0[1] + D7[i][1] * cf.cut, r0[2] + D7[i][2] * cf.cut};
          D3 r2 = {r0[0] + D7[j][0] * cf.cut, r0[1] + D7[j][1] * cf.cut, r0[2] + D7[j][2] * cf.cut};
          T.one(cf, r0, r1, r2, -1, out);
          T.one(cf, r0, wrap_primary(cf.box, r1), wrap_primary(cf.box, r2), -1, out);
          out.counters["p3_near_cases"] += 2;
        }
    } else if (part == "triple3") {
      const Config &cf = tc[b / lt.size()];
      Triple3 T; T.W.top.setBox(cf.box.mat());
      D3 r0 = cf.box.place(lt[b % lt.size()]);
      for (auto &f1 : lt) { D3 r1 = cf.box.place(f1); for (auto &f2 : lt) T.one(cf, r0, r1, cf.box.place(f2), -1, out); }
      if (b % (long long)lt.size() == 0) {
        bool done = false;
        for (auto &f1 : lt) for (auto &f2 : lt) {
          if (done) break;
          D3 r1 = cf.box.place(f1), r2 = cf.box.place(f2);
          MinImg a1 = minimg(cf.box, r0, r1), a2 = minimg(cf.box, r0, r2), a3 = minimg(cf.box, r1, r2);
          if (a1.d > 0 && a2.d > 0 && a3.d > cf.cut && a1.d < cf.cut - 1e-6 && a2.d < cf.cut - 1e-6) {
            done = true;
            out.samples.push_back(cf.box.pretty() + " cutoff=" + bsx::fmt(cf.cut) + " r0=" + pp(r0) + " r1=" + pp(r1) + " r2=" + pp(r2) + " d01=" + bsx::fmt((double)a1.d) + " d02=" + bsx::fmt((double)a2.d) + " d12=" +
                                  bsx::fmt((double)a3.d) + " -> exactly the triple (centre 0,{1,2}) from all six 3-body variants, stored once");
          }
        }
      }
    } else if (part == "dense") {
      dense_one(dcs[b], -1, out);
      if (dcs[b].n == 64)
        out.samples.push_back(dcs[b].cf.box.pretty() + " cutoff=" + bsx::fmt(dcs[b].cf.cut) + " 64-bead block: pairs reported (4 variants) " + std::to_string(out.counters["dense_pairs_reported"]) +
                              ", triples (6 variants) " + std::to_string(out.counters["dense_triples_reported"]));
    } else {
      for (int arr = 0; arr < 3; arr++) excl_one(topos[b], arr, -1, out);
      if (b % 97 == 5 && out.fails.empty()) out.samples.push_back("topology " + topo_str(topos[b]) + ": IsExcluded and all four pair searchers (exclusions on/off, 3 arrangements) agree with 'same molecule and shared interaction'");
    }
    return out;
  };
  if (a.has_case) {
    if (a.cas.rfind("batch;", 0) == 0) {
      auto m = bsx::kvs(a.cas);
      part = m["part"];
      nbatch = 1;  // recompute below with the right part
      // tier of the batch is part of the case
      thorough = m["tier"] == "thorough";
      pc = configs_pair(thorough); tc = configs_triple(thorough); lp = cube(lat_pair(thorough)); ln = cube(lat_near(thorough)); ld = cube(disp_near(thorough)); lt = cube(lat_triple(thorough)); topos = excl_topos(thorough);
      build_pbatch();
      Batch out = run_batch(atoll(m["idx"].c_str()));  // dies here if the code under test crashes
      if (out.fails.empty()) { printf("case holds\n"); return 0; }
      printf("case FAILS: key=%s %s\n", out.fails[0].key.c_str(), out.fails[0].what.c_str());
      return 3;
    }
    return run_case(a.cas);
  }

  bsx::Report R;
  R.property = "C03"; R.part = part; R.tier = a.tier;
  R.max_samples = 6;
  if (part == "pair2")
    R.rule = "all placements of 2 beads on a " + std::to_string(lat_pair(thorough).size()) + "-per-axis fractional lattice (" + std::string(thorough ? "-1,-1/3,0,1/4,1/3,1/2,5/6,4/3" : "-1/3,0,1/4,1/2,4/3") +
             " of the box vectors: negative, on faces, on cell boundaries, outside the cell) x " + std::to_string(pc.size()) + " (box,cutoff) configurations (" + std::string(thorough ?
             "cubic L=3 with 2,2,3(exactly one cutoff thick),3,4,5,6,7 cells; orthorhombic edges {2.5,3.5,4.5}^3 at cutoff 1 and 0.62 = every combination of 2,3,4 and of 4,5,7 cells per direction; 2.5x3.5x4.5 at 1.2,0.6,0.5 (up to 5x7x9 cells); "
             "7 reduced triclinic boxes (extreme positive, mixed-sign, all-negative, generic tilts, b_x-only, c_x-only, c_y-only) at 0.49,0.33,0.24,0.19,0.14 of the shortest height" :
             "cubic L=3 with 2,3(exactly one cutoff thick),3,4,7 cells; orthorhombic edges {2.5,3.5,4.5}^3 at cutoff 1 = every combination of 2,3,4 cells per direction; 3 reduced triclinic boxes incl. extreme tilts at 0.49,0.33,0.24 of the shortest height") + ") x "
             "{NBList, NBListGrid} x {one list, two lists} (the cell-count families: grid searchers only" + std::string(thorough ? "; configurations with more than 130 cells: 5-per-axis lattice -1/3,0,1/4,1/2,4/3 for the full product" : "") + "); plus the 'near' enumeration: first bead on {" + std::string(thorough ? "-6-1/48," : "") + "-1/3,-1/48,0," + std::string(thorough ? "1/4," : "") + "1/2,47/48" + std::string(thorough ? ",4/3" : "") + "}^3, second bead = first + Cartesian displacement from (cutoff x " + std::string(thorough ? "{-0.9,-0.5,0,0.5,0.9}" : "{-0.9,0,0.5}") + ")^3, given raw and wrapped into the primary cell. Oracle: brute-force minimum image (fractional reduction + 5^3 images, long double); exact set of reported pairs, callback count per pair = 1, stored once, "
             "stored/callback r = min image of pos(second)-pos(first) and dist within 1e-9; |d-cutoff|<=1e-12 may go either way. distinct_nontrivial = distinct (variant, cells per direction, box class, pair + selected image vector)";
  else if (part == "triple3")
    R.rule = "all placements of 3 beads on a " + std::to_string(lat_triple(thorough).size()) + "-per-axis fractional lattice (-0.3,0,0.5" + std::string(thorough ? ",1.2" : "") + ") x " + std::to_string(tc.size()) +
             " (box,cutoff) configurations x {NBList_3Body, NBListGrid_3Body} x {one type, two types ({0};{1,2}), three types} plus the one-list NBList/NBListGrid pair search on the same 3 beads; plus the 'near' enumeration: centre on the lattice {" + std::string(thorough ? "-6-1/48," : "") + "-1/3,-1/48,0," + std::string(thorough ? "1/4," : "") + "1/2,47/48" + std::string(thorough ? ",4/3" : "") + "}^3, both partners = centre + one of 7 displacements (0.6 cutoff along +-x,+-y,+-z; 0.5 cutoff x (1,1,1)), raw and wrapped into the primary cell. Oracle: a triple (centre,{j,k}) is reported exactly once iff both "
             "centre distances (brute-force minimum image) are below the cutoff; distances within 1e-12 of the cutoff either way. distinct_nontrivial = distinct (variant, cells, box class, set of reported triples/pairs)";
  else if (part == "dense")
    R.rule = "for each of the " + std::to_string((thorough ? configs_pair(true) : configs_pair_v1(true)).size()) + " (box,cutoff) configurations: bead counts 0,1,2,5 and 4x4x4 blocks of 64 beads (spacing 0.45 or 0.8 cutoff, slightly skewed, " + std::string(thorough ? "5" : "2") + " block origins with negative coordinates in every direction and across faces, every third bead given by its image in the primary cell), "
             "types A,B,C by index: 4 pair variants and 6 three-body variants compared as complete sets with the O(N^2)/O(N^3) brute force (multiplicity: every pair delivered once, every triple stored once)";
  else
    R.rule = "all topologies of 2.." + std::string(thorough ? "5 beads, every assignment of beads to 3 molecules, every set of <= 3 (5 beads: <= 2)" : "4 beads, every assignment of beads to 2 molecules, every set of <= 2") +
             " bonded interactions over the alphabet {all bonds in both id orders, all angles, the chain dihedrals}; "
             "3 arrangements (cell centre, across periodic faces far outside the cell, triclinic) with all beads mutually within the cutoff. Oracle: pair excluded iff same molecule and some interaction contains both; "
             "ExclusionList::IsExcluded in both argument orders, and the 4 pair searchers with exclusions on (exactly the non-excluded pairs) and off (all pairs)";
  R.assumptions = {"connection vector of a stored pair (first,second) = minimum image of pos(second)-pos(first) (the convention both searchers implement and csg_fmatch relies on)",
                   "pairs/triples with a deciding distance within 1e-12 of the cutoff may be reported or not",
                   "cutoffs stay below half the shortest box height as the statement requires, so a single grid cell per direction cannot occur and is not exercised",
                   "for triples only the stored list is compared (the statement does not promise one callback per triple); callback/stored ratios are reported as counters",
                   "three-body searches are run without exclusions (the statement defines exclusions for pairs only)",
                   "two-list variants use disjoint lists",
                   "nblist*.cc, exclusionlist.cc, beadlist.cc are additionally compiled into the harness with libstdc++ assertions so that an out-of-range cell index aborts instead of reading foreign memory"};
  std::vector<long long> minei;
  for (long long b = 0; b < nbatch; b++) if (a.mine(b)) minei.push_back(b);
  std::string kpart = part;
  bsx::contained(
      0, (long long)minei.size(), [&](long long i) { bsx::Outcome o; o.extra = run_batch(minei[i]).ser(); return o; },
      [&](long long i, const bsx::Outcome &o) {
        if (!o.ok) {
          long long b = minei[i];
          std::string desc;
          if (part == "pair2") desc = nclass(pc[pbatch[b].first].box, pc[pbatch[b].first].cut);
          else if (part == "triple3") { size_t ci = b < (long long)(tc.size() * lt.size()) ? b / lt.size() : (b - tc.size() * lt.size()) / ln.size(); desc = nclass(tc[ci].box, tc[ci].cut); }
          else if (part == "dense") desc = nclass(dcs[b].cf.box, dcs[b].cf.cut);
          else desc = "topology";
          R.eval();
          R.fail("crash-" + kpart + "-" + desc, "the neighbour search crashed: " + o.what + " (batch " + std::to_string(b) + ")", "batch;part=" + part + ";tier=" + a.tier + ";idx=" + std::to_string(b));
          return;
        }
        Batch::merge(o.extra, R);
      },
      600);
  if (!R.write(a.out)) { fprintf(stderr, "cannot write %s\n", a.out.c_str()); return 2; }
  return 0;
}
