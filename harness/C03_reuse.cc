// C03 (part "reuse") — neighbour-search objects that are used more than once.
// Differential oracle: a reused object must behave like fresh objects given the same inputs, under the contract the
// code documents/implements: Generate APPENDS to the pair/triple list (a pair that is already stored is not stored again,
// PairList::Cleanup()/TripleList::Cleanup() empties it), the match callback of a call sees exactly that call's pairs,
// BeadList::Generate appends the selected beads, ExclusionList follows a set model through
// Clear/CreateExclusions/ExcludeList/Remove/InsertExclusion/RemoveExclusion histories.
// All histories over a small alphabet of scenes/operations are enumerated (no sampling).  The sources under test are
// compiled into this harness with ASan/UBSan + libstdc++ assertions, every history runs inside bsx::contained.
#include <array>
#include <memory>

#include "bsx.h"
#include <votca/csg/beadlist.h>
#include <votca/csg/interaction.h>
#include <votca/csg/nblist.h>
#include <votca/csg/nblist_3body.h>
#include <votca/csg/nblistgrid.h>
#include <votca/csg/nblistgrid_3body.h>
#include <votca/csg/topology.h>

using namespace votca::csg;
typedef std::array<double, 3> D3;

// ------------------------------------------------------------------ world: 6 beads, 2 molecules, a few interactions
struct World {
  Topology top;
  std::vector<Bead *> b;
  BeadList all, la, lb, lc, ly;
  World() {
    const char *ty[3] = {"A", "B", "C"};
    for (int i = 0; i < 6; i++) b.push_back(top.CreateBead(Bead::spherical, i % 3 == 0 ? "X" : "Y", ty[i % 3], 1, 1.0, 0.0));
    Molecule *m0 = top.CreateMolecule("M0"), *m1 = top.CreateMolecule("M1");
    for (int i = 0; i < 6; i++) (i < 3 ? m0 : m1)->AddBead(b[i], "b" + std::to_string(i));
    auto add = [&](Interaction *ic, const char *g, int idx, int mol) { ic->setGroup(g); ic->setIndex(idx); ic->setMolecule(mol); top.AddBondedInteraction(ic); };
    add(new IBond(0, 1), "bond", 0, 0);
    add(new IAngle(3, 4, 5), "angle", 0, 1);
    add(new IBond(2, 3), "bond", 1, 0);  // spans the two molecules: excludes nothing
    top.RebuildExclusions();
    all.Generate(top, "*"); la.Generate(top, "A"); lb.Generate(top, "B"); lc.Generate(top, "C"); ly.Generate(top, "name:Y");
  }
};

// ------------------------------------------------------------------ scenes
struct Scene { double ax, by, cz, bx, cx, cy; double cut; int anchor; double scale; int lists; bool excl; };
// lists: pair objects 0 = Generate(all), 1 = Generate(A, name:Y); triple objects 0 = 1 type, 1 = 2 types (A; name:Y), 2 = 3 types (A;B;C)
static const Scene SCENES[6] = {
    {3, 3, 3, 0, 0, 0, 1.2, 0, 1.0, 0, false},
    {3, 3, 3, 0, 0, 0, 0.7, 1, 1.0, 1, false},
    {2.5, 3.5, 4.5, 0, 0, 0, 1.0, 0, 1.6, 2, true},
    {3, 3, 3, 1.5, 1.5, 1.5, 1.25, 1, 1.6, 0, true},
    {3, 3, 3, 0, 0, 0, 1.2, 2, 1.0, 1, false},
    {2.5, 3.5, 4.5, 0.625, -1.25, 0.875, 0.7, 2, 1.0, 2, false}};
static void apply_scene(World &W, const Scene &s) {
  Eigen::Matrix3d m = Eigen::Matrix3d::Zero();
  m(0, 0) = s.ax; m(1, 1) = s.by; m(2, 2) = s.cz; m(0, 1) = s.bx; m(0, 2) = s.cx; m(1, 2) = s.cy;
  W.top.setBox(m);
  const double anchors[3][3] = {{0.5, 0.5, 0.5}, {-0.02, 0.98, -1.01}, {0.9, 0.1, 0.4}};
  const double off[6][3] = {{0, 0, 0}, {0.4, 0, 0}, {0, 0.45, 0}, {0.3, 0.3, 0.3}, {-0.35, 0.2, 0}, {0.1, -0.3, 0.5}};
  const double *f = anchors[s.anchor];
  Eigen::Vector3d org = m * Eigen::Vector3d(f[0], f[1], f[2]);
  for (int i = 0; i < 6; i++) W.b[i]->setPos(org + s.scale * Eigen::Vector3d(off[i][0], off[i][1], off[i][2]));
}

// ------------------------------------------------------------------ records
struct PRec { long i, j; double r[3], d; };
static bool same(const PRec &a, const PRec &b) { return a.i == b.i && a.j == b.j && memcmp(a.r, b.r, sizeof a.r) == 0 && memcmp(&a.d, &b.d, sizeof(double)) == 0; }
struct TRec { long i, j, k; double d12, d13; };
static bool same(const TRec &a, const TRec &b) { return a.i == b.i && a.j == b.j && a.k == b.k && memcmp(&a.d12, &b.d12, 8) == 0 && memcmp(&a.d13, &b.d13, 8) == 0; }
struct PairMatch {
  bool accept = true;
  std::vector<PRec> calls;
  bool match(Bead *a, Bead *b, const Eigen::Vector3d &r, double d) { calls.push_back({(long)a->getId(), (long)b->getId(), {r[0], r[1], r[2]}, d}); return accept; }
};
struct TripleMatch {
  bool accept = true;
  std::vector<TRec> calls;
  bool match(Bead *a, Bead *b, Bead *c, const Eigen::Vector3d &, const Eigen::Vector3d &, const Eigen::Vector3d &, const double d12, const double d13, const double) {
    calls.push_back({(long)a->getId(), (long)b->getId(), (long)c->getId(), d12, d13}); return accept;
  }
};
static std::vector<PRec> stored(NBList &nb) {
  std::vector<PRec> v;
  for (auto it = nb.begin(); it != nb.end(); ++it) v.push_back({(long)(*it)->first()->getId(), (long)(*it)->second()->getId(), {(*it)->r()[0], (*it)->r()[1], (*it)->r()[2]}, (*it)->dist()});
  return v;
}
static std::vector<TRec> stored(NBList_3Body &nb) {
  std::vector<TRec> v;
  for (auto it = nb.begin(); it != nb.end(); ++it) v.push_back({(long)std::get<0>(**it)->getId(), (long)std::get<1>(**it)->getId(), (long)std::get<2>(**it)->getId(), (*it)->dist12(), (*it)->dist13()});
  return v;
}
static void gen(NBList &nb, World &W, const Scene &s) {
  nb.setCutoff(s.cut);
  if (s.lists % 2 == 0) nb.Generate(W.all, s.excl); else nb.Generate(W.la, W.ly, s.excl);
}
static void gen(NBList_3Body &nb, World &W, const Scene &s) {
  nb.setCutoff(s.cut);
  if (s.lists == 0) nb.Generate(W.all, s.excl);
  else if (s.lists == 1) nb.Generate(W.la, W.ly, s.excl);
  else nb.Generate(W.la, W.lb, W.lc, s.excl);
}
static std::pair<long, long> ukey(const PRec &p) { return {std::min(p.i, p.j), std::max(p.i, p.j)}; }
static std::array<long, 3> ukey(const TRec &t) { return {t.i, std::min(t.j, t.k), std::max(t.j, t.k)}; }
static std::string show(const PRec &p) { char b[160]; snprintf(b, sizeof b, "(%ld,%ld r=(%.6g,%.6g,%.6g) d=%.6g)", p.i, p.j, p.r[0], p.r[1], p.r[2], p.d); return b; }
static std::string show(const TRec &t) { char b[160]; snprintf(b, sizeof b, "(%ld;%ld,%ld d12=%.6g d13=%.6g)", t.i, t.j, t.k, t.d12, t.d13); return b; }
template <class R> static std::string showv(const std::vector<R> &v) { std::string s = "["; for (size_t i = 0; i < v.size() && i < 8; i++) s += show(v[i]); if (v.size() > 8) s += "..."; return s + "] (" + std::to_string(v.size()) + ")"; }

// A history on one object of class OBJ (NBList/NBListGrid/NBList_3Body/NBListGrid_3Body):
//   seq      scenes used by the successive Generate calls
//   cleanup  bit k set: Cleanup() before call k+1 (k>=0 refers to the gap after call k)
//   mm       0: one matcher bound once; 1: a new matcher bound before every call; 2: as 1, and the first call's matcher rejects everything
template <class OBJ, class BASE, class MATCH, class REC>
static bsx::Outcome history(const char *cname, const std::vector<int> &seq, int cleanup, int mm) {
  bsx::Outcome o;
  World W;
  OBJ obj;
  std::vector<std::unique_ptr<MATCH>> matchers;
  std::vector<REC> model;  // expected stored list
  std::string ops;
  for (size_t k = 0; k < seq.size(); k++) ops += (k ? ((cleanup >> (k - 1)) & 1 ? " Cleanup " : " ") : "") + std::string("S") + std::to_string(seq[k]);
  std::string ctx = std::string(cname) + " history [" + ops + "] match-function mode " + std::to_string(mm);
  std::string opcls = cleanup ? "cleanup" : "append";
  size_t seen = 0;
  for (size_t k = 0; k < seq.size(); k++) {
    const Scene &s = SCENES[seq[k]];
    bool accept = !(mm == 2 && k == 0);
    apply_scene(W, s);
    // fresh object, same inputs
    OBJ fresh;
    MATCH fm; fm.accept = accept;
    static_cast<BASE &>(fresh).SetMatchFunction(&fm, &MATCH::match);
    gen(fresh, W, s);
    std::vector<REC> fstored = stored(fresh);
    // reused object
    if (k > 0 && ((cleanup >> (k - 1)) & 1)) { obj.Cleanup(); model.clear(); }
    if (k == 0 || mm != 0) {
      matchers.emplace_back(new MATCH());
      seen = 0;
      static_cast<BASE &>(obj).SetMatchFunction(matchers.back().get(), &MATCH::match);
    }
    matchers.back()->accept = accept;
    gen(obj, W, s);
    std::vector<REC> calls(matchers.back()->calls.begin() + (long)seen, matchers.back()->calls.end());
    seen = matchers.back()->calls.size();
    bool eq = calls.size() == fm.calls.size();
    for (size_t i = 0; eq && i < calls.size(); i++) eq = same(calls[i], fm.calls[i]);
    bool calls_ok = eq;
    std::string calls_what = ctx + ": call " + std::to_string(k + 1) + " delivered " + showv(calls) + " to the match function, a fresh object delivers " + showv(fm.calls);
    for (auto &p : fstored) {
      bool have = false;
      for (auto &q : model) if (ukey(q) == ukey(p)) have = true;
      if (!have) model.push_back(p);
    }
    std::vector<REC> now = stored(obj);
    eq = now.size() == model.size();
    for (size_t i = 0; eq && i < now.size(); i++) eq = same(now[i], model[i]);
    if (!eq) {
      o.ok = false; o.key = std::string("reuse-") + cname + "-" + opcls + "-list-differs-from-fresh";
      o.what = ctx + ": after call " + std::to_string(k + 1) + " the list is " + showv(now) + ", expected (what fresh objects store, appended, no duplicates) " + showv(model);
      return o;
    }
    if (!calls_ok) {  // the stored list is right (duplicates were filtered) but the match function saw something else
      o.ok = false; o.key = std::string("reuse-") + cname + "-" + opcls + "-callbacks-differ-from-fresh";
      o.what = calls_what;
      return o;
    }
  }
  std::string sig = std::string(cname) + "|" + std::to_string(cleanup) + "|";
  for (auto &p : model) sig += show(p);
  o.cls = model.empty() ? 0 : bsx::fnv(sig);
  o.extra = ctx + " -> final list of " + std::to_string(model.size()) + " entries equals the fresh-object model";
  return o;
}

// ------------------------------------------------------------------ BeadList reuse
static const char *SELS[5] = {"A", "B", "*", "name:Y", "Z"};
static bsx::Outcome beadlist_history(const std::vector<int> &seq) {
  bsx::Outcome o;
  World W;
  BeadList bl;
  std::vector<Bead *> model;
  std::string ops;
  for (int s : seq) {
    ops += std::string(ops.empty() ? "" : ",") + SELS[s];
    BeadList fresh;
    fresh.Generate(W.top, SELS[s]);
    for (auto it = fresh.begin(); it != fresh.end(); ++it) model.push_back(*it);
    votca::Index ret = bl.Generate(W.top, SELS[s]);
    std::vector<Bead *> now(bl.begin(), bl.end());
    if (now != model || ret != (votca::Index)model.size() || &bl.getTopology() != &W.top) {
      o.ok = false; o.key = "reuse-beadlist-generate-appends";
      o.what = "BeadList::Generate sequence [" + ops + "] holds " + std::to_string(now.size()) + " beads / returned " + std::to_string((long)ret) + ", expected the concatenation of fresh selections (" + std::to_string(model.size()) + ")";
      return o;
    }
  }
  o.cls = bsx::fnv("bl|" + ops + "|" + std::to_string(model.size()));
  o.extra = "BeadList::Generate sequence [" + ops + "] -> " + std::to_string(model.size()) + " beads, the concatenation of the fresh selections";
  return o;
}

// ------------------------------------------------------------------ ExclusionList op histories
static const char *XOPS[11] = {"Clear", "CreateExclusions", "ExcludeList{0,1,2}", "ExcludeList{3,4}", "Remove{0,1,2}", "Remove{0,1}", "Insert(0,2)", "Insert(5,3)", "RemoveExclusion(0,2)", "RemoveExclusion(1,0)", "ExcludeList{2,3}"};
static bsx::Outcome excl_history(const std::vector<int> &seq) {
  bsx::Outcome o;
  World W;
  ExclusionList ex;
  std::set<std::pair<int, int>> S;  // model: unordered pairs recorded (IsExcluded additionally demands the same molecule)
  auto mol = [](int i) { return i < 3 ? 0 : 1; };
  auto ins = [&](int i, int j) { if (i != j && mol(i) == mol(j)) S.insert({std::min(i, j), std::max(i, j)}); };
  auto del = [&](int i, int j) { S.erase({std::min(i, j), std::max(i, j)}); };
  std::string ops;
  bool cleared = false;
  for (int op : seq) {
    ops += std::string(ops.empty() ? "" : ", ") + XOPS[op];
    std::vector<Bead *> l;
    auto L = [&](std::initializer_list<int> ids) { l.clear(); for (int i : ids) l.push_back(W.b[i]); };
    switch (op) {
      case 0: ex.Clear(); S.clear(); cleared = true; break;
      case 1: ex.CreateExclusions(&W.top); ins(0, 1); ins(3, 4); ins(3, 5); ins(4, 5); break;  // bond(0,1), angle(3,4,5); bond(2,3) spans molecules
      case 2: L({0, 1, 2}); ex.ExcludeList(l); ins(0, 1); ins(0, 2); ins(1, 2); break;
      case 3: L({3, 4}); ex.ExcludeList(l); ins(3, 4); break;
      case 4: L({0, 1, 2}); ex.Remove(l); del(0, 1); del(0, 2); del(1, 2); break;
      case 5: L({0, 1}); ex.Remove(l); del(0, 1); break;
      case 6: ex.InsertExclusion(W.b[0], W.b[2]); ins(0, 2); break;
      case 7: ex.InsertExclusion(W.b[5], W.b[3]); ins(5, 3); break;
      case 8: ex.RemoveExclusion(W.b[0], W.b[2]); del(0, 2); break;
      case 9: ex.RemoveExclusion(W.b[1], W.b[0]); del(0, 1); break;
      case 10: L({2, 3}); ex.ExcludeList(l); break;  // different molecules: never excluded
    }
    for (int i = 0; i < 6; i++)
      for (int j = 0; j < 6; j++) {
        if (i == j) continue;
        bool got = ex.IsExcluded(W.b[i], W.b[j]);
        bool exp = S.count({std::min(i, j), std::max(i, j)}) > 0;
        if (got != exp) {
          o.ok = false;
          o.key = std::string("reuse-exclusionlist-isexcluded-") + (exp ? "lost" : "stale") + (cleared ? "-after-clear" : "");
          o.what = "ExclusionList history [" + ops + "]: IsExcluded(" + std::to_string(i) + "," + std::to_string(j) + ") = " + (got ? "true" : "false") + ", a fresh list given the same net exclusions says " + (exp ? "true" : "false");
          return o;
        }
      }
  }
  // observation only (not demanded by the statement): does iterating the list show the same intramolecular pairs?
  std::set<std::pair<int, int>> it;
  for (auto e = ex.begin(); e != ex.end(); ++e)
    for (Bead *x : (*e)->exclude_) { int i = (int)(*e)->atom_->getId(), j = (int)x->getId(); if (mol(i) == mol(j)) it.insert({std::min(i, j), std::max(i, j)}); }
  std::string sig;
  for (auto &p : S) sig += std::to_string(p.first) + "-" + std::to_string(p.second) + ";";
  o.cls = S.empty() ? 0 : bsx::fnv("xl|" + sig);
  o.extra = std::string(it == S ? "I0" : "I1") + "ExclusionList history [" + ops + "] -> excluded pairs {" + sig + "} as in the set model";
  return o;
}

// ------------------------------------------------------------------ enumeration
struct Job { int kind; std::vector<int> seq; int cleanup, mm; };  // kind 0..3 list classes, 4 beadlist, 5 exclusionlist
static const char *CN[4] = {"nblist", "nblistgrid", "nblist3body", "nblistgrid3body"};
static bsx::Outcome run(const Job &j) {
  switch (j.kind) {
    case 0: return history<NBList, NBList, PairMatch, PRec>(CN[0], j.seq, j.cleanup, j.mm);
    case 1: return history<NBListGrid, NBList, PairMatch, PRec>(CN[1], j.seq, j.cleanup, j.mm);
    case 2: return history<NBList_3Body, NBList_3Body, TripleMatch, TRec>(CN[2], j.seq, j.cleanup, j.mm);
    case 3: return history<NBListGrid_3Body, NBList_3Body, TripleMatch, TRec>(CN[3], j.seq, j.cleanup, j.mm);
    case 4: return beadlist_history(j.seq);
    default: return excl_history(j.seq);
  }
}
static std::string jstr(const Job &j) {
  std::string s = "reuse;kind=" + std::to_string(j.kind) + ";cl=" + std::to_string(j.cleanup) + ";mm=" + std::to_string(j.mm) + ";seq=";
  for (size_t i = 0; i < j.seq.size(); i++) s += (i ? "," : "") + std::to_string(j.seq[i]);
  return s;
}
static void sequences(int alphabet, int len, std::vector<std::vector<int>> &out) {
  std::vector<int> idx(len, 0), radix(len, alphabet);
  do { out.push_back(std::vector<int>(idx.rbegin(), idx.rend())); } while (bsx::next(idx, radix));
}

int main(int argc, char **argv) {
  bsx::Args a = bsx::parse(argc, argv);
  if (a.has_case) {
    auto m = bsx::kvs(a.cas);
    Job j; j.kind = atoi(m["kind"].c_str()); j.cleanup = atoi(m["cl"].c_str()); j.mm = atoi(m["mm"].c_str());
    for (auto &t : bsx::split(m["seq"], ',')) j.seq.push_back(atoi(t.c_str()));
    bsx::Outcome o = run(j);  // uncontained: a sanitizer abort is the failure
    if (o.ok) { printf("case holds\n"); return 0; }
    printf("case FAILS: key=%s %s\n", o.key.c_str(), o.what.c_str());
    return 3;
  }
  bool thorough = a.tier == "thorough";
  std::vector<Job> jobs;
  int len = thorough ? 3 : 2;
  for (int kind = 0; kind < 4; kind++)
    for (int L = 2; L <= len; L++) {
      std::vector<std::vector<int>> seqs;
      sequences(6, L, seqs);
      for (auto &s : seqs)
        for (int cl = 0; cl < (1 << (L - 1)); cl++)
          for (int mm = 0; mm < 3; mm++) jobs.push_back({kind, s, cl, mm});
    }
  for (int L = 1; L <= len; L++) { std::vector<std::vector<int>> seqs; sequences(5, L, seqs); for (auto &s : seqs) jobs.push_back({4, s, 0, 0}); }
  for (int L = 1; L <= (thorough ? 4 : 3); L++) { std::vector<std::vector<int>> seqs; sequences(11, L, seqs); for (auto &s : seqs) jobs.push_back({5, s, 0, 0}); }

  bsx::Report R;
  R.property = "C03"; R.part = "reuse"; R.tier = a.tier;
  R.rule = "reuse histories on ONE object vs fresh objects given the same inputs: (i) NBList, NBListGrid, NBList_3Body, NBListGrid_3Body: all sequences of " + std::string(thorough ? "2 and 3" : "2") +
           " Generate calls over 6 scenes (box orthorhombic/triclinic, cutoff via setCutoff, bead positions incl. negative/far outside, one/two/three lists, exclusions on/off) x {append, Cleanup() in each gap} x "
           "{one match function bound once, rebound before every call, first call's match function rejects}; oracle: every call delivers to its match function exactly what a fresh object delivers (same order, bitwise r/dist) "
           "and the stored list equals the fresh objects' lists appended without duplicates (the implemented 'Generate appends' contract), empty after Cleanup; (ii) BeadList::Generate sequences of length <= " + std::to_string(len) +
           " over 5 selections append exactly the fresh selections; (iii) ExclusionList: all operation sequences of length <= " + std::string(thorough ? "4" : "3") +
           " over 11 operations (Clear, CreateExclusions, ExcludeList x3, Remove x2, InsertExclusion x2, RemoveExclusion x2) against a set model, IsExcluded checked for all 30 ordered pairs after every operation. "
           "ASan/UBSan + libstdc++ assertions on the compiled-in sources. distinct_nontrivial = distinct final lists / exclusion sets";
  R.assumptions = {"contract taken from the code: Generate appends, FindPair/FindTriple suppress a second entry for a stored pair/triple (its first r is kept), Cleanup() empties the list",
                   "iteration over an ExclusionList (begin/end, operator<<) is observed but not demanded: the statement only speaks about suppression (counter excl_iteration_differs)"};
  std::vector<long long> mine;
  for (long long i = 0; i < (long long)jobs.size(); i++) if (a.mine(i)) mine.push_back(i);
  bsx::contained(
      0, (long long)mine.size(), [&](long long i) { return run(jobs[mine[i]]); },
      [&](long long i, const bsx::Outcome &o) {
        const Job &j = jobs[mine[i]];
        R.eval();
        R.counters[std::string("histories_") + (j.kind < 4 ? CN[j.kind] : j.kind == 4 ? "beadlist" : "exclusionlist")]++;
        if (!o.ok) {
          std::string key = o.key, what = o.what;
          if (key == "fatal") {
            bool clr = false;
            for (int x : j.seq) if (j.kind == 5 && x == 0) clr = true;
            key = std::string("reuse-") + (j.kind < 4 ? CN[j.kind] : j.kind == 4 ? "beadlist" : "exclusionlist") + "-crash" + (clr ? "-after-clear" : "");
            std::string ops;
            for (int x : j.seq) ops += (ops.empty() ? "" : ", ") + (j.kind == 5 ? std::string(XOPS[x]) : j.kind == 4 ? std::string(SELS[x]) : "S" + std::to_string(x));
            what = "history [" + ops + "] died: " + o.what + " (sanitizer / assertion in the code under test)";
          }
          R.fail(key, what, jstr(j));
          return;
        }
        if (o.cls) R.cls(o.cls);
        std::string ex = o.extra;
        if (j.kind == 5) { if (ex.rfind("I1", 0) == 0) R.counters["excl_iteration_differs"]++; ex = ex.substr(2); }
        if ((i % 211) == 7) R.sample(ex);
      },
      120);
  if (!R.write(a.out)) { fprintf(stderr, "cannot write %s\n", a.out.c_str()); return 2; }
  return 0;
}
