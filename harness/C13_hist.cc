// C13 — histograms conserve weight and never write outside their bins.
// Explicit-state search over operation histories of the REAL HistogramNew
// (histogramnew.cc + table.cc compiled into this harness with Eigen index
// assertions turned into exceptions, libstdc++ assertions and ASan), stepped
// alongside a boring reference model; plus exhaustive enumeration of small data
// sets for the legacy Histogram class.
#include <cfloat>
#include <deque>
#include <stdexcept>

#include "bsx.h"
#include "votca/tools/datacollection.h"
#include "votca/tools/histogram.h"
#include "votca/tools/histogramnew.h"

using namespace votca::tools;
using votca::Index;
using bsx::hexd;
using bsx::unhex;

// ---------------------------------------------------------------- reference
struct Ref {
  bool per;
  double min, max, step;
  long n;
  std::vector<double> bins;
  Ref(bool p, double mn, double mx, long nn) : per(p), min(mn), max(mx), n(nn), bins(nn, 0.0) {
    step = per ? (max - min) / double(n) : (max - min) / (double(n) - 1.0);
    if (n == 1) step = 1;
  }
  // set of bins a value may legally go to; -1 = discarded.  More than one entry
  // only for values within 1e-9 step of a bin edge (tie) or so large that the
  // nearest-centre index is not representable (any bin conserves the weight).
  std::set<long> allowed(double v) const {
    std::set<long> r;
    long double q = ((long double)v - (long double)min) / (long double)step + 0.5L;
    if (fabsl(q) > 9.0e15L) {  // beyond 2^53: index arithmetic is meaningless
      // periodic: any bin conserves the weight; discarding is allowed too ("accepted values")
      if (per) for (long k = 0; k < n; k++) r.insert(k);
      r.insert(-1);
      return r;
    }
    long double fl = floorl(q);
    std::vector<long double> cand{fl};
    long double frac = q - fl;
    long double eps = 1e-9L * std::max(1.0L, fabsl(q));
    if (frac < eps) cand.push_back(fl - 1);
    if (1.0L - frac < eps) cand.push_back(fl + 1);
    for (long double c : cand) {
      long long k = (long long)c;
      if (k >= 0 && k < n) r.insert((long)k);
      else if (per) r.insert((long)(((k % n) + n) % n));
      else r.insert(-1);
    }
    return r;
  }
};

static std::string canon(const std::vector<double> &b) {
  std::string s;
  for (double x : b) { s += hexd(x); s += ' '; }
  return s;
}

struct Op { char kind; double v, w; };  // 'P','N','C'
static std::string opstr(const std::vector<Op> &ops) {
  std::string s;
  for (size_t i = 0; i < ops.size(); i++) {
    if (i) s += ',';
    if (ops[i].kind == 'P') s += "P:" + hexd(ops[i].v) + ":" + hexd(ops[i].w);
    else s += ops[i].kind;
  }
  return s;
}
static std::vector<Op> parseops(const std::string &s) {
  std::vector<Op> ops;
  if (s.empty()) return ops;
  for (auto &t : bsx::split(s, ',')) {
    if (t[0] == 'P') {
      auto f = bsx::split(t, ':');
      ops.push_back({'P', unhex(f[1]), unhex(f[2])});
    } else ops.push_back({t[0], 0, 0});
  }
  return ops;
}

struct Cfg { bool per; double min, max; long n; };
static std::string cfgstr(const Cfg &c) {
  return std::string("hn;per=") + (c.per ? "1" : "0") + ";min=" + hexd(c.min) + ";max=" + hexd(c.max) +
         ";n=" + std::to_string(c.n);
}

// Replay a history on a fresh real object next to the reference.  Returns outcome; extra = canonical state.
static bsx::Outcome run_history(const Cfg &c, const std::vector<Op> &ops) {
  bsx::Outcome o;
  std::string cas = cfgstr(c) + ";ops=" + opstr(ops);
  auto failwith = [&](const std::string &key, const std::string &what) {
    o.ok = false; o.key = key; o.what = what + "  [" + cas + "]";
    return o;
  };
  try {
    // the object the history currently works on; 'D' continues on a copy-constructed object while the source stays alive
    // (and must not change any more), 'A' continues on a copy-ASSIGNED object and destroys the source
    std::unique_ptr<HistogramNew> hp(new HistogramNew);
    std::unique_ptr<HistogramNew> src;   // source of the last 'D'
    std::vector<double> srcbins;
    int copied = 0;  // 0 original, 1 after D, 2 after A
    hp->setPeriodic(c.per);
    hp->Initialize(c.min, c.max, (Index)c.n);
    Ref r(c.per, c.min, c.max, c.n);
    if (hp->getStep() != r.step) return failwith("step", "step " + bsx::fmt(hp->getStep()) + " != " + bsx::fmt(r.step));
    for (long k = 0; k < c.n; k++) {
      double centre = c.min + double(k) * r.step;
      if (std::fabs(hp->data().x(k) - centre) > 1e-12 * std::max(1.0, std::fabs(centre)))
        return failwith("centres", "bin " + std::to_string(k) + " centred at " + bsx::fmt(hp->data().x(k)));
    }
    double accepted = 0;
    bool nonneg = true, normalized = false, undefined = false;
    for (size_t s = 0; s < ops.size(); s++) {
      const Op &op = ops[s];
      if (op.kind == 'P') {
        std::set<long> al = r.allowed(op.v);
        std::vector<double> before(c.n);
        for (long k = 0; k < c.n; k++) before[k] = hp->data().y(k);
        hp->Process(op.v, op.w);
        if ((long)hp->data().y().size() != c.n) return failwith("resized", "bin vector resized");
        long hit = -1; int nchanged = 0;
        for (long k = 0; k < c.n; k++) {
          double now = hp->data().y(k);
          if (now != before[k]) { nchanged++; hit = k; }
        }
        // a Process with w that leaves the value unchanged due to absorption cannot happen with our alphabets
        bool far = std::fabs(op.v) > 1e15;
        std::string sfx = far ? "-huge" : "";
        std::string mode = c.per ? "periodic" : "nonperiodic";
        if (nchanged > 1) return failwith(mode + "-multi-bin" + sfx, "Process(" + bsx::fmt(op.v) + ") changed " + std::to_string(nchanged) + " bins");
        if (nchanged == 0) {
          if (!al.count(-1))
            return failwith(mode + "-lost-weight" + sfx, "Process(" + bsx::fmt(op.v) + "," + bsx::fmt(op.w) + ") was dropped but must be counted");
        } else {
          if (!al.count(hit)) {
            std::string exp;
            for (long a : al) exp += std::to_string(a) + " ";
            return failwith(mode + "-wrong-bin" + sfx, "Process(" + bsx::fmt(op.v) + ") went to bin " + std::to_string(hit) + ", allowed {" + exp + "}");
          }
          if (hp->data().y(hit) != before[hit] + op.w)
            return failwith(mode + "-wrong-weight", "bin " + std::to_string(hit) + " changed by " + bsx::fmt(hp->data().y(hit) - before[hit]) + " instead of " + bsx::fmt(op.w));
          r.bins[hit] += op.w;
          accepted += op.w;
          if (op.w < 0) nonneg = false;
        }
        (void)normalized;
      } else if (op.kind == 'C' || op.kind == 'I') {
        // Clear, or Initialize again with the same range on the SAME object: both must give an empty histogram
        if (op.kind == 'C') hp->Clear();
        else hp->Initialize(c.min, c.max, (Index)c.n);
        if (op.kind == 'I') {
          if ((long)hp->data().y().size() != c.n || hp->getStep() != r.step) return failwith("reinitialize-shape", "re-Initialize changed the shape/step");
          for (long k = 0; k < c.n; k++)
            if (hp->data().y(k) != 0.0) return failwith("reinitialize-keeps-contents", "bin " + std::to_string(k) + " = " + bsx::fmt(hp->data().y(k)) + " after Initialize on a used object");
        }
        for (auto &b : r.bins) b = 0;
        accepted = 0; nonneg = true; normalized = false;
      } else if (op.kind == 'D') {
        srcbins.assign(c.n, 0.0);
        for (long k = 0; k < c.n; k++) srcbins[k] = hp->data().y(k);
        std::unique_ptr<HistogramNew> np(new HistogramNew(*hp));
        src = std::move(hp);
        hp = std::move(np);
        copied = 1;
      } else if (op.kind == 'A') {
        std::unique_ptr<HistogramNew> np(new HistogramNew);
        *np = *hp;
        src.reset();
        hp = std::move(np);  // the source is destroyed here
        copied = 2;
      } else if (op.kind == 'N') {
        double sum = 0; for (double b : r.bins) sum += b;
        std::vector<double> before = r.bins;
        hp->Normalize();
        if (!(nonneg && sum > 0)) { undefined = true; break; }  // integral of signed/empty bins: not defined by the statement
        double s2 = 0;
        for (long k = 0; k < c.n; k++) s2 += hp->data().y(k);
        if (std::fabs(s2 * r.step - 1.0) > 1e-12)
          return failwith("normalize-integral", "after Normalize sum*step = " + bsx::fmt(s2 * r.step));
        for (long k = 0; k < c.n; k++) {
          double expect = before[k] / (sum * r.step);
          if (std::fabs(hp->data().y(k) - expect) > 1e-12 * std::max(1.0, std::fabs(expect)))
            return failwith("normalize-ratios", "bin " + std::to_string(k) + " = " + bsx::fmt(hp->data().y(k)) + " expected " + bsx::fmt(expect));
          r.bins[k] = hp->data().y(k);
        }
        normalized = true;
      }
      if (src)
        for (long k = 0; k < c.n; k++)
          if (src->data().y(k) != srcbins[k])
            return failwith("copy-changes-its-source", "after " + std::string(1, op.kind) + " on a copy-constructed histogram bin " + std::to_string(k) + " of the SOURCE changed from " + bsx::fmt(srcbins[k]) + " to " + bsx::fmt(src->data().y(k)));
      // invariant in every state: contents equal the reference, sum = accepted weight
      for (long k = 0; k < c.n; k++)
        if (hp->data().y(k) != r.bins[k])
          return failwith("contents", "bin " + std::to_string(k) + " = " + bsx::fmt(hp->data().y(k)) + " reference " + bsx::fmt(r.bins[k]));
    }
    if (undefined) { o.extra = "UNDEF"; return o; }
    std::vector<double> st(c.n);
    for (long k = 0; k < c.n; k++) st[k] = hp->data().y(k);
    o.extra = canon(st) + (copied == 1 ? "|copy" : (copied == 2 ? "|assigned" : ""));
    o.cls = bsx::fnv(cfgstr(c) + o.extra);
  } catch (const std::exception &e) {
    std::string m = e.what();
    bool huge = false;
    for (auto &op : ops) if (op.kind == 'P' && std::fabs(op.v) > 1e15) huge = true;
    return failwith(std::string(c.per ? "periodic" : "nonperiodic") + "-out-of-bounds" + (huge ? "-huge" : ""), "exception: " + m);
  }
  return o;
}

static double ulp_up(double x) { return std::nextafter(x, INFINITY); }
static double ulp_dn(double x) { return std::nextafter(x, -INFINITY); }

// ---------------------------------------------------------------- legacy Histogram
struct LCase { long n; int mode; /*0 auto,1 explicit,2 extended*/ bool per, norm; std::string scale; std::vector<double> data; double omin, omax;
               std::vector<double> data0; /* non-empty: the object has processed this data set before (object reuse) */ };
static std::string lstr(const LCase &c) {
  std::string s = "leg;n=" + std::to_string(c.n) + ";mode=" + std::to_string(c.mode) + ";per=" + (c.per ? "1" : "0") +
                  ";norm=" + (c.norm ? "1" : "0") + ";scale=" + c.scale + ";omin=" + hexd(c.omin) + ";omax=" + hexd(c.omax) + ";data=";
  for (size_t i = 0; i < c.data.size(); i++) s += (i ? "," : "") + hexd(c.data[i]);
  if (!c.data0.empty()) {
    s += ";data0=";
    for (size_t i = 0; i < c.data0.size(); i++) s += (i ? "," : "") + hexd(c.data0[i]);
  }
  return s;
}
static bsx::Outcome run_legacy(const LCase &c) {
  bsx::Outcome o;
  std::string cas = lstr(c);
  auto failwith = [&](const std::string &key, const std::string &what) {
    o.ok = false; o.key = key; o.what = what + "  [" + cas + "]";
    return o;
  };
  try {
    Histogram::options_t op;
    op.n_ = (Index)c.n;
    op.auto_interval_ = c.mode == 0;
    op.extend_interval_ = c.mode == 2;
    op.min_ = c.omin; op.max_ = c.omax;
    op.periodic_ = c.per; op.normalize_ = c.norm; op.scale_ = c.scale;
    DataCollection<double> dc;
    auto *arr = dc.CreateArray("a");
    for (double d : c.data) arr->push_back(d);
    DataCollection<double>::selection sel;
    sel.push_back(arr);
    Histogram h(op);
    if (!c.data0.empty()) {
      // object reuse: the same Histogram has processed another data set before; it must end up exactly like a fresh one
      DataCollection<double> dc0;
      auto *arr0 = dc0.CreateArray("a");
      for (double d : c.data0) arr0->push_back(d);
      DataCollection<double>::selection sel0;
      sel0.push_back(arr0);
      h.ProcessData(&sel0);
      h.ProcessData(&sel);
      Histogram f(op);
      f.ProcessData(&sel);
      bool same = h.getMin() == f.getMin() && h.getMax() == f.getMax() && h.getInterval() == f.getInterval() && h.getPdf().size() == f.getPdf().size();
      for (size_t k = 0; same && k < f.getPdf().size(); k++) {
        double x = h.getPdf()[k], y = f.getPdf()[k];
        if (!(x == y || (std::isnan(x) && std::isnan(y)))) same = false;
      }
      if (!same) {
        std::string a1, a2;
        for (double p : h.getPdf()) a1 += bsx::fmt(p) + " ";
        for (double p : f.getPdf()) a2 += bsx::fmt(p) + " ";
        return failwith("legacy-reused-object-differs-from-fresh", "second ProcessData on the same object gives [" + bsx::fmt(h.getMin()) + "," + bsx::fmt(h.getMax()) + "] pdf " + a1 +
                                                                    "; a fresh object gives [" + bsx::fmt(f.getMin()) + "," + bsx::fmt(f.getMax()) + "] pdf " + a2);
      }
    } else {
      h.ProcessData(&sel);
    }
    double dmin = *std::min_element(c.data.begin(), c.data.end());
    double dmax = *std::max_element(c.data.begin(), c.data.end());
    double emin, emax;
    if (c.mode == 0) { emin = dmin; emax = dmax; }
    else if (c.mode == 1) { emin = c.omin; emax = c.omax; }
    else { emin = std::min(c.omin, dmin); emax = std::max(c.omax, dmax); }
    bool allneg = dmax < 0;
    if (h.getMin() != emin || h.getMax() != emax)
      return failwith(std::string("legacy-range") + (c.mode == 0 ? "-auto" : (c.mode == 2 ? "-extended" : "-explicit")) + (allneg ? "-all-negative-data" : ""),
                      "range [" + bsx::fmt(h.getMin()) + "," + bsx::fmt(h.getMax()) + "] expected [" + bsx::fmt(emin) + "," + bsx::fmt(emax) + "]");
    if ((long)h.getPdf().size() != c.n) return failwith("legacy-size", "pdf size " + std::to_string(h.getPdf().size()));
    double interval = (emax - emin) / double(c.n - 1);
    double sum = 0; bool finite = true;
    for (double p : h.getPdf()) { sum += p; if (!std::isfinite(p)) finite = false; }
    if (c.scale == "no" && !c.per && !c.norm) {
      // nearest-centre counting against the reference
      std::vector<double> ref(c.n, 0.0); bool tie = false;
      for (double d : c.data) {
        long double q = ((long double)d - emin) / interval + 0.5L;
        long double fl = floorl(q);
        if (q - fl < 1e-9L || 1 - (q - fl) < 1e-9L) tie = true;
        long long k = (long long)fl;
        if (k >= 0 && k < c.n) ref[k] += 1;
      }
      if (!tie)
        for (long k = 0; k < c.n; k++)
          if (ref[k] != h.getPdf()[k])
            return failwith("legacy-counts", "bin " + std::to_string(k) + " = " + bsx::fmt(h.getPdf()[k]) + " expected " + bsx::fmt(ref[k]));
    }
    if (c.norm && finite && sum > 0) {
      if (std::fabs(sum * interval - 1.0) > 1e-9)
        return failwith("legacy-normalize", "sum*interval = " + bsx::fmt(sum * interval));
    }
    std::string st;
    for (double p : h.getPdf()) st += hexd(p) + " ";
    o.extra = st;
    o.cls = bsx::fnv(st + std::to_string(c.n));
  } catch (const std::exception &e) {
    return failwith("legacy-out-of-bounds", std::string("exception: ") + e.what());
  }
  return o;
}

// ---------------------------------------------------------------- --case
static bsx::Outcome run_case(const std::string &cas) {
  auto m = bsx::kvs(cas);
  if (cas.rfind("hn;", 0) == 0) {
    Cfg c{m["per"] == "1", unhex(m["min"]), unhex(m["max"]), atol(m["n"].c_str())};
    return run_history(c, parseops(m["ops"]));
  }
  LCase c;
  c.n = atol(m["n"].c_str()); c.mode = atoi(m["mode"].c_str()); c.per = m["per"] == "1"; c.norm = m["norm"] == "1";
  c.scale = m["scale"]; c.omin = unhex(m["omin"]); c.omax = unhex(m["omax"]);
  for (auto &t : bsx::split(m["data"], ',')) c.data.push_back(unhex(t));
  if (m.count("data0")) for (auto &t : bsx::split(m["data0"], ',')) c.data0.push_back(unhex(t));
  return run_legacy(c);
}

int main(int argc, char **argv) {
  bsx::Args a = bsx::parse(argc, argv);
  if (a.has_case) {
    bsx::Outcome o;
    bsx::contained(0, 1, [&](long long) { return run_case(a.cas); }, [&](long long, const bsx::Outcome &r) { o = r; }, 10);
    if (o.ok) { printf("case holds\n"); return 0; }
    printf("case FAILS: key=%s %s\n", o.key.c_str(), o.what.c_str());
    return 3;
  }
  bsx::Report R;
  R.property = "C13"; R.part = "hist"; R.tier = a.tier;
  bool thorough = a.tier == "thorough";
  int depth = thorough ? 7 : 5;
  R.rule = "explicit-state BFS over op histories (Process(v,w)/Normalize/Clear/re-Initialize/continue on a copy-constructed object with the source alive/continue on a copy-assigned object with the source destroyed) of the real HistogramNew per (min,max,nbins,periodic) "
           "config: depth-1 over the full value alphabet (bin centres, edges exact/+-1ulp/+-1e-6 step, min-k*range, max+k*range, "
           "+-1e19 step, +-1e300, +-DBL_MAX) x weights {1,0.5,-2}; depth<=" + std::to_string(depth) +
           " over a reduced alphabet; state = canonical bin vector; every transition compared with a reference model; "
           "legacy Histogram: all data sets of 2..3 values over {-3,-1,0,1e-11,2} x n x interval mode x periodic x scale x normalise, each on a fresh object and "
           "on an object that processed another data set before (reused object == fresh object, bit for bit). "
           "distinct_nontrivial = distinct reached canonical states (HistogramNew) + distinct resulting pdfs (legacy)";
  std::vector<Cfg> cfgs;
  for (int per = 0; per < 2; per++)
    for (auto t : std::vector<std::tuple<double, double, long>>{{0, 10, 11}, {0, 6, 6}, {-3, 3, 4}, {2, 5, 1}, {1, 2, 2}, {0.5, 4.5, 5}})
      cfgs.push_back({per == 1, std::get<0>(t), std::get<1>(t), std::get<2>(t)});
  const double weights[3] = {1.0, 0.5, -2.0};
  long long states = 0, transitions = 0;
  long long cfgi = 0;
  for (const Cfg &c : cfgs) {
    if (!a.mine(cfgi++)) continue;
    Ref r(c.per, c.min, c.max, c.n);
    double range = c.max - c.min;
    // full value alphabet (depth 1)
    std::vector<double> full;
    for (long k = 0; k < c.n; k++) full.push_back(c.min + double(k) * r.step);
    for (long k = -1; k < c.n; k++) {
      double e = c.min + (double(k) + 0.5) * r.step;
      full.insert(full.end(), {e, ulp_up(e), ulp_dn(e), e + 1e-6 * r.step, e - 1e-6 * r.step});
    }
    for (double k : {0.5, 1.0, 2.0, 3.0, 1000.0}) { full.push_back(c.min - k * range); full.push_back(c.max + k * range); }
    for (long k = 1; k <= 3; k++) { full.push_back(c.min - double(k * c.n) * r.step); full.push_back(c.min + double(k * c.n) * r.step); }
    for (double big : {1e19 * r.step, 1e300, DBL_MAX}) { full.push_back(big); full.push_back(-big); }
    // reduced alphabet (deep histories): unambiguous values only
    std::vector<double> red;
    red.push_back(c.min);
    if (c.n > 1) red.push_back(c.min + double(c.n - 1) * r.step);
    if (c.n > 2) red.push_back(c.min + double(c.n / 2) * r.step);
    red.push_back(c.min - double(c.n) * r.step);          // wraps onto bin 0 / discarded
    red.push_back(c.min - 1.0 * r.step);                  // one bin below
    red.push_back(c.min + double(c.n) * r.step);          // one bin above the last
    red.push_back(c.min + double(c.n + 1) * r.step + 1000 * double(c.n) * r.step);
    std::vector<Op> alpha1, alphaD;
    for (double v : full) for (double w : weights) alpha1.push_back({'P', v, w});
    for (double v : red) for (double w : {1.0, 0.5}) alphaD.push_back({'P', v, w});
    alphaD.push_back({'P', c.min, -2.0});
    alphaD.push_back({'N', 0, 0});
    alphaD.push_back({'C', 0, 0});
    alphaD.push_back({'I', 0, 0});
    alphaD.push_back({'D', 0, 0});
    alphaD.push_back({'A', 0, 0});
    alpha1.push_back({'I', 0, 0});
    alpha1.push_back({'D', 0, 0});
    alpha1.push_back({'A', 0, 0});
    alpha1.push_back({'N', 0, 0});
    alpha1.push_back({'C', 0, 0});

    std::set<std::string> seen;
    std::vector<std::vector<Op>> frontier{{}};
    {
      bsx::Outcome o0 = run_history(c, {});
      seen.insert(o0.extra);
      states++;
    }
    for (int d = 1; d <= depth; d++) {
      const std::vector<Op> &alpha = d == 1 ? alpha1 : alphaD;
      std::vector<std::vector<Op>> cand;
      for (auto &hst : frontier)
        for (auto &op : alpha) { auto h2 = hst; h2.push_back(op); cand.push_back(h2); }
      std::vector<std::vector<Op>> nextf;
      bsx::contained(
          0, (long long)cand.size(), [&](long long i) { return run_history(c, cand[i]); },
          [&](long long i, const bsx::Outcome &o) {
            R.eval(); transitions++;
            std::string cas = cfgstr(c) + ";ops=" + opstr(cand[i]);
            if (!o.ok) {
              std::string key = o.key;
              if (key == "fatal" && o.what.find("signal 14") != std::string::npos) key = std::string(c.per ? "periodic" : "nonperiodic") + "-hang";
              if (key == "fatal") {
                bool huge = false;
                for (auto &op : cand[i]) if (op.kind == 'P' && std::fabs(op.v) > 1e15) huge = true;
                key = std::string(c.per ? "periodic" : "nonperiodic") + "-out-of-bounds" + (huge ? "-huge" : "");
              }
              R.fail(key, o.what, cas);
              return;
            }
            if (o.extra == "UNDEF") return;
            if (seen.insert(o.extra).second) {
              states++;
              R.cls(o.cls);
              // only states reached through the reduced alphabet (or depth 1 unambiguous) are expanded further
              nextf.push_back(cand[i]);
              if (R.samples.size() < 4 && d >= 2) R.sample(cas + " -> bins " + o.extra);
            }
          }, 10);
      // keep the frontier bounded for depth>=2: expand only states whose last op is in the reduced alphabet
      if (d == 1) {
        std::vector<std::vector<Op>> keep;
        std::set<std::string> redset;
        for (auto &op : alphaD) redset.insert(opstr({op}));
        for (auto &hst : nextf) if (redset.count(opstr({hst.back()}))) keep.push_back(hst);
        // depth-1 states reached only via full-alphabet values are duplicates of reduced ones up to the bin hit;
        // make sure every reduced op is expanded even if its state was first reached by a full-alphabet op
        std::set<std::string> have;
        for (auto &hst : keep) have.insert(opstr(hst));
        for (auto &op : alphaD) if (!have.count(opstr({op}))) keep.push_back({op});
        nextf.swap(keep);
      }
      frontier.swap(nextf);
      if (R.out_of_time()) { R.cap("time limit in BFS depth " + std::to_string(d)); break; }
    }
  }
  R.states = states; R.transitions = transitions; R.traces = transitions;
  R.counters["hn_states"] = states; R.counters["hn_transitions"] = transitions;

  // ---- legacy
  {
    const double A[5] = {-3, -1, 0, 1e-11, 2};
    std::vector<std::vector<double>> sets;
    for (int i = 0; i < 5; i++) for (int j = 0; j < 5; j++) {
      if (A[i] != A[j]) sets.push_back({A[i], A[j]});
      for (int k = 0; k < 5; k++) if (!(A[i] == A[j] && A[j] == A[k])) sets.push_back({A[i], A[j], A[k]});
    }
    sets.push_back({-5, -4.5, -4}); sets.push_back({-1e-3, -2e-3}); sets.push_back({-7, -7.5, -9, -8});
    std::vector<LCase> L;
    for (auto &ds : sets) for (long n : {2L, 3L, 5L}) for (int mode = 0; mode < 3; mode++) for (int per = 0; per < 2; per++)
      for (int norm = 0; norm < 2; norm++) for (std::string sc : {"no", "bond", "angle"}) {
        LCase c; c.n = n; c.mode = mode; c.per = per; c.norm = norm; c.scale = sc; c.data = ds; c.omin = -1.5; c.omax = 1.5;
        L.push_back(c);
      }
    // object reuse: the same object processed one of a few first data sets (wider / narrower / disjoint range, different size) before
    {
      std::vector<std::vector<double>> firsts = {{-3, 2}, {0, 1e-11, 2, 2, 2}};
      if (thorough) firsts.insert(firsts.end(), {{-1, -1, 0}, {-7, -7.5, -9, -8}, {-100, 100, 0.5}});
      size_t base = L.size();
      for (auto &f0 : firsts)
        for (size_t i = 0; i < base; i++) {
          if (!thorough && L[i].data.size() == 3 && L[i].n == 5 && L[i].mode == 1) continue;   // keep quick short
          LCase c = L[i]; c.data0 = f0; L.push_back(c);
        }
    }
    std::vector<long long> mineidx;
    for (long long i = 0; i < (long long)L.size(); i++) if (a.mine(i)) mineidx.push_back(i);
    bsx::contained(
        0, (long long)mineidx.size(), [&](long long i) { return run_legacy(L[mineidx[i]]); },
        [&](long long i, const bsx::Outcome &o) {
          const LCase &c = L[mineidx[i]];
          R.eval(); R.counters[c.data0.empty() ? "legacy_cases" : "legacy_reuse_cases"]++;
          if (!o.ok) {
            std::string key = o.key == "fatal" ? (o.what.find("signal 14") != std::string::npos ? std::string("legacy-hang") : std::string("legacy-out-of-bounds-scale-") + c.scale) : o.key;
            R.fail(key, o.what + (o.key == "fatal" ? "  [" + lstr(c) + "]" : ""), lstr(c));
            return;
          }
          R.cls(o.cls);
          if (R.samples.size() < 7 && i % 997 == 5) R.sample(lstr(c) + " -> pdf " + o.extra);
        }, 3);
  }
  R.assumptions = {"Eigen index assertions (thrown as exceptions), _GLIBCXX_ASSERTIONS and ASan are the oracle for 'touches no memory outside the histogram'",
                   "values within 1e-9 step of a bin edge may go to either neighbouring bin; |index| > 9e15 may go to any bin (periodic) / must be discarded (non-periodic)",
                   "Normalize clauses asserted only on non-negative, non-empty contents",
                   "legacy Histogram: data sets with at least two distinct values, n >= 2"};
  if (!R.write(a.out)) { fprintf(stderr, "cannot write %s\n", a.out.c_str()); return 2; }
  return 0;
}
