// C15 — classical multipole interactions are symmetric and match point-charge physics.
//
// Real code (compiled from the source tree into this harness): eeinteractor.cc, staticsite.cc,
// polarsite.cc, dipoledipoleinteraction.h.  Case families:
//   pair;...   CalcStaticEnergy_site / CalcStaticEnergy on two StaticSites: exchange symmetry,
//              q1 q2 / R, translation / rotation invariance (StaticSite::Rotate), bilinearity,
//              and convergence to the Coulomb sum of explicit point-charge clusters that realise
//              the same moments (cluster size h, h/2, ... + Richardson extrapolation; this oracle
//              shares nothing with the tensor formulas)
//   field;...  ApplyStaticField / ApplyInducedField on PolarSites: accumulated field term equals
//              the derivative of the pair energy w.r.t. the site's dipole components
//   thole;...  FillTholeInteraction: symmetric, traceless when undamped, -> undamped tensor at
//              large separation / in the undamped limit, attenuated at short range
//   ddi;...    DipoleDipoleInteraction operator: symmetric, blocks = Thole tensor, multiply = dense
#include <array>
#include <cfloat>
#include <cstring>
#include <type_traits>

#include "bsx.h"
#include "votca/tools/constants.h"
#include "votca/xtp/checkpoint.h"
#include "votca/xtp/classicalsegment.h"
#include "votca/xtp/dipoledipoleinteraction.h"
#include "votca/xtp/eeinteractor.h"
#include "votca/xtp/polarsite.h"
#include "votca/xtp/staticsite.h"

using namespace votca;
using namespace votca::xtp;
using bsx::hexd;
using bsx::unhex;
using V3 = Eigen::Vector3d;
using M3 = Eigen::Matrix3d;

// ------------------------------------------------------------------ site description
struct SiteD {
  double p[3] = {0, 0, 0};
  double Q[9] = {0, 0, 0, 0, 0, 0, 0, 0, 0};  // Q00, Q11c(x), Q11s(y), Q10(z), Q20, Q21c, Q21s, Q22c, Q22s
  int rank = 0;
};
static int comp_rank(int i) { return i == 0 ? 0 : (i < 4 ? 1 : 2); }
static int max_l(const SiteD &s) {
  int l = -1;
  for (int i = 0; i < 9; i++) if (s.Q[i] != 0) l = std::max(l, comp_rank(i));
  return l;
}
static int nnz(const SiteD &s) { int n = 0; for (double q : s.Q) if (q != 0) n++; return n; }
static std::string arr(const double *v, int n) {
  std::string s;
  for (int i = 0; i < n; i++) s += (i ? "," : "") + hexd(v[i]);
  return s;
}
static void parr(const std::string &s, double *v, int n) {
  auto f = bsx::split(s, ',');
  for (int i = 0; i < n && i < (int)f.size(); i++) v[i] = unhex(f[(size_t)i]);
}
static std::string sitestr(const SiteD &s, const std::string &tag) {
  return "p" + tag + "=" + arr(s.p, 3) + ";r" + tag + "=" + std::to_string(s.rank) + ";q" + tag + "=" + arr(s.Q, 9);
}
static SiteD parsesite(std::map<std::string, std::string> &m, const std::string &tag) {
  SiteD s;
  parr(m["p" + tag], s.p, 3);
  s.rank = atoi(m["r" + tag].c_str());
  parr(m["q" + tag], s.Q, 9);
  return s;
}
static std::string sitehuman(const SiteD &s) {
  char b[300];
  snprintf(b, sizeof b, "pos(%.4g,%.4g,%.4g) rank %d Q=[%.3g|%.3g,%.3g,%.3g|%.3g,%.3g,%.3g,%.3g,%.3g]", s.p[0], s.p[1], s.p[2], s.rank, s.Q[0],
           s.Q[1], s.Q[2], s.Q[3], s.Q[4], s.Q[5], s.Q[6], s.Q[7], s.Q[8]);
  return b;
}
static V3 posof(const SiteD &s) { return V3(s.p[0], s.p[1], s.p[2]); }
static StaticSite mkstatic(const SiteD &s, Index id) {
  StaticSite t(id, "C", posof(s));
  Vector9d q;
  for (int i = 0; i < 9; i++) q(i) = s.Q[i];
  t.setMultipole(q, s.rank);
  return t;
}
static PolarSite mkpolar(const SiteD &s, Index id, const M3 &alpha) {
  PolarSite t(id, "C", posof(s));
  Vector9d q;
  for (int i = 0; i < 9; i++) q(i) = s.Q[i];
  t.setMultipole(q, s.rank);
  t.setpolarization(alpha);
  return t;
}

// ------------------------------------------------------------------ point-charge clusters
struct PC { long double q, x, y, z; };
// Point charges of extent h that realise exactly the charge, dipole and (Stone convention,
// Theta_ab = sum q (3/2 r_a r_b - 1/2 r^2 delta_ab); Q20 = Theta_zz, Q21c = 2/sqrt3 Theta_xz,
// Q21s = 2/sqrt3 Theta_yz, Q22c = 1/sqrt3 (Theta_xx - Theta_yy), Q22s = 2/sqrt3 Theta_xy)
// traceless quadrupole of the site; lower moments of each sub-cluster vanish, higher ones are O(h^2).
static void cluster(const SiteD &s, long double h, std::vector<PC> &out) {
  const long double px = s.p[0], py = s.p[1], pz = s.p[2];
  auto add = [&](long double q, long double dx, long double dy, long double dz) { out.push_back({q, px + dx, py + dy, pz + dz}); };
  if (s.Q[0] != 0) add(s.Q[0], 0, 0, 0);
  if (s.rank > 0) {
    for (int k = 0; k < 3; k++) {
      long double mu = s.Q[1 + k];
      if (mu == 0) continue;
      long double e[3] = {0, 0, 0};
      e[k] = h / 2;
      add(mu / h, e[0], e[1], e[2]);
      add(-mu / h, -e[0], -e[1], -e[2]);
    }
  }
  if (s.rank > 1) {
    const long double s3 = sqrtl(3.0L);
    long double th[3][3];
    th[2][2] = s.Q[4];
    th[0][0] = -0.5L * s.Q[4] + 0.5L * s3 * s.Q[7];
    th[1][1] = -0.5L * s.Q[4] - 0.5L * s3 * s.Q[7];
    th[0][2] = th[2][0] = 0.5L * s3 * s.Q[5];
    th[1][2] = th[2][1] = 0.5L * s3 * s.Q[6];
    th[0][1] = th[1][0] = 0.5L * s3 * s.Q[8];
    const long double a = h / 2;
    for (int k = 0; k < 3; k++) {
      if (th[k][k] == 0) continue;
      long double q = th[k][k] / (3 * a * a);
      long double e[3] = {0, 0, 0};
      e[k] = a;
      add(q, e[0], e[1], e[2]);
      add(q, -e[0], -e[1], -e[2]);
    }
    for (int al = 0; al < 3; al++)
      for (int be = al + 1; be < 3; be++) {
        if (th[al][be] == 0) continue;
        long double q = th[al][be] / (6 * a * a);
        long double ep[3] = {0, 0, 0}, em[3] = {0, 0, 0};
        ep[al] = a; ep[be] = a;
        em[al] = a; em[be] = -a;
        add(q, ep[0], ep[1], ep[2]);
        add(q, -ep[0], -ep[1], -ep[2]);
        add(-q, em[0], em[1], em[2]);
        add(-q, -em[0], -em[1], -em[2]);
      }
  }
}
static long double coulomb(const std::vector<PC> &A, const std::vector<PC> &B) {
  long double e = 0;
  for (auto &a : A)
    for (auto &b : B) {
      long double dx = a.x - b.x, dy = a.y - b.y, dz = a.z - b.z;
      e += a.q * b.q / sqrtl(dx * dx + dy * dy + dz * dz);
    }
  return e;
}
// Richardson extrapolation h -> 0 of the cluster Coulomb energy (error series in even powers of h).
static void cluster_limit(const SiteD &A, const SiteD &B, double R, long double &val, long double &err) {
  const int K = 5;
  long double T[K][K];
  for (int k = 0; k < K; k++) {
    long double h = (long double)R / 4 / (long double)(1 << k);
    std::vector<PC> ca, cb;
    cluster(A, h, ca);
    cluster(B, h, cb);
    T[k][0] = coulomb(ca, cb);
    long double f = 4;
    for (int m = 1; m <= k; m++) {
      T[k][m] = (f * T[k][m - 1] - T[k - 1][m - 1]) / (f - 1);
      f *= 4;
    }
  }
  val = T[K - 1][K - 1];
  err = std::max(fabsl(T[K - 1][K - 1] - T[K - 1][K - 2]), fabsl(T[K - 1][K - 1] - T[K - 2][K - 2]));
}

// magnitude of the interaction: sum over rank blocks of |QA_l| |QB_l'| / R^(l+l'+1) (x10 for the tensor coefficients)
static double escale(const SiteD &A, const SiteD &B, double R) {
  double na[3] = {0, 0, 0}, nb[3] = {0, 0, 0};
  for (int i = 0; i < 9; i++) { na[comp_rank(i)] += A.Q[i] * A.Q[i]; nb[comp_rank(i)] += B.Q[i] * B.Q[i]; }
  double s = 0;
  for (int l = 0; l < 3; l++) for (int m = 0; m < 3; m++) s += std::sqrt(na[l] * nb[m]) / std::pow(R, l + m + 1);
  return 10 * s;
}

static std::vector<M3> rotations() {
  std::vector<M3> r;
  r.push_back(M3::Identity());
  r.push_back(Eigen::AngleAxisd(M_PI / 2, V3::UnitZ()).toRotationMatrix());
  r.push_back(Eigen::AngleAxisd(2 * M_PI / 3, V3(1, 1, 1).normalized()).toRotationMatrix());
  r.push_back(Eigen::AngleAxisd(M_PI, V3::UnitX()).toRotationMatrix());
  r.push_back((Eigen::AngleAxisd(0.3, V3::UnitZ()) * Eigen::AngleAxisd(1.1, V3::UnitY()) * Eigen::AngleAxisd(-0.7, V3::UnitZ())).toRotationMatrix());
  r.push_back(Eigen::AngleAxisd(2.0, V3(0.4, -1.3, 0.2).normalized()).toRotationMatrix());
  return r;
}

// ------------------------------------------------------------------ pair
static double g_max_dev = 0, g_max_err = 0;  // largest |E - cluster limit| and Richardson estimate, in units of the interaction scale
static std::string lkey(const SiteD &A, const SiteD &B) {
  if (nnz(A) > 1 || nnz(B) > 1) return "mixed";
  return "l" + std::to_string(std::max(0, max_l(A))) + "l" + std::to_string(std::max(0, max_l(B)));
}
static bsx::Outcome run_pair(const SiteD &A, const SiteD &B) {
  bsx::Outcome o;
  const std::string lk = lkey(A, B);
  auto failwith = [&](const std::string &key, const std::string &what) {
    o.ok = false; o.key = key; o.what = what + "  [A: " + sitehuman(A) + "; B: " + sitehuman(B) + "]";
    return o;
  };
  try {
    eeInteractor ee;
    const double R = (posof(B) - posof(A)).norm();
    const double sc = escale(A, B, R);
    StaticSite a = mkstatic(A, 0), b = mkstatic(B, 1);
    const double Eab = ee.CalcStaticEnergy_site(a, b);
    const double Eba = ee.CalcStaticEnergy_site(b, a);
    if (!std::isfinite(Eab) || !std::isfinite(Eba)) return failwith("energy-not-finite-" + lk, "E(A,B) = " + bsx::fmt(Eab) + " E(B,A) = " + bsx::fmt(Eba));
    // exchange
    if (std::fabs(Eab - Eba) > 1e-13 * sc)
      return failwith("exchange-" + lk, "E(A,B) = " + bsx::fmt(Eab) + " but E(B,A) = " + bsx::fmt(Eba));
    // charges only
    if (max_l(A) <= 0 && max_l(B) <= 0) {
      double want = A.Q[0] * B.Q[0] / R;
      if (std::fabs(Eab - want) > 8 * DBL_EPSILON * std::fabs(want))
        return failwith("coulomb-q1q2", "E = " + bsx::fmt(Eab) + " but q1 q2 / R = " + bsx::fmt(want));
    }
    // segment-level interface agrees with the site-level one
    {
      StaticSegment sa("A", 0), sb("B", 1);
      sa.push_back(a);
      sb.push_back(b);
      double e1 = ee.CalcStaticEnergy(sa, sb), e2 = ee.CalcStaticEnergy(sb, sa);
      if (std::fabs(e1 - Eab) > 1e-13 * sc || std::fabs(e2 - Eab) > 1e-13 * sc)
        return failwith("segment-vs-site-" + lk, "CalcStaticEnergy(segA,segB) = " + bsx::fmt(e1) + ", (segB,segA) = " + bsx::fmt(e2) + ", site level " + bsx::fmt(Eab));
    }
    // point-charge clusters
    {
      long double val, err;
      cluster_limit(A, B, R, val, err);
      long double tol = 10 * err + 1e-9L * sc;
      g_max_dev = std::max(g_max_dev, (double)(fabsl((long double)Eab - val) / sc));
      g_max_err = std::max(g_max_err, (double)(err / sc));
      if (fabsl((long double)Eab - val) > tol)
        return failwith("cluster-" + lk, "E = " + bsx::fmt(Eab) + " but point-charge clusters realising the same moments converge to " + bsx::fmt((double)val) +
                                             " (+-" + bsx::fmt((double)err) + ")");
    }
    // bilinearity (only needed for mixed moment vectors)
    if (lk == "mixed") {
      long double sum = 0;
      for (int i = 0; i < 9; i++) {
        if (A.Q[i] == 0) continue;
        for (int j = 0; j < 9; j++) {
          if (B.Q[j] == 0) continue;
          SiteD ua = A, ub = B;
          for (int k = 0; k < 9; k++) { ua.Q[k] = k == i ? 1.0 : 0.0; ub.Q[k] = k == j ? 1.0 : 0.0; }
          sum += (long double)A.Q[i] * B.Q[j] * ee.CalcStaticEnergy_site(mkstatic(ua, 0), mkstatic(ub, 1));
        }
      }
      if (fabsl(sum - Eab) > 1e-12L * sc)
        return failwith("bilinear", "E(QA,QB) = " + bsx::fmt(Eab) + " but sum_ij QA_i QB_j E(e_i,e_j) = " + bsx::fmt((double)sum));
    }
    // common translation
    for (V3 sh : {V3(1, 0, 0), V3(-2.5, 3.25, 0.75), V3(100, -200, 50)}) {
      StaticSite a2 = a, b2 = b;
      a2.Translate(sh);
      b2.Translate(sh);
      double e = ee.CalcStaticEnergy_site(a2, b2);
      if (std::fabs(e - Eab) > 1e-11 * sc)  // positions ~1e2: the difference of positions loses ~3 digits
        return failwith("translation-" + lk, "E = " + bsx::fmt(Eab) + " but after a common translation by (" + bsx::fmt(sh.x()) + "," + bsx::fmt(sh.y()) + "," +
                                                 bsx::fmt(sh.z()) + ") E = " + bsx::fmt(e));
    }
    // common rotation (positions and moments, through StaticSite::Rotate)
    {
      static const std::vector<M3> rots = rotations();
      const V3 ref(0.1, 0.2, -0.3);
      for (size_t r = 0; r < rots.size(); r++) {
        StaticSite a2 = a, b2 = b;
        a2.Rotate(rots[r], ref);
        b2.Rotate(rots[r], ref);
        double e = ee.CalcStaticEnergy_site(a2, b2);
        if (!(std::fabs(e - Eab) <= 1e-12 * sc))
          return failwith("rotation-" + lk, "E = " + bsx::fmt(Eab) + " but after common rotation #" + std::to_string(r) + " E = " + bsx::fmt(e));
        if (r == 0)
          for (int k = 0; k < 9; k++)
            if (std::fabs(a2.Q()(k) - a.Q()(k)) > 4 * DBL_EPSILON * (std::fabs(a.Q()(k)) + 1e-300 + a.Q().norm()))
              return failwith("rotation-identity-changes-moments", "identity rotation changed Q(" + std::to_string(k) + ") to " + bsx::fmt(a2.Q()(k)));
      }
    }
    char cb[96];
    int ex = 0;
    double mant = std::frexp(Eab, &ex);
    snprintf(cb, sizeof cb, "%s|%d|%d", lk.c_str(), Eab == 0 ? 0 : (Eab > 0 ? 1 : -1), std::fabs(Eab) < 1e-14 * sc ? -9999 : ex);
    (void)mant;
    o.cls = std::fabs(Eab) < 1e-14 * sc ? 0 : bsx::fnv(cb);
    o.extra = "E=" + bsx::fmt(Eab);
  } catch (const std::exception &e) {
    return failwith("pair-throws-" + lk, std::string("exception: ") + e.what());
  }
  return o;
}

// ------------------------------------------------------------------ field
// src: static moments of the source site; tgt: polarisable target; ind: induced dipole on the source (for ApplyInducedField)
struct FieldCase { SiteD src, tgt; double ind[3] = {0, 0, 0}; double alpha = 1; };
static std::string fieldstr(const FieldCase &c) {
  return "field;" + sitestr(c.src, "a") + ";" + sitestr(c.tgt, "b") + ";ind=" + arr(c.ind, 3) + ";alpha=" + hexd(c.alpha);
}
static bsx::Outcome run_field(const FieldCase &c) {
  bsx::Outcome o;
  const std::string lk = "l" + std::to_string(std::max(0, max_l(c.src))) + "-rank" + std::to_string(c.tgt.rank);
  auto failwith = [&](const std::string &key, const std::string &what) {
    o.ok = false; o.key = key; o.what = what + "  [source: " + sitehuman(c.src) + "; polarisable target: " + sitehuman(c.tgt) + "]";
    return o;
  };
  try {
    eeInteractor ee;
    const double R = (posof(c.tgt) - posof(c.src)).norm();
    SiteD unitd = c.tgt;
    for (int k = 1; k < 4; k++) unitd.Q[k] = 1.0;
    const double sc = escale(c.src, unitd, R) + 1e-300;
    const M3 alpha = c.alpha * M3::Identity();
    // derivative of the pair energy w.r.t. the target's dipole components (central differences; E is linear in the dipole)
    V3 dE;
    for (int k = 0; k < 3; k++) {
      SiteD tp = c.tgt, tm = c.tgt;
      tp.rank = tm.rank = std::max(1, c.tgt.rank);
      tp.Q[1 + k] += 0.5;
      tm.Q[1 + k] -= 0.5;
      dE(k) = ee.CalcStaticEnergy_site(mkstatic(c.src, 0), mkstatic(tp, 1)) - ee.CalcStaticEnergy_site(mkstatic(c.src, 0), mkstatic(tm, 1));
    }
    const double Epair = ee.CalcStaticEnergy_site(mkstatic(c.src, 0), mkstatic(c.tgt, 1));
    std::string sig;
    for (int variant = 0; variant < 4; variant++) {  // {StaticSegment, PolarSegment} source x {V, noE_V}
      const bool polarsrc = variant & 1, noE = variant & 2;
      PolarSegment tseg("T", 1);
      tseg.push_back(mkpolar(c.tgt, 1, alpha));
      const V3 pre_V(0.125, -0.25, 0.5), pre_N(-1.0, 2.0, 0.0625);  // accumulators are ADDED to
      tseg[0].V() = pre_V;
      tseg[0].V_noE() = pre_N;
      double e;
      if (polarsrc) {
        PolarSegment sseg("S", 0);
        sseg.push_back(mkpolar(c.src, 0, alpha));
        e = noE ? ee.ApplyStaticField<PolarSegment, Estatic::noE_V>(sseg, tseg) : ee.ApplyStaticField<PolarSegment, Estatic::V>(sseg, tseg);
      } else {
        StaticSegment sseg("S", 0);
        sseg.push_back(mkstatic(c.src, 0));
        e = noE ? ee.ApplyStaticField<StaticSegment, Estatic::noE_V>(sseg, tseg) : ee.ApplyStaticField<StaticSegment, Estatic::V>(sseg, tseg);
      }
      V3 got = noE ? V3(tseg[0].V_noE() - pre_N) : V3(tseg[0].V() - pre_V);
      V3 other = noE ? V3(tseg[0].V() - pre_V) : V3(tseg[0].V_noE() - pre_N);
      std::string vn = noE ? "noE_V" : "V";
      if (other.norm() != 0) return failwith("field-wrong-accumulator-" + vn, "the other accumulator changed by " + bsx::fmt(other.norm()));
      if (!((got - dE).norm() <= 1e-12 * sc + 8 * DBL_EPSILON * 2.5))
        return failwith("field-derivative-" + vn + "-" + lk, "accumulated field term (" + bsx::fmt(got.x()) + "," + bsx::fmt(got.y()) + "," + bsx::fmt(got.z()) +
                                                                 ") but dE/dmu = (" + bsx::fmt(dE.x()) + "," + bsx::fmt(dE.y()) + "," + bsx::fmt(dE.z()) + ")");
      if (std::fabs(e - Epair) > 1e-12 * (escale(c.src, c.tgt, R) + 1e-300))
        return failwith("field-energy-return-" + vn, "ApplyStaticField returned " + bsx::fmt(e) + " but the pair energy is " + bsx::fmt(Epair));
      if (variant == 0) { char b[120]; snprintf(b, sizeof b, "%.5e,%.5e,%.5e", got.x(), got.y(), got.z()); sig = b; }
    }
    // induced dipoles: E_indu_indu = mu1^T T mu2; field on site 2 from ApplyInducedField = d E_indu_indu / d mu2;
    // E_indu_stat(site 1 induced, site 2 static) = mu1 . (static field term of site 2 on site 1)
    {
      const V3 mu1(c.ind[0], c.ind[1], c.ind[2]);
      PolarSegment s1("S", 0), s2("T", 1);
      s1.push_back(mkpolar(c.src, 0, alpha));
      s2.push_back(mkpolar(c.tgt, 1, alpha));
      s1[0].setInduced_Dipole(mu1);
      const double tsc = mu1.norm() / std::pow(R, 3) + 1e-300;
      V3 dEi;
      for (int k = 0; k < 3; k++) {
        V3 d = V3::Zero();
        d(k) = 0.5;
        s2[0].setInduced_Dipole(V3(0.3, -0.1, 0.2) + d);
        double ep = ee.CalcPolarEnergy(s1, s2).E_indu_indu();
        s2[0].setInduced_Dipole(V3(0.3, -0.1, 0.2) - d);
        double em = ee.CalcPolarEnergy(s1, s2).E_indu_indu();
        dEi(k) = ep - em;
      }
      s2[0].setInduced_Dipole(V3(0.3, -0.1, 0.2));
      s2[0].Reset();
      ee.ApplyInducedField<Estatic::noE_V>(s1, s2);
      V3 g1 = s2[0].V_noE();
      if (s2[0].V().norm() != 0) return failwith("induced-field-wrong-accumulator", "ApplyInducedField<noE_V> changed V()");
      s2[0].Reset();
      ee.ApplyInducedField<Estatic::V>(s1, s2);
      V3 g2 = s2[0].V();
      if (!((g1 - dEi).norm() <= 1e-12 * tsc) || !((g2 - dEi).norm() <= 1e-12 * tsc))
        return failwith("induced-field-derivative", "field term from the induced dipole (" + bsx::fmt(g1.x()) + "," + bsx::fmt(g1.y()) + "," + bsx::fmt(g1.z()) +
                                                        ") but d E_indu_indu / d mu2 = (" + bsx::fmt(dEi.x()) + "," + bsx::fmt(dEi.y()) + "," + bsx::fmt(dEi.z()) + ")");
      // induced(1) - static(2): energy = induced dipole . field term that site 2's static moments put on site 1
      if (c.src.rank < 2) {  // the field term on a site is evaluated with the target's own rank; for rank<2 targets both use VSiteA<4>
        PolarSegment s1b("S", 0);
        s1b.push_back(mkpolar(c.src, 0, alpha));
        StaticSegment t("T", 1);
        t.push_back(mkstatic(c.tgt, 1));
        ee.ApplyStaticField<StaticSegment, Estatic::V>(t, s1b);
        double want = mu1.dot(s1b[0].V());
        double eis = ee.CalcPolarEnergy(s1, t).E_indu_stat();
        SiteD unit = c.src;
        unit.rank = 1;
        for (int k = 1; k < 4; k++) unit.Q[k] = 1;
        if (std::fabs(eis - want) > 1e-12 * (mu1.norm() + 1e-300) * escale(unit, c.tgt, R))
          return failwith("induced-static-energy", "E_indu_stat = " + bsx::fmt(eis) + " but induced dipole . accumulated static field term = " + bsx::fmt(want));
      }
    }
    o.cls = bsx::fnv("F" + lk + sig);
    o.extra = "dE/dmu=(" + sig + ")";
  } catch (const std::exception &e) {
    return failwith("field-throws", std::string("exception: ") + e.what());
  }
  return o;
}

// ------------------------------------------------------------------ Thole
struct TholeCase { double pa[3], pb[3]; double a1[3], a2[3]; double damp; };  // a1,a2: principal polarisabilities (diagonal)
static std::string tholestr(const TholeCase &c) {
  return "thole;pa=" + arr(c.pa, 3) + ";pb=" + arr(c.pb, 3) + ";a1=" + arr(c.a1, 3) + ";a2=" + arr(c.a2, 3) + ";damp=" + hexd(c.damp);
}
static M3 poltensor(const double *a, bool tilt) {
  M3 d = V3(a[0], a[1], a[2]).asDiagonal();
  if (!tilt) return d;
  M3 r = Eigen::AngleAxisd(0.6, V3(0.2, 1.0, -0.5).normalized()).toRotationMatrix();
  return r * d * r.transpose();
}
static bsx::Outcome run_thole(const TholeCase &c) {
  bsx::Outcome o;
  auto failwith = [&](const std::string &key, const std::string &what) {
    char b[300];
    snprintf(b, sizeof b, "  [R=%.6g along (%.4g,%.4g,%.4g), alpha1=(%.3g,%.3g,%.3g) alpha2=(%.3g,%.3g,%.3g), damping a=%.6g]",
             (V3(c.pb[0], c.pb[1], c.pb[2]) - V3(c.pa[0], c.pa[1], c.pa[2])).norm(), c.pb[0] - c.pa[0], c.pb[1] - c.pa[1], c.pb[2] - c.pa[2], c.a1[0],
             c.a1[1], c.a1[2], c.a2[0], c.a2[1], c.a2[2], c.damp);
    o.ok = false; o.key = key; o.what = what + b;
    return o;
  };
  try {
    eeInteractor ee(c.damp);
    SiteD A, B;
    for (int k = 0; k < 3; k++) { A.p[k] = c.pa[k]; B.p[k] = c.pb[k]; }
    const bool aniso = c.a1[0] != c.a1[1] || c.a1[1] != c.a1[2];
    PolarSite s1 = mkpolar(A, 0, poltensor(c.a1, aniso)), s2 = mkpolar(B, 1, poltensor(c.a2, false));
    const double R = (posof(B) - posof(A)).norm();
    const double u = 1.0 / (R * R * R);
    M3 T = ee.FillTholeInteraction(s1, s2), T21 = ee.FillTholeInteraction(s2, s1);
    if (!T.allFinite()) return failwith("thole-not-finite", "tensor has non-finite entries");
    if ((T - T.transpose()).cwiseAbs().maxCoeff() > 8 * DBL_EPSILON * u)
      return failwith("thole-asymmetric", "T - T^T has an entry of " + bsx::fmt((T - T.transpose()).cwiseAbs().maxCoeff()));
    if ((T - T21).cwiseAbs().maxCoeff() > 8 * DBL_EPSILON * 4 * u)
      return failwith("thole-site-exchange", "T(1,2) - T(2,1) has an entry of " + bsx::fmt((T - T21).cwiseAbs().maxCoeff()));
    // undamped tensor: the dipole-dipole block of the static interaction (decided against point charges in the pair cases)
    M3 T0;
    for (int al = 0; al < 3; al++)
      for (int be = 0; be < 3; be++) {
        SiteD da = A, db = B;
        da.rank = db.rank = 1;
        da.Q[1 + al] = 1;
        db.Q[1 + be] = 1;
        T0(al, be) = ee.CalcStaticEnergy_site(mkstatic(da, 0), mkstatic(db, 1));
      }
    // Thole's scaled distance u = R / (alpha1 alpha2)^(1/6); the damping depends on a u^3.  Bounds that hold whichever
    // principal polarisability of an anisotropic site is used:
    const double a1max = std::max({c.a1[0], c.a1[1], c.a1[2]}), a1min = std::min({c.a1[0], c.a1[1], c.a1[2]});
    const double a2max = std::max({c.a2[0], c.a2[1], c.a2[2]}), a2min = std::min({c.a2[0], c.a2[1], c.a2[2]});
    const double au3_lo = c.damp * R * R * R / std::sqrt(a1max * a2max), au3_hi = c.damp * R * R * R / std::sqrt(a1min * a2min);
    const bool undamped_limit = c.damp >= 1e5 && au3_lo >= 100;  // damping parameter -> infinity
    const bool far = au3_lo >= 100;                              // separation >> (alpha1 alpha2)^(1/6)
    double dev = (T - T0).norm() * R * R * R;
    if (undamped_limit || far) {
      if (std::fabs(T.trace()) > 16 * DBL_EPSILON * u)
        return failwith(undamped_limit ? "thole-trace-undamped-limit" : "thole-trace-large-separation", "trace = " + bsx::fmt(T.trace()) + " (1/R^3 = " + bsx::fmt(u) + ")");
      if (dev > 1e-13)
        return failwith(undamped_limit ? "thole-undamped-limit" : "thole-large-separation", "|T - T_undamped| R^3 = " + bsx::fmt(dev));
    }
    // "damped": at short range the tensor is weaker than the undamped one
    const bool shortrange = au3_hi <= 10;  // exp(-10) >> the 1e-9 margin
    if (shortrange && !(T.norm() < T0.norm() * (1 - 1e-9)))
      return failwith("thole-not-damped-at-short-range", "|T| = " + bsx::fmt(T.norm()) + " is not smaller than the undamped |T0| = " + bsx::fmt(T0.norm()));
    char b[64];
    snprintf(b, sizeof b, "thole|%.4e", dev);
    o.cls = bsx::fnv(dev < 1e-13 ? std::string("thole|undamped") : std::string(b));
    o.extra = "|T-T0|R^3=" + bsx::fmt(dev) + " trace*R^3=" + bsx::fmt(T.trace() * R * R * R);
  } catch (const std::exception &e) {
    return failwith("thole-throws", std::string("exception: ") + e.what());
  }
  return o;
}

// ------------------------------------------------------------------ DipoleDipoleInteraction
struct DdiCase { double scale, a[3], damp; };
static std::string ddistr(const DdiCase &c) { return "ddi;scale=" + hexd(c.scale) + ";a=" + arr(c.a, 3) + ";damp=" + hexd(c.damp); }
static bsx::Outcome run_ddi(const DdiCase &c) {
  bsx::Outcome o;
  auto failwith = [&](const std::string &key, const std::string &what) {
    o.ok = false; o.key = key; o.what = what + "  [3 polarisable sites, geometry scale " + bsx::fmt(c.scale) + ", alphas " + bsx::fmt(c.a[0]) + "," + bsx::fmt(c.a[1]) + "," +
                                     bsx::fmt(c.a[2]) + ", damping " + bsx::fmt(c.damp) + "]";
    return o;
  };
  try {
    eeInteractor ee(c.damp);
    const V3 pos[3] = {V3(0.3, -0.2, 0.1), V3(1.3, 0.5, -0.4), V3(-0.6, 0.9, 1.2)};
    std::vector<PolarSegment> segs;
    segs.emplace_back("s0", 0);
    segs.emplace_back("s1", 1);
    for (int i = 0; i < 3; i++) {
      SiteD d;
      for (int k = 0; k < 3; k++) d.p[k] = pos[i](k) * c.scale;
      double al[3] = {c.a[i], c.a[i] * (i == 1 ? 2.0 : 1.0), c.a[i]};
      segs[i < 2 ? 0 : 1].push_back(mkpolar(d, i, poltensor(al, i == 1)));
    }
    DipoleDipoleInteraction op(ee, segs);
    if (op.rows() != 9 || op.cols() != 9) return failwith("ddi-size", "operator is " + std::to_string(op.rows()) + "x" + std::to_string(op.cols()));
    std::vector<const PolarSite *> sites{&segs[0][0], &segs[0][1], &segs[1][0]};
    Eigen::MatrixXd D(9, 9);
    for (Index i = 0; i < 9; i++) for (Index j = 0; j < 9; j++) D(i, j) = op(i, j);
    double mx = D.cwiseAbs().maxCoeff();
    if ((D - D.transpose()).cwiseAbs().maxCoeff() > 1e-14 * mx) return failwith("ddi-asymmetric", "operator(i,j) - operator(j,i) up to " + bsx::fmt((D - D.transpose()).cwiseAbs().maxCoeff()));
    for (int i = 0; i < 3; i++)
      for (int j = 0; j < 3; j++) {
        M3 want = i == j ? M3(sites[(size_t)i]->getPInv()) : ee.FillTholeInteraction(*sites[(size_t)i], *sites[(size_t)j]);
        if ((D.block<3, 3>(3 * i, 3 * j) - want).cwiseAbs().maxCoeff() > 1e-14 * mx)
          return failwith("ddi-block", "block (" + std::to_string(i) + "," + std::to_string(j) + ") differs from " + (i == j ? "the inverse polarisability" : "the Thole tensor"));
      }
    for (Index k = 0; k < 10; k++) {
      Eigen::VectorXd v = Eigen::VectorXd::Zero(9);
      if (k < 9) v(k) = 1;
      else for (Index q = 0; q < 9; q++) v(q) = 0.25 * double(q) - 1.0;
      Eigen::VectorXd got = op.multiply(v), want = D * v;
      if ((got - want).cwiseAbs().maxCoeff() > 1e-13 * mx * (1 + v.norm()))
        return failwith("ddi-multiply", "multiply(v) differs from the dense matrix times v by " + bsx::fmt((got - want).cwiseAbs().maxCoeff()));
    }
    char b[64];
    snprintf(b, sizeof b, "ddi|%.5e", D(0, 3));
    o.cls = bsx::fnv(b);
  } catch (const std::exception &e) {
    return failwith("ddi-throws", std::string("exception: ") + e.what());
  }
  return o;
}

// ------------------------------------------------------------------ rotation pivots (argument aliasing)
// StaticSite::Rotate(R, refPos) takes the pivot by const reference; callers pass temporaries, named
// copies, Zero(), but also REFERENCES INTO THE OBJECTS BEING ROTATED: site.Rotate(R, site.getPos()),
// seg.Rotate(R, seg[k].getPos()), seg.Rotate(R, seg.getPos()), B.Rotate(R, A.getPos()).  A common
// rotation of two objects about such a pivot must still be the rigid rotation about the pivot's value
// at the time of the call.
static void stone_theta(const double *Q, M3 &th) {  // spherical (Stone) -> traceless Cartesian
  const double s3 = std::sqrt(3.0);
  th(2, 2) = Q[4];
  th(0, 0) = -0.5 * Q[4] + 0.5 * s3 * Q[7];
  th(1, 1) = -0.5 * Q[4] - 0.5 * s3 * Q[7];
  th(0, 2) = th(2, 0) = 0.5 * s3 * Q[5];
  th(1, 2) = th(2, 1) = 0.5 * s3 * Q[6];
  th(0, 1) = th(1, 0) = 0.5 * s3 * Q[8];
}
static void stone_sph(const M3 &th, double *Q) {  // definitions of the spherical components
  const double s3 = std::sqrt(3.0);
  Q[4] = th(2, 2);
  Q[5] = 2.0 / s3 * th(0, 2);
  Q[6] = 2.0 / s3 * th(1, 2);
  Q[7] = (th(0, 0) - th(1, 1)) / s3;
  Q[8] = 2.0 / s3 * th(0, 1);
}
static void mixvec_fixed(int k, int which, double *Q) {
  for (int i = 0; i < 9; i++) {
    int t = (k * 37 + i * 11 + which * 5) % 17;
    Q[i] = (double(t) - 8.0) / 4.0 + (t == 8 ? 0.375 : 0.0);
  }
}
struct RotCase { int lvl = 0, piv = 0, rot = 0, rk = 0, ord = 0, geo = 0; };  // lvl: 0 StaticSite, 1 PolarSite, 2 StaticSegment, 3 PolarSegment
static std::string rotstr(const RotCase &c) {
  return "rot;lvl=" + std::to_string(c.lvl) + ";piv=" + std::to_string(c.piv) + ";rot=" + std::to_string(c.rot) + ";rk=" + std::to_string(c.rk) + ";ord=" +
         std::to_string(c.ord) + ";geo=" + std::to_string(c.geo);
}
static const char *pivname(int p) {
  static const char *n[8] = {"a temporary", "a named copy", "Vector3d::Zero()", "a reference to the first rotated site's position", "a reference to the middle site's position",
                             "a reference to the last site's position", "a reference to the rotated segment's own position", "a reference to the position of a site of the other object"};
  return n[p];
}
struct SnapSite { V3 p; double Q[9]; int rank; };
template <class T>
static SnapSite snap(const T &s) {
  SnapSite x;
  x.p = s.getPos();
  for (int i = 0; i < 9; i++) x.Q[i] = s.Q()(i);
  x.rank = (int)s.getRank();
  return x;
}
// pair energies and static field terms recomputed from plain data (fresh objects), so that they do not depend on the objects under test
static void energy_and_fields(const std::vector<SnapSite> &A, const std::vector<SnapSite> &B, double &E, std::vector<V3> &VB) {
  eeInteractor ee;
  StaticSegment sa("A", 0);
  PolarSegment sb("B", 1);
  auto tod = [](const SnapSite &x) { SiteD d; for (int k = 0; k < 3; k++) d.p[k] = x.p(k); for (int i = 0; i < 9; i++) d.Q[i] = x.Q[i]; d.rank = x.rank; return d; };
  for (size_t i = 0; i < A.size(); i++) sa.push_back(mkstatic(tod(A[i]), (Index)i));
  for (size_t i = 0; i < B.size(); i++) sb.push_back(mkpolar(tod(B[i]), (Index)i, 2.0 * M3::Identity()));
  E = ee.CalcStaticEnergy(sa, sb);
  ee.ApplyStaticField<StaticSegment, Estatic::V>(sa, sb);
  VB.clear();
  for (const PolarSite &s : sb) VB.push_back(s.V());
}

template <class T>
static bsx::Outcome run_rot_t(const RotCase &c) {
  bsx::Outcome o;
  const bool seglevel = c.lvl >= 2;
  const bool alias = c.piv >= 3 && !(c.piv == 6 && !seglevel);
  std::string callno;
  auto failwith = [&](const std::string &what_key, const std::string &what) {
    o.ok = false;
    o.key = std::string("rot-") + (alias ? "aliaspivot-" : "valuepivot-") + what_key + (seglevel ? "-segment" : "-site");
    o.what = what + "  [" + (seglevel ? (c.lvl == 3 ? "PolarSegment" : "StaticSegment") : (c.lvl == 1 ? "PolarSite" : "StaticSite")) + "::Rotate, pivot passed as " + pivname(c.piv) +
             ", rotation #" + std::to_string(c.rot) + ", rank config " + std::to_string(c.rk) + ", " + (c.ord ? "B rotated first" : "A rotated first") + ", geometry " +
             std::to_string(c.geo) + callno + "]";
    return o;
  };
  try {
    static const std::vector<M3> rots = rotations();
    const M3 Rm = rots[(size_t)c.rot];
    const V3 G = c.geo ? V3(10, -20, 5) : V3(0, 0, 0);
    const V3 offA[3] = {V3(0.3, -0.2, 0.1), V3(1.1, 0.4, -0.6), V3(-0.5, 0.9, 0.7)}, offB[2] = {V3(3.0, 1.0, -2.0), V3(2.2, -1.5, -2.9)};
    const int rkA[4][3] = {{0, 0, 0}, {1, 1, 1}, {2, 2, 2}, {0, 1, 2}}, rkB[4][2] = {{0, 0}, {1, 1}, {2, 2}, {2, 1}};
    ClassicalSegment<T> A("A", 0), B("B", 1);
    auto mk = [&](const V3 &pos, int rank, int k, Index id) {
      SiteD d;
      for (int q = 0; q < 3; q++) d.p[q] = pos(q);
      mixvec_fixed(k, 0, d.Q);
      d.rank = rank;
      for (int i = 0; i < 9; i++) if (comp_rank(i) > rank) d.Q[i] = 0;
      if constexpr (std::is_same<T, PolarSite>::value) return mkpolar(d, id, 2.0 * M3::Identity());
      else return mkstatic(d, id);
    };
    for (int i = 0; i < 3; i++) A.push_back(mk(G + offA[i], rkA[c.rk][i], 3 + i, i));
    for (int i = 0; i < 2; i++) B.push_back(mk(G + offB[i], rkB[c.rk][i], 11 + i, i));
    std::vector<SnapSite> A0, B0;
    for (const T &s : A) A0.push_back(snap(s));
    for (const T &s : B) B0.push_back(snap(s));
    double E0;
    std::vector<V3> V0;
    energy_and_fields(A0, B0, E0, V0);
    const V3 valuepivot = G + V3(0.1, 0.2, -0.3);
    const V3 centreA = A.getPos();

    // one Rotate call on object X (0 = A, 1 = B) [or on each of its sites], with the pivot passed in the shape under test
    auto pivot_now = [&]() -> V3 {
      switch (c.piv) {
        case 0: case 1: return valuepivot;
        case 2: return V3::Zero();
        case 3: return A[0].getPos();
        case 4: return A[1].getPos();
        case 5: return A[2].getPos();
        case 6: return seglevel ? V3(A.getPos()) : centreA;
        default: return B[0].getPos();
      }
    };
    auto rotate_obj = [&](ClassicalSegment<T> &X, int site /* -1: whole segment */) {
      auto call = [&](const V3 &ref) { if (site < 0) X.Rotate(Rm, ref); else X[site].Rotate(Rm, ref); };
      switch (c.piv) {
        case 0: call(V3(valuepivot(0), valuepivot(1), valuepivot(2))); break;
        case 1: { V3 cp = valuepivot; call(cp); break; }
        case 2: call(V3::Zero()); break;
        case 3: call(A[0].getPos()); break;
        case 4: call(A[1].getPos()); break;
        case 5: call(A[2].getPos()); break;
        case 6: if (seglevel) call(A.getPos()); else { V3 cp = centreA; call(cp); } break;
        default: call(B[0].getPos()); break;
      }
    };
    int ncall = 0;
    for (int which = 0; which < 2; which++) {
      ClassicalSegment<T> &X = (which ^ c.ord) == 0 ? A : B;
      const char *xn = (&X == &A) ? "A" : "B";
      int nsub = seglevel ? 1 : (int)X.size();
      for (int sub = 0; sub < nsub; sub++) {
        ncall++;
        callno = std::string(", call #") + std::to_string(ncall) + " on " + xn + (seglevel ? "" : "[" + std::to_string(sub) + "]");
        const V3 pv = pivot_now();  // pivot VALUE before the call
        std::vector<SnapSite> before;
        for (const T &s : X) before.push_back(snap(s));
        const V3 centre_before = X.getPos();
        rotate_obj(X, seglevel ? -1 : sub);
        for (int i = 0; i < (int)X.size(); i++) {
          const bool touched = seglevel || i == sub;
          const SnapSite &b = before[(size_t)i];
          SnapSite n = snap(X[i]);
          V3 want = touched ? V3(Rm * (b.p - pv) + pv) : b.p;
          double psc = 1 + b.p.norm() + pv.norm();
          if (!((n.p - want).norm() <= 64 * DBL_EPSILON * psc)) {
            char t[300];
            snprintf(t, sizeof t, "site %s[%d] at (%.6g,%.6g,%.6g) lands on (%.6g,%.6g,%.6g), R*(p-pivot)+pivot = (%.6g,%.6g,%.6g) with pivot value (%.6g,%.6g,%.6g) before the call",
                     xn, i, b.p(0), b.p(1), b.p(2), n.p(0), n.p(1), n.p(2), want(0), want(1), want(2), pv(0), pv(1), pv(2));
            return failwith("position", t);
          }
          // moments
          double wantQ[9];
          for (int k = 0; k < 9; k++) wantQ[k] = b.Q[k];
          if (touched && b.rank > 0) { V3 mu = Rm * V3(b.Q[1], b.Q[2], b.Q[3]); wantQ[1] = mu(0); wantQ[2] = mu(1); wantQ[3] = mu(2); }
          if (touched && b.rank > 1) { M3 th; stone_theta(b.Q, th); M3 r = Rm * th * Rm.transpose(); stone_sph(r, wantQ); }
          double qn = 0;
          for (int k = 0; k < 9; k++) qn += b.Q[k] * b.Q[k];
          qn = std::sqrt(qn) + 1e-300;
          if (n.rank != b.rank) return failwith("rank", std::string("rank of ") + xn + "[" + std::to_string(i) + "] changed");
          if (n.Q[0] != b.Q[0]) return failwith("charge", std::string("charge of ") + xn + "[" + std::to_string(i) + "] changed");
          for (int k = 1; k < 9; k++)
            if (!(std::fabs(n.Q[k] - wantQ[k]) <= 64 * DBL_EPSILON * qn))
              return failwith(k < 4 ? "dipole" : "quadrupole", std::string("moment component ") + std::to_string(k) + " of " + xn + "[" + std::to_string(i) + "] = " + bsx::fmt(n.Q[k]) +
                                                                     ", rotated moment = " + bsx::fmt(wantQ[k]));
        }
        if (seglevel) {
          V3 wantc = Rm * (centre_before - pv) + pv;
          if (!((X.getPos() - wantc).norm() <= 64 * DBL_EPSILON * (1 + centre_before.norm() + pv.norm())))
            return failwith("segment-centre", std::string("segment ") + xn + " position after Rotate = (" + bsx::fmt(X.getPos()(0)) + "," + bsx::fmt(X.getPos()(1)) + "," + bsx::fmt(X.getPos()(2)) + ")");
        }
      }
    }
    callno = ", after the common rotation";
    // common rotation done: all pair energies unchanged, static field terms on B rotated with the frame
    std::vector<SnapSite> A1, B1;
    for (const T &s : A) A1.push_back(snap(s));
    for (const T &s : B) B1.push_back(snap(s));
    double E1;
    std::vector<V3> V1;
    energy_and_fields(A1, B1, E1, V1);
    double esc = 0, vsc = 0;
    for (auto &x : A0) for (auto &y : B0) { SiteD dx, dy; for (int k = 0; k < 9; k++) { dx.Q[k] = x.Q[k]; dy.Q[k] = y.Q[k]; } esc += escale(dx, dy, (x.p - y.p).norm()); }
    for (auto &v : V0) vsc = std::max(vsc, v.norm());
    vsc += esc;
    if (!(std::fabs(E1 - E0) <= 1e-11 * esc))
      return failwith("energy", "sum of pair energies A x B = " + bsx::fmt(E0) + " before and " + bsx::fmt(E1) + " after the common rotation");
    for (size_t i = 0; i < V0.size(); i++)
      if (!((V1[i] - Rm * V0[i]).norm() <= 1e-11 * vsc))
        return failwith("field", "static field term on B[" + std::to_string(i) + "] is not the rotated one: |V' - R V| = " + bsx::fmt((V1[i] - Rm * V0[i]).norm()));
    char b[96];
    snprintf(b, sizeof b, "rot|%d|%d|%d|%.6e", c.lvl, c.rk, c.geo, E0);
    o.cls = bsx::fnv(std::string(b) + "|" + std::to_string(c.rot) + "|" + std::to_string(c.piv));
    o.extra = "E=" + bsx::fmt(E0) + " unchanged, " + std::to_string(ncall) + " Rotate calls";
  } catch (const std::exception &e) {
    return failwith("throws", std::string("exception: ") + e.what());
  }
  return o;
}
static bsx::Outcome run_rot(const RotCase &c) { return (c.lvl == 1 || c.lvl == 3) ? run_rot_t<PolarSite>(c) : run_rot_t<StaticSite>(c); }

// ------------------------------------------------------------------ provenance of the polarisability
// A PolarSite caches, next to the inverse polarisability, the damping length used by the Thole tensor.  The two are
// set together by setpolarization(); every way a site can come by its polarisability must leave them consistent:
// 0 constructor default (setpolarization never called), 1 explicitly set to that same value, 2 explicitly set
// anisotropic, 3 read from .mps text without P line, 4 .mps with isotropic 'P x' line, 5 .mps with 6-component P line,
// 6 written by WriteMPS and read back, 7 checkpoint (HDF5) round trip.
struct ProvCase { int k1 = 0, k2 = 0, el = 0, dir = 0; double R = 1, damp = 0.39; };
static const char *provname(int k) {
  static const char *n[8] = {"constructor default (never set)", "explicitly set to the default value", "explicitly set anisotropic", ".mps without P line",
                             ".mps with isotropic P line", ".mps with 6-component P line", "WriteMPS + LoadFromFile", "checkpoint round trip"};
  return n[k];
}
static std::string provstr(const ProvCase &c) {
  return "prov;k1=" + std::to_string(c.k1) + ";k2=" + std::to_string(c.k2) + ";el=" + std::to_string(c.el) + ";dir=" + std::to_string(c.dir) + ";R=" + hexd(c.R) + ";damp=" + hexd(c.damp);
}
static const M3 &aniso_pol() {  // bohr^3, symmetric positive definite, not axis aligned
  static const M3 m = [] { double a[3] = {4.0, 9.0, 20.0}; return poltensor(a, true); }();
  return m;
}
static std::string mps_text(const std::string &el, const V3 &pos, const double *Q, int pline /*0 none,1 iso,2 six*/) {
  char b[1200];
  int n = snprintf(b, sizeof b, "! C15 harness\nUnits bohr\n%s %.17g %.17g %.17g Rank 2\n  %.17g\n  %.17g %.17g %.17g\n  %.17g %.17g %.17g %.17g %.17g\n", el.c_str(), pos(0), pos(1),
                   pos(2), Q[0], Q[3], Q[1], Q[2], Q[4], Q[5], Q[6], Q[7], Q[8]);  // dipoles are stored z x y
  std::string s(b, (size_t)n);
  const double a3 = std::pow(tools::conv::bohr2ang, 3);
  if (pline == 1) { snprintf(b, sizeof b, "  P %.17g\n", 1.25); s += b; }
  if (pline == 2) { const M3 &m = aniso_pol(); snprintf(b, sizeof b, "  P %.17g %.17g %.17g %.17g %.17g %.17g\n", m(0, 0) * a3, m(0, 1) * a3, m(0, 2) * a3, m(1, 1) * a3, m(1, 2) * a3, m(2, 2) * a3); s += b; }
  return s;
}
static PolarSite prov_site(int kind, const std::string &el, const V3 &pos, const double *Q, Index id, const std::string &tag) {
  Vector9d q;
  for (int i = 0; i < 9; i++) q(i) = Q[i];
  auto fresh = [&]() { PolarSite s(id, el, pos); s.setMultipole(q, 2); return s; };
  auto write_text = [&](const std::string &fn, const std::string &txt) {
    FILE *f = fopen(fn.c_str(), "w");
    if (!f) throw std::runtime_error("cannot write " + fn);
    fputs(txt.c_str(), f);
    fclose(f);
  };
  auto load = [&](const std::string &fn) { PolarSegment seg("x", 0); seg.LoadFromFile(fn); if (seg.size() != 1) throw std::runtime_error("mps file gave " + std::to_string(seg.size()) + " sites"); return PolarSite(seg[0]); };
  switch (kind) {
    case 0: return fresh();
    case 1: { PolarSite s = fresh(); PolarSite d(id, el, pos); s.setpolarization(d.getpolarization()); return s; }
    case 2: { PolarSite s = fresh(); s.setpolarization(aniso_pol()); return s; }
    case 3: case 4: case 5: { std::string fn = "prov_" + tag + ".mps"; write_text(fn, mps_text(el, pos, Q, kind - 3)); return load(fn); }
    case 6: { PolarSegment seg("w", 0); PolarSite s = fresh(); if (id % 2) s.setpolarization(aniso_pol()); seg.push_back(s); std::string fn = "prov_" + tag + "_w.mps"; seg.WriteMPS(fn, "C15"); return load(fn); }
    default: {
      std::string fn = "prov_" + tag + ".hdf5";
      {
        PolarSegment seg("c", 0);
        PolarSite s = fresh();  // constructor default goes into the file
        if (id % 2) s.setpolarization(aniso_pol());
        seg.push_back(s);
        CheckpointFile f(fn, CheckpointAccessLevel::CREATE);
        CheckpointWriter w = f.getWriter("/seg");
        seg.WriteToCpt(w);
      }
      CheckpointFile f(fn, CheckpointAccessLevel::READ);
      CheckpointReader r = f.getReader("/seg");
      PolarSegment seg(r);
      if (seg.size() != 1) throw std::runtime_error("checkpoint gave " + std::to_string(seg.size()) + " sites");
      return PolarSite(seg[0]);
    }
  }
}
static bsx::Outcome run_prov(const ProvCase &c) {
  bsx::Outcome o;
  static const char *els[3] = {"C", "H", "N"};
  auto failwith = [&](const std::string &key, const std::string &what) {
    o.ok = false; o.key = key;
    o.what = what + "  [site 1: " + els[c.el] + ", polarisability from " + provname(c.k1) + "; site 2: " + els[(c.el + 1) % 3] + ", from " + provname(c.k2) + "; R=" + bsx::fmt(c.R) +
             " direction #" + std::to_string(c.dir) + ", damping a=" + bsx::fmt(c.damp) + "]";
    return o;
  };
  try {
    const V3 dirs[3] = {V3(0.48, -0.6, 0.64), V3(1, 0, 0), V3(-0.31, -0.62, 0.17).normalized()};
    const V3 p1(0.3, -0.2, 0.1), p2 = p1 + c.R * dirs[c.dir];
    double Q1[9], Q2[9];
    mixvec_fixed(5, 0, Q1);
    mixvec_fixed(9, 1, Q2);
    const std::string e1 = els[c.el], e2 = els[(c.el + 1) % 3];
    PolarSite s1 = prov_site(c.k1, e1, p1, Q1, 0, "1"), s2 = prov_site(c.k2, e2, p2, Q2, 1, "2");
    const PolarSite *S[2] = {&s1, &s2};
    const int K[2] = {c.k1, c.k2};
    const std::string E[2] = {e1, e2};
    // (1) the polarisability the site reports is the one its provenance promises
    const double b3 = std::pow(tools::conv::ang2bohr, 3);
    for (int i = 0; i < 2; i++) {
      M3 pol = S[i]->getpolarization();
      M3 want;
      double tol = 1e-12;
      PolarSite def((Index)i, E[i], S[i]->getPos());
      switch (K[i]) {
        case 0: case 1: case 3: want = def.getpolarization(); break;
        case 2: case 5: want = aniso_pol(); break;
        case 4: want = 1.25 * b3 * M3::Identity(); break;
        default: want = (i % 2) ? aniso_pol() : M3(def.getpolarization()); tol = K[i] == 6 ? 2e-7 * b3 / want.norm() + 1e-12 : 1e-12; break;  // WriteMPS prints 7 decimals in A^3
      }
      if (!((pol - want).norm() <= tol * want.norm()) || !(want.norm() > 0))
        return failwith(std::string("prov-polarisability-") + std::to_string(K[i]), "site " + std::to_string(i + 1) + " reports polarisability with |P - expected| = " + bsx::fmt((pol - want).norm()) + ", |expected| = " + bsx::fmt(want.norm()));
    }
    // (2) differential: a twin built by the public constructor and given the SAME polarisability explicitly
    PolarSite t1(0, e1, s1.getPos()), t2(1, e2, s2.getPos());
    t1.setMultipole(s1.Q(), s1.getRank()); t2.setMultipole(s2.Q(), s2.getRank());
    t1.setpolarization(s1.getpolarization()); t2.setpolarization(s2.getpolarization());
    const std::string pk = "-" + std::to_string(c.k1) + "-" + std::to_string(c.k2);
    const double R = (s2.getPos() - s1.getPos()).norm(), u = 1 / (R * R * R);
    eeInteractor ee(c.damp);
    M3 T = ee.FillTholeInteraction(s1, s2), Tt = ee.FillTholeInteraction(t1, t2);
    // (3) absolute oracles
    if ((T - T.transpose()).cwiseAbs().maxCoeff() > 8 * DBL_EPSILON * u) return failwith("prov-thole-asymmetric" + pk, "T - T^T up to " + bsx::fmt((T - T.transpose()).cwiseAbs().maxCoeff()));
    M3 T0;
    for (int al = 0; al < 3; al++)
      for (int be = 0; be < 3; be++) {
        SiteD da, db;
        for (int k = 0; k < 3; k++) { da.p[k] = s1.getPos()(k); db.p[k] = s2.getPos()(k); }
        da.rank = db.rank = 1;
        da.Q[1 + al] = 1; db.Q[1 + be] = 1;
        T0(al, be) = ee.CalcStaticEnergy_site(mkstatic(da, 0), mkstatic(db, 1));
      }
    Eigen::SelfAdjointEigenSolver<M3> es1(s1.getpolarization()), es2(s2.getpolarization());
    const double a1max = es1.eigenvalues().maxCoeff(), a1min = es1.eigenvalues().minCoeff(), a2max = es2.eigenvalues().maxCoeff(), a2min = es2.eigenvalues().minCoeff();
    if (!(a1min > 0) || !(a2min > 0)) return failwith("prov-polarisability-not-positive" + pk, "a principal polarisability is " + bsx::fmt(std::min(a1min, a2min)));
    const double au3_lo = c.damp * R * R * R / std::sqrt(a1max * a2max), au3_hi = c.damp * R * R * R / std::sqrt(a1min * a2min);
    const double dev = (T - T0).norm() * R * R * R;
    if (au3_lo >= 100) {
      if (std::fabs(T.trace()) > 16 * DBL_EPSILON * u) return failwith("prov-thole-trace-large-separation" + pk, "trace = " + bsx::fmt(T.trace()) + " (1/R^3 = " + bsx::fmt(u) + ")");
      if (dev > 1e-13) return failwith("prov-thole-large-separation" + pk, "|T - T_undamped| R^3 = " + bsx::fmt(dev) + " at a u^3 >= " + bsx::fmt(au3_lo));
    }
    if (au3_hi <= 10 && !(T.norm() < T0.norm() * (1 - 1e-9)))
      return failwith("prov-thole-not-damped-at-short-range" + pk, "|T| = " + bsx::fmt(T.norm()) + " is not smaller than the undamped |T0| = " + bsx::fmt(T0.norm()));
    if (!(T.norm() > 0)) return failwith("prov-thole-vanishes" + pk, "the damped tensor is identically zero");
    if (!((T - Tt).norm() <= 1e-11 * u)) return failwith("prov-thole-differs-from-explicit" + pk, "|T - T(explicitly set twins)| R^3 = " + bsx::fmt((T - Tt).norm() * R * R * R));
    // induced dipoles: fields, energies, operator
    const V3 mu1(0.2, -0.4, 0.7), mu2(0.3, -0.1, 0.2);
    auto induced = [&](const PolarSite &x1, const PolarSite &x2, V3 &Vn, V3 &Vv, double &eii, double &eis, Eigen::MatrixXd &D, Eigen::VectorXd &Mv) {
      PolarSegment a("A", 0), b("B", 1);
      a.push_back(x1); b.push_back(x2);
      a[0].setInduced_Dipole(mu1); b[0].setInduced_Dipole(mu2);
      a[0].Reset(); b[0].Reset();
      ee.ApplyInducedField<Estatic::noE_V>(a, b);
      Vn = b[0].V_noE();
      b[0].Reset();
      ee.ApplyInducedField<Estatic::V>(a, b);
      Vv = b[0].V();
      eeInteractor::E_terms t = ee.CalcPolarEnergy(a, b);
      eii = t.E_indu_indu(); eis = t.E_indu_stat();
      std::vector<PolarSegment> segs{a, b};
      DipoleDipoleInteraction op(ee, segs);
      D.resize(6, 6);
      for (Index i = 0; i < 6; i++) for (Index j = 0; j < 6; j++) D(i, j) = op(i, j);
      Eigen::VectorXd v(6);
      v << 1, -2, 0.5, 0.25, 3, -1;
      Mv = op.multiply(v);
    };
    V3 Vn, Vv, Vnt, Vvt;
    double eii, eis, eiit, eist;
    Eigen::MatrixXd D, Dt;
    Eigen::VectorXd Mv, Mvt;
    induced(s1, s2, Vn, Vv, eii, eis, D, Mv);
    induced(t1, t2, Vnt, Vvt, eiit, eist, Dt, Mvt);
    if (!((Vn - Vnt).norm() <= 1e-11 * u) || !((Vv - Vvt).norm() <= 1e-11 * u))
      return failwith("prov-induced-field-differs-from-explicit" + pk, "field term from the induced dipole differs by " + bsx::fmt((Vn - Vnt).norm()) + " from that between explicitly set twins");
    if (!(std::fabs(eii - eiit) <= 1e-11 * u)) return failwith("prov-E-indu-indu-differs-from-explicit" + pk, "E_indu_indu = " + bsx::fmt(eii) + ", explicitly set twins " + bsx::fmt(eiit));
    if (!(std::fabs(eis - eist) <= 1e-11 * (std::fabs(eist) + 1e-300))) return failwith("prov-E-indu-stat-differs-from-explicit" + pk, "E_indu_stat = " + bsx::fmt(eis) + ", explicitly set twins " + bsx::fmt(eist));
    if (!((D - Dt).cwiseAbs().maxCoeff() <= 1e-11 * Dt.cwiseAbs().maxCoeff()) || !((Mv - Mvt).norm() <= 1e-11 * (Mvt.norm() + 1e-300)))
      return failwith("prov-ddi-differs-from-explicit" + pk, "DipoleDipoleInteraction operator differs from the one on explicitly set twins by " + bsx::fmt((D - Dt).cwiseAbs().maxCoeff()));
    // induced field = finite-difference derivative of E_indu_indu w.r.t. the target's induced dipole
    {
      PolarSegment a("A", 0), b("B", 1);
      a.push_back(s1); b.push_back(s2);
      a[0].setInduced_Dipole(mu1);
      V3 dEi;
      for (int k = 0; k < 3; k++) {
        V3 d = V3::Zero();
        d(k) = 0.5;
        b[0].setInduced_Dipole(mu2 + d);
        double ep = ee.CalcPolarEnergy(a, b).E_indu_indu();
        b[0].setInduced_Dipole(mu2 - d);
        double em = ee.CalcPolarEnergy(a, b).E_indu_indu();
        dEi(k) = ep - em;
      }
      if (!((Vn - dEi).norm() <= 1e-12 * mu1.norm() * u)) return failwith("prov-induced-field-derivative" + pk, "induced field term differs from d E_indu_indu / d mu by " + bsx::fmt((Vn - dEi).norm()));
      // and it is the tensor applied to the inducing dipole, with the tensor decided above
      if (!((Vn - T.transpose() * mu1).norm() <= 1e-12 * mu1.norm() * u)) return failwith("prov-induced-field-not-T-mu" + pk, "induced field term is not T^T mu_1");
    }
    // (4) the cached quantities themselves (narrow diagnosis; the behavioural oracles above come first)
    for (int i = 0; i < 2; i++) {
      const PolarSite &a = i ? s2 : s1, &b = i ? t2 : t1;
      if (!(std::fabs(a.getSqrtInvEigenDamp() - b.getSqrtInvEigenDamp()) <= 1e-12 * b.getSqrtInvEigenDamp()))
        return failwith(std::string("prov-damping-length-") + std::to_string(K[i]), "site " + std::to_string(i + 1) + " has damping length factor " + bsx::fmt(a.getSqrtInvEigenDamp()) +
                                                                                     " but a site explicitly given the same polarisability has " + bsx::fmt(b.getSqrtInvEigenDamp()));
      if (!((a.getPInv() - b.getPInv()).norm() <= 1e-12 * b.getPInv().norm()))
        return failwith(std::string("prov-pinv-") + std::to_string(K[i]), "inverse polarisability differs from that of a site explicitly given the same polarisability");
    }
    char b[96];
    snprintf(b, sizeof b, "prov|%d|%d|%.5e", c.k1, c.k2, dev);
    o.cls = bsx::fnv(b);
    o.extra = "|T-T0|R^3=" + bsx::fmt(dev) + " damping length factors " + bsx::fmt(s1.getSqrtInvEigenDamp()) + " / " + bsx::fmt(s2.getSqrtInvEigenDamp());
  } catch (const std::exception &e) {
    return failwith("prov-throws-" + std::to_string(c.k1) + "-" + std::to_string(c.k2), std::string("exception: ") + e.what());
  }
  return o;
}

// ------------------------------------------------------------------ induced-dipole state in the STATIC families
// PolarSite::getDipole() is virtual and returns static + induced dipole; Q() is the static part only.  Every STATIC
// quantity (CalcStaticEnergy_site both orders, CalcStaticEnergy on segments, ApplyStaticField energy and field term)
// must be independent of the induced dipoles either site happens to carry (after a polarisation solve, a restart, a
// setInduced_Dipole), while the induced quantities follow their own definitions.
struct IndCase { SiteD A, B; double ia[3] = {0, 0, 0}, ib[3] = {0, 0, 0}; int via = 0; };
static std::string indstr(const IndCase &c) {
  return "indst;" + sitestr(c.A, "a") + ";" + sitestr(c.B, "b") + ";ia=" + arr(c.ia, 3) + ";ib=" + arr(c.ib, 3) + ";via=" + std::to_string(c.via);
}
static PolarSite with_induced(const SiteD &d, Index id, const V3 &mu, int via) {
  PolarSite s = mkpolar(d, id, 2.0 * M3::Identity());
  s.setInduced_Dipole(mu);
  if (via == 0) return s;
  // the way a restart brings the induced dipole back: PolarSite::data -> PolarSite(data)
  PolarSite::data dd;
  s.WriteData(dd);
  dd.element = strdup(s.getElement().c_str());  // ReadData frees it
  return PolarSite(dd);
}
static bsx::Outcome run_indst(const IndCase &c) {
  bsx::Outcome o;
  const V3 muA(c.ia[0], c.ia[1], c.ia[2]), muB(c.ib[0], c.ib[1], c.ib[2]);
  const std::string pol = std::string(muA.norm() > 0 ? (muB.norm() > 0 ? "bothpol" : "Apol") : (muB.norm() > 0 ? "Bpol" : "unpol")) + "-r" + std::to_string(c.A.rank) + std::to_string(c.B.rank);
  auto failwith = [&](const std::string &what_key, const std::string &what) {
    o.ok = false; o.key = "indst-" + what_key + "-" + pol;
    o.what = what + "  [A: " + sitehuman(c.A) + " induced (" + bsx::fmt(muA(0)) + "," + bsx::fmt(muA(1)) + "," + bsx::fmt(muA(2)) + "); B: " + sitehuman(c.B) + " induced (" + bsx::fmt(muB(0)) + "," +
             bsx::fmt(muB(1)) + "," + bsx::fmt(muB(2)) + "); induced dipoles set through " + (c.via ? "PolarSite::data round trip" : "setInduced_Dipole") + "]";
    return o;
  };
  try {
    eeInteractor ee;
    const double R = (posof(c.B) - posof(c.A)).norm();
    const double sc = escale(c.A, c.B, R) + 1e-300;
    // references: the same pair without any induced dipole
    StaticSite sa = mkstatic(c.A, 0), sb = mkstatic(c.B, 1);
    const double Eref = ee.CalcStaticEnergy_site(sa, sb);
    PolarSite pa = with_induced(c.A, 0, muA, c.via), pb = with_induced(c.B, 1, muB, c.via);
    if ((pa.Induced_Dipole() - muA).norm() != 0 || (pb.Induced_Dipole() - muB).norm() != 0) return failwith("harness-induced-not-set", "induced dipole not stored as given");
    if ((pa.getDipole() - (pa.Q().segment<3>(1) + muA)).norm() > 1e-15 * (1 + muA.norm())) return failwith("getDipole", "getDipole() is not static + induced dipole");
    // (1) static pair energy, every argument combination, both orders
    struct Ev { const char *name; double e; };
    const Ev evs[] = {{"E(A,B)", ee.CalcStaticEnergy_site(pa, pb)}, {"E(B,A)", ee.CalcStaticEnergy_site(pb, pa)}, {"E(A,staticB)", ee.CalcStaticEnergy_site(pa, sb)},
                      {"E(staticB,A)", ee.CalcStaticEnergy_site(sb, pa)}, {"E(staticA,B)", ee.CalcStaticEnergy_site(sa, pb)}, {"E(B,staticA)", ee.CalcStaticEnergy_site(pb, sa)}};
    for (const Ev &e : evs)
      if (!(std::fabs(e.e - Eref) <= 1e-13 * sc))
        return failwith("static-energy", std::string(e.name) + " = " + bsx::fmt(e.e) + " with the induced dipoles present, " + bsx::fmt(Eref) + " for the same static moments without them");
    // (2) absolute: point-charge clusters realising the STATIC moments
    {
      long double val, err;
      cluster_limit(c.A, c.B, R, val, err);
      if (fabsl((long double)evs[0].e - val) > 10 * err + 1e-9L * sc)
        return failwith("cluster", "E = " + bsx::fmt(evs[0].e) + " but point-charge clusters realising the static moments converge to " + bsx::fmt((double)val));
    }
    // (3) segment level
    PolarSegment PA("A", 0), PB("B", 1);
    StaticSegment SA("A", 0), SB("B", 1);
    PA.push_back(pa); PB.push_back(pb); SA.push_back(sa); SB.push_back(sb);
    const Ev segs[] = {{"CalcStaticEnergy(polarA,polarB)", ee.CalcStaticEnergy(PA, PB)}, {"CalcStaticEnergy(polarB,polarA)", ee.CalcStaticEnergy(PB, PA)},
                       {"CalcStaticEnergy(staticA,polarB)", ee.CalcStaticEnergy(SA, PB)}, {"CalcStaticEnergy(polarA,staticB)", ee.CalcStaticEnergy(PA, SB)}};
    for (const Ev &e : segs)
      if (!(std::fabs(e.e - Eref) <= 1e-13 * sc))
        return failwith("static-energy-segment", std::string(e.name) + " = " + bsx::fmt(e.e) + " with the induced dipoles present, " + bsx::fmt(Eref) + " without");
    // (4) static field term on B from A (and on A from B): reference = induced dipoles cleared; absolute = dE/dmu by central differences
    V3 VrefB, VrefA;
    {
      PolarSegment ca("A", 0), cb("B", 1);
      ca.push_back(mkpolar(c.A, 0, 2.0 * M3::Identity())); cb.push_back(mkpolar(c.B, 1, 2.0 * M3::Identity()));
      ee.ApplyStaticField<PolarSegment, Estatic::V>(ca, cb);
      VrefB = cb[0].V();
      ee.ApplyStaticField<PolarSegment, Estatic::V>(cb, ca);
      VrefA = ca[0].V();
      V3 dE;
      for (int k = 0; k < 3; k++) {
        SiteD tp = c.B, tm = c.B;
        tp.rank = tm.rank = std::max(1, c.B.rank);
        tp.Q[1 + k] += 0.5; tm.Q[1 + k] -= 0.5;
        dE(k) = ee.CalcStaticEnergy_site(sa, mkstatic(tp, 1)) - ee.CalcStaticEnergy_site(sa, mkstatic(tm, 1));
      }
      SiteD unitd = c.B;
      for (int k = 1; k < 4; k++) unitd.Q[k] = 1.0;
      if (!((VrefB - dE).norm() <= 1e-12 * (escale(c.A, unitd, R) + 1e-300) + 8 * DBL_EPSILON))
        return failwith("harness-reference-field", "reference field term is not dE/dmu");
    }
    SiteD unitA = c.A, unitB = c.B;
    for (int k = 1; k < 4; k++) { unitA.Q[k] = 1.0; unitB.Q[k] = 1.0; }
    const double fscB = escale(c.A, unitB, R) + 1e-300, fscA = escale(unitA, c.B, R) + 1e-300;
    for (int variant = 0; variant < 4; variant++) {
      const bool noE = variant & 1, rev = variant & 2;  // rev: field of B on A
      PolarSegment src("S", 0), tgt("T", 1);
      src.push_back(rev ? pb : pa);
      tgt.push_back(rev ? pa : pb);
      tgt[0].Reset();
      double e = noE ? ee.ApplyStaticField<PolarSegment, Estatic::noE_V>(src, tgt) : ee.ApplyStaticField<PolarSegment, Estatic::V>(src, tgt);
      V3 got = noE ? tgt[0].V_noE() : tgt[0].V();
      const V3 &want = rev ? VrefA : VrefB;
      if (!((got - want).norm() <= 1e-12 * (rev ? fscA : fscB)))
        return failwith(std::string("static-field-") + (rev ? "on-A" : "on-B"), "ApplyStaticField accumulates (" + bsx::fmt(got(0)) + "," + bsx::fmt(got(1)) + "," + bsx::fmt(got(2)) +
                                                                                     ") with the induced dipoles present, (" + bsx::fmt(want(0)) + "," + bsx::fmt(want(1)) + "," + bsx::fmt(want(2)) + ") = dE/dmu without");
      if (!(std::fabs(e - Eref) <= 1e-12 * sc)) return failwith("static-field-energy", "ApplyStaticField returns " + bsx::fmt(e) + ", static pair energy " + bsx::fmt(Eref));
    }
    // (5) induced quantities follow their own definitions
    {
      M3 T = ee.FillTholeInteraction(pa, pb);
      const double u = 1 / (R * R * R);
      PolarSegment a2("A", 0), b2("B", 1);
      a2.push_back(pa); b2.push_back(pb);
      b2[0].Reset();
      ee.ApplyInducedField<Estatic::noE_V>(a2, b2);
      if (!((b2[0].V_noE() - T.transpose() * muA).norm() <= 1e-12 * (muA.norm() + 1e-300) * u))
        return failwith("induced-field", "ApplyInducedField term on B is not T^T mu_A");
      eeInteractor::E_terms t = ee.CalcPolarEnergy(PA, PB);
      double wii = muA.dot(T * muB);
      if (!(std::fabs(t.E_indu_indu() - wii) <= 1e-12 * (muA.norm() * muB.norm() + 1e-300) * u))
        return failwith("E-indu-indu", "E_indu_indu = " + bsx::fmt(t.E_indu_indu()) + " but mu_A^T T mu_B = " + bsx::fmt(wii));
      double wis = muA.dot(VrefA) + muB.dot(VrefB);  // induced dipole x static field term of the OTHER site's static moments
      if (!(std::fabs(t.E_indu_stat() - wis) <= 1e-12 * (muA.norm() * fscA + muB.norm() * fscB + 1e-300)))
        return failwith("E-indu-stat", "E_indu_stat = " + bsx::fmt(t.E_indu_stat()) + " but mu_A . V_static(B->A) + mu_B . V_static(A->B) = " + bsx::fmt(wis));
      double wis1 = muA.dot(VrefA);
      double eis1 = ee.CalcPolarEnergy(PA, SB).E_indu_stat();
      if (!(std::fabs(eis1 - wis1) <= 1e-12 * (muA.norm() * fscA + 1e-300)))
        return failwith("E-indu-stat-static-partner", "E_indu_stat(polar A, static B) = " + bsx::fmt(eis1) + " but mu_A . V_static(B->A) = " + bsx::fmt(wis1));
    }
    char b[96];
    snprintf(b, sizeof b, "indst|%s|%.5e", pol.c_str(), Eref);
    o.cls = std::fabs(Eref) < 1e-14 * sc ? bsx::fnv("indst|zero|" + pol) : bsx::fnv(b);
    o.extra = "E_static=" + bsx::fmt(Eref) + " independent of the induced dipoles";
  } catch (const std::exception &e) {
    return failwith("throws", std::string("exception: ") + e.what());
  }
  return o;
}

// ------------------------------------------------------------------ --case
static bsx::Outcome run_case(const std::string &cas) {
  auto m = bsx::kvs(cas);
  if (cas.rfind("pair;", 0) == 0) return run_pair(parsesite(m, "a"), parsesite(m, "b"));
  if (cas.rfind("indst;", 0) == 0) {
    IndCase c;
    c.A = parsesite(m, "a"); c.B = parsesite(m, "b");
    parr(m["ia"], c.ia, 3); parr(m["ib"], c.ib, 3);
    c.via = atoi(m["via"].c_str());
    return run_indst(c);
  }
  if (cas.rfind("prov;", 0) == 0) {
    ProvCase c;
    c.k1 = atoi(m["k1"].c_str()); c.k2 = atoi(m["k2"].c_str()); c.el = atoi(m["el"].c_str()); c.dir = atoi(m["dir"].c_str());
    c.R = unhex(m["R"]); c.damp = unhex(m["damp"]);
    return run_prov(c);
  }
  if (cas.rfind("rot;", 0) == 0) {
    RotCase c;
    c.lvl = atoi(m["lvl"].c_str()); c.piv = atoi(m["piv"].c_str()); c.rot = atoi(m["rot"].c_str()); c.rk = atoi(m["rk"].c_str());
    c.ord = atoi(m["ord"].c_str()); c.geo = atoi(m["geo"].c_str());
    return run_rot(c);
  }
  if (cas.rfind("field;", 0) == 0) {
    FieldCase c;
    c.src = parsesite(m, "a"); c.tgt = parsesite(m, "b");
    parr(m["ind"], c.ind, 3);
    c.alpha = unhex(m["alpha"]);
    return run_field(c);
  }
  if (cas.rfind("thole;", 0) == 0) {
    TholeCase c;
    parr(m["pa"], c.pa, 3); parr(m["pb"], c.pb, 3); parr(m["a1"], c.a1, 3); parr(m["a2"], c.a2, 3);
    c.damp = unhex(m["damp"]);
    return run_thole(c);
  }
  DdiCase c;
  c.scale = unhex(m["scale"]); parr(m["a"], c.a, 3); c.damp = unhex(m["damp"]);
  return run_ddi(c);
}
static std::string pairstr(const SiteD &A, const SiteD &B) { return "pair;" + sitestr(A, "a") + ";" + sitestr(B, "b"); }

int main(int argc, char **argv) {
  bsx::Args a = bsx::parse(argc, argv);
  if (a.has_case) {
    bsx::Outcome o;
    bsx::contained(0, 1, [&](long long) { return run_case(a.cas); }, [&](long long, const bsx::Outcome &r) { o = r; });
    if (o.ok) { printf("case holds  %s\n", o.extra.c_str()); return 0; }
    printf("case FAILS: key=%s %s\n", o.key.c_str(), o.what.c_str());
    return 3;
  }
  bsx::Report R;
  R.property = "C15"; R.part = "mpole"; R.tier = a.tier;
  R.max_samples = 16;
  const bool thorough = a.tier == "thorough";

  // directions: lattice directions + generic ones
  std::vector<V3> dirs;
  {
    int m = thorough ? 2 : 1;
    for (int i = -m; i <= m; i++) for (int j = -m; j <= m; j++) for (int k = -m; k <= m; k++) {
      if (!i && !j && !k) continue;
      auto g = [](int x, int y) { x = abs(x); y = abs(y); while (y) { int t = x % y; x = y; y = t; } return x; };
      if (g(g(i, j), k) != 1) continue;  // primitive directions only
      dirs.push_back(V3(i, j, k).normalized());
    }
    for (V3 v : {V3(0.48, -0.6, 0.64), V3(0.123, 0.456, 0.789), V3(-0.7, 0.1, 0.2), V3(0.05, -0.02, 0.99), V3(-0.31, -0.62, -0.17), V3(0.9, 0.43, -0.01)})
      dirs.push_back(v.normalized());
  }
  std::vector<double> Rs = thorough ? std::vector<double>{0.5, 0.7, 1, 2, 3, 5, 10, 30, 100} : std::vector<double>{0.5, 1, 3, 10, 100};
  const double PA[3] = {0.3, -0.2, 0.1};
  // fixed mixed moment vectors (arithmetic pattern, all nine components non-zero; no random numbers)
  const int NMIX = thorough ? 40 : 20;
  auto mixvec = [](int k, int which, double *Q) {
    for (int i = 0; i < 9; i++) {
      int t = (k * 37 + i * 11 + which * 5) % 17;
      Q[i] = (double(t) - 8.0) / 4.0 + (t == 8 ? 0.375 : 0.0);
    }
  };

  long long gi = 0;
  long long shown_pair = 0, shown_field = 0, shown_thole = 0;
  auto do_pair = [&](const SiteD &A, const SiteD &B) {
    if (!a.mine(gi++)) return;
    bsx::Outcome o = run_pair(A, B);
    R.eval(); R.counters["pair_cases"]++;
    if (!o.ok) { R.fail(o.key, o.what, pairstr(A, B)); return; }
    if (o.cls) R.cls(o.cls); else R.counters["pair_cases_zero_energy"]++;
    if (o.cls && shown_pair < 5 && gi % 1013 == 17) { R.sample("pair A: " + sitehuman(A) + "; B: " + sitehuman(B) + " -> " + o.extra); shown_pair++; }
  };
  for (size_t di = 0; di < dirs.size(); di++)
    for (double Rr : Rs) {
      SiteD A0, B0;
      for (int k = 0; k < 3; k++) { A0.p[k] = PA[k]; B0.p[k] = PA[k] + Rr * dirs[di](k); }
      // full basis: 9 x 9 unit components, with minimal and padded (2) declared ranks
      for (int i = 0; i < 9; i++)
        for (int j = 0; j < 9; j++) {
          std::set<std::pair<int, int>> rk{{comp_rank(i), comp_rank(j)}, {2, 2}, {comp_rank(i), 2}, {2, comp_rank(j)}};
          for (auto &rr : rk) {
            SiteD A = A0, B = B0;
            A.Q[i] = 1; B.Q[j] = 1;
            A.rank = rr.first; B.rank = rr.second;
            do_pair(A, B);
          }
        }
      // mixed vectors, truncated to every rank combination
      for (int k = 0; k < NMIX; k++) {
        if ((int)((di + (size_t)k) % 4) != 0 && !thorough) continue;  // quick: a quarter of them per direction
        for (int ra = 0; ra < 3; ra++)
          for (int rb = 0; rb < 3; rb++) {
            SiteD A = A0, B = B0;
            mixvec(k, 0, A.Q); mixvec(k, 1, B.Q);
            A.rank = ra; B.rank = rb;
            for (int i = 0; i < 9; i++) { if (comp_rank(i) > ra) A.Q[i] = 0; if (comp_rank(i) > rb) B.Q[i] = 0; }
            do_pair(A, B);
          }
      }
    }
  // field
  for (size_t di = 0; di < dirs.size(); di++)
    for (double Rr : Rs)
      for (int i = 0; i < 9; i++)
        for (int pad = 0; pad < 2; pad++)
          for (int rt = 0; rt < 3; rt++) {
            if (pad && comp_rank(i) == 2) continue;
            if (!a.mine(gi++)) continue;
            FieldCase c;
            for (int k = 0; k < 3; k++) { c.src.p[k] = PA[k]; c.tgt.p[k] = PA[k] + Rr * dirs[di](k); }
            c.src.Q[i] = 1; c.src.rank = pad ? 2 : comp_rank(i);
            mixvec(int(di) + i, 1, c.tgt.Q);
            c.tgt.rank = rt;
            for (int q = 0; q < 9; q++) if (comp_rank(q) > rt) c.tgt.Q[q] = 0;
            c.ind[0] = 0.2; c.ind[1] = -0.4; c.ind[2] = 0.7;
            c.alpha = (di % 2) ? 10.0 : 1.0;
            bsx::Outcome o = run_field(c);
            R.eval(); R.counters["field_cases"]++;
            if (!o.ok) { R.fail(o.key, o.what, fieldstr(c)); continue; }
            R.cls(o.cls);
            if (shown_field < 3 && gi % 733 == 5) { R.sample("field source: " + sitehuman(c.src) + "; target: " + sitehuman(c.tgt) + " -> " + o.extra); shown_field++; }
          }
  // Thole
  {
    std::vector<std::array<double, 3>> alphas = {{1, 1, 1}, {10, 10, 10}, {1, 2, 10}};
    if (thorough) { alphas.push_back({0.1, 0.1, 0.1}); alphas.push_back({50, 50, 50}); }
    std::vector<double> damps = thorough ? std::vector<double>{0.39, 0.1, 1.0, 1e6, 1e9} : std::vector<double>{0.39, 1e6};
    std::vector<double> TR = Rs;
    TR.push_back(300); TR.push_back(1000);
    for (size_t di = 0; di < dirs.size(); di++)
      for (double Rr : TR)
        for (auto &a1 : alphas) for (auto &a2 : alphas) for (double dmp : damps) {
          if (a2[0] != a2[1]) continue;  // site 2 isotropic
          if (!a.mine(gi++)) continue;
          TholeCase c;
          for (int k = 0; k < 3; k++) { c.pa[k] = PA[k]; c.pb[k] = PA[k] + Rr * dirs[di](k); c.a1[k] = a1[(size_t)k]; c.a2[k] = a2[(size_t)k]; }
          c.damp = dmp;
          bsx::Outcome o = run_thole(c);
          R.eval(); R.counters["thole_cases"]++;
          if (!o.ok) { R.fail(o.key, o.what, tholestr(c)); continue; }
          R.cls(o.cls);
          if (shown_thole < 3 && gi % 211 == 3) { R.sample(tholestr(c).substr(0, 6) + " R=" + bsx::fmt(Rr) + " alpha1=" + bsx::fmt(a1[0]) + " alpha2=" + bsx::fmt(a2[0]) + " damping=" + bsx::fmt(dmp) + " -> " + o.extra); shown_thole++; }
        }
  }
  // rotation pivots: every argument shape x level x rotation x rank configuration x call order x geometry
  {
    long long shown = 0;
    for (int lvl = 0; lvl < 4; lvl++) for (int piv = 0; piv < 8; piv++) for (int rot = 0; rot < 6; rot++) for (int rk = 0; rk < 4; rk++)
      for (int ord = 0; ord < 2; ord++) for (int geo = 0; geo < 2; geo++) {
        if (!a.mine(gi++)) continue;
        RotCase c;
        c.lvl = lvl; c.piv = piv; c.rot = rot; c.rk = rk; c.ord = ord; c.geo = geo;
        bsx::Outcome o = run_rot(c);
        R.eval(); R.counters["rot_cases"]++;
        if (!o.ok) { R.fail(o.key, o.what, rotstr(c)); continue; }
        R.cls(o.cls);
        if (shown < 2 && piv >= 3 && rot > 0 && gi % 97 == 13) { R.sample(rotstr(c) + " (pivot passed as " + pivname(piv) + ") -> " + o.extra); shown++; }
      }
  }
  // induced-dipole state x static families
  {
    long long shown = 0, n = 0;
    const double IND[4][3] = {{0, 0, 0}, {0.2, -0.4, 0.7}, {-3.0, 1.0, 0.5}, {0, 0, 1e-3}};
    std::vector<double> IR = thorough ? std::vector<double>{0.5, 1, 3, 10, 100} : std::vector<double>{1, 3, 10};
    size_t ndir = thorough ? dirs.size() : std::min<size_t>(dirs.size(), 32);
    for (size_t di = 0; di < ndir; di += (thorough ? 1 : 3))
      for (double Rr : IR) {
        std::vector<std::pair<SiteD, SiteD>> prs;
        SiteD A0, B0;
        for (int k = 0; k < 3; k++) { A0.p[k] = PA[k]; B0.p[k] = PA[k] + Rr * dirs[di](k); }
        for (int mv = 0; mv < (thorough ? 3 : 2); mv++)
          for (int ra = 0; ra < 3; ra++) for (int rb = 0; rb < 3; rb++) {
            SiteD A = A0, B = B0;
            mixvec(mv + 2, 0, A.Q); mixvec(mv + 2, 1, B.Q);
            A.rank = ra; B.rank = rb;
            for (int i = 0; i < 9; i++) { if (comp_rank(i) > ra) A.Q[i] = 0; if (comp_rank(i) > rb) B.Q[i] = 0; }
            prs.push_back({A, B});
          }
        if (di % 9 == 0 || thorough)  // the unit-component basis
          for (int i = 0; i < 9; i++) for (int j = 0; j < 9; j++) {
            SiteD A = A0, B = B0;
            A.Q[i] = 1; B.Q[j] = 1; A.rank = comp_rank(i); B.rank = comp_rank(j);
            prs.push_back({A, B});
          }
        for (auto &pr : prs)
          for (int ia = 0; ia < 4; ia++) for (int ib = 0; ib < 4; ib++) {
            n++;
            if (!a.mine(gi++)) continue;
            IndCase c;
            c.A = pr.first; c.B = pr.second;
            for (int k = 0; k < 3; k++) { c.ia[k] = IND[ia][k]; c.ib[k] = IND[ib][k]; }
            c.via = (int)(n % 2);
            bsx::Outcome o = run_indst(c);
            R.eval(); R.counters["indst_cases"]++;
            if (!o.ok) { R.fail(o.key, o.what, indstr(c)); continue; }
            if (o.cls) R.cls(o.cls);
            if (shown < 1 && ia == 2 && ib == 1 && c.A.rank == 2 && c.B.rank == 1) { R.sample("indst A: " + sitehuman(c.A) + " induced (-3,1,0.5); B: " + sitehuman(c.B) + " induced (0.2,-0.4,0.7) -> " + o.extra); shown++; }
          }
      }
  }
  // provenance of the polarisability x provenance x element pair x separation x direction x damping
  {
    long long shown = 0;
    std::vector<double> PR = thorough ? std::vector<double>{0.5, 1, 2, 3, 5, 10, 30, 100, 300, 1000} : std::vector<double>{1, 3, 10, 100, 1000};
    for (int k1 = 0; k1 < 8; k1++) for (int k2 = 0; k2 < 8; k2++) for (int el = 0; el < 3; el++) for (double Rr : PR)
      for (int dir = 0; dir < (thorough ? 3 : 1); dir++) for (double dmp : {0.39, 1e6}) {
        if (!a.mine(gi++)) continue;
        ProvCase c;
        c.k1 = k1; c.k2 = k2; c.el = el; c.dir = thorough ? dir : (k1 + k2 + el) % 3; c.R = Rr; c.damp = dmp;
        bsx::Outcome o = run_prov(c);
        R.eval(); R.counters["prov_cases"]++;
        if (!o.ok) { R.fail(o.key, o.what, provstr(c)); continue; }
        R.cls(o.cls);
        if (shown < 1 && k1 == 0 && k2 >= 3 && Rr == 10 && dmp < 1) { R.sample(provstr(c) + " (" + provname(k1) + " / " + provname(k2) + ") -> " + o.extra); shown++; }
      }
  }
  // DipoleDipoleInteraction
  for (double scl : {0.5, 1.0, 3.0, 10.0, 100.0})
    for (double al : {1.0, 10.0})
      for (double dmp : {0.39, 1e6}) {
        if (!a.mine(gi++)) continue;
        DdiCase c{scl, {al, 2 * al, 0.5 * al}, dmp};
        bsx::Outcome o = run_ddi(c);
        R.eval(); R.counters["ddi_cases"]++;
        if (!o.ok) { R.fail(o.key, o.what, ddistr(c)); continue; }
        R.cls(o.cls);
      }

  R.counters["shardsum_of_max_cluster_deviation_1e-15_of_scale"] = (long long)(g_max_dev * 1e15);
  R.counters["shardsum_of_max_richardson_estimate_1e-15_of_scale"] = (long long)(g_max_err * 1e15);
  R.rule = std::string("site B = site A + R*d for d in ") + (thorough ? "all primitive lattice directions of {-2..2}^3" : "the 26 lattice directions of {-1,0,1}^3") +
           " + 6 generic directions, R in " + (thorough ? "{0.5,0.7,1,2,3,5,10,30,100}" : "{0.5,1,3,10,100}") +
           " bohr. (pair) the full bilinear basis: all 9x9 pairs of unit spherical components (ranks 0/1/2 x 0/1/2) with minimal and padded declared "
           "ranks, plus " + std::to_string(NMIX) + " fixed mixed moment vectors truncated to all 3x3 rank combinations: E(A,B)=E(B,A), q1q2/R, segment-level = "
           "site-level, invariance under 3 common translations and 6 common rotations via StaticSite::Rotate, bilinearity, and agreement with the "
           "Coulomb energy of explicit point-charge clusters realising the same moments (5 cluster sizes R/4..R/64, Richardson extrapolation, "
           "tolerance 10 x extrapolation error estimate + 1e-9 x interaction scale). (field) 9 unit source components x padded rank x target rank "
           "0/1/2 x {Static,Polar}Segment source x {V,noE_V}: accumulated field term = dE/dmu (central differences of the pair energy), return value = "
           "pair energy, other accumulator untouched; ApplyInducedField = d E_indu_indu/d mu; E_indu_stat = mu_ind . static field term. (thole) "
           "polarisabilities x damping x R up to 1000: symmetric, T(1,2)=T(2,1), traceless and equal to the static dipole-dipole block when "
           "damping->inf or a u^3 >= 100 (u = R/(alpha1 alpha2)^(1/6)), weaker than undamped where a u^3 <= 10. (ddi) DipoleDipoleInteraction on 3 sites: symmetric, "
           "blocks = Thole tensor / inverse polarisability, multiply = dense product. (rot) Rotate(R, pivot) with EVERY pivot argument shape - temporary, named copy, "
           "Vector3d::Zero(), references to the position of the first / middle / last rotated site, to the rotated segment's own position and to a site of the "
           "other object - on StaticSite, PolarSite, StaticSegment, PolarSegment (3+2 sites away from the origin, 2 geometries) x 6 rotations x 4 rank "
           "configurations x both call orders: after every call each site sits at R*(p - pivot)+pivot with the pivot VALUE taken before the call, charge/rank "
           "unchanged, dipole = R mu, quadrupole = R Theta R^T (own Stone conversion), segment centre rotated; after the common rotation the sum of pair "
           "energies is unchanged and the static field terms are the rotated ones. (prov) provenance of the polarisability of each of two PolarSites, 8 x 8: constructor "
           "default (setpolarization never called), explicitly set to that value, explicitly set anisotropic, .mps text without P line, with isotropic P "
           "line, with 6-component P line, WriteMPS + LoadFromFile, checkpoint round trip; x 3 element pairs x separations up to 1000 bohr x damping "
           "{0.39, 1e6}: reported polarisability = what the provenance promises; differential against twins built by the constructor and given the SAME "
           "polarisability explicitly (damping length factor, inverse polarisability, Thole tensor, ApplyInducedField, E_indu_indu, E_indu_stat, "
           "DipoleDipoleInteraction entries and multiply, all to 1e-11); absolute: symmetric, -> undamped and traceless where a u^3 >= 100 (u from the "
           "reported principal polarisabilities), weaker than undamped where a u^3 <= 10, not identically zero, induced field = d E_indu_indu / d mu = "
           "T^T mu. (indst) induced-dipole state in the STATIC families: each PolarSite of a pair carries induced dipole 0 / (0.2,-0.4,0.7) / (-3,1,0.5) / (0,0,1e-3) "
           "(4 x 4, set by setInduced_Dipole or restored through PolarSite::data), mixed moment vectors truncated to all 3x3 rank combinations and the 9x9 unit "
           "basis, directions x R: CalcStaticEnergy_site in all 6 polar/static argument combinations and both orders, CalcStaticEnergy on segments, "
           "ApplyStaticField field term (both directions, V and noE_V) and energy return are equal to the same pair without induced dipoles and to the "
           "absolute references (point-charge clusters of the static moments, dE/dmu); ApplyInducedField = T^T mu_A, E_indu_indu = mu_A^T T mu_B, "
           "E_indu_stat = mu_A.V_static(B->A) + mu_B.V_static(A->B). distinct_nontrivial = distinct (rank block, sign, binary "
           "exponent) of non-zero energies + distinct field vectors + distinct Thole deviations";
  R.assumptions = {"quadrupole moments follow Stone's convention (Q20 = Theta_zz, Theta_ab = sum q (3/2 r_a r_b - 1/2 r^2 delta_ab)), the one the .mps format documents",
                   "the field term is compared with +dE/dmu as the statement says ('equals the derivative'); it is the potential gradient, i.e. minus the physical field",
                   "moment components above the declared rank of a site are zero (sites are built that way)",
                   "with Thole's scaled distance u = R/(alpha1 alpha2)^(1/6): 'undamped limit' = damping parameter a >= 1e5, 'large separation' = a u^3 >= 100, and 'damped' is read as: weaker (Frobenius norm) than the undamped tensor where a u^3 <= 10",
                   "OpenMP disabled (OMP_NUM_THREADS=1)"};
  if (!R.write(a.out)) { fprintf(stderr, "cannot write %s\n", a.out.c_str()); return 2; }
  return 0;
}
