#!/usr/bin/env python3
"""C12 (executable part) — csg_resample on its input grid returns the input values, keeps the
point flags, and its derivative output is the derivative of its value output.

Enumerates input tables (uniform / non-uniform / shifted / decimal grids, several ordinate
vectors, flag patterns over {i,o,u}^3) x spline type x boundary condition x output grid
(same, finer, coarser, offset) and fits (--fitgrid) and runs the REAL csg_resample executable
for every combination.  Oracles (none re-implements a spline):
  A  every output point that coincides with an input point carries the input value (to the 10
     printed digits) and the input flag                                    [interpolation only]
  B  --derivative file == derivative of the --out file: between two spline knots the value file
     lies on one polynomial of degree <= 3 (<= 1 for linear); it is recovered from 4 (2) output
     points by Lagrange interpolation, must pass through the remaining output points, and its
     derivative must equal the derivative file (at a knot: the polynomial of either side).
     Tolerance = propagated rounding of the 10 printed digits (sum |weight| * 5e-10 |y|) x 4.
  C  straight-line data come back as the same straight line (natural boundaries; interpolation
     and fit), hat-function data on the fit knots are reproduced by a linear fit
  D  the output grid starts at min and ends at max
"""
import os, subprocess, sys
sys.path.insert(0, os.path.join(os.environ.get("VERIF_ROOT", os.path.dirname(os.path.dirname(os.path.abspath(__file__)))), "lib"))
import pybsx

EXE = None
PREC = 5e-10  # half a unit of the 10th significant digit, relative


def fx(v):
    return float(v).hex()


def vec(s):
    return [float.fromhex(t) for t in s.split(",")] if s else []


def grid_pts(spec):
    """min:step:max -> the points csg_resample / GenerateGrid aim at (last one pinned to max)"""
    mn, st, mx = [float(t) for t in spec.split(":")]
    n = int((mx - mn) / st + 1.00000001)
    return mn, st, mx, n


def read_table(path):
    rows = []
    for line in open(path):
        line = line.split("#")[0].strip()
        if not line:
            continue
        t = line.split()
        rows.append((float(t[0]), float(t[1]), t[2] if len(t) > 2 else ""))
    return rows


def lagrange(nx, ny, x):
    """value and derivative at x of the polynomial through (nx,ny) and their rounding bounds
    for ordinate errors PREC*|ny|"""
    n = len(nx)
    val = der = ev = ed = 0.0
    for k in range(n):
        lk = 1.0
        for j in range(n):
            if j != k:
                lk *= (x - nx[j]) / (nx[k] - nx[j])
        dk = 0.0
        for m in range(n):
            if m == k:
                continue
            p = 1.0 / (nx[k] - nx[m])
            for j in range(n):
                if j != k and j != m:
                    p *= (x - nx[j]) / (nx[k] - nx[j])
            dk += p
        val += lk * ny[k]
        der += dk * ny[k]
        ev += abs(lk) * PREC * abs(ny[k])
        ed += abs(dk) * PREC * abs(ny[k])
    return val, der, ev, ed


def solve(A, b):
    """Gaussian elimination with partial pivoting (small dense systems)"""
    n = len(A)
    M = [list(A[i]) + [b[i]] for i in range(n)]
    for c in range(n):
        p = max(range(c, n), key=lambda r: abs(M[r][c]))
        if abs(M[p][c]) < 1e-300:
            raise ZeroDivisionError("singular reference system")
        M[c], M[p] = M[p], M[c]
        for r in range(c + 1, n):
            f = M[r][c] / M[c][c]
            if f:
                for k in range(c, n + 1):
                    M[r][k] -= f * M[c][k]
    x = [0.0] * n
    for r in range(n - 1, -1, -1):
        x[r] = (M[r][n] - sum(M[r][k] * x[k] for k in range(r + 1, n))) / M[r][r]
    return x


def interval(knots, x):
    """knot interval used for x; the two end intervals also serve everything outside the grid"""
    j = 0
    while j + 2 < len(knots) and x >= knots[j + 1]:
        j += 1
    return j


def cubic_row(knots, x):
    """coefficients of S(x) in the unknowns u = (f_0..f_{n-1}, f''_0..f''_{n-1}) (textbook form)"""
    n = len(knots)
    j = interval(knots, x)
    h = knots[j + 1] - knots[j]
    B = (x - knots[j]) / h
    A = 1 - B
    row = [0.0] * (2 * n)
    row[j], row[j + 1] = A, B
    row[n + j], row[n + j + 1] = (A ** 3 - A) * h * h / 6, (B ** 3 - B) * h * h / 6
    return row


def ref_fit(ty, bc, knots, xs, ys):
    """reference least-squares spline on the knots: returns a function S(x).
    linear: piecewise-linear in the knot values; cubic: C2 cubic spline with natural (f''=0 at both ends) or
    derivativezero (S'=0 at both ends) boundary conditions, solved as an equality-constrained least-squares problem (KKT system)."""
    n = len(knots)
    if ty == "linear":
        rows = []
        for x in xs:
            j = interval(knots, x)
            t = (x - knots[j]) / (knots[j + 1] - knots[j])
            r = [0.0] * n
            r[j], r[j + 1] = 1 - t, t
            rows.append(r)
        N = [[sum(r[a] * r[b] for r in rows) for b in range(n)] for a in range(n)]
        c = solve(N, [sum(rows[i][a] * ys[i] for i in range(len(xs))) for a in range(n)])

        def S(x):
            j = interval(knots, x)
            t = (x - knots[j]) / (knots[j + 1] - knots[j])
            return (1 - t) * c[j] + t * c[j + 1]
        return S
    rows = [cubic_row(knots, x) for x in xs]
    cons = []
    h = [knots[i + 1] - knots[i] for i in range(n - 1)]
    for i in range(1, n - 1):      # first derivative continuous at the inner knots
        r = [0.0] * (2 * n)
        r[n + i - 1], r[n + i], r[n + i + 1] = h[i - 1] / 6, (h[i - 1] + h[i]) / 3, h[i] / 6
        r[i - 1] -= 1 / h[i - 1]
        r[i] += 1 / h[i - 1] + 1 / h[i]
        r[i + 1] -= 1 / h[i]
        cons.append(r)
    r0, r1 = [0.0] * (2 * n), [0.0] * (2 * n)
    if bc == "derivativezero":
        r0[0], r0[1], r0[n], r0[n + 1] = -1 / h[0], 1 / h[0], -h[0] / 3, -h[0] / 6
        r1[n - 2], r1[n - 1], r1[2 * n - 2], r1[2 * n - 1] = -1 / h[-1], 1 / h[-1], h[-1] / 6, h[-1] / 3
    else:
        r0[n], r1[2 * n - 1] = 1.0, 1.0
    cons += [r0, r1]
    m2, nc = 2 * n, len(cons)
    K = [[0.0] * (m2 + nc) for _ in range(m2 + nc)]
    rhs = [0.0] * (m2 + nc)
    for a in range(m2):
        for b in range(m2):
            K[a][b] = sum(r[a] * r[b] for r in rows)
        rhs[a] = sum(rows[i][a] * ys[i] for i in range(len(xs)))
        for q in range(nc):
            K[a][m2 + q] = cons[q][a]
            K[m2 + q][a] = cons[q][a]
    u = solve(K, rhs)[:m2]

    def S(x):
        return sum(c * v for c, v in zip(cubic_row(knots, x), u))
    return S


def write_input(x, y, fl, fmt):
    with open("in.tab", "w") as f:
        for i in range(len(x)):
            if fmt == "2":
                f.write("%s %s\n" % (repr(x[i]), repr(y[i])))
            elif fmt == "4":
                f.write("%s %s %s %s\n" % (repr(x[i]), repr(y[i]), repr(0.01 * (i + 1)), fl[i]))
            else:
                f.write("%s %s %s\n" % (repr(x[i]), repr(y[i]), fl[i]))


def run_exe(m, x, y):
    """one csg_resample run for the options in m; returns (rc, text, out rows or None, der rows or None, raw out text)"""
    write_input(x, y, m["fl"], m.get("fmt", "3"))
    for p in ("out.tab", "der.tab"):
        if os.path.exists(p):
            os.remove(p)
    cmd = [EXE, "--in", "in.tab", "--out", "out.tab", "--grid", m["grid"], "--type", m["ty"]]
    if m.get("deriv", "1") == "1":
        cmd += ["--derivative", "der.tab"]
    if m["bc"] != "natural" or m.get("bo") == "1":
        cmd += ["--boundaries", m["bc"]]
    if m.get("fit", "none") != "none":
        cmd += ["--fitgrid", m["fit"]]
    if m.get("nocut") == "1":
        cmd += ["--nocut"]
    if m.get("cm") == "1":
        cmd += ["--comment", "verif C12 comment"]
    r = subprocess.run(cmd, stdout=subprocess.PIPE, stderr=subprocess.STDOUT, timeout=120)
    text = r.stdout.decode(errors="replace")
    out = read_table("out.tab") if r.returncode == 0 and os.path.exists("out.tab") else None
    der = read_table("der.tab") if r.returncode == 0 and os.path.exists("der.tab") else None
    raw = open("out.tab").read() if out is not None else ""
    return r.returncode, text, out, der, raw


def selected_rows(m, x):
    """indices of the input rows that take part in a fit: all with --nocut, else those inside [fitgrid min, fitgrid max]"""
    fmin, fstep, fmax, fnn = grid_pts(m["fit"])
    if m.get("nocut") == "1":
        return list(range(len(x)))
    return [i for i in range(len(x)) if fmin <= x[i] <= fmax]


def run_sens(m):
    """which input rows does the output depend on?  base run + one run per row with y_i + 1"""
    ty, bc = m["ty"], m["bc"]
    x, y = vec(m["x"]), vec(m["y"])
    fit = m.get("fit", "none")
    K = "resample-%s-%s-%s-" % (ty, bc, ("fit-nocut" if m.get("nocut") == "1" else "fit") if fit != "none" else "interp")
    fails, checks = [], 0
    rc, text, base, _, _ = run_exe(m, x, y)
    if base is None:
        return [(K + "error", "csg_resample rc=%s: %s" % (rc, text[-300:].replace("\n", " | ")))], [], 0, ""
    part = set(selected_rows(m, x)) if fit != "none" else set(range(len(x)))
    pattern = ""
    for i in range(len(x)):
        y2 = list(y)
        y2[i] += 1.0
        rc, text, o2, _, _ = run_exe(m, x, y2)
        checks += 1
        if o2 is None or len(o2) != len(base):
            fails.append((K + "error", "csg_resample failed after changing row %d: rc=%s" % (i, rc)))
            break
        d = max(abs(a[1] - b[1]) for a, b in zip(base, o2))
        pattern += "x" if d > 0 else "."
        where = "first" if i == 0 else ("last" if i == len(x) - 1 else "inner")
        if i in part and not d > 1e-6:
            key = K + "%s-row-has-no-effect" % where
            if key not in [f[0] for f in fails]:
                fails.append((key, "row %d (x=%r) takes part in the %s but adding 1 to its y changes the output by only %g" % (i, x[i], "fit" if fit != "none" else "interpolation", d)))
        if i not in part and d > 1e-12:
            key = K + "excluded-%s-row-has-effect" % where
            if key not in [f[0] for f in fails]:
                fails.append((key, "row %d (x=%r) lies outside the fit grid %s and --nocut is not given, but adding 1 to its y changes the output by %g" % (i, x[i], fit, d)))
    return fails, [("sens", ty, bc, fit, m.get("nocut"), pattern)], checks, "rows the output depends on: " + pattern


def run_case(cas):
    """returns (fails [(key, what)], classes, nchecks, sample)"""
    m = dict(p.split("=", 1) for p in cas.split(";"))
    if m.get("k") == "sens":
        return run_sens(m)
    ty, bc = m["ty"], m["bc"]
    x, y, fl = vec(m["x"]), vec(m["y"]), m["fl"]
    fit = m.get("fit", "none")
    K = "resample-%s-%s-%s-" % (ty, bc, "fit" if fit != "none" else "interp")
    if len(x) >= 40 and fit == "none" and ty == "cubic" and bc == "periodic":
        K = "large-grid-" + K   # input class: interpolation of a table with 40 or more points
    fails, classes, checks = [], [], 0

    def fail(key, what):
        if key not in [f[0] for f in fails]:
            fails.append((key, what))

    want_der = m.get("deriv", "1") == "1"
    rc, text, out, der, raw = run_exe(m, x, y)
    # combinations the code documents as not implemented: Akima fits; derivative-zero boundaries for cubic / Akima interpolation
    notimpl = (ty == "akima" and fit != "none") or (bc == "derivativezero" and fit == "none" and ty in ("cubic", "akima"))
    if notimpl and rc != 0 and "not implemented" in text:
        return fails, [("not-implemented", ty, bc, fit != "none")], 1, "refused: not implemented"
    if rc != 0 or out is None or (want_der and der is None):
        fail(K + "error", "csg_resample rc=%s: %s" % (rc, text[-300:].replace("\n", " | ")))
        return fails, classes, checks, ""
    if der is None:
        der = [(r[0], 0.0, r[2]) for r in out]   # no derivative file requested: the derivative oracle is skipped below
    if m.get("fmt") == "2":
        fl = "i" * len(x)                        # a table without flag column reads as all 'i'
    has_comment = any(l.startswith("#") and "verif C12 comment" in l for l in raw.splitlines())
    checks += 1
    if (m.get("cm") == "1") != has_comment:
        fail(K + "comment", "--comment %s but the output %s the comment line" % ("given" if m.get("cm") == "1" else "not given", "has" if has_comment else "lacks"))
    gmin, gstep, gmax, gn = grid_pts(m["grid"])
    ymax = 1 + max(abs(v) for v in y)
    # D: output grid
    checks += 1
    if len(out) != gn or len(der) != gn or abs(out[0][0] - gmin) > 1e-9 * (1 + abs(gmin)) or abs(out[-1][0] - gmax) > 1e-9 * (1 + abs(gmax)) \
            or any(out[i + 1][0] <= out[i][0] for i in range(len(out) - 1)) or any(abs(out[i][0] - der[i][0]) > 1e-9 for i in range(min(len(out), len(der)))):
        fail(K + "output-grid", "grid %s -> %d rows from %r to %r (derivative file %d rows)" % (m["grid"], len(out), out[0][0], out[-1][0], len(der)))
        return fails, classes, checks, ""
    if any(v != v or abs(v) == float("inf") for (_, v, _) in out + der):
        fail(K + "nonfinite", "nan/inf in the output")
        return fails, classes, checks, ""
    # A: input points met by the output grid
    if fit == "none":
        for (xo, yo, fo) in out:
            for k in range(len(x)):
                if abs(xo - x[k]) < 1e-9:
                    checks += 2
                    if abs(yo - y[k]) > 4 * PREC * ymax:
                        fail(K + "input-value-not-returned", "output at x=%r is %r but the input value there is %r" % (xo, yo, y[k]))
                    if fo != fl[k]:
                        fail(K + "flag-not-kept", "output flag at x=%r is '%s' but the input flag there is '%s' (flags %s)" % (xo, fo, fl[k], fl))
    # C: straight lines / hats
    if m.get("line"):
        a, b = [float(t) for t in m["line"].split(",")]
        for (xo, yo, _) in out:
            checks += 1
            if abs(yo - (a + b * xo)) > 4 * PREC * (1 + abs(a) + abs(b) * (1 + abs(xo))) + 1e-9:
                fail(K + "line-not-reproduced", "straight-line data %r+%r*x: output at x=%r is %r" % (a, b, xo, yo))
    if m.get("hat"):
        c, s = [float(t) for t in m["hat"].split(",")]
        for (xo, yo, _) in out:
            checks += 1
            if abs(yo - s * abs(xo - c)) > 4 * PREC * (1 + abs(s) * (1 + abs(xo))) + 1e-8:
                fail(K + "spline-space-data-not-reproduced", "data %r*|x-%r| (kink on a fit knot): output at x=%r is %r" % (s, c, xo, yo))
    # F: a fit equals the reference least-squares spline on exactly the rows the options select
    if fit != "none" and (ty == "linear" or (ty == "cubic" and bc in ("natural", "derivativezero"))):
        fmin, fstep, fmax, fnn = grid_pts(fit)
        fk = [fmin + k * fstep for k in range(fnn - 1)] + [fmax]
        rows = selected_rows(m, x)
        S = ref_fit(ty, bc, fk, [x[i] for i in rows], [y[i] for i in rows])
        for (xo, yo, _) in out:
            checks += 1
            ref = S(xo)
            if abs(yo - ref) > 1e-7 * ymax:
                fail(K + ("nocut-" if m.get("nocut") == "1" else "") + "not-the-least-squares-fit-of-the-selected-rows",
                     "output at x=%r is %r but the least-squares %s spline on rows %d..%d (%s) gives %r" % (xo, yo, ty, rows[0], rows[-1], "--nocut: all rows" if m.get("nocut") == "1" else "rows inside the fit grid", ref))
    # B: derivative file vs derivative of the value file
    if not want_der:
        knots = []
    elif fit == "none":
        knots = list(x)
    else:
        fmin, fstep, fmax, fnn = grid_pts(fit)
        knots = [fmin + k * fstep for k in range(fnn - 1)] + [fmax]
    deg = 1 if ty == "linear" else 3
    cand = [[] for _ in out]
    covered = 0
    for j in range(len(knots) - 1):
        a, b = knots[j], knots[j + 1]
        idx = [i for i in range(len(out)) if a - 1e-9 <= out[i][0] <= b + 1e-9]
        if len(idx) < deg + 1:
            continue
        mm = len(idx) - 1
        nodes = sorted(set(int(round(mm * q / deg)) for q in range(deg + 1)))
        nx, ny = [out[idx[q]][0] for q in nodes], [out[idx[q]][1] for q in nodes]
        covered += 1
        for q, i in enumerate(idx):
            v, d, ev, ed = lagrange(nx, ny, out[i][0])
            if q not in nodes:
                checks += 1
                if abs(v - out[i][1]) > 4 * (ev + PREC * abs(out[i][1])) + 1e-12:
                    fail(K + "value-output-not-piecewise-polynomial", "between knots %r and %r the value output does not lie on one degree-%d polynomial: x=%r output %r, polynomial %r"
                         % (a, b, deg, out[i][0], out[i][1], v))
            cand[i].append((d, 4 * (ed + PREC * abs(d)) + 1e-11))
    for i in range(len(out)):
        if not cand[i]:
            continue
        if deg == 1:
            # a piecewise-linear spline has two slopes at an inner knot and either may be reported: the check needs the
            # polynomial of BOTH adjacent knot intervals; skip the point when the output grid does not cover one of them
            kk = [k for k in range(len(knots)) if abs(out[i][0] - knots[k]) < 1e-9]
            if kk and 0 < kk[0] < len(knots) - 1 and len(cand[i]) < 2:
                continue
        checks += 1
        if not any(abs(der[i][1] - d) <= tol for d, tol in cand[i]):
            fail(K + "derivative-output-mismatch", "derivative output at x=%r is %r but the derivative of the value output there is %s"
                 % (out[i][0], der[i][1], " or ".join("%r (+-%.2g)" % c for c in cand[i])))
    sig = (ty, bc, fit != "none", tuple(round(v, 6) for (_, v, _) in out[:12]), "".join(f for (_, _, f) in out[:12]))
    classes.append(sig)
    sample = "%d rows, %d knot intervals checked for the derivative; first rows %s" % (len(out), covered, " ".join("%g:%g:%s" % r for r in out[:5]))
    return fails, classes, checks, sample


def all_cases(thorough):
    C = []
    H = fx
    grids = [
        ("G1", [0.0, 0.5, 1.0, 1.5, 2.0], 0.5),
        ("G2", [0.0, 0.5, 1.5, 2.0, 4.0], None),
        ("G3", [-1.5, -0.5, 0.5, 1.5], 1.0),
        ("G4", [0.1 * k for k in range(1, 7)], 0.1),
        ("G5", [0.0, 1.0, 1.5, 3.5], None),
    ]
    grids.append(("G6", [0.1 * k for k in range(0, 101)], 0.1))   # 101 points, decimal step
    pats = [[-1, 2, 0, 1, 2, -1], [2, 2, -1, 0, 1, 2], [0, 1, 0, 0, -1, 0]]
    pats = [(p * 17)[:101] for p in pats]
    for name, g, h in grids:
        n = len(g)
        mn, mx = g[0], g[-1]
        fine = 0.025 if name in ("G4", "G6") else 0.125
        outs = []
        if h:
            outs.append("%r:%r:%r" % (mn, h, mx))                      # same grid
        outs.append("%r:%r:%r" % (mn, fine, mx))                       # finer, contains every input point
        outs.append("%r:%r:%r" % (mn, (h or 0.5) * 2, mx))             # coarser
        outs.append("%r:%r:%r" % (mn + 2 * fine, fine * 4, mx - 2 * fine))  # offset
        outs.append("%r:%r:%r" % (mn + fine, 3 * fine, mx))           # range not a multiple of the step (D only pins the ends)
        ords = []
        line = (1.0, 0.5)
        ords.append(([line[0] + line[1] * v for v in g], "line=%r,%r" % line))
        for p in pats:
            ords.append(([float(v) for v in p[:n]], ""))
        per = [float(v) for v in pats[0][:n]]
        per[-1] = per[0]
        x_s = ",".join(H(v) for v in g)
        for ty in ("akima", "cubic", "linear"):
            for oi, o in enumerate(outs):
                for (yv, extra) in ords:
                    C.append("ty=%s;bc=natural;x=%s;y=%s;fl=%s;grid=%s%s" % (ty, x_s, ",".join(H(v) for v in yv), ("iou" * n)[:n], o, ";" + extra if extra else ""))
                C.append("ty=%s;bc=periodic;x=%s;y=%s;fl=%s;grid=%s" % (ty, x_s, ",".join(H(v) for v in per), ("uoi" * n)[:n], o))
            # all flag patterns over {i,o,u}^3 on the first three points
            for o in ([] if name == "G6" else outs[:2] if not thorough else outs[:3]):
                for a in "iou":
                    for b in "iou":
                        for c in "iou":
                            C.append("ty=%s;bc=natural;x=%s;y=%s;fl=%s;grid=%s" % (ty, x_s, ",".join(H(v) for v in ords[1][0]), (a + b + c + "i" * n)[:n], o))
    # fits: data on a fine grid, spline grid coarser
    fits = [("0:0.5:2", 0.0, 2.0, 0.125, 1.0), ("0:1:3", 0.0, 3.0, 0.25, 2.0), ("-1.5:0.5:0.5", -1.5, 0.5, 0.125, -0.5)]
    for (fg, lo, hi, st, kink) in fits:
        nn = int(round((hi - lo) / st)) + 1
        xs = [lo + k * st for k in range(nn)]
        x_s = ",".join(H(v) for v in xs)
        datas = [([1.0 + 0.5 * v for v in xs], "line=1.0,0.5", ("cubic", "linear")),
                 ([2.0 * abs(v - kink) for v in xs], "hat=%r,2.0" % kink, ("linear",)),
                 ([v * v - 1.0 for v in xs], "", ("cubic", "linear")),
                 ([[0.0, 1.0, -1.0, 2.0][(3 * k) % 4] for k in range(nn)], "", ("cubic", "linear"))]
        for (yv, extra, types) in datas:
            for ty in types:
                for o in ("%r:%r:%r" % (lo, st / 2, hi), "%r:%r:%r" % (lo, st, hi), "%r:%r:%r" % (lo + st, 2 * st, hi - st)):
                    for bc in (("natural", "periodic") if ty == "cubic" and not extra else ("natural",)):
                        for nocut in ("0", "1"):
                            C.append("ty=%s;bc=%s;x=%s;y=%s;fl=%s;grid=%s;fit=%s;nocut=%s%s" % (ty, bc, x_s, ",".join(H(v) for v in yv), "i" * nn, o, fg, nocut, ";" + extra if extra else ""))
    # ---- every option and all their combinations (full product, hence every pair) on one table with rows on both sides of the fit grid
    def opt_product(xs, ys, grid, fitg):
        n = len(xs)
        x_s, y_s = ",".join(H(v) for v in xs), ",".join(H(v) for v in ys)
        for ty in ("akima", "cubic", "linear"):
            for fit in ("none", fitg):
                for nocut in ("0", "1"):
                    for cm in ("0", "1"):
                        for (bc, bo) in (("natural", "0"), ("natural", "1"), ("periodic", "0"), ("derivativezero", "0")):
                            for deriv in ("1", "0"):
                                for fmt in ("3", "2", "4"):
                                    C.append("k=opt;ty=%s;bc=%s;bo=%s;x=%s;y=%s;fl=%s;grid=%s;fit=%s;nocut=%s;cm=%s;deriv=%s;fmt=%s"
                                             % (ty, bc, bo, x_s, y_s, ("iou" * n)[:n], grid, fit, nocut, cm, deriv, fmt))
    AL = [0.0, 1.0, -1.0, 2.0]
    xo = [-0.25 + 0.125 * k for k in range(21)]
    yo = [0.5 * AL[(3 * k + k // 4) % 4] + 0.3 * v * v for k, v in enumerate(xo)]
    yo[-1] = yo[0]
    opt_product(xo, yo, "0.0:0.125:2.0", "0.0:0.5:2.0")
    # ---- which rows does the output depend on (one extra run per row): fits with and without --nocut, rows inside / outside / on the edge of the fit grid
    def sens(ty, bc, xs, ys, grid, fit, nocut):
        n = len(xs)
        C.append("k=sens;ty=%s;bc=%s;x=%s;y=%s;fl=%s;grid=%s;fit=%s;nocut=%s" % (ty, bc, ",".join(H(v) for v in xs), ",".join(H(v) for v in ys), "i" * n, grid, fit, nocut))
    sets = [([0.125 * k for k in range(17)], "0.0:0.125:2.0", "0.0:0.5:2.0"),           # all rows inside, first row on the fit-grid minimum
            (xo, "0.0:0.125:2.0", "0.0:0.5:2.0"),                                      # two rows beyond each end
            ([0.25 * k for k in range(13)], "0.5:0.125:2.5", "0.5:0.5:2.5")]           # two rows beyond each end, other step
    if thorough:
        sets += [([0.125 * k for k in range(25)], "0.0:0.25:3.0", "0.0:1.0:3.0"), ([-1.5 + 0.0625 * k for k in range(33)], "-1.5:0.0625:0.5", "-1.5:0.5:0.5"),
                 ([0.1 * k for k in range(21)], "0.5:0.05:1.5", "0.5:0.25:1.5")]
    for (xs, grid, fitg) in sets:
        ys = [0.5 * AL[(3 * k + k // 4) % 4] + 0.3 * v * v for k, v in enumerate(xs)]
        ys[-1] = ys[0]
        for (ty, bc) in (("cubic", "natural"), ("cubic", "periodic"), ("cubic", "derivativezero"), ("linear", "natural")):
            for nocut in ("0", "1"):
                sens(ty, bc, xs, ys, grid, fitg, nocut)
    x9 = [0.25 * k for k in range(9)]
    y9 = [AL[(3 * k + k // 4) % 4] for k in range(9)]
    for ty in ("akima", "cubic", "linear"):
        sens(ty, "natural", x9, y9, "0.0:0.125:2.0", "none", "0")
    if not thorough:
        return C
    # ------------------------------------------------------------ THOROUGH ONLY (appended; the runs above are unchanged)
    xn = [0.0]
    while xn[-1] < 3.0:
        xn.append(xn[-1] + [0.0625, 0.125, 0.1875][len(xn) % 3])
    xn = [-0.375, -0.125] + [v for v in xn if v <= 3.0] + [3.125, 3.5]
    yn = [0.5 * AL[(k + k // 3) % 4] - 0.2 * v for k, v in enumerate(xn)]
    yn[-1] = yn[0]
    opt_product(xn, yn, "0.0:0.25:3.0", "0.0:1.0:3.0")
    def interp_case(ty, bc, g, yv, fl, o, extra=""):
        return "ty=%s;bc=%s;x=%s;y=%s;fl=%s;grid=%s%s" % (ty, bc, ",".join(H(v) for v in g), ",".join(H(v) for v in yv), fl, o, ";" + extra if extra else "")

    def outs_of(name, g, h):
        mn, mx = g[0], g[-1]
        fine = {"G4": 0.025, "G6": 0.025, "G8": 0.0125}.get(name, 0.125)
        o = []
        if h:
            o.append("%r:%r:%r" % (mn, h, mx))
        o.append("%r:%r:%r" % (mn, fine, mx))
        o.append("%r:%r:%r" % (mn, (h or 0.5) * 2, mx))
        o.append("%r:%r:%r" % (mn + 2 * fine, fine * 4, mx - 2 * fine))
        o.append("%r:%r:%r" % (mn + fine, 3 * fine, mx))
        return o
    new_grids = [
        ("G7", [0.0, 0.25, 1.0, 2.5, 5.5, 5.75, 6.5, 8.0], None),     # spacings from {0.25,0.75,1.5,3}
        ("G8", [-0.5 + 0.05 * k for k in range(21)], 0.05),            # 21 points, decimal step
        ("G10", [float(k) for k in range(12)], 1.0),                   # 12 points, step 1
    ]
    pats2 = [[3, -2, 0.5, 0, -2, 3], [-1000, 2000, 0, 1000, 2000, -1000], [-0.001, 0.002, 0, 0.001, 0.002, -0.001]]
    pats2 = [(p * 17)[:101] for p in pats2]
    for name, g, h in new_grids:       # everything the base enumeration does, on three more grids
        n = len(g)
        outs = outs_of(name, g, h)
        ords = [([1.0 + 0.5 * v for v in g], "line=1.0,0.5")] + [([float(v) for v in p[:n]], "") for p in pats]
        per = [float(v) for v in pats[0][:n]]
        per[-1] = per[0]
        for ty in ("akima", "cubic", "linear"):
            for o in outs:
                for (yv, extra) in ords:
                    C.append(interp_case(ty, "natural", g, yv, ("iou" * n)[:n], o, extra))
                C.append(interp_case(ty, "periodic", g, per, ("uoi" * n)[:n], o))
    for name, g, h in grids + new_grids:
        if name == "G6":
            continue
        n = len(g)
        outs = outs_of(name, g, h)
        base_y = [float(v) for v in pats[0][:n]]
        for ty in ("akima", "cubic", "linear"):
            # all 27 flag patterns on every output grid (the base enumeration has the first three output grids of G1..G5)
            for oi, o in enumerate(outs):
                if name in ("G1", "G2", "G3", "G4", "G5") and oi < 3:
                    continue
                for a in "iou":
                    for b in "iou":
                        for c in "iou":
                            C.append(interp_case(ty, "natural", g, base_y, (a + b + c + "i" * n)[:n], o))
            # larger / badly scaled ordinates, two more periodic data sets, --comment
            for o in outs:
                for p in pats2:
                    C.append(interp_case(ty, "natural", g, [float(v) for v in p[:n]], ("oui" * n)[:n], o))
                for p in pats[1:]:
                    yp = [float(v) for v in p[:n]]
                    yp[-1] = yp[0]
                    C.append(interp_case(ty, "periodic", g, yp, ("iuo" * n)[:n], o))
            C.append(interp_case(ty, "natural", g, base_y, ("iou" * n)[:n], outs[1], "cm=1"))
    # all 81 flag patterns over {i,o,u}^4 on G1 (default type), same and finer output grid
    g1 = grids[0][1]
    for o in outs_of("G1", g1, 0.5)[:2]:
        for a in "iou":
            for b in "iou":
                for c in "iou":
                    for d in "iou":
                        C.append(interp_case("akima", "natural", g1, [float(v) for v in pats[1][:5]], a + b + c + d + "i", o))
    # more fit problems: 5- and 11-knot fit grids, decimal steps, more data sets, periodic cubic fits
    fits2 = [("0:0.25:1", 0.0, 1.0, 0.0625, 0.5), ("0:2:8", 0.0, 8.0, 0.5, 4.0), ("0:0.1:1", 0.0, 1.0, 0.025, 0.5),
             ("0:0.5:2", 0.0, 2.0, 0.0625, 1.5), ("0:1:3", 0.0, 3.0, 0.125, 1.0)]
    for (fg, lo, hi, st, kink) in fits2:
        nn = int(round((hi - lo) / st)) + 1
        xs = [lo + k * st for k in range(nn)]
        datas = [([1.0 + 0.5 * v for v in xs], "line=1.0,0.5", ("cubic", "linear")),
                 ([-2.0 + 3.0 * v for v in xs], "line=-2.0,3.0", ("cubic", "linear")),
                 ([2.0 * abs(v - kink) for v in xs], "hat=%r,2.0" % kink, ("linear",)),
                 ([v * v - 1.0 for v in xs], "", ("cubic", "linear")),
                 ([[0.0, 1.0, -1.0, 2.0][(3 * k) % 4] for k in range(nn)], "", ("cubic", "linear")),
                 ([[0.0, 1.0, -1.0, 2.0][(k + k // 3) % 4] for k in range(nn)], "", ("cubic", "linear"))]
        for (yv, extra, types) in datas:
            for ty in types:
                for o in ("%r:%r:%r" % (lo, st / 2, hi), "%r:%r:%r" % (lo, st, hi), "%r:%r:%r" % (lo + st, 2 * st, hi - st)):
                    for bc in (("natural", "periodic") if ty == "cubic" and not extra else ("natural",)):
                        for nocut in ("0", "1"):
                            C.append("ty=%s;bc=%s;x=%s;y=%s;fl=%s;grid=%s;fit=%s;nocut=%s%s" % (ty, bc, ",".join(H(v) for v in xs), ",".join(H(v) for v in yv), "i" * nn, o, fg, nocut, ";" + extra if extra else ""))
    return C


def main():
    global EXE
    a = pybsx.parse()
    EXE = pybsx.exe("csg_resample")
    if a.case is not None:
        fails, _, checks, sample = run_case(a.case)
        if not fails:
            print("case holds (%d comparisons) %s" % (checks, sample))
            return 0
        for k, w in fails:
            print("case FAILS: key=%s %s" % (k, w))
        return 3
    R = pybsx.Report("C12", "resample", a.tier)
    R.rule = ("csg_resample runs: 6 input grids (uniform, non-uniform, shifted, decimal step 0.1, 4..6 points, one with 101 points) x ordinates (a straight line, 3 vectors over {-1,0,1,2}, "
              "one periodic vector) x type akima/cubic/linear x boundaries natural/periodic x output grid {same, finer, coarser, offset, range not a multiple of the step}, "
              "all 27 flag patterns over {i,o,u}^3 on the first three points; fits on 3 fit grids x {line, hat, parabola, alphabet pattern} data x 3 output grids x "
              "cut/--nocut; --derivative always written. OPTIONS: the full product of --type x {interpolation, --fitgrid} x --nocut x --comment x --boundaries {absent, natural, periodic, "
              "derivativezero} x --derivative {given, absent} x input format {x y, x y flag, x y err flag} (1152 runs) on a 21-row table with two rows beyond each end of the "
              "fit grid: fits (linear; cubic natural/derivativezero) must equal a reference least-squares spline (KKT solve) on exactly the selected rows (--nocut: all, else "
              "fitgrid min <= x <= max), comment line present iff requested, documented not-implemented combinations may refuse. SENSITIVITY: per fit configuration one extra "
              "run per input row with y+1: the output changes iff the row is selected. distinct_nontrivial = distinct (type, boundary, first output rows, flags)")
    if a.tier == "thorough":
        R.rule += (" || THOROUGH additionally: input grids with spacings {0.25,0.75,1.5,3} (8 points), 21 points step 0.05, 12 points step 1; all 27 flag patterns on "
                   "every output grid of every input grid, all 81 patterns over {i,o,u}^4 on G1; ordinates {-2,0,0.5,3}, x1000 and x0.001; 3 periodic data sets; --comment; "
                   "5 more fit problems (5/11-knot, decimal fit grids, denser data) x 6 data sets")
    C = all_cases(a.tier == "thorough")
    R.count("cases_in_all_shards", len(C) if a.shard == 0 else 0)
    nsamp = 0
    for i, cas in enumerate(C):
        if not a.mine(i):
            continue
        fails, classes, checks, sample = run_case(cas)
        R.eval()
        R.count("comparisons", checks)
        R.count("sensitivity_cases" if cas.startswith("k=sens") else "option_product_runs" if cas.startswith("k=opt") else "fit_runs" if ";fit=" in cas else "interpolation_runs")
        for k, w in fails:
            R.fail(k, w + "  [" + cas + "]", cas)
        for c in classes:
            R.cls(c)
        if not fails and nsamp < 4 and i % 29 == 3:
            nsamp += 1
            R.sample(cas + " -> " + sample)
    R.assumptions = ["between two spline knots the value output lies on one polynomial of degree <= 3 (<= 1 for linear); this is itself checked on every output point not used as a node",
                     "table files carry 10 significant digits: tolerances are the propagated rounding of those digits (x4)",
                     "flags are asserted only on output points that coincide with input points; output grids stay inside the input range (no extrapolation)",
                     "a range that is not a multiple of the step: only the pinned end points are asserted (the spacing convention is unspecified)"]
    R.write(a.out)
    return 0


if __name__ == "__main__":
    sys.exit(main())
