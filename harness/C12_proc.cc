// C12 (process histories) — splines handled one after the other in ONE process must not influence each other.
// State that lives outside the spline objects (static / thread_local caches keyed by a buffer address, allocator
// reuse of a destroyed spline's grid buffer by the next spline of the same size) is invisible to every oracle that
// compares two objects of the same process.  Here every history runs in its own forked child of a process that has
// never touched a spline, after the small-block free lists of the allocator were emptied (so the child behaves the
// same in the enumeration and under --case), and every query is judged ABSOLUTELY:
//   * S(x_j) = y_j at the knots,
//   * S(x) = long-double reference (piecewise-linear interpolant / natural cubic spline) for linear and cubic,
//   * value and derivative bit-identical to what a SOLO process reports that only ever built that one spline and
//     evaluated it left to right (this is the reference for Akima and for all derivatives).
// History = 2 (thorough: also 3) steps (spline type, grid, data); all grids have 5 rows but different abscissae
// (uniform, shifted, scaled, two non-uniform; the identical grid is in as a control); per step an evaluation order of
// the 9 query points (knots and interval mid points): left-to-right, right-to-left, a fixed permutation, one inner
// point first; scalar or vector overloads; object lifetimes: one reused object (same type only), short-lived heap
// objects created and destroyed in sequence, all objects alive at once.
// This harness is built WITHOUT sanitizers on purpose: ASan's quarantine would prevent the allocator from handing a
// destroyed spline's buffer to the next one.
#include <sys/wait.h>
#include <unistd.h>

#include <cfloat>
#include <functional>

#include "C12_sets.h"
#include "bsx.h"

using namespace votca::tools;
using votca::Index;
using bsx::fmt;
using c12::Vec;

// ------------------------------------------------------------------ reference models (long double)
struct RefLinear {
  Vec x, y;
  long double operator()(double r) const {
    size_t j = 0;
    while (j + 2 < x.size() && r >= x[j + 1]) j++;
    long double h = (long double)x[j + 1] - x[j], t = ((long double)r - x[j]) / h;
    return (1 - t) * y[j] + t * y[j + 1];
  }
};
struct RefNatCubic {
  Vec x, y;
  std::vector<long double> M;
  RefNatCubic(const Vec &xx, const Vec &yy) : x(xx), y(yy), M(xx.size(), 0.0L) {
    size_t n = x.size();
    std::vector<long double> a(n, 0), b(n, 1), c(n, 0), d(n, 0);
    for (size_t i = 1; i + 1 < n; i++) {
      long double h0 = (long double)x[i] - x[i - 1], h1 = (long double)x[i + 1] - x[i];
      a[i] = h0 / 6; b[i] = (h0 + h1) / 3; c[i] = h1 / 6;
      d[i] = ((long double)y[i + 1] - y[i]) / h1 - ((long double)y[i] - y[i - 1]) / h0;
    }
    for (size_t i = 1; i < n; i++) { long double w = a[i] / b[i - 1]; b[i] -= w * c[i - 1]; d[i] -= w * d[i - 1]; }
    M[n - 1] = d[n - 1] / b[n - 1];
    for (size_t i = n - 1; i-- > 0;) M[i] = (d[i] - c[i] * M[i + 1]) / b[i];
  }
  long double operator()(double r) const {
    size_t j = 0;
    while (j + 2 < x.size() && r >= x[j + 1]) j++;
    long double h = (long double)x[j + 1] - x[j], B = ((long double)r - x[j]) / h, A = 1 - B;
    return A * y[j] + B * y[j + 1] + ((A * A * A - A) * M[j] + (B * B * B - B) * M[j + 1]) * h * h / 6;
  }
};

// ------------------------------------------------------------------ alphabet
static const Vec &grid(int g) {
  static const Vec G[5] = {{0, 1, 2, 3, 4}, {0.5, 1.5, 2.5, 3.5, 4.5}, {0, 0.5, 1, 1.5, 2}, {0, 0.25, 1.75, 2.25, 4}, {-1, 0.5, 0.75, 3, 3.5}};
  return G[g];
}
static const Vec &data(int d) {
  static const Vec D[2] = {{0, 1, -1, 2, 0}, {2, -1, 0.5, 1, 2}};
  return D[d];
}
static Vec queries(int g) {  // knots and interval mid points, left to right
  const Vec &x = grid(g);
  Vec q;
  for (size_t i = 0; i < x.size(); i++) { q.push_back(x[i]); if (i + 1 < x.size()) q.push_back(0.5 * (x[i] + x[i + 1])); }
  return q;
}
static std::vector<int> order(const std::string &o) {  // indices into queries()
  if (o == "lr") return {0, 1, 2, 3, 4, 5, 6, 7, 8};
  if (o == "rl") return {8, 7, 6, 5, 4, 3, 2, 1, 0};
  if (o == "pm") return {4, 1, 7, 0, 6, 3, 8, 2, 5};
  if (o == "in") return {3, 0, 1, 2, 4, 5, 6, 7, 8};  // one inner point (mid of the second interval) first
  throw std::runtime_error("harness: unknown order " + o);
}
struct Step { std::string type; int g, d; std::string ord; bool vec; };
static Step parse_step(const std::string &s) {
  auto f = bsx::split(s, ':');
  return {f[0], atoi(f[1].c_str()), atoi(f[2].c_str()), f[3], f[4] == "v"};
}
static std::string step_str(const Step &s) {
  return s.type + ":" + std::to_string(s.g) + ":" + std::to_string(s.d) + ":" + s.ord + ":" + (s.vec ? "v" : "s");
}

// evaluate one step on an object that already interpolates the step's table: (value, derivative) per query, in query-index order
static void evaluate(Spline &sp, const Step &st, Vec &val, Vec &der) {
  Vec q = queries(st.g);
  std::vector<int> o = order(st.ord);
  val.assign(q.size(), 0); der.assign(q.size(), 0);
  if (st.vec) {
    Eigen::VectorXd xs(o.size());
    for (size_t k = 0; k < o.size(); k++) xs[(Index)k] = q[o[k]];
    Eigen::VectorXd v = sp.Calculate(xs), d = sp.CalculateDerivative(xs);
    for (size_t k = 0; k < o.size(); k++) { val[o[k]] = v[(Index)k]; der[o[k]] = d[(Index)k]; }
  } else {
    for (size_t k = 0; k < o.size(); k++) { val[o[k]] = sp.Calculate(q[o[k]]); der[o[k]] = sp.CalculateDerivative(q[o[k]]); }
  }
}

// empty the allocator's small-block free lists, so that what follows does not depend on what the parent freed before the fork
static void normalise_heap() {
  for (size_t sz = 8; sz <= 512; sz += 8)
    for (int k = 0; k < 64; k++) { volatile char *p = (char *)malloc(sz); if (p) p[0] = 1; }
}

// run fn in a forked child; the child returns a text through a pipe; "" + ok=false when it died
static bool in_child(const std::function<std::string()> &fn, std::string &out, std::string &how) {
  int fd[2];
  if (pipe(fd) != 0) { perror("pipe"); exit(2); }
  fflush(stdout); fflush(stderr);
  pid_t pid = fork();
  if (pid == 0) {
    close(fd[0]);
    alarm(60);
    normalise_heap();
    std::string s;
    try { s = fn(); } catch (const std::exception &e) { s = std::string("EXC ") + e.what(); }
    size_t off = 0;
    while (off < s.size()) { ssize_t w = ::write(fd[1], s.data() + off, s.size() - off); if (w <= 0) _exit(98); off += (size_t)w; }
    _exit(0);
  }
  close(fd[1]);
  out.clear();
  char tmp[65536];
  for (;;) { ssize_t r = ::read(fd[0], tmp, sizeof tmp); if (r <= 0) break; out.append(tmp, (size_t)r); }
  close(fd[0]);
  int st = 0;
  waitpid(pid, &st, 0);
  if (WIFEXITED(st) && WEXITSTATUS(st) == 0) return true;
  char b[96];
  if (WIFSIGNALED(st)) snprintf(b, sizeof b, "child killed by signal %d", WTERMSIG(st)); else snprintf(b, sizeof b, "child exit status %d", WEXITSTATUS(st));
  how = b;
  return false;
}
static std::string pack(const Vec &val, const Vec &der) { return c12::vecstr(val) + "|" + c12::vecstr(der); }

// what a process reports that only ever builds this one spline and evaluates it left to right (cached in the parent)
struct Solo { Vec val, der; bool ok = false; std::string err; };
static const Solo &solo(const std::string &type, int g, int d) {
  static std::map<std::string, Solo> cache;
  std::string key = type + ":" + std::to_string(g) + ":" + std::to_string(d);
  auto it = cache.find(key);
  if (it != cache.end()) return it->second;
  Solo s;
  std::string out, how;
  bool ok = in_child([&]() {
    auto sp = c12::make(type, false);
    sp->Interpolate(c12::eig(grid(g)), c12::eig(data(d)));
    Vec v, dd;
    evaluate(*sp, Step{type, g, d, "lr", false}, v, dd);
    return pack(v, dd);
  }, out, how);
  if (ok && out.rfind("EXC", 0) != 0) {
    auto f = bsx::split(out, '|');
    s.val = c12::parsevec(f[0]); s.der = c12::parsevec(f[1]); s.ok = true;
  } else s.err = ok ? out : how;
  return cache[key] = s;
}

struct Res { std::vector<std::pair<std::string, std::string>> fails; long long checks = 0; std::string sig, sample; };
static bool same_bits(double a, double b) { return std::memcmp(&a, &b, sizeof a) == 0 || (a != a && b != b); }

static Res run_case(const std::string &cas) {
  Res R;
  auto m = bsx::kvs(cas);
  std::string life = m["life"];
  std::vector<Step> steps;
  for (auto &s : bsx::split(m["steps"], ',')) steps.push_back(parse_step(s));
  auto fail = [&](const std::string &k, const std::string &w) { for (auto &f : R.fails) if (f.first == k) return; R.fails.push_back({k, w}); };
  std::string out, how;
  bool ok = in_child([&]() {
    std::string res;
    std::unique_ptr<Spline> one;
    std::vector<std::unique_ptr<Spline>> alive;
    // the tables exist before any spline does: between the destruction of one spline and the construction of the next
    // nothing else of a grid's size is allocated, so the allocator is free to hand the old grid buffer to the new spline
    std::vector<Eigen::VectorXd> X, Y;
    for (auto &st : steps) { X.push_back(c12::eig(grid(st.g))); Y.push_back(c12::eig(data(st.d))); }
    for (size_t s = 0; s < steps.size(); s++) {
      const Step &st = steps[s];
      Spline *sp = nullptr;
      if (life == "reuse") { if (!one) one = c12::make(st.type, false); sp = one.get(); }            // one object, re-interpolated
      else if (life == "seq") { one.reset(); one = c12::make(st.type, false); sp = one.get(); }       // previous object destroyed first
      else { alive.push_back(c12::make(st.type, false)); sp = alive.back().get(); }                   // all objects stay alive
      sp->Interpolate(X[s], Y[s]);
      Vec v, d;
      evaluate(*sp, st, v, d);
      res += (s ? ";" : "") + pack(v, d);
    }
    return res;
  }, out, how);
  std::string fam = "proc-" + life + "-";
  if (!ok) { fail(fam + "fatal", how); return R; }
  if (out.rfind("EXC", 0) == 0) { fail(fam + "exception", out); return R; }
  auto per = bsx::split(out, ';');
  for (size_t s = 0; s < steps.size(); s++) {
    const Step &st = steps[s];
    auto f = bsx::split(per[s], '|');
    Vec val = c12::parsevec(f[0]), der = c12::parsevec(f[1]);
    const Vec &x = grid(st.g), &y = data(st.d);
    Vec q = queries(st.g);
    std::string K = fam + st.type + (s == 0 ? "-first-spline-" : "-later-spline-") + (st.vec ? "vector-" : "scalar-");
    std::string where = " (step " + std::to_string(s + 1) + " of " + m["steps"] + ", query order " + st.ord + ")";
    const Solo &so = solo(st.type, st.g, st.d);
    if (!so.ok) { fail("proc-solo-process-failed", so.err); return R; }
    RefLinear rl{x, y}; RefNatCubic rc(x, y);
    for (size_t k = 0; k < q.size(); k++) {
      R.checks += 3;
      if (k % 2 == 0 && !(std::fabs(val[k] - y[k / 2]) <= 1e-10 * (1 + std::fabs(y[k / 2]))))
        fail(K + "knot-value", "S(" + fmt(q[k]) + ")=" + fmt(val[k]) + " but the table has " + fmt(y[k / 2]) + " there" + where);
      if (st.type != "akima") {
        double ref = st.type == "linear" ? (double)rl(q[k]) : (double)rc(q[k]);
        if (!(std::fabs(val[k] - ref) <= 1e-10 * (1 + std::fabs(ref))))
          fail(K + "vs-reference", "S(" + fmt(q[k]) + ")=" + fmt(val[k]) + " but the reference " + (st.type == "linear" ? "piecewise-linear interpolant" : "natural cubic spline") + " gives " + fmt(ref) + where);
      }
      if (!same_bits(val[k], so.val[k]))
        fail(K + "value-differs-from-solo-process", "S(" + fmt(q[k]) + ")=" + fmt(val[k]) + " but a process that only builds this spline reports " + fmt(so.val[k]) + where);
      if (!same_bits(der[k], so.der[k]))
        fail(K + "derivative-differs-from-solo-process", "S'(" + fmt(q[k]) + ")=" + fmt(der[k]) + " but a process that only builds this spline reports " + fmt(so.der[k]) + where);
    }
    char b[64]; snprintf(b, sizeof b, "%s%d%d:%.5g,%.5g;", st.type.c_str(), st.g, st.d, val[3], der[3]);
    R.sig += b;
  }
  R.sample = "S, S' at the second interval's mid point per step: " + R.sig;
  return R;
}

// ------------------------------------------------------------------ enumeration (pure string generation: the parent never touches a spline)
static void all_cases(bool thorough, const std::function<void(const std::string &)> &emit) {
  const std::vector<std::string> T = {"linear", "cubic", "akima"}, ORD = {"lr", "rl", "pm", "in"}, LIFE = {"reuse", "seq", "both"};
  auto kind = [&](int t, int g, int d, const std::string &o, bool v) { return step_str(Step{T[t], g, d, o, v}); };
  // length 2: every (type, grid) pair x first order {lr, rl} x second order (4) x second overload (2) x lifetime (3); data 0 then 1
  for (int dd = 0; dd < (thorough ? 2 : 1); dd++)
    for (auto &life : LIFE)
      for (int t1 = 0; t1 < 3; t1++) for (int t2 = 0; t2 < 3; t2++) {
        if (life == "reuse" && t1 != t2) continue;
        for (int g1 = 0; g1 < 5; g1++) for (int g2 = 0; g2 < 5; g2++)
          for (std::string o1 : {"lr", "rl"}) for (auto &o2 : ORD) for (int v2 = 0; v2 < 2; v2++)
            emit("p;life=" + life + ";steps=" + kind(t1, g1, dd, o1, false) + "," + kind(t2, g2, 1 - dd, o2, v2 == 1));
      }
  if (!thorough) return;
  // length 3: every (type, grid) triple x orders (rl | lr, pm, in | in) ... x overload of the last x lifetime
  for (auto &life : LIFE)
    for (int t1 = 0; t1 < 3; t1++) for (int t2 = 0; t2 < 3; t2++) for (int t3 = 0; t3 < 3; t3++) {
      if (life == "reuse" && !(t1 == t2 && t2 == t3)) continue;
      for (int g1 = 0; g1 < 5; g1++) for (int g2 = 0; g2 < 5; g2++) for (int g3 = 0; g3 < 5; g3++)
        for (std::string o2 : {"lr", "rl", "pm"}) for (std::string o3 : {"in", "pm", "rl"}) for (int v3 = 0; v3 < 2; v3++)
          emit("p;life=" + life + ";steps=" + kind(t1, g1, 0, "rl", false) + "," + kind(t2, g2, 1, o2, v3 == 0) + "," + kind(t3, g3, 0, o3, v3 == 1));
    }
}

int main(int argc, char **argv) {
  bsx::Args a = bsx::parse(argc, argv);
  if (a.has_case) {
    Res r = run_case(a.cas);
    if (r.fails.empty()) { printf("case holds (%lld comparisons) %s\n", r.checks, r.sample.c_str()); return 0; }
    for (auto &f : r.fails) printf("case FAILS: key=%s %s\n", f.first.c_str(), f.second.c_str());
    return 3;
  }
  bsx::Report R;
  R.property = "C12"; R.part = "proc"; R.tier = a.tier;
  bool thorough = a.tier == "thorough";
  R.rule = std::string("process histories over splines, one forked child (of a process that never touched a spline; allocator free lists emptied) per history: sequences of 2") +
           (thorough ? " and 3" : "") + " steps (type in {linear,cubic,akima}, grid in 5 five-row grids with different abscissae incl. the identical one as control, table) x "
           "evaluation order of the 9 query points (knots, interval mid points) {left-to-right, right-to-left, fixed permutation, one inner point first} x scalar / vector overloads x "
           "object lifetime {one reused object, short-lived heap objects in sequence, all alive}; ABSOLUTE oracles per query: S(knot) = table value, S = long-double reference "
           "(linear, natural cubic), value and derivative bit-identical to a solo process that only builds that spline and evaluates left to right. "
           "distinct_nontrivial = distinct (step kinds, S and S' at an inner point)";
  long long i = 0, n = 0;
  int sampled = 0;
  all_cases(thorough, [&](const std::string &cas) {
    if (a.mine(n++)) {
      Res r = run_case(cas);
      R.eval();
      R.counters["comparisons"] += r.checks;
      for (auto &f : r.fails) R.fail(f.first, f.second + "  [" + cas + "]", cas);
      if (!r.sig.empty()) R.cls(r.sig);
      if (r.fails.empty() && sampled < 4 && i % 211 == 17) { sampled++; R.sample(cas + " -> " + r.sample); }
      i++;
    }
  });
  R.counters["cases_in_all_shards"] = a.shard == 0 ? n : 0;
  R.assumptions = {"built without sanitizers so that the allocator may hand a destroyed spline's buffer to the next spline (ASan's quarantine would prevent it)",
                   "a solo process (one spline, left-to-right evaluation) is the reference for Akima values and for all derivatives; knots and the long-double reference splines are absolute",
                   "single-threaded; static / thread_local state of other threads is not explored"};
  if (!R.write(a.out)) { fprintf(stderr, "cannot write %s\n", a.out.c_str()); return 2; }
  return 0;
}
