#!/usr/bin/env python3
"""C01 (executable path) — csg_map on generated files.

One case = one csg_map run:  --top top.xml --trj traj.(gro|dump) --cg map.xml --out out.(gro|dump) [--vel] [--force]
on a generated multi-frame trajectory (the box changes from frame to frame: cubic, orthorhombic,
triclinic (gro only), open) holding 7 molecules per frame placed compactly, on a box corner, cut by
1/2/3 faces, many images away, entirely outside the box, and stretched to 0.45 of the shortest height.
Every CG bead of every output frame is compared with an exact (integer / rational) recomputation
from the numbers that were written to the input files; tolerance = half a unit of the last digit the
output format prints.  'O*' sets end with a frame that holds an over-sized bead: csg_map must fail and
must not write that frame.
"""
import os, subprocess, sys
from fractions import Fraction as Fr
from itertools import product

sys.path.insert(0, os.path.join(os.path.dirname(os.path.abspath(__file__)), "..", "lib"))
import pybsx

U = 100000  # integer length unit: 1e-5 nm

MASS = ["12.011", "1.008", "15.9994", "0.0"]
VEL = [(1.5, -0.25, 0.125), (-2.0, 0.7, 3.1), (0.01, 4.0, -7.5), (-0.3, -0.9, 0.001)]
FRC = [(100.5, -20.25, 3.0), (-7.0, 11.0, 13.0), (0.5, 0.25, -100.0), (17.0, -19.0, 23.0)]
S2, S3 = 0.7071067811865476, 0.5773502691896258
DIRS = [(1, 0, 0), (0, -1, 0), (0, 0, 1), (S2, S2, 0), (-S3, S3, S3), (0.30304576336566325, -0.5050762722761054, 0.8081220356417687),
        (0, 1, 0), (S3, S3, S3), (-1, 0, 0)]

# boxes in nm: three box vectors a, b, c (GROMACS-reduced)
BOX = dict(cubic=((3.1, 0, 0), (0, 3.1, 0), (0, 0, 3.1)), ortho=((2.7, 0, 0), (0, 3.9, 0), (0, 0, 5.3)),
           ortho2=((6.0, 0, 0), (0, 2.5, 0), (0, 0, 3.5)), tric=((3, 0, 0), (1, 3, 0), (0, 0, 3)),
           tricneg=((4, 0, 0), (-1.3, 3.2, 0), (1.1, -1.6, 3.5)), open=((0, 0, 0), (0, 0, 0), (0, 0, 0)))
FRAMES = dict(gro=["cubic", "tric", "ortho", "tricneg", "open", "cubic"], dump=["cubic", "ortho", "ortho2", "open", "cubic"])

# placements: (fractional first parent, [(direction, magnitude in shortest heights, image shift n)] for parents 1..3)
PLACE = [
    ("compact", (0.4, 0.5, 0.45), [(0, 0.15, (0, 0, 0)), (1, 0.15, (0, 0, 0)), (2, 0.15, (0, 0, 0))]),
    ("corner", (0, 0, 0), [(8, 0.15, (1, 0, 0)), (1, 0.15, (0, 1, 0)), (4, 0.15, (1, 0, 0))]),
    ("cut-faces", (0.98, 0.01, 0.99), [(3, 0.2, (-1, 0, 0)), (4, 0.2, (0, 0, -1)), (5, 0.2, (0, 1, -1))]),
    ("far-images", (0.4, 0.5, 0.45), [(3, 0.25, (2, -1, 0)), (4, 0.25, (-2, 0, 1)), (5, 0.25, (0, 2, -2))]),
    ("cut-3-faces", (0.99, 0.99, 0.99), [(7, 0.2, (-1, -1, -1)), (0, 0.2, (-1, 0, 0)), (6, 0.2, (0, -1, 0))]),
    ("outside-box", (2.3, -1.6, 0.5), [(0, 0.15, (0, 0, 0)), (4, 0.15, (0, 0, 0)), (2, 0.15, (0, 0, 0))]),
    ("stretched", (0.5, 0.5, 0.5), [(3, 0.45, (0, 0, 0)), (1, 0.1, (0, 1, 0)), (2, 0.1, (0, 0, 0))]),
]
# over-sized last frame: (box, direction vector (not normalised), magnitude in shortest heights)
OVERSIZE = dict(O1=("cubic", (S3, S3, S3), 0.6), O2=("ortho", (0, 0, 1), 0.75), O3=("tric", (0, S2, S2), 0.6))


def cross(a, b):
    return (a[1] * b[2] - a[2] * b[1], a[2] * b[0] - a[0] * b[2], a[0] * b[1] - a[1] * b[0])


def hmin(box):
    a, b, c = box
    if not any(a):
        return 3.0
    vol = abs(sum(x * y for x, y in zip(a, cross(b, c))))
    n = lambda v: sum(x * x for x in v) ** 0.5
    return min(vol / n(cross(b, c)), vol / n(cross(c, a)), vol / n(cross(a, b)))


def iround(x):
    """nm float -> integer units of 1e-5 nm on the 1e-3 nm grid (what a gro file can hold)"""
    return int(round(x * 1000)) * (U // 1000)


def build_frames(case):
    """-> list of frames: dict(box=name, ibox=3 int vectors, mols=[list of k int positions], kind=[...], oversize=bool)"""
    k = case["k"]
    names = list(FRAMES[case["in"]])
    frames = []
    over = None
    if case["set"] != "A":
        bname, dvec, mag = OVERSIZE[case["set"]]
        names = ["cubic", bname]
        over = (dvec, mag)
    for fi, bname in enumerate(names):
        box = BOX[bname]
        ibox = [tuple(int(round(x * U)) for x in v) for v in box]
        pb = BOX["cubic"] if bname == "open" else box
        h = hmin(box)
        mols, kinds = [], []
        for pname, fr, pars in PLACE:
            r0 = tuple(iround(sum(pb[v][q] * fr[v] for v in range(3))) for q in range(3))
            atoms = [r0]
            for j in range(1, k):
                di, mag, n = pars[j - 1]
                off = tuple(iround(DIRS[di][q] * mag * h) for q in range(3))
                if over and fi == len(names) - 1 and pname == "compact" and j == k - 1:
                    off = tuple(iround(over[0][q] * over[1] * h) for q in range(3))
                atoms.append(tuple(r0[q] + off[q] + sum(ibox[v][q] * n[v] for v in range(3)) for q in range(3)))
            mols.append(atoms)
            kinds.append(pname)
        frames.append(dict(box=bname, ibox=ibox, mols=mols, kinds=kinds, oversize=bool(over) and fi == len(names) - 1))
    return frames


def vel_of(mi, ai):
    return tuple(round(v * (1 + 0.25 * mi), 4) for v in VEL[ai])


def frc_of(mi, ai):
    return tuple(round(v * (1 - 0.125 * mi), 4) for v in FRC[ai])


def atom_of(case, j):
    return case["k"] - 1 - j if case["rev"] else j


def write_inputs(case, frames):
    k = case["k"]
    nm = len(PLACE)
    with open("top.xml", "w") as f:
        f.write('<topology>\n <molecules>\n  <molecule name="M" nmols="%d" nbeads="%d">\n' % (nm, k))
        for i in range(k):
            f.write('   <bead name="A%d" type="Y%d" mass="%s" q="0" />\n' % (i + 1, i + 1, MASS[i]))
        f.write("  </molecule>\n </molecules>\n</topology>\n")
    with open("map.xml", "w") as f:
        f.write("<cg_molecule>\n <name>MC</name>\n <ident>M</ident>\n <topology>\n  <cg_beads>\n")
        f.write("   <cg_bead><name>C1</name><type>T1</type><symmetry>%d</symmetry><mapping>m1</mapping><beads>%s</beads></cg_bead>\n"
                % (case["sym"], " ".join("1:M:A%d" % (atom_of(case, j) + 1) for j in range(k))))
        if k >= 2:
            f.write("   <cg_bead><name>C2</name><type>T2</type><mapping>m2</mapping><beads>1:M:A%d</beads></cg_bead>\n" % (atom_of(case, k - 1) + 1))
        f.write("  </cg_beads>\n </topology>\n <maps>\n  <map><name>m1</name><weights>%s</weights>%s</map>\n"
                % (" ".join(case["w"]), "<d>%s</d>" % " ".join(case["d"]) if case["d"] else ""))
        if k >= 2:
            f.write("  <map><name>m2</name><weights>1</weights></map>\n")
        f.write(" </maps>\n</cg_molecule>\n")
    # trajectory; atom order in the file = molecule by molecule, atom index order; mapping position j -> atom atom_of(j)
    if case["in"] == "gro":
        with open("traj.gro", "w") as f:
            for fr in frames:
                f.write("generated\n%5d\n" % (nm * k))
                n = 0
                for mi, atoms in enumerate(fr["mols"]):
                    byatom = {atom_of(case, j): atoms[j] for j in range(k)}
                    for ai in range(k):
                        n += 1
                        x = byatom[ai]
                        line = "%5d%-5s%5s%5d%8.3f%8.3f%8.3f" % (mi + 1, "M", "A%d" % (ai + 1), n, x[0] / U, x[1] / U, x[2] / U)
                        if case["vel"]:
                            line += "%8.4f%8.4f%8.4f" % vel_of(mi, ai)
                        f.write(line + "\n")
                a, b, c = [[v / U for v in vec] for vec in fr["ibox"]]
                if fr["box"] in ("tric", "tricneg"):
                    f.write("%10.5f%10.5f%10.5f%10.5f%10.5f%10.5f%10.5f%10.5f%10.5f\n" % (a[0], b[1], c[2], a[1], a[2], b[0], b[2], c[0], c[1]))
                else:
                    f.write("%10.5f%10.5f%10.5f\n" % (a[0], b[1], c[2]))
    else:
        with open("traj.dump", "w") as f:
            for fi, fr in enumerate(frames):
                a, b, c = fr["ibox"]
                f.write("ITEM: TIMESTEP\n%d\nITEM: NUMBER OF ATOMS\n%d\nITEM: BOX BOUNDS pp pp pp\n" % (fi * 10, nm * k))
                f.write("0 %.4f\n0 %.4f\n0 %.4f\n" % (a[0] * 10 / U, b[1] * 10 / U, c[2] * 10 / U))
                f.write("ITEM: ATOMS id type x y z" + (" vx vy vz" if case["vel"] else "") + (" fx fy fz" if case["force"] else "") + "\n")
                n = 0
                for mi, atoms in enumerate(fr["mols"]):
                    byatom = {atom_of(case, j): atoms[j] for j in range(k)}
                    for ai in range(k):
                        n += 1
                        x = byatom[ai]
                        line = "%d %d %.4f %.4f %.4f" % (n, ai + 1, x[0] * 10 / U, x[1] * 10 / U, x[2] * 10 / U)
                        if case["vel"]:
                            line += " %.4f %.4f %.4f" % vel_of(mi, ai)
                        if case["force"]:
                            line += " %.4f %.4f %.4f" % frc_of(mi, ai)
                        f.write(line + "\n")


def read_output(case):
    """-> list of frames, each a list of beads dict(pos=(Fr nm), vel=..., frc=...) in file units converted: pos nm, vel/force in INPUT-file units"""
    out = []
    if case["out"] == "gro":
        L = open("out.gro").read().split("\n")
        i = 0
        while i + 1 < len(L) and L[i + 1].strip():
            n = int(L[i + 1])
            beads = []
            for ln in L[i + 2:i + 2 + n]:
                b = dict(pos=tuple(Fr(ln[20 + 8 * q:28 + 8 * q].strip()) for q in range(3)))
                if len(ln) >= 68:
                    b["vel"] = tuple(Fr(ln[44 + 8 * q:52 + 8 * q].strip()) for q in range(3))
                beads.append(b)
            out.append(beads)
            i += n + 3
    else:
        L = open("out.dump").read().split("\n")
        i = 0
        while i < len(L):
            if L[i].startswith("ITEM: NUMBER OF ATOMS"):
                n = int(L[i + 1])
            if L[i].startswith("ITEM: ATOMS"):
                cols = L[i].split()[2:]
                beads = []
                for ln in L[i + 1:i + 1 + n]:
                    t = dict(zip(cols, ln.split()))
                    b = dict(pos=tuple(Fr(t[c]) / 10 for c in ("x", "y", "z")))
                    if "vx" in t:
                        b["vel"] = tuple(Fr(t[c]) for c in ("vx", "vy", "vz"))
                    if "fx" in t:
                        b["frc"] = tuple(Fr(t[c]) for c in ("fx", "fy", "fz"))
                    beads.append(b)
                out.append(beads)
                i += n
            i += 1
    return out


def nearest(d, ibox, periodic):
    """all images of integer vector d with minimal squared length -> list of vectors"""
    if not periodic:
        return [d]
    best, res = None, []
    for m in product(range(-3, 4), repeat=3):
        u = tuple(d[q] + sum(ibox[v][q] * m[v] for v in range(3)) for q in range(3))
        l2 = u[0] * u[0] + u[1] * u[1] + u[2] * u[2]
        if best is None or l2 < best:
            best, res = l2, [u]
        elif l2 == best:
            res.append(u)
    return res


def run_case(case, R=None):
    """returns list of failures (key, what); fills R classes/counters"""
    fails = []
    k = case["k"]
    frames = build_frames(case)
    for fn in ("out.gro", "out.dump", "traj.gro", "traj.dump"):
        if os.path.exists(fn):
            os.remove(fn)
    write_inputs(case, frames)
    outname = "out." + case["out"]
    cmd = [pybsx.exe("csg_map"), "--top", "top.xml", "--trj", "traj." + case["in"], "--cg", "map.xml", "--out", outname]
    if case["vel"]:
        cmd.append("--vel")
    if case["force"]:
        cmd.append("--force")
    p = subprocess.run(cmd, stdout=subprocess.PIPE, stderr=subprocess.STDOUT, timeout=120)
    log = p.stdout.decode(errors="replace")
    if p.returncode != 0 and "coarse-grained bead is bigger" not in log and "an error occurred" not in log:
        # the process died without a votca error message (e.g. the shared libraries were being relinked by a concurrent
        # build): run the deterministic command once more and count the incident
        import time
        time.sleep(2)
        if os.path.exists(outname):
            os.remove(outname)
        p = subprocess.run(cmd, stdout=subprocess.PIPE, stderr=subprocess.STDOUT, timeout=120)
        log = p.stdout.decode(errors="replace")
        if R:
            R.count("runs_repeated_after_abnormal_exit")
    pair = case["in"] + "-to-" + case["out"]
    sym = "ellipsoid" if case["sym"] == 3 else "sphere"
    expect_fail = any(f["oversize"] for f in frames)
    outframes = read_output(case) if os.path.exists(outname) else []
    if expect_fail:
        nok = sum(1 for f in frames if not f["oversize"])
        if p.returncode == 0 or len(outframes) > nok:
            fails.append(("exe-oversized-bead-mapped-%s-%s" % (frames[-1]["box"], pair),
                          "csg_map rc=%d wrote %d frame(s) although frame %d holds a bead with a parent at %.2f of the shortest box height"
                          % (p.returncode, len(outframes), nok, OVERSIZE[case["set"]][2])))
        elif R:
            R.cls(("rejected", pair, frames[-1]["box"], k, sym))
            R.count("runs_rejected")
        frames = frames[:min(nok, len(outframes))]
    else:
        if p.returncode != 0 or len(outframes) != len(frames):
            fails.append(("exe-run-failed-%s" % pair, "csg_map rc=%d, %d of %d frames written; log tail: %s" % (p.returncode, len(outframes), len(frames), log[-300:])))
            return fails
    w = [Fr(t) for t in case["w"]]
    W = sum(w)
    wn = [x / W for x in w]
    if case["d"]:
        dd = [Fr(t) for t in case["d"]]
        coef = [(dd[j] / sum(dd)) / wn[j] if w[j] != 0 else None for j in range(k)]
    else:
        coef = [Fr(1) if w[j] != 0 else None for j in range(k)]
    ncg = 2 if k >= 2 else 1
    # tolerances: half a unit of the last printed digit (+ slack for the double rounding of a value that sits on a print boundary)
    tolp = Fr(5, 10000) + Fr(1, 10**7) if case["out"] == "gro" else (Fr(5, 10**7) + Fr(1, 10**9)) / 10
    for fi, fr in enumerate(frames):
        beads = outframes[fi]
        if len(beads) != ncg * len(fr["mols"]):
            fails.append(("exe-bead-count-%s" % pair, "frame %d has %d beads, expected %d" % (fi, len(beads), ncg * len(fr["mols"]))))
            continue
        periodic = fr["box"] != "open"
        for mi, atoms in enumerate(fr["mols"]):
            b1 = beads[mi * ncg]
            cands = [[(0, 0, 0)]] + [nearest(tuple(atoms[j][q] - atoms[0][q] for q in range(3)), fr["ibox"], periodic) for j in range(1, k)]
            if R:
                R.count("beads_compared")
            if any(len(c) > 1 for c in cands):
                if R:
                    R.count("ties_skipped")
                continue
            crossing = any(cands[j][0] != tuple(atoms[j][q] - atoms[0][q] for q in range(3)) for j in range(1, k))
            exp = tuple(sum(wn[j] * (atoms[0][q] + cands[j][0][q]) for j in range(k)) / U for q in range(3))
            where = "frame %d (%s box) molecule %d (%s)" % (fi, fr["box"], mi, fr["kinds"][mi])
            if any(abs(b1["pos"][q] - exp[q]) > tolp for q in range(3)):
                fails.append(("exe-pos-%s-%s-%s-%s" % (sym, "open" if not periodic else ("triclinic" if fr["box"].startswith("tric") else "orthorhombic"), "crossing" if crossing else "compact", pair),
                              "%s: C1 at (%s) expected (%s) nm" % (where, ", ".join("%.6f" % float(x) for x in b1["pos"]), ", ".join("%.6f" % float(x) for x in exp))))
            if k >= 2:
                b2 = beads[mi * ncg + 1]
                e2 = tuple(Fr(atoms[k - 1][q], U) for q in range(3))
                if any(abs(b2["pos"][q] - e2[q]) > tolp for q in range(3)):
                    fails.append(("exe-single-parent-pos-%s" % pair, "%s: C2 at (%s) but its only parent is at (%s)" % (where, ", ".join("%.6f" % float(x) for x in b2["pos"]), ", ".join("%.6f" % float(x) for x in e2))))
            if case["vel"]:
                # velocities: gro nm/ps, dump A/..: factor 10 between them
                fac = Fr(1)
                if case["in"] != case["out"]:
                    fac = Fr(10) if case["out"] == "dump" else Fr(1, 10)
                ev = tuple(sum(wn[j] * Fr(repr(vel_of(mi, atom_of(case, j))[q])) for j in range(k)) * fac for q in range(3))
                tolv = (Fr(5, 10**5) if case["out"] == "gro" else Fr(5, 10**7)) * (1 + Fr(1, 1000))
                if "vel" not in b1 or any(abs(b1["vel"][q] - ev[q]) > tolv for q in range(3)):
                    fails.append(("exe-vel-%s-%s" % (sym, pair), "%s: C1 velocity %s expected (%s)" % (where, "(%s)" % ", ".join("%.6f" % float(x) for x in b1["vel"]) if "vel" in b1 else "<none>", ", ".join("%.6f" % float(x) for x in ev))))
            if case["force"] and case["out"] == "dump":
                ok = False
                for z in ((0, 1) if None in coef else (0,)):
                    ef = tuple(sum((coef[j] if coef[j] is not None else z) * Fr(repr(frc_of(mi, atom_of(case, j))[q])) for j in range(k)) for q in range(3))
                    tolf = Fr(5, 10**7) + max(abs(x) for x in ef) * Fr(1, 10**12) + Fr(1, 10**9)
                    if "frc" in b1 and all(abs(b1["frc"][q] - ef[q]) <= tolf for q in range(3)):
                        ok = True
                if not ok:
                    fails.append(("exe-force-%s-%s%s" % (sym, pair, "-zerow" if None in coef else ""), "%s: C1 force %s expected (%s)" % (where, "(%s)" % ", ".join("%.6f" % float(x) for x in b1["frc"]) if "frc" in b1 else "<none>", ", ".join("%.6f" % float(x) for x in ef))))
            if R:
                R.cls((pair, fr["box"], k, sym, fr["kinds"][mi], "unwrapped" if crossing else "compact", case["vel"], case["force"]))
    return fails


def casestr(c):
    return "exe;in=%s;out=%s;k=%d;sym=%d;rev=%d;w=%s;d=%s;vel=%d;force=%d;set=%s" % (
        c["in"], c["out"], c["k"], c["sym"], c["rev"], ",".join(c["w"]), ",".join(c["d"]) if c["d"] else "-", c["vel"], c["force"], c["set"])


def parsecase(s):
    m = dict(p.split("=", 1) for p in s.split(";")[1:])
    return dict({"in": m["in"]}, out=m["out"], k=int(m["k"]), sym=int(m["sym"]), rev=int(m["rev"]), w=m["w"].split(","),
                d=[] if m["d"] == "-" else m["d"].split(","), vel=int(m["vel"]), force=int(m["force"]), set=m["set"])


def mkd(w, mode):
    gen = ["3", "1", "0.5", "2"]
    if mode == 0:
        return []
    if mode == 1:
        return list(w)
    if mode == 2:
        first = [i for i, x in enumerate(w) if float(x) != 0][0]
        return ["1" if i == first else "0" for i in range(len(w))]
    return ["0" if float(x) == 0 else gen[i] for i, x in enumerate(w)]


def all_cases(thorough):
    defs = [(1, 1, 0, ["1"], 0), (2, 1, 0, ["16", "1"], 0), (2, 1, 1, ["1", "0.5"], 3), (3, 1, 0, ["16", "1", "1"], 0), (3, 3, 0, ["1", "1", "1"], 1),
            (3, 1, 1, ["1", "0.5", "0"], 2), (4, 1, 0, ["12", "1", "1", "1"], 3), (4, 3, 1, ["1", "16", "0.5", "0"], 0)]
    if thorough:
        seen = set((d[0], d[1], d[2], tuple(d[3]), d[4]) for d in defs)
        for k in (1, 2, 3):
            for w in product(["1", "16", "0.5", "0"], repeat=k):
                if sum(float(x) for x in w) == 0:
                    continue
                for mode in range(4):
                    t = (k, 1, 0, tuple(w), mode)
                    if t not in seen:
                        defs.append((k, 1, 0, list(w), mode))
    cases = []
    for (k, sym, rev, w, mode) in defs:
        for fin in ("gro", "dump"):
            for fout in ("gro", "dump"):
                for vel in (0, 1):
                    for force in ((0, 1) if fin == "dump" and fout == "dump" else (0,)):
                        cases.append({"in": fin, "out": fout, "k": k, "sym": sym, "rev": rev, "w": w, "d": mkd(w, mode), "vel": vel, "force": force, "set": "A"})
    for (k, sym, rev, w, mode) in [(2, 1, 0, ["1", "1"], 0), (3, 1, 0, ["16", "1", "1"], 0), (3, 3, 0, ["1", "1", "1"], 0), (2, 1, 0, ["1", "0"], 0)]:
        for fin in ("gro", "dump"):
            for fout in ("gro", "dump"):
                for oset in ("O1", "O2", "O3"):
                    if oset == "O3" and fin != "gro":
                        continue
                    cases.append({"in": fin, "out": fout, "k": k, "sym": sym, "rev": rev, "w": w, "d": [], "vel": 0, "force": 0, "set": oset})
    return cases


def main():
    a = pybsx.parse()
    if a.case:
        fails = run_case(parsecase(a.case))
        if fails:
            for k, w in fails[:5]:
                print("case FAILS: key=%s %s" % (k, w))
            return 3
        print("case holds")
        return 0
    R = pybsx.Report("C01", "csgmap", a.tier)
    R.rule = ("one case = one csg_map run on generated top.xml/map.xml/trajectory: format pairs {gro,dump}x{gro,dump} x --vel x --force (dump->dump) x "
              "8 definitions (k=1..4, sphere/ellipsoid, both parent orders, d absent/=w/one-hot/generic; thorough: + all weight vectors over {1,16,0.5,0}^k, k<=3, x 4 d modes) "
              "x multi-frame trajectory whose box changes every frame (gro: cubic, triclinic, orthorhombic, triclinic with negative limiting tilts, open, cubic; dump: cubic, 2 orthorhombic, open, cubic) "
              "x 7 molecules per frame (compact, on a corner, cut by 1-2 faces, images +-2 boxes away, cut by 3 faces, entirely outside the box, stretched to 0.45 of the shortest height); "
              "plus runs whose last frame holds an over-sized bead (0.6 diagonal in cubic/triclinic, 0.75 along the long axis of an orthorhombic box): csg_map must fail and not write it. "
              "Oracle: exact integer/rational recomputation from the numbers in the input files, tolerance half a unit of the last printed digit. "
              "distinct_nontrivial = distinct (format pair, box, k, symmetry, placement kind, needed unwrapping, flags) classes + rejected-run classes")
    cases = all_cases(a.tier == "thorough")
    for i, c in enumerate(cases):
        if not a.mine(i):
            continue
        R.eval()
        try:
            fails = run_case(c, R)
        except Exception as e:  # unparsable output etc.
            fails = [("exe-output-unreadable-%s-to-%s" % (c["in"], c["out"]), "%s: %s" % (type(e).__name__, e))]
        seenkeys = set()
        for key, what in fails:
            if key in seenkeys:
                R.failcount[key] = R.failcount.get(key, 0) + 1
                continue
            seenkeys.add(key)
            R.fail(key, what + "  [" + casestr(c) + "]", casestr(c))
        if not fails and i % 37 == 3:
            R.sample(casestr(c) + " -> all beads of all frames agree with the recomputation")
    R.assumptions = ["exe: bead positions/velocities/forces of the output are compared; the box line of the output is C08's subject",
                     "exe: --vel/--force are only given when the input file carries the quantity",
                     "exe: generated placements avoid exact half-box ties (checked exactly; tied beads would be skipped and counted)"]
    R.write(a.out)
    return 0


if __name__ == "__main__":
    sys.exit(main())
