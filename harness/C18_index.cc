// C18 (part index) — xtp::IndexParser: index strings ('1 3:5 9') and index vectors convert
// into each other without loss (sorted, duplicate-free).  xtp/src/libxtp/IndexParser.cc is
// compiled into this harness from the source tree.
#include <algorithm>

#include "bsx.h"
#include "votca/xtp/IndexParser.h"

using bsx::Outcome;
using votca::Index;

static std::string enc(const std::string &s) {
  std::string o;
  for (unsigned char c : s) {
    if (isalnum(c) || c == ':' || c == '-' || c == ',' || c == '.') o += (char)c;
    else { char b[8]; snprintf(b, sizeof b, "%%%02X", c); o += b; }
  }
  return o;
}
static std::string dec(const std::string &s) {
  std::string o;
  for (size_t i = 0; i < s.size(); i++) {
    if (s[i] == '%' && i + 2 < s.size()) { o += (char)strtol(s.substr(i + 1, 2).c_str(), nullptr, 16); i += 2; }
    else o += s[i];
  }
  return o;
}
static std::string show(const std::vector<long> &v) {
  std::string s = "[";
  for (size_t i = 0; i < v.size(); i++) s += (i ? "," : "") + std::to_string(v[i]);
  return s + "]";
}
static std::string vis(const std::string &s) {
  std::string o;
  for (char c : s) { if (c == '\n') o += "\\n"; else if (c == '\t') o += "\\t"; else o += c; }
  return o;
}
static std::vector<long> tolong(const std::vector<Index> &v) { return std::vector<long>(v.begin(), v.end()); }

// reference reader of an index string: tokens separated by blank , newline tab; token = int | int:int
struct RefStr { bool wellformed = true, has_empty_range = false; std::set<long> set; };
static bool is_int(const std::string &t) {
  size_t i = 0;
  if (i < t.size() && t[i] == '-') i++;
  if (i == t.size()) return false;
  for (; i < t.size(); i++) if (!isdigit((unsigned char)t[i])) return false;
  return true;
}
static RefStr refread(const std::string &s) {
  RefStr r;
  std::string tok;
  auto flush = [&]() {
    if (tok.empty()) return;
    size_t c = tok.find(':');
    if (c == std::string::npos) {
      if (!is_int(tok)) r.wellformed = false; else r.set.insert(atol(tok.c_str()));
    } else {
      std::string a = tok.substr(0, c), b = tok.substr(c + 1);
      if (!is_int(a) || !is_int(b)) r.wellformed = false;
      else {
        long x = atol(a.c_str()), y = atol(b.c_str());
        if (x > y) r.has_empty_range = true;
        for (long k = x; k <= y; k++) r.set.insert(k);
      }
    }
    tok.clear();
  };
  for (char ch : s) {
    if (ch == ' ' || ch == ',' || ch == '\n' || ch == '\t') flush(); else tok += ch;
  }
  flush();
  return r;
}

static Outcome fail(const std::string &key, const std::string &what, const std::string &cas) {
  Outcome o; o.ok = false; o.key = key; o.what = what + "  [" + cas + "]";
  return o;
}

// vector -> string -> vector
static Outcome v2s_case(const std::vector<long> &v, const std::string &cas, votca::xtp::IndexParser &ip) {
  Outcome o;
  std::set<long> want(v.begin(), v.end());
  std::vector<long> wantv(want.begin(), want.end());
  bool neg = !wantv.empty() && wantv.front() < 0;
  std::string sfx = neg ? "-negative-indices" : "";
  std::vector<Index> in(v.begin(), v.end());
  std::string s = ip.CreateIndexString(in);
  RefStr r = refread(s);
  if (!r.wellformed) return fail("index-string-not-in-grammar" + sfx, "CreateIndexString(" + show(v) + ") = \"" + vis(s) + "\" is not a list of int / int:int tokens", cas);
  if (r.set != want) {
    std::vector<long> g(r.set.begin(), r.set.end());
    return fail("index-vector-to-string-wrong" + sfx, "CreateIndexString(" + show(v) + ") = \"" + vis(s) + "\" denotes " + show(g) + " instead of " + show(wantv), cas);
  }
  std::vector<long> back;
  try { back = tolong(ip.CreateIndexVector(s)); } catch (const std::exception &e) {
    return fail("index-own-string-rejected" + sfx, "CreateIndexVector rejects \"" + vis(s) + "\" written by CreateIndexString: " + e.what(), cas);
  }
  if (back != wantv) return fail("index-roundtrip-differs" + sfx, show(v) + " -> \"" + vis(s) + "\" -> " + show(back) + ", expected " + show(wantv), cas);
  o.extra = show(v) + " -> \"" + vis(s) + "\" -> " + show(back);
  if (!wantv.empty()) o.cls = bsx::fnv("v" + s);
  return o;
}

// string -> vector -> string -> vector
static Outcome s2v_case(const std::string &s, const std::string &cas, votca::xtp::IndexParser &ip) {
  Outcome o;
  RefStr r = refread(s);
  std::vector<long> want(r.set.begin(), r.set.end());
  std::vector<long> got;
  try { got = tolong(ip.CreateIndexVector(s)); } catch (const std::exception &e) {
    if (!r.wellformed || r.has_empty_range) { o.extra = "rejected"; o.cls = bsx::fnv(std::string("rejected")); return o; }
    return fail("index-valid-string-rejected", "CreateIndexVector(\"" + vis(s) + "\") threw: " + e.what(), cas);
  }
  if (!r.wellformed) { o.extra = "unspecified"; return o; }  // the statement says nothing about malformed index strings
  if (got != want) return fail("index-string-to-vector-wrong", "CreateIndexVector(\"" + vis(s) + "\") = " + show(got) + ", denotes " + show(want), cas);
  std::vector<Index> gi(got.begin(), got.end());
  std::string s2 = ip.CreateIndexString(gi);
  std::vector<long> back;
  try { back = tolong(ip.CreateIndexVector(s2)); } catch (const std::exception &e) {
    return fail("index-own-string-rejected", "CreateIndexVector rejects \"" + vis(s2) + "\": " + e.what(), cas);
  }
  if (back != want) return fail("index-roundtrip-differs", "\"" + vis(s) + "\" -> " + show(got) + " -> \"" + vis(s2) + "\" -> " + show(back), cas);
  o.extra = "\"" + vis(s) + "\" -> " + show(got) + " -> \"" + vis(s2) + "\"";
  if (!want.empty()) o.cls = bsx::fnv("s" + show(got));
  return o;
}

static std::vector<long> parse_list(const std::string &t) {
  std::vector<long> v;
  if (!t.empty()) for (auto &x : bsx::split(t, ',')) v.push_back(atol(x.c_str()));
  return v;
}
// reuse history: ONE IndexParser object serves several calls in a row; every call must give what a
// fresh object gives (the reference), i.e. nothing leaks from one call into the next
static Outcome iseq_case(const std::string &ops, const std::string &cas) {
  votca::xtp::IndexParser ip;
  Outcome last;
  std::string trace;
  int k = 0;
  for (auto &op : bsx::split(ops, '/')) {
    Outcome o = op[0] == 'V' ? v2s_case(parse_list(op.substr(2)), cas, ip) : s2v_case(dec(op.substr(2)), cas, ip);
    if (!o.ok) {
      if (k > 0) { o.key = "index-reuse-call-" + std::string(op[0] == 'V' ? "CreateIndexString" : "CreateIndexVector") + "-after-earlier-calls"; o.what = "call #" + std::to_string(k + 1) + " on a reused IndexParser: " + o.what; }
      return o;
    }
    trace += (k ? " ; " : "") + o.extra;
    last = o; k++;
  }
  last.extra = trace;
  last.cls = bsx::fnv("seq" + trace);
  return last;
}

static Outcome run_case(const std::string &cas) {
  auto m = bsx::kvs(cas);
  votca::xtp::IndexParser ip;
  if (cas.rfind("iseq;", 0) == 0) return iseq_case(m["ops"], cas);
  if (m["dir"] == "v2s") return v2s_case(parse_list(m["v"]), cas, ip);
  if (m["dir"] == "s2v") return s2v_case(dec(m["s"]), cas, ip);
  Outcome o; o.ok = false; o.key = "bad-case"; o.what = "unknown case " + cas;
  return o;
}

static std::string vcase(const std::vector<long> &v) {
  std::string s = "idx;dir=v2s;v=";
  for (size_t i = 0; i < v.size(); i++) s += (i ? "," : "") + std::to_string(v[i]);
  return s;
}

int main(int argc, char **argv) {
  bsx::Args a = bsx::parse(argc, argv);
  if (a.has_case) {
    Outcome o;
    bsx::contained(0, 1, [&](long long) { return run_case(a.cas); }, [&](long long, const Outcome &r) { o = r; }, 30);
    if (o.ok) { printf("case holds\n"); return 0; }
    printf("case FAILS: key=%s %s\n", o.key.c_str(), o.what.c_str());
    return 3;
  }
  bool thorough = a.tier == "thorough";
  bsx::Report R;
  R.property = "C18"; R.part = "index"; R.tier = a.tier;
  std::vector<std::string> cases;
  // (1) all subsets of {0..n-1} as sorted vectors
  int nset = thorough ? 16 : 10;
  for (long mask = 0; mask < (1L << nset); mask++) {
    std::vector<long> v;
    for (int k = 0; k < nset; k++) if (mask >> k & 1) v.push_back(k);
    cases.push_back(vcase(v));
  }
  // subsets of a window with negative numbers
  for (long mask = 1; mask < (1L << 10); mask++) {
    std::vector<long> v;
    for (int k = 0; k < 10; k++) if (mask >> k & 1) v.push_back(k - 3);
    cases.push_back(vcase(v));
  }
  // all subsets of a set with multi-digit ids (runs across 9|10, 99|100, 999|1000)
  if (thorough) {
    const long ids[14] = {7, 8, 9, 10, 11, 12, 98, 99, 100, 101, 102, 999, 1000, 1001};
    for (long mask = 1; mask < (1L << 14); mask++) {
      std::vector<long> v;
      for (int k = 0; k < 14; k++) if (mask >> k & 1) v.push_back(ids[k]);
      cases.push_back(vcase(v));
    }
  }
  // (2) all unsorted vectors with duplicates
  {
    int len = thorough ? 5 : 4, base = thorough ? 7 : 6;
    std::vector<std::vector<long>> cur{{}};
    for (int l = 1; l <= len; l++) {
      std::vector<std::vector<long>> nx;
      for (auto &v : cur) for (long d = 0; d < base; d++) { auto w = v; w.push_back(d); nx.push_back(w); }
      for (auto &v : nx) { bool sorted_unique = true; for (size_t i = 1; i < v.size(); i++) if (v[i] <= v[i - 1]) sorted_unique = false; if (!sorted_unique) cases.push_back(vcase(v)); }
      cur.swap(nx);
    }
  }
  // (3) index strings: all token lists over {i, i:j}
  {
    int w = thorough ? 7 : 5;
    std::vector<std::string> T;
    for (int i = 0; i < w; i++) T.push_back(std::to_string(i));
    for (int i = 0; i < w; i++) for (int j = 0; j < w; j++) T.push_back(std::to_string(i) + ":" + std::to_string(j));
    std::vector<std::string> seps = {" ", ",", "\n", "\t", ", ", "  "};
    auto add = [&](const std::string &s) { cases.push_back("idx;dir=s2v;s=" + enc(s)); };
    add(""); add(" "); add(" \n");
    for (auto &t : T) { add(t); add(" " + t + " "); add(t + "\n"); }
    for (auto &x : T) for (auto &y : T) for (auto &sp : seps) add(x + sp + y);
    for (auto &x : T) for (auto &y : T) for (auto &z : T) { add(x + " " + y + " " + z); }
    for (size_t i = 0; i < T.size(); i++) for (size_t j = 0; j < T.size(); j++) for (size_t k = 0; k < T.size(); k += 3) add(T[i] + ",\n" + T[j] + "\t " + T[k]);
    // with a window that has two-digit and negative numbers
    for (auto &x : std::vector<std::string>{"9:11", "10", "-2:1", "-1", "99:101", "12 10 11"}) for (auto &y : T) { add(x + " " + y); add(y + "," + x); }
    if (thorough) {
      // multi-digit tokens: all pairs over a window that crosses 9|10 and 99|100
      std::vector<std::string> M;
      const long ids[8] = {8, 9, 10, 11, 98, 99, 100, 101};
      for (long i : ids) M.push_back(std::to_string(i));
      for (long i : ids) for (long j : ids) M.push_back(std::to_string(i) + ":" + std::to_string(j));
      for (auto &x : M) for (auto &y : M) { add(x + " " + y); add(x + ",\t" + y); }
    }
  }
  R.rule = "IndexParser: vector->string->vector for all subsets of {0.." + std::to_string(nset - 1) + "}, all non-empty subsets of {-3..6}" + std::string(thorough ? " and of the multi-digit id set {7..12,98..102,999..1001}" : "") + ", all unsorted/duplicated vectors of length <= " +
           std::string(thorough ? "5 over {0..6}" : "4 over {0..5}") + "; string->vector->string->vector for all lists of <= 3 tokens over {i, i:j | i,j < " + std::string(thorough ? "7" : "5") +
           "} joined by every separator of {' ', ',', '\\n', '\\t', ', ', '  '} (two tokens) or ' ' / mixed separators (three tokens)" + std::string(thorough ? "; all pairs of multi-digit tokens over {8..11,98..101}" : "") + ". Oracle: an independent reader of the "
           "string grammar (the produced string must DENOTE the set, checked without the code's own parser) and set semantics (sorted, duplicate free). "
           "Reuse: all ordered pairs (thorough: triples) of 8 base calls on ONE IndexParser object, every call compared with the reference (no leakage between calls). "
           "distinct = distinct produced strings / result vectors / call traces";
  // (4) reuse histories: all ordered pairs (thorough: triples) of 8 base calls on ONE IndexParser object
  {
    std::vector<std::string> B = {"V:", "V:3,1,2", "V:5,5,9", "V:0,1,2,3,7", "S:" + enc("1 3:5 9"), "S:", "S:" + enc("7,8\n2"), "S:" + enc("10:12 11")};
    for (auto &x : B) for (auto &y : B) {
      cases.push_back("iseq;ops=" + x + "/" + y);
      if (thorough) for (auto &z : B) cases.push_back("iseq;ops=" + x + "/" + y + "/" + z);
    }
  }
  std::vector<long long> mineidx;
  for (long long i = 0; i < (long long)cases.size(); i++) if (a.mine(i)) mineidx.push_back(i);
  int attributed = 0;
  // a case string as the op list of a reuse history (the last op of a history for iseq cases)
  auto as_op = [](const std::string &c) -> std::string {
    auto m = bsx::kvs(c);
    if (c.rfind("iseq;", 0) == 0) return m["ops"];
    return m["dir"] == "v2s" ? "V:" + m["v"] : "S:" + m["s"];
  };
  bsx::contained(
      0, (long long)mineidx.size(), [&](long long k) { return run_case(cases[mineidx[k]]); },
      [&](long long k, const Outcome &o) {
        const std::string &cas = cases[mineidx[k]];
        R.eval();
        R.counters[cas.rfind("iseq;", 0) == 0 ? "reuse_histories" : cas.find("dir=v2s") != std::string::npos ? "vector_to_string_cases" : "string_to_vector_cases"]++;
        if (!o.ok && o.key != "fatal") {
          // Is the failure a property of this case alone?  Re-evaluate it in a fresh process; if it holds there, the code
          // under test carries state from earlier calls IN THE SAME PROCESS (e.g. a static buffer that is not cleared):
          // reproduce that deterministically as a two-call history <previous case> / <this case> on one object.
          Outcome alone;
          bsx::contained(0, 1, [&](long long) { return run_case(cas); }, [&](long long, const Outcome &r) { alone = r; }, 20);
          if (alone.ok) {
            if (attributed >= 20 || k == 0) { R.counters["order_dependent_failures_not_attributed"]++; return; }
            attributed++;
            std::string hist = "iseq;ops=" + as_op(cases[mineidx[k - 1]]) + "/" + as_op(cas);
            Outcome h;
            bsx::contained(0, 1, [&](long long) { return run_case(hist); }, [&](long long, const Outcome &r) { h = r; }, 20);
            if (!h.ok) { R.fail(h.key == "fatal" ? "index-crash" : h.key, h.what, hist); return; }
            R.fail("index-order-dependent-unattributed", "fails after the earlier cases of this shard but neither alone nor after its predecessor: " + o.what, cas);
            return;
          }
        }
        if (!o.ok) { R.fail(o.key == "fatal" ? "index-crash" : o.key, o.what + (o.key == "fatal" ? "  [" + cas + "]" : ""), cas); return; }
        if (o.cls) R.cls(o.cls);
        if (o.cls && o.extra != "rejected" && R.samples.size() < 6 && (k % 397) == 101) R.sample(o.extra);
      }, 20);
  R.assumptions = {"a token i:j with i>j denotes nothing; accepting it (contributing nothing) or rejecting it are both allowed",
                   "the statement does not say what happens to malformed index strings; none are asserted",
                   "the produced string need not be the shortest run-length form, it must denote exactly the set"};
  if (!R.write(a.out)) { fprintf(stderr, "cannot write %s\n", a.out.c_str()); return 2; }
  return 0;
}
