// C18 (part glob) — wildcard matching and bead selection denote exactly what they say.
//  * tools::wildcmp (both overloads) against a dynamic-programming glob matcher on the
//    complete product  patterns x strings  over small alphabets,
//  * csg::BeadList::Generate(top, "<pattern>") / (top, "name:<pattern>") on a fixed 6-bead
//    topology whose bead names and bead types are different permutations of the same words,
//    against direct enumeration with the reference matcher.
#include <memory>
#include <stdexcept>

#include "bsx.h"
#include "votca/csg/beadlist.h"
#include "votca/csg/topology.h"
#include "votca/tools/tokenizer.h"

using bsx::Outcome;

// ---------------------------------------------------------------- reference matcher
// dp[i][j] == pattern[0,i) matches string[0,j).  '*' = any run (possibly empty),
// '?' = exactly one character, everything else literal.
static bool refmatch(const std::string &p, const std::string &s) {
  size_t n = p.size(), m = s.size();
  if (n > 15 || m > 23) throw std::runtime_error("refmatch: input longer than the enumerated universes");
  char dp[16][24];
  for (size_t j = 0; j <= m; j++) dp[0][j] = 0;
  dp[0][0] = 1;
  for (size_t i = 1; i <= n; i++) {
    char c = p[i - 1];
    for (size_t j = 0; j <= m; j++) {
      bool v;
      if (c == '*') v = dp[i - 1][j] || (j > 0 && dp[i][j - 1]);
      else if (c == '?') v = j > 0 && dp[i - 1][j - 1];
      else v = j > 0 && dp[i - 1][j - 1] && s[j - 1] == c;
      dp[i][j] = v;
    }
  }
  return dp[n][m];
}

static std::vector<std::string> words(const std::string &alpha, int maxlen) {
  std::vector<std::string> r{""};
  size_t lo = 0;
  for (int l = 1; l <= maxlen; l++) {
    size_t hi = r.size();
    for (size_t k = lo; k < hi; k++)
      for (char c : alpha) r.push_back(r[k] + c);
    lo = hi;
  }
  return r;  // ordered by length, simplest first
}

static std::string starclass(const std::string &p) {
  int n = 0;
  for (char c : p) n += c == '*';
  if (n == 0) return "no-star";
  if (n == 1) return p.back() == '*' ? "trailing-star" : "one-star";
  return "multi-star";
}

// exact-size heap copy: with tokenizer.cc compiled into this harness under ASan, any read
// of wildcmp beyond the terminating NUL hits a red zone and is reported deterministically
struct Heap {
  std::unique_ptr<char[]> p;
  explicit Heap(const std::string &s) : p(new char[s.size() + 1]) { memcpy(p.get(), s.c_str(), s.size() + 1); }
  const char *c() const { return p.get(); }
};

// one (pattern,string) pair; hot path without allocations: 0 = agrees, 1 = overloads disagree, 2 = wrong answer
static inline int wild_check(const std::string &p, const std::string &s, const char *hp, const char *hs, bool &exp, int &g1, int &g2) {
  exp = refmatch(p, s);
  g2 = votca::tools::wildcmp(hp, hs);  // first: an out-of-bounds read dies here, before anything depends on it
  g1 = votca::tools::wildcmp(p, s);
  if ((g1 != 0) != (g2 != 0)) return 1;
  return ((g1 != 0) != exp) ? 2 : 0;
}
static Outcome wild_one(const std::string &p, const std::string &s, const char *hp = nullptr, const char *hs = nullptr) {
  Outcome o;
  std::unique_ptr<Heap> own_p, own_s;
  if (!hp) { own_p.reset(new Heap(p)); hp = own_p->c(); }
  if (!hs) { own_s.reset(new Heap(s)); hs = own_s->c(); }
  bool exp; int g1, g2;
  int rc = wild_check(p, s, hp, hs, exp, g1, g2);
  if (rc == 0) return o;
  std::string cas = "wild;p=" + p + ";s=" + s;
  o.ok = false; o.extra = cas;
  if (rc == 1) {
    o.key = "wildcmp-overloads-disagree";
    o.what = "wildcmp(string,string)=" + std::to_string(g1) + " but wildcmp(char*,char*)=" + std::to_string(g2) + " [" + cas + "]";
  } else {
    o.key = std::string("wildcmp-") + (exp ? "false-negative-" : "false-positive-") + starclass(p);
    o.what = "wildcmp(\"" + p + "\",\"" + s + "\") = " + std::to_string(g1) + ", glob meaning says " + (exp ? "match" : "no match");
  }
  return o;
}

// one pattern against the whole string universe; extra = "<nmatch>" or the failing single case
struct Universe { std::string name, palpha, salpha; int plen, slen; };
static Outcome wild_pattern(const std::string &p, const std::vector<std::string> &S, const std::vector<Heap> &HS) {
  Outcome o;
  uint64_t h = 1469598103934665603ull;
  long nm = 0;
  Heap hp(p);
  for (size_t k = 0; k < S.size(); k++) {
    bool m; int g1, g2;
    if (wild_check(p, S[k], hp.c(), HS[k].c(), m, g1, g2) != 0) return wild_one(p, S[k], hp.c(), HS[k].c());  // first (shortest) failing string
    nm += m;
    h = (h ^ (unsigned char)(m ? '1' : '0')) * 1099511628211ull;
  }
  o.extra = std::to_string(nm);
  if (nm > 0 && nm < (long)S.size()) o.cls = h;  // the match set restricted to the universe
  return o;
}

// ---------------------------------------------------------------- bead selection
struct BTop { std::vector<std::string> name, type; };
static const std::vector<BTop> &btops() {
  static const std::vector<BTop> T = {
      // 0: names and types are different permutations of the same six words
      {{"a", "ab", "b", "ba", "aab", "bb"}, {"b", "a", "ab", "bb", "ba", "aab"}},
      // 1: three letters
      {{"c", "ac", "ca", "abc", "cab", "bc", "a", "cc"}, {"abc", "c", "a", "cc", "ac", "ca", "cab", "bc"}},
      // 2: repeated names / types (several beads per value, order of the result matters), longer words
      {{"a", "a", "ab", "ab", "aba", "abab", "b", "bab", "ababa"}, {"ab", "b", "a", "aba", "ab", "a", "abab", "a", "b"}}};
  return T;
}

static Outcome bead_case(int topi, const std::string &mode, const std::string &p) {
  using namespace votca::csg;
  Outcome o;
  std::string cas = "bead;top=" + std::to_string(topi) + ";mode=" + mode + ";p=" + p;
  if (topi < 0 || topi >= (int)btops().size()) { o.ok = false; o.key = "bad-case"; o.what = "unknown topology"; return o; }
  const BTop &B = btops()[topi];
  const int nb = (int)B.name.size();
  Topology top;
  top.CreateResidue("res");
  for (int i = 0; i < nb; i++) {
    if (!top.BeadTypeExist(B.type[i])) top.RegisterBeadType(B.type[i]);
    top.CreateBead(Bead::spherical, B.name[i], B.type[i], 0, 1.0, 0.0);
  }
  std::vector<long> exp;
  for (int i = 0; i < nb; i++)
    if (refmatch(p, mode == "name" ? B.name[i] : B.type[i])) exp.push_back(i);
  BeadList bl;
  votca::Index n = bl.Generate(top, (mode == "name" ? "name:" : "") + p);
  std::vector<long> got;
  for (Bead *b : bl) got.push_back((long)b->getId());
  auto show = [](const std::vector<long> &v) {
    std::string s = "{";
    for (long x : v) s += std::to_string(x) + " ";
    return s + "}";
  };
  if (got != exp) {
    o.ok = false; o.key = "beadlist-" + mode + "-selection-wrong";
    o.what = "Generate(\"" + std::string(mode == "name" ? "name:" : "") + p + "\") selected bead ids " + show(got) + ", expected " + show(exp) + " [" + cas + "]";
    return o;
  }
  if ((long)n != (long)exp.size() || (long)bl.size() != (long)exp.size()) {
    o.ok = false; o.key = "beadlist-count-mismatch";
    o.what = "Generate returned " + std::to_string(n) + " for " + std::to_string(exp.size()) + " selected beads [" + cas + "]";
    return o;
  }
  o.extra = show(got);
  if (!exp.empty() && (int)exp.size() < nb) o.cls = bsx::fnv(std::to_string(topi) + mode + show(got));
  return o;
}

// reuse history on ONE BeadList (and one Topology). ops separated by ',':  G:<mode>:<pattern> = Generate on the same
// list;  B:<name>:<type> = the topology gains a bead.  Contract read from beadlist.cc: Generate never clears, it
// APPENDS the matching beads (topology order at the time of the call) and returns the total size of the list.
static Outcome beadseq_case(int topi, const std::string &ops) {
  using namespace votca::csg;
  Outcome o;
  std::string cas = "beadseq;top=" + std::to_string(topi) + ";ops=" + ops;
  if (topi < 0 || topi >= (int)btops().size()) { o.ok = false; o.key = "bad-case"; o.what = "unknown topology"; return o; }
  BTop B = btops()[topi];
  Topology top;
  top.CreateResidue("res");
  for (size_t i = 0; i < B.name.size(); i++) {
    if (!top.BeadTypeExist(B.type[i])) top.RegisterBeadType(B.type[i]);
    top.CreateBead(Bead::spherical, B.name[i], B.type[i], 0, 1.0, 0.0);
  }
  BeadList bl;
  std::vector<long> exp;
  bool grown = false;
  int ngen = 0;
  auto show = [](const std::vector<long> &v) {
    std::string s = "{";
    for (long x : v) s += std::to_string(x) + " ";
    return s + "}";
  };
  for (auto &op : bsx::split(ops, ',')) {
    auto f = bsx::split(op, ':');
    if (f.size() != 3) { o.ok = false; o.key = "bad-case"; o.what = "bad op " + op; return o; }
    if (f[0] == "B") {
      if (!top.BeadTypeExist(f[2])) top.RegisterBeadType(f[2]);
      top.CreateBead(Bead::spherical, f[1], f[2], 0, 1.0, 0.0);
      B.name.push_back(f[1]); B.type.push_back(f[2]);
      grown = true;
      continue;
    }
    for (size_t i = 0; i < B.name.size(); i++)
      if (refmatch(f[2], f[1] == "name" ? B.name[i] : B.type[i])) exp.push_back((long)i);
    votca::Index n = bl.Generate(top, (f[1] == "name" ? "name:" : "") + f[2]);
    ngen++;
    std::vector<long> got;
    for (Bead *b : bl) got.push_back((long)b->getId());
    std::string cls = std::string(ngen > 1 ? "repeated-generate" : "first-generate") + (grown ? "-after-topology-growth" : "");
    if (got != exp) {
      o.ok = false; o.key = "beadlist-reuse-" + cls + "-wrong";
      o.what = "after op " + op + " (Generate #" + std::to_string(ngen) + " on the same BeadList) the list holds bead ids " + show(got) + ", expected the appended selections " + show(exp) + " [" + cas + "]";
      return o;
    }
    if ((long)n != (long)exp.size() || (long)bl.size() != (long)exp.size() || &bl.getTopology() != &top) {
      o.ok = false; o.key = "beadlist-reuse-" + cls + "-count-mismatch";
      o.what = "after op " + op + " Generate returned " + std::to_string(n) + ", size() " + std::to_string(bl.size()) + ", list should hold " + std::to_string(exp.size()) + " [" + cas + "]";
      return o;
    }
  }
  o.extra = show(exp);
  if (!exp.empty()) o.cls = bsx::fnv("seq" + std::to_string(topi) + ops + show(exp));
  return o;
}

static Outcome run_case(const std::string &cas) {
  auto m = bsx::kvs(cas);
  if (cas.rfind("wild;", 0) == 0) return wild_one(m["p"], m["s"]);
  if (cas.rfind("beadseq;", 0) == 0) return beadseq_case(atoi(m["top"].c_str()), m["ops"]);
  if (cas.rfind("bead;", 0) == 0) return bead_case(atoi(m["top"].c_str()), m["mode"], m["p"]);
  Outcome o; o.ok = false; o.key = "bad-case"; o.what = "unknown case " + cas;
  return o;
}

int main(int argc, char **argv) {
  bsx::Args a = bsx::parse(argc, argv);
  if (a.has_case) {
    Outcome o;
    bsx::contained(0, 1, [&](long long) { return run_case(a.cas); }, [&](long long, const Outcome &r) { o = r; }, 30);
    if (o.ok) { printf("case holds\n"); return 0; }
    printf("case FAILS: key=%s %s\n", o.key.c_str(), o.what.c_str());
    return 3;
  }
  bool thorough = a.tier == "thorough";
  bsx::Report R;
  R.property = "C18"; R.part = "glob"; R.tier = a.tier;
  std::vector<Universe> U;
  U.push_back({"ab", "ab*?", "ab", 5, 6});
  U.push_back({"literal-metachars", "a*?", "a*?", 4, 4});  // '*' and '?' occurring in the subject string
  if (thorough) {
    U.push_back({"abc", "abc*?", "abc", 7, 9});        // third letter, longer patterns and strings
    U.push_back({"abcd", "abcd*?", "abcd", 5, 7});     // fourth letter
    U.push_back({"abcd-p6", "abcd*?", "abcd", 6, 6});  // fourth letter, longer patterns
    U.push_back({"ab-long", "ab*?", "ab", 9, 11});     // longer patterns and strings over two letters
    U.push_back({"stars", "a*?", "ab", 9, 12});        // many stars / question marks
    U.push_back({"long-literal", "ab*", "ab", 9, 13}); // long literal runs between stars
  }
  R.rule = "wildcmp: complete product patterns x strings per universe (pattern alphabet/max length x string alphabet/max length): ";
  for (auto &u : U) R.rule += "[" + u.palpha + "]<=" + std::to_string(u.plen) + " x [" + u.salpha + "]<=" + std::to_string(u.slen) + "; ";
  R.rule += "both overloads, oracle = DP glob matcher; distinct = distinct non-trivial match sets (pattern language restricted to the universe). "
            "BeadList::Generate: " + std::string(thorough ? "all patterns of length <= 5 over {a,b,*,?} and <= 4 over {a,b,c,*,?} on 3 topologies (6 beads two letters; 8 beads three letters; 9 beads with repeated names/types)"
                                                            : "all patterns of length <= 3 over {a,b,*,?} on a 6-bead topology (names/types are different permutations of {a,b,ab,ba,aab,bb})") +
            ", each as type pattern and as 'name:' pattern; oracle = reference matcher over the beads in topology order; reuse histories: all ordered pairs (thorough: triples on 2 topologies) over 8 selections and 2 topology-growth ops on ONE BeadList, the list must hold the concatenated selections; distinct = distinct non-trivial selections / histories";

  long long gi = 0;
  for (auto &u : U) {
    std::vector<std::string> P = words(u.palpha, u.plen), S = words(u.salpha, u.slen);
    std::vector<Heap> HS;
    for (auto &s : S) HS.emplace_back(s);
    int ncrash = 0;  // patterns on which the process died (set in the parent, seen by the next forked child)
    std::vector<long long> mineidx;
    for (long long i = 0; i < (long long)P.size(); i++) if (a.mine(gi++)) mineidx.push_back(i);
    bsx::contained(
        0, (long long)mineidx.size(), [&](long long k) { return ncrash >= 12 ? Outcome() : wild_pattern(P[mineidx[k]], S, HS); },
        [&](long long k, const Outcome &o) {
          const std::string &p = P[mineidx[k]];
          if (ncrash >= 12) { R.cap("universe " + u.name + ": stopped after 12 patterns on which wildcmp died (each is reported)"); return; }
          if (!o.ok && o.key == "fatal") ncrash++;
          R.counters["wild_patterns"]++;
          if (o.ok) {
            R.eval((long long)S.size());
            if (o.cls) R.cls(o.cls);
            if (R.samples.size() < 3 && p.size() >= 4 && starclass(p) == "multi-star" && o.extra != "0")
              R.sample("wildcmp pattern \"" + p + "\" over universe " + u.name + ": " + o.extra + " of " + std::to_string(S.size()) + " strings match, all as the reference says");
            return;
          }
          if (o.key != "fatal") { R.eval(); R.fail(o.key, o.what, o.extra); return; }
          // the process died somewhere in this pattern: find the exact string
          bool found = false;  // only the first (shortest) failing string of a dying pattern is searched for
          bsx::contained(
              0, (long long)S.size(), [&](long long j) { return found ? Outcome() : wild_one(p, S[j]); },
              [&](long long j, const Outcome &r) {
                if (found) return;
                R.eval();
                if (r.ok) return;
                found = true;
                std::string cas = "wild;p=" + p + ";s=" + S[j];
                if (r.key == "fatal") R.fail("wildcmp-crash-" + starclass(p), "wildcmp(\"" + p + "\",\"" + S[j] + "\"): " + r.what, cas);
                else R.fail(r.key, r.what, cas);
              }, 30);
        }, 60);
  }
  // bead selection
  {
    struct BC { int top; std::string mode, p; };
    std::vector<BC> C;
    if (!thorough) {
      for (auto &p : words("ab*?", 3)) { C.push_back({0, "type", p}); C.push_back({0, "name", p}); }
    } else {
      std::vector<std::string> P = words("ab*?", 5);
      for (auto &p : words("abc*?", 4)) if (p.find('c') != std::string::npos) P.push_back(p);
      for (int t = 0; t < (int)btops().size(); t++)
        for (auto &p : P) { C.push_back({t, "type", p}); C.push_back({t, "name", p}); }
    }
    std::vector<long long> mineidx;
    for (long long i = 0; i < (long long)C.size(); i++) if (a.mine(i)) mineidx.push_back(i);
    bsx::contained(
        0, (long long)mineidx.size(), [&](long long k) { return bead_case(C[mineidx[k]].top, C[mineidx[k]].mode, C[mineidx[k]].p); },
        [&](long long k, const Outcome &o) {
          auto &c = C[mineidx[k]];
          std::string cas = "bead;top=" + std::to_string(c.top) + ";mode=" + c.mode + ";p=" + c.p;
          R.eval(); R.counters["bead_cases"]++;
          if (!o.ok) { R.fail(o.key == "fatal" ? "beadlist-" + c.mode + "-crash" : o.key, o.what + (o.key == "fatal" ? " [" + cas + "]" : ""), cas); return; }
          if (o.cls) R.cls(o.cls);
          if (R.samples.size() < 6 && o.cls && c.p.size() == 3 && c.p.find('*') != std::string::npos)
            R.sample("topology " + std::to_string(c.top) + ": Generate(\"" + std::string(c.mode == "name" ? "name:" : "") + c.p + "\") -> bead ids " + o.extra);
        }, 30);
  }
  // bead list reuse histories: all ordered pairs (thorough: triples, two topologies) over 8 selections and 2 topology-growth ops
  {
    std::vector<std::string> B = {"G:type:a*", "G:type:*b", "G:type:?", "G:type:*", "G:name:a*", "G:name:b", "G:name:??", "G:type:zz", "B:ab:b", "B:zz:a"};
    std::vector<std::pair<int, std::string>> C;
    for (int t : (thorough ? std::vector<int>{0, 2} : std::vector<int>{0}))
      for (auto &x : B) for (auto &y : B) {
        C.push_back({t, x + "," + y});
        if (thorough) for (auto &z : B) C.push_back({t, x + "," + y + "," + z});
      }
    std::vector<long long> mineidx;
    for (long long i = 0; i < (long long)C.size(); i++) if (a.mine(i)) mineidx.push_back(i);
    bsx::contained(
        0, (long long)mineidx.size(), [&](long long k) { return beadseq_case(C[mineidx[k]].first, C[mineidx[k]].second); },
        [&](long long k, const Outcome &o) {
          auto &c = C[mineidx[k]];
          std::string cas = "beadseq;top=" + std::to_string(c.first) + ";ops=" + c.second;
          R.eval(); R.counters["bead_reuse_histories"]++;
          if (!o.ok) { R.fail(o.key == "fatal" ? "beadlist-reuse-crash" : o.key, o.what + (o.key == "fatal" ? " [" + cas + "]" : ""), cas); return; }
          if (o.cls) R.cls(o.cls);
          if (R.samples.size() < 8 && o.cls && (k % 23) == 7) R.sample(cas + " -> list " + o.extra);
        }, 30);
  }
  R.assumptions = {"BeadList::Generate appends to the list and returns its total size (read from beadlist.cc: beads_ is never cleared); a history of Generate calls on one list must hold exactly the concatenated selections",
                   "glob meaning: '*' any run incl. empty, '?' exactly one character, all other characters literal (a '*' or '?' in the subject string is an ordinary character)",
                   "tokenizer.cc is compiled into the harness with ASan/UBSan and wildcmp is called on exact-size heap copies, so a read past the terminating NUL is a (deterministic) failure",
                   "the quantifier's 'random longer ones' is replaced by exhaustive longer universes over smaller alphabets (thorough tier); no sampling is used",
                   "a selection string starting with 'name:' always means name selection (the code's convention); bead types starting with 'name:' are not selectable and not enumerated"};
  if (!R.write(a.out)) { fprintf(stderr, "cannot write %s\n", a.out.c_str()); return 2; }
  return 0;
}
