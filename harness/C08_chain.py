#!/usr/bin/env python3
"""C08 (part chain) — format conversions a -> b -> a with `csg_map --no-map` in fresh processes.

The source file (gro, or lammps dump with velocities and forces) is written by this script on
the print lattice of format a (3/4/5 decimals for gro, 6 for dump).  Every intermediate format
b used here prints at least one more digit than a, so the file that comes back in format a must
hold *the same decimal numbers* as the source (positions, velocities, forces, box, frame
count/order, atom names).  Keys: a failure whose artefact shows an already classified defect of
part trj (blank line in the xyz file, 54-column ATOM records, 3-number box line of a triclinic
gro frame, transposed dlpoly cell) carries that key; anything else is chain-<a>-<b>-<symptom>.
"""
import os, subprocess, sys
sys.path.insert(0, os.path.join(os.environ.get("VERIF_ROOT", "/verif"), "lib"))
import pybsx

NAMES = ["A", "BC12", "DEFGH"]
RES = ["R", "RS", "RST"]
# coordinate lattices (nm, 3 decimals / nm/ps, 4 decimals) incl. +-1 unit and the 8-column limits of gro
P = [0.0, 0.001, -0.001, 1.235, -1.235, 0.5, 99.999, -9.999, 0.003]
V = [0.0, 0.0001, -0.0001, 1.2346, -0.1235, 0.5, 99.9999, -9.9999, 0.0003]
# dump lattices: Angstrom / Angstrom/ps / kcal/mol/Angstrom with 6 decimals
PD = [0.0, 0.000001, -0.000001, 12.345679, -12.345679, 5.0, 12345.678901, -1234.567890, 0.000003]
FD = [0.0, 0.000001, -0.000001, 123.456789, -12.345679, 0.5, 1234.567890, -987.654321, 0.000100]
BOX = {0: [[3.0, 0, 0], [0, 4.5, 0], [0, 0, 6.25]],
       1: [[3.0, 0.5, -0.25], [0, 4.5, 1.125], [0, 0, 6.25]],          # columns = box vectors (gromacs lower-triangular form)
       2: [[3.0, 0.5, -0.25], [0.125, 4.5, 1.125], [-0.375, 0.0625, 6.25]]}


def pick(A, pat, f, b, d, shift=0):
    return A[(pat + 3 * b + d + 4 * f + shift) % len(A)]


def boxof(bid, f):
    s = 1.0 + 0.5 * f  # keeps every element on the 5-decimal lattice of the gro box line
    return [[x * s for x in row] for row in BOX[bid]]


def frames(c, dump=False):
    fr = []
    for f in range(c["nf"]):
        pos = [[pick(PD if dump else P, c["pat"], f, b, d) for d in range(3)] for b in range(c["nb"])]
        vel = [[pick(PD if dump else V, c["pat"], f, b, d, 2) for d in range(3)] for b in range(c["nb"])]
        frc = [[pick(FD, c["pat"], f, b, d, 5) for d in range(3)] for b in range(c["nb"])]
        fr.append(dict(pos=pos, vel=vel, frc=frc, box=boxof(c["box"], f)))
    return fr


def write_gro(fn, c, fr):
    with open(fn, "w") as o:
        for F in fr:
            o.write("generated\n%5d\n" % c["nb"])
            for b in range(c["nb"]):
                o.write("%5d%-5s%5s%5d" % (b + 1, RES[b % 3], NAMES[b % 3], b + 1))
                o.write("%8.3f%8.3f%8.3f" % tuple(F["pos"][b]))
                if c["vel"]:
                    o.write("%8.4f%8.4f%8.4f" % tuple(F["vel"][b]))
                o.write("\n")
            B = F["box"]
            if c["box"] == 0:
                o.write("%10.5f%10.5f%10.5f\n" % (B[0][0], B[1][1], B[2][2]))
            else:
                o.write("%10.5f%10.5f%10.5f%10.5f%10.5f%10.5f%10.5f%10.5f%10.5f\n" %
                        (B[0][0], B[1][1], B[2][2], B[1][0], B[2][0], B[0][1], B[2][1], B[0][2], B[1][2]))


def read_gro(fn):
    L = open(fn).read().split("\n")
    i, out = 0, []
    while i + 1 < len(L) and L[i + 1].strip():
        n = int(L[i + 1])
        F = dict(pos=[], vel=[], names=[], res=[])
        for k in range(n):
            l = L[i + 2 + k]
            F["res"].append(l[5:10].strip()); F["names"].append(l[10:15].strip())
            F["pos"].append([float(l[20:28]), float(l[28:36]), float(l[36:44])])
            if len(l) >= 68:
                F["vel"].append([float(l[44:52]), float(l[52:60]), float(l[60:68])])
        t = [float(x) for x in L[i + 2 + n].split()]
        B = [[0.0] * 3 for _ in range(3)]
        B[0][0], B[1][1], B[2][2] = t[0], t[1], t[2]
        if len(t) == 9:
            B[1][0], B[2][0], B[0][1], B[2][1], B[0][2], B[1][2] = t[3:9]
        F["box"] = B
        out.append(F)
        i += 3 + n
    return out


def write_dump(fn, c, fr):
    with open(fn, "w") as o:
        for f, F in enumerate(fr):
            B = F["box"]
            o.write("ITEM: TIMESTEP\n%d\nITEM: NUMBER OF ATOMS\n%d\nITEM: BOX BOUNDS pp pp pp\n" % (f + 1, c["nb"]))
            o.write("0 %f\n0 %f\n0 %f\n" % (B[0][0] * 10, B[1][1] * 10, B[2][2] * 10))
            o.write("ITEM: ATOMS id type x y z vx vy vz fx fy fz\n")
            for b in range(c["nb"]):
                o.write("%d %d" % (b + 1, b % 2 + 1))
                o.write(" %f %f %f" % tuple(F["pos"][b]))
                o.write(" %f %f %f" % tuple(F["vel"][b]))
                o.write(" %f %f %f\n" % tuple(F["frc"][b]))


def read_dump(fn):
    L = open(fn).read().split("\n")
    i, out = 0, []
    while i < len(L) and L[i].startswith("ITEM: TIMESTEP"):
        n = int(L[i + 3])
        bx = [float(L[i + 5 + k].split()[1]) - float(L[i + 5 + k].split()[0]) for k in range(3)]
        cols = L[i + 8].split()[2:]
        F = dict(pos=[], vel=[], frc=[], box=[[bx[0] / 10, 0, 0], [0, bx[1] / 10, 0], [0, 0, bx[2] / 10]], cols=cols)
        for k in range(n):
            t = L[i + 9 + k].split()
            d = dict(zip(cols, t))
            F["pos"].append([float(d[a]) for a in ("x", "y", "z")])
            F["vel"].append([float(d[a]) for a in ("vx", "vy", "vz")] if "vx" in d else None)
            F["frc"].append([float(d[a]) for a in ("fx", "fy", "fz")] if "fx" in d else None)
        out.append(F)
        i += 9 + n
    return out


def run_map(top, trj, out, c, log):
    cmd = [pybsx.exe("csg_map"), "--top", top, "--trj", trj, "--out", out, "--no-map"]
    if c["vel"]:
        cmd.append("--vel")
    if c.get("frc"):
        cmd.append("--force")
    r = subprocess.run(cmd, stdout=subprocess.PIPE, stderr=subprocess.STDOUT, timeout=120)
    log.append(" ".join(os.path.basename(x) for x in cmd[0:1]) + " " + " ".join(cmd[1:]) + " -> rc %d" % r.returncode)
    return r.returncode, r.stdout.decode(errors="replace")


def cstr(c):
    return ";".join("%s=%s" % (k, c[k]) for k in ("a", "b", "nb", "nf", "pat", "box", "vel", "frc"))


def close(x, y, tol):
    return abs(x - y) <= tol


def mat_close(A, B, tol):
    return all(close(A[i][j], B[i][j], tol) for i in range(3) for j in range(3))


def evaluate(c):
    """returns (list of (key, what), signature)"""
    for fn in os.listdir("."):
        if fn.startswith(("src.", "mid.", "back.", "HISTORY", "CONFIG")):
            os.remove(fn)
    a, b = c["a"], c["b"]
    fails, log = [], []
    dump = a == "dump"
    fr = frames(c, dump)
    src, mid, back = "src." + a, "mid." + b, "back." + a
    (write_dump if dump else write_gro)(src, c, fr)
    pre = "chain-%s-%s-" % (a, b)
    rc, out = run_map(src, src, mid, c, log)
    if rc != 0:
        return [(pre + "leg1-exit", "csg_map %s->%s failed: %s" % (a, b, out.strip().splitlines()[-1][:200] if out.strip() else ""))], "L1"
    midtxt = open(mid, errors="replace").read() if os.path.exists(mid) else ""
    rc, out = run_map(src, mid, back, c, log)
    if rc != 0:
        ml = midtxt.split("\n")
        msg = out.strip().splitlines()[-1][:200] if out.strip() else ""
        if b == "xyz" and len(ml) > 2 and ml[2] == "":
            key = "xyz-write-blank-line-after-title"
        elif b == "pdb" and any(l.startswith("ATOM") and len(l) < 78 for l in ml):
            key = "pdb-write-atom-line-shorter-than-reader-requires"
        else:
            key = pre + "leg2-exit"
        return [(key, "csg_map cannot read back the %s file csg_map wrote: %s | line 3 of it: %r" % (b, msg, ml[2] if len(ml) > 2 else ""))], "L2"
    got = (read_dump if dump else read_gro)(back)
    if len(got) != c["nf"]:
        return [(pre + "frame-count", "source has %d frames, file that came back has %d" % (c["nf"], len(got)))], "N%d" % len(got)
    tp = 1e-9
    stores_box = b in ("gro", "dump", "dlph", "dlpc")
    for f, (G, S) in enumerate(zip(got, fr)):
        if not dump and G["names"] != [NAMES[i % 3] for i in range(c["nb"])]:
            fails.append((pre + "names", "frame %d names %r" % (f, G["names"])))
        if not all(close(G["pos"][i][d], S["pos"][i][d], tp) for i in range(c["nb"]) for d in range(3)):
            # one common factor?
            rat = [G["pos"][i][d] / S["pos"][i][d] for i in range(c["nb"]) for d in range(3) if abs(S["pos"][i][d]) > 0.01]
            allzero = all(G["pos"][i][d] == 0 for i in range(c["nb"]) for d in range(3))
            if rat and max(rat) - min(rat) < 1e-3 * abs(rat[0]) and abs(rat[0] - 1) > 1e-3:
                key = (b if b == "xyz" else pre[:-1]) + "-pos-scaled-by-%.3g" % rat[0]
            elif not rat and allzero:
                key = (b if b == "xyz" else pre[:-1]) + "-pos-small-values-read-zero"
            elif c["nf"] > 1 and any(all(close(G["pos"][i][d], S2["pos"][i][d], tp) for i in range(c["nb"]) for d in range(3)) for S2 in fr):
                key = pre + "frame-order"
            else:
                key = pre + "pos"
            fails.append((key, "frame %d positions came back as %r, source %r" % (f, G["pos"], S["pos"])))
        if c["vel"]:
            gv = G["vel"]
            if (not gv) or any(v is None for v in gv) or not all(close(gv[i][d], S["vel"][i][d], tp) for i in range(c["nb"]) for d in range(3)):
                fails.append((pre + "vel", "frame %d velocities came back as %r, source %r" % (f, gv, S["vel"])))
        if c["frc"]:
            gf = G["frc"]
            if any(v is None for v in gf) or not all(close(gf[i][d], S["frc"][i][d], tp) for i in range(c["nb"]) for d in range(3)):
                fails.append((pre + "force", "frame %d forces came back as %r, source %r" % (f, gf, S["frc"])))
        if stores_box:
            E = S["box"]
            if dump:
                E = [[E[i][j] if i == j else 0.0 for j in range(3)] for i in range(3)]
            if not mat_close(G["box"], E, tp):
                D = [[E[i][j] if i == j else 0.0 for j in range(3)] for i in range(3)]
                T = [[E[j][i] for j in range(3)] for i in range(3)]
                if mat_close(G["box"], D, tp) and "gro" in (a, b):
                    key = "gro-box-offdiagonal-lost"
                elif mat_close(G["box"], T, tp) and b.startswith("dlp"):
                    key = "dlpoly-box-transposed"
                else:
                    key = pre + "box"
                fails.append((key, "frame %d box came back as %r, source %r" % (f, G["box"], E)))
    uniq = []
    for k, w in fails:
        if k not in [u[0] for u in uniq]:
            uniq.append((k, w + " | " + " ; ".join(log)))
    sig = "ok%d:%s" % (len(got), "%.3f" % got[-1]["pos"][-1][0])
    return uniq, sig


def enumerate_cases(thorough):
    cases = []
    maxnb, maxnf = (3, 3)
    pats = range(len(P)) if thorough else (0, 3, 6)
    for nb in range(1, maxnb + 1):
        for nf in range(1, maxnf + 1):
            for b in ("gro", "dump", "dlph", "dlpc", "xyz", "pdb"):
                if b == "dlpc" and nf > 1:
                    continue
                for pat in pats:
                    for box in ((0, 1, 2) if b in ("gro", "dlph", "dlpc") else (0,)):
                        for vel in ((0, 1) if b in ("gro", "dump", "dlph", "dlpc") else (0,)):
                            cases.append(dict(a="gro", b=b, nb=nb, nf=nf, pat=pat, box=box, vel=vel, frc=0))
            for b in ("dump", "dlph"):
                for pat in pats:
                    cases.append(dict(a="dump", b=b, nb=nb, nf=nf, pat=pat, box=0, vel=1, frc=1))
    return cases


def parse_case(s):
    d = dict(kv.split("=", 1) for kv in s.split(";") if "=" in kv)
    c = dict(a=d["a"], b=d["b"], chk=d.get("chk", ""))
    for k in ("nb", "nf", "pat", "box", "vel", "frc"):
        c[k] = int(d[k])
    return c


def main():
    a = pybsx.parse()
    if a.case is not None:
        c = parse_case(a.case)
        fails, sig = evaluate(c)
        fails = [f for f in fails if not c["chk"] or f[0] == c["chk"]]
        if not fails:
            print("case holds (%s)" % sig)
            return 0
        for k, w in fails:
            print("case FAILS: key=%s %s" % (k, w))
        return 3
    thorough = a.tier == "thorough"
    R = pybsx.Report("C08", "chain", a.tier)
    R.rule = ("csg_map --no-map chains in fresh processes: gro -> {gro, dump, dlph, dlpc, xyz, pdb} -> gro and dump(+vel,+force) -> {dump, dlph} -> dump; "
              "beads 1..3 x frames 1..3 x %d cyclic shifts of the print-lattice alphabet {0, +-1 unit, +-1.235, 0.5, 3 units, +-column limit} "
              "x box {orthorhombic, triclinic lower-triangular, general (gro/dlpoly only)} x velocities on/off where b stores them. "
              "Oracle: the file that comes back holds the same decimal numbers (positions, velocities, forces, box where b stores it), frame count and atom names as the source. "
              "distinct_nontrivial = distinct (a, b, frame count, last x read back, failure keys)" % (len(P) if thorough else 3))
    R.assumptions.append("the source files are written by the harness' own gro/dump writers (documented fixed-column / item formats)")
    cases = enumerate_cases(thorough)
    for i, c in enumerate(cases):
        if not a.mine(i):
            continue
        try:
            fails, sig = evaluate(c)
        except subprocess.TimeoutExpired:
            fails, sig = [("chain-%s-%s-timeout" % (c["a"], c["b"]), "csg_map did not finish within 120 s")], "TO"
        R.eval()
        R.count("%s-%s" % (c["a"], c["b"]))
        R.cls((c["a"], c["b"], sig, tuple(k for k, _ in fails)))
        if not fails:
            if i % 37 == 0:
                R.sample(cstr(c) + " -> holds (" + sig + ")")
        for k, w in fails:
            R.fail(k, w + "  [" + cstr(c) + "]", cstr(c) + ";chk=" + k)
    if a.out:
        R.write(a.out)
    return 0


if __name__ == "__main__":
    sys.exit(main())
