// C20 — unit conversions and physical constants are consistent and physically right.
// Complete finite enumeration:
//  * all ordered pairs / triples of every UnitConverter enum (9 dimensions): there-and-back = 1,
//    transitivity, every pair against SI/CODATA-2018 values embedded here (>= 4 significant digits),
//  * derived units (velocity, force, molar force, CsgUnits defaults) = quotient of base conversions,
//  * every tools::conv constant against CODATA, and every quantity that is encoded in more than one
//    place of the library (UnitConverter tables, conv::, Elements::getCovRad units, the factors the
//    LAMMPS dump reader applies to positions / box / velocities / forces) pairwise against each other,
//  * all element symbols: symbol <-> number <-> nuclear charge <-> name tables, masses.
#include <algorithm>
#include <cfloat>
#include <fstream>
#include <functional>
#include <memory>

#include "bsx.h"
#include "votca/csg/topology.h"
#include "votca/csg/topologyreader.h"
#include "votca/csg/trajectoryreader.h"
#include "votca/csg/units.h"
#include "votca/tools/constants.h"
#include "votca/tools/elements.h"
#include "votca/tools/unitconverter.h"

using namespace votca::tools;
using bsx::Outcome;

// ---------------------------------------------------------------- CODATA 2018 / SI
namespace ref {
const double e_C = 1.602176634e-19;       // exact
const double NA = 6.02214076e23;          // exact
const double kB_JK = 1.380649e-23;        // exact
const double h_Js = 6.62607015e-34;       // exact
const double hbar_Js = h_Js / (2 * M_PI);
const double bohr_m = 5.29177210903e-11;
const double hartree_J = 4.3597447222071e-18;
const double amu_kg = 1.66053906660e-27;
const double cal_th = 4.184, cal_IT = 4.1868;  // J; both are "defined" calories (ISO 31-4); MD codes use the thermochemical one
}  // namespace ref

// agreement to n significant digits: |got-ref| <= half a unit of the n-th significant digit of ref
static bool agree(double got, double r, int digits) {
  if (!std::isfinite(got)) return false;
  if (r == 0) return got == 0;
  double unit = std::pow(10.0, std::floor(std::log10(std::fabs(r))) - (digits - 1));
  return std::fabs(got - r) <= 0.5 * unit * (1 + 1e-9);
}
static bool agree4(double a, double b) { return agree(a, b, 4); }
static std::string g(double v) { char b[64]; snprintf(b, sizeof b, "%.12g", v); return b; }

// ---------------------------------------------------------------- dimensions
struct Dim {
  std::string name;
  std::vector<std::string> unit;                 // by enumerator value
  std::vector<double> si, si_alt;                // SI value of one unit (si_alt: with the IT calorie)
  std::function<double(int, int)> conv;          // UnitConverter::convert(from,to)
  std::function<double(int)> table;              // private table entry
};
static std::vector<Dim> dims() {
  std::vector<Dim> D;
  UnitConverter uc;
  auto mk = [&](const std::string &n, int k) { Dim d; d.name = n; d.unit.resize(k); d.si.assign(k, 0.0); D.push_back(d); return &D.back(); };
  {
    Dim *d = mk("Distance", 5);
    auto set = [&](DistanceUnit u, const char *n, double si) { d->unit[u] = n; d->si[u] = si; };
    set(meters, "meters", 1); set(centimeters, "centimeters", 1e-2); set(nanometers, "nanometers", 1e-9); set(angstroms, "angstroms", 1e-10); set(bohr, "bohr", ref::bohr_m);
    d->conv = [uc](int a, int b) { return uc.convert((DistanceUnit)a, (DistanceUnit)b); };
    d->table = [uc](int a) { return uc.getDistanceValue_((DistanceUnit)a); };
  }
  {
    Dim *d = mk("Mass", 7);
    auto set = [&](MassUnit u, const char *n, double si) { d->unit[u] = n; d->si[u] = si; };
    set(attograms, "attograms", 1e-21); set(picograms, "picograms", 1e-15); set(femtograms, "femtograms", 1e-18); set(atomic_mass_units, "atomic_mass_units", ref::amu_kg);
    set(grams_per_mole, "grams_per_mole", 1e-3 / ref::NA); set(kilograms, "kilograms", 1); set(grams, "grams", 1e-3);
    d->conv = [uc](int a, int b) { return uc.convert((MassUnit)a, (MassUnit)b); };
    d->table = [uc](int a) { return uc.getMassValue_((MassUnit)a); };
  }
  {
    Dim *d = mk("Time", 5);
    auto set = [&](TimeUnit u, const char *n, double si) { d->unit[u] = n; d->si[u] = si; };
    set(seconds, "seconds", 1); set(microseconds, "microseconds", 1e-6); set(nanoseconds, "nanoseconds", 1e-9); set(femtoseconds, "femtoseconds", 1e-15); set(picoseconds, "picoseconds", 1e-12);
    d->conv = [uc](int a, int b) { return uc.convert((TimeUnit)a, (TimeUnit)b); };
    d->table = [uc](int a) { return uc.getTimeValue_((TimeUnit)a); };
  }
  {
    Dim *d = mk("Energy", 5);
    d->si_alt.assign(5, 0.0);
    auto set = [&](EnergyUnit u, const char *n, double si, double alt) { d->unit[u] = n; d->si[u] = si; d->si_alt[u] = alt; };
    set(electron_volts, "electron_volts", ref::e_C, ref::e_C); set(kilocalories, "kilocalories", 1e3 * ref::cal_th, 1e3 * ref::cal_IT);
    set(hartrees, "hartrees", ref::hartree_J, ref::hartree_J); set(joules, "joules", 1, 1); set(kilojoules, "kilojoules", 1e3, 1e3);
    d->conv = [uc](int a, int b) { return uc.convert((EnergyUnit)a, (EnergyUnit)b); };
    d->table = [uc](int a) { return uc.getEnergyValue_((EnergyUnit)a); };
  }
  {
    Dim *d = mk("MolarEnergy", 5);
    d->si_alt.assign(5, 0.0);
    auto set = [&](MolarEnergyUnit u, const char *n, double si, double alt) { d->unit[u] = n; d->si[u] = si; d->si_alt[u] = alt; };
    set(kilojoules_per_mole, "kilojoules_per_mole", 1e3, 1e3); set(joules_per_mole, "joules_per_mole", 1, 1);
    set(kilocalories_per_mole, "kilocalories_per_mole", 1e3 * ref::cal_th, 1e3 * ref::cal_IT);
    set(electron_volts_per_mole, "electron_volts_per_mole", ref::e_C, ref::e_C); set(hartrees_per_mole, "hartrees_per_mole", ref::hartree_J, ref::hartree_J);
    d->conv = [uc](int a, int b) { return uc.convert((MolarEnergyUnit)a, (MolarEnergyUnit)b); };
    d->table = [uc](int a) { return uc.getMolarEnergyValue_((MolarEnergyUnit)a); };
  }
  {
    Dim *d = mk("Charge", 2);
    d->unit[e] = "e"; d->si[e] = ref::e_C; d->unit[coulombs] = "coulombs"; d->si[coulombs] = 1;
    d->conv = [uc](int a, int b) { return uc.convert((ChargeUnit)a, (ChargeUnit)b); };
    d->table = [uc](int a) { return uc.getChargeValue_((ChargeUnit)a); };
  }
  {
    Dim *d = mk("Velocity", 3);
    auto set = [&](VelocityUnit u, const char *n, double si) { d->unit[u] = n; d->si[u] = si; };
    set(angstroms_per_femtosecond, "angstroms_per_femtosecond", 1e-10 / 1e-15); set(angstroms_per_picosecond, "angstroms_per_picosecond", 1e-10 / 1e-12);
    set(nanometers_per_picosecond, "nanometers_per_picosecond", 1e-9 / 1e-12);
    d->conv = [uc](int a, int b) { return uc.convert((VelocityUnit)a, (VelocityUnit)b); };
    d->table = [uc](int a) { return uc.getVelocityValue_((VelocityUnit)a); };
  }
  {
    Dim *d = mk("Force", 5);
    d->si_alt.assign(5, 0.0);
    auto set = [&](ForceUnit u, const char *n, double si, double alt) { d->unit[u] = n; d->si[u] = si; d->si_alt[u] = alt; };
    set(kilocalories_per_angstrom, "kilocalories_per_angstrom", 1e3 * ref::cal_th / 1e-10, 1e3 * ref::cal_IT / 1e-10); set(newtons, "newtons", 1, 1);
    set(kilojoules_per_nanometer, "kilojoules_per_nanometer", 1e3 / 1e-9, 1e3 / 1e-9); set(kilojoules_per_angstrom, "kilojoules_per_angstrom", 1e3 / 1e-10, 1e3 / 1e-10);
    set(hatree_per_bohr, "hatree_per_bohr", ref::hartree_J / ref::bohr_m, ref::hartree_J / ref::bohr_m);
    d->conv = [uc](int a, int b) { return uc.convert((ForceUnit)a, (ForceUnit)b); };
    d->table = [uc](int a) { return uc.getForceValue_((ForceUnit)a); };
  }
  {
    Dim *d = mk("MolarForce", 5);
    d->si_alt.assign(5, 0.0);
    auto set = [&](MolarForceUnit u, const char *n, double si, double alt) { d->unit[u] = n; d->si[u] = si; d->si_alt[u] = alt; };
    set(kilocalories_per_mole_angstrom, "kilocalories_per_mole_angstrom", 1e3 * ref::cal_th / 1e-10, 1e3 * ref::cal_IT / 1e-10); set(newtons_per_mole, "newtons_per_mole", 1, 1);
    set(kilojoules_per_mole_nanometer, "kilojoules_per_mole_nanometer", 1e3 / 1e-9, 1e3 / 1e-9); set(kilojoules_per_mole_angstrom, "kilojoules_per_mole_angstrom", 1e3 / 1e-10, 1e3 / 1e-10);
    set(hatree_per_mole_bohr, "hatree_per_mole_bohr", ref::hartree_J / ref::bohr_m, ref::hartree_J / ref::bohr_m);
    d->conv = [uc](int a, int b) { return uc.convert((MolarForceUnit)a, (MolarForceUnit)b); };
    d->table = [uc](int a) { return uc.getMolarForceValue_((MolarForceUnit)a); };
  }
  return D;
}
static const Dim &dim(const std::vector<Dim> &D, const std::string &n) {
  for (auto &d : D) if (d.name == n) return d;
  throw std::runtime_error("unknown dimension " + n);
}

// derived units: (kind, unit index) -> (numerator dimension, unit), (denominator dimension, unit)
struct Derived { std::string kind, num, den; std::vector<std::pair<int, int>> parts; };
static std::vector<Derived> derived() {
  std::vector<Derived> V;
  Derived v{"Velocity", "Distance", "Time", std::vector<std::pair<int, int>>(3)};
  v.parts[angstroms_per_femtosecond] = {angstroms, femtoseconds}; v.parts[angstroms_per_picosecond] = {angstroms, picoseconds}; v.parts[nanometers_per_picosecond] = {nanometers, picoseconds};
  V.push_back(v);
  Derived f{"Force", "Energy", "Distance", std::vector<std::pair<int, int>>(5)};
  f.parts[kilocalories_per_angstrom] = {kilocalories, angstroms}; f.parts[newtons] = {joules, meters}; f.parts[kilojoules_per_nanometer] = {kilojoules, nanometers};
  f.parts[kilojoules_per_angstrom] = {kilojoules, angstroms}; f.parts[hatree_per_bohr] = {hartrees, bohr};
  V.push_back(f);
  Derived m{"MolarForce", "MolarEnergy", "Distance", std::vector<std::pair<int, int>>(5)};
  m.parts[kilocalories_per_mole_angstrom] = {kilocalories_per_mole, angstroms}; m.parts[newtons_per_mole] = {joules_per_mole, meters};
  m.parts[kilojoules_per_mole_nanometer] = {kilojoules_per_mole, nanometers}; m.parts[kilojoules_per_mole_angstrom] = {kilojoules_per_mole, angstroms};
  m.parts[hatree_per_mole_bohr] = {hartrees_per_mole, bohr};
  V.push_back(m);
  return V;
}

// ---------------------------------------------------------------- LAMMPS dump reader factors
struct Lammps { bool ok = false; std::string err; double pos[3], vel[3], frc[3], box[3]; };
static const double LV[3] = {1.0, 2.0, 4.0};
static Lammps read_lammps() {
  Lammps L;
  try {
    {
      std::ofstream f("c20.dump");
      f << "ITEM: TIMESTEP\n0\nITEM: NUMBER OF ATOMS\n1\nITEM: BOX BOUNDS pp pp pp\n0 10\n0 20\n0 40\n"
           "ITEM: ATOMS id type x y z vx vy vz fx fy fz\n1 1 1 2 4 1 2 4 1 2 4\n";
    }
    static bool reg = false;
    if (!reg) { votca::csg::TopologyReader::RegisterPlugins(); reg = true; }
    std::unique_ptr<votca::csg::TopologyReader> rd = votca::csg::TopReaderFactory().Create("c20.dump");
    votca::csg::Topology top;
    rd->ReadTopology("c20.dump", top);
    if (top.BeadCount() != 1) throw std::runtime_error("bead count " + std::to_string(top.BeadCount()));
    votca::csg::Bead *b = top.getBead(0);
    for (int k = 0; k < 3; k++) {
      L.pos[k] = b->getPos()[k] / LV[k]; L.vel[k] = b->getVel()[k] / LV[k]; L.frc[k] = b->getF()[k] / LV[k];
      L.box[k] = top.getBox()(k, k) / (10.0 * LV[k]);
    }
    L.ok = true;
  } catch (const std::exception &e) { L.err = e.what(); }
  return L;
}

// ---------------------------------------------------------------- LAMMPS dump reader: every column flavour
// The reader (lammpsdumpreader.cc ReadAtoms) accepts: id (mandatory), type (topology mode), x y z (unscaled),
// xu yu zu (unwrapped), xs ys zs (scaled = fraction of the box of the SAME frame), vx vy vz, fx fy fz; every
// other column (mol, ...) is skipped.  A case fixes the flavour of each position axis, presence of velocity /
// force columns, extra columns, the order of the column groups, the place of the id column, the axis order inside
// a group, the box, and the path (ReadTopology, or ReadTopology + Open/FirstFrame/NextFrame over two frames with
// different values and a different box).  Two atoms, listed with ids out of order.
static Outcome failo(const std::string &key, const std::string &what, const std::string &cas);
struct LdCfg { std::string path, pos; int vel, frc, extra, perm, idpos, rev, box; };
static std::string ldstr(const LdCfg &c) {
  return "ldump;path=" + c.path + ";pos=" + c.pos + ";vel=" + std::to_string(c.vel) + ";frc=" + std::to_string(c.frc) + ";extra=" + std::to_string(c.extra) +
         ";perm=" + std::to_string(c.perm) + ";idpos=" + std::to_string(c.idpos) + ";rev=" + std::to_string(c.rev) + ";box=" + std::to_string(c.box);
}
struct LdFrame { double lo[3], len[3]; double frac[2][3], vel[2][3], frc[2][3]; long step; };
static LdFrame ldframe(int box, int frame) {
  LdFrame f;
  const double L0[3] = {10, 20, 40}, LO[3] = {1, -5, 2.5};
  for (int d = 0; d < 3; d++) { f.len[d] = L0[d] * (frame == 0 ? 1.0 : 1.5); f.lo[d] = box ? LO[d] * (frame + 1) : 0.0; }
  const double F[2][3] = {{0.25, 0.5, 0.75}, {0.125, 0.375, 0.625}}, V[2][3] = {{1, 2, 4}, {-3, 5, -7}}, G[2][3] = {{1, 2, 4}, {-0.5, 0.25, 8}};
  for (int a = 0; a < 2; a++) for (int d = 0; d < 3; d++) { f.frac[a][d] = F[a][d] + 0.0625 * frame; f.vel[a][d] = V[a][d] * (1 + frame); f.frc[a][d] = G[a][d] - 3 * frame; }
  f.step = 100 * frame + 7;
  return f;
}
static std::string num(double v) { char b[64]; snprintf(b, sizeof b, "%.12g", v); return b; }
static void ldwrite(std::ostream &out, const LdCfg &c, const LdFrame &f) {
  out << "ITEM: TIMESTEP\n" << f.step << "\nITEM: NUMBER OF ATOMS\n2\nITEM: BOX BOUNDS pp pp pp\n";
  for (int d = 0; d < 3; d++) out << num(f.lo[d]) << " " << num(f.lo[d] + f.len[d]) << "\n";
  // column groups
  static const int PERM[6][3] = {{0, 1, 2}, {0, 2, 1}, {1, 0, 2}, {1, 2, 0}, {2, 0, 1}, {2, 1, 0}};
  for (int line = 0; line < 3; line++) {  // 0 header, 1 = atom id 2, 2 = atom id 1 (ids out of order)
    int atom = line == 1 ? 1 : 0;
    std::vector<std::vector<std::string>> grp(3);
    for (int k = 0; k < 3; k++) {
      int d = c.rev ? 2 - k : k;
      const char ax = "xyz"[d];
      if (c.pos != "---") {
        char fl = c.pos[d];
        std::string name = std::string(1, ax) + (fl == 'u' ? "u" : fl == 's' ? "s" : "");
        double val = fl == 's' ? f.frac[atom][d] : f.lo[d] + f.frac[atom][d] * f.len[d];
        grp[0].push_back(line == 0 ? name : num(val));
      }
      if (c.vel) grp[1].push_back(line == 0 ? std::string("v") + ax : num(f.vel[atom][d]));
      if (c.frc) grp[2].push_back(line == 0 ? std::string("f") + ax : num(f.frc[atom][d]));
    }
    std::vector<std::string> idg{line == 0 ? "id" : std::to_string(atom + 1)};
    if (c.extra == 1 || c.extra == 2) idg.push_back(line == 0 ? "type" : std::to_string(atom + 3));
    if (c.extra == 2) idg.push_back(line == 0 ? "mol" : "7");
    std::vector<std::string> cols;
    for (int k = 0; k < 3; k++) {
      if (k == c.idpos && c.idpos < 2) cols.insert(cols.end(), idg.begin(), idg.end());
      auto &gk = grp[PERM[c.perm][k]];
      cols.insert(cols.end(), gk.begin(), gk.end());
    }
    if (c.idpos == 2) cols.insert(cols.end(), idg.begin(), idg.end());
    if (c.extra == 3) cols.push_back(line == 0 ? "q" : "-0.5");
    if (line == 0) out << "ITEM: ATOMS";
    for (size_t k = 0; k < cols.size(); k++) out << ((line == 0 || k) ? " " : "") << cols[k];
    out << "\n";
  }
}
static Outcome ldump_case(const LdCfg &c) {
  using namespace votca::csg;
  Outcome o;
  std::string cas = ldstr(c);
  UnitConverter uc;
  const double a2nm = uc.convert(angstroms, nanometers);
  const double v1 = uc.convert(angstroms_per_picosecond, nanometers_per_picosecond), v2 = uc.convert(angstroms_per_femtosecond, nanometers_per_picosecond);
  static bool reg = false;
  if (!reg) { TopologyReader::RegisterPlugins(); TrajectoryReader::RegisterPlugins(); reg = true; }
  auto close = [](double got, double want) { return std::fabs(got - want) <= 1e-9 * std::max(1.0, std::fabs(want)); };
  Topology top;
  std::vector<LdFrame> frames;
  try {
    { std::ofstream f("ld_top.dump"); ldwrite(f, c, ldframe(c.box, 0)); }
    std::unique_ptr<TopologyReader> tr = TopReaderFactory().Create("ld_top.dump");
    tr->ReadTopology("ld_top.dump", top);
  } catch (const std::exception &e) { return failo("lammpsdump-top-read-failed", std::string("ReadTopology threw: ") + e.what(), cas); }
  std::unique_ptr<TrajectoryReader> rd;
  int nframes = 1;
  if (c.path == "trj") {
    nframes = 2;
    try {
      { std::ofstream f("ld_trj.dump"); ldwrite(f, c, ldframe(c.box, 0)); ldwrite(f, c, ldframe(c.box, 1)); }
      rd = TrjReaderFactory().Create("ld_trj.dump");
      rd->Open("ld_trj.dump");
    } catch (const std::exception &e) { return failo("lammpsdump-trj-read-failed", std::string("Open threw: ") + e.what(), cas); }
  }
  for (int fr = 0; fr < nframes; fr++) {
    LdFrame f = ldframe(c.box, fr);
    std::string where = c.path + (c.path == "trj" ? " frame " + std::to_string(fr + 1) : "");
    if (c.path == "trj") {
      try { if (fr == 0) rd->FirstFrame(top); else rd->NextFrame(top); } catch (const std::exception &e) {
        return failo("lammpsdump-trj-read-failed", where + ": " + e.what(), cas);
      }
    }
    if (top.BeadCount() != 2) return failo("lammpsdump-" + c.path + "-bead-count", where + ": " + std::to_string(top.BeadCount()) + " beads for 2 atoms", cas);
    if ((long)top.getStep() != f.step) return failo("lammpsdump-" + c.path + "-timestep", where + ": step " + std::to_string(top.getStep()) + " instead of " + std::to_string(f.step), cas);
    double boxnm[3];
    for (int d = 0; d < 3; d++) {
      boxnm[d] = top.getBox()(d, d);
      if (!close(boxnm[d], f.len[d] * a2nm))
        return failo("lammpsdump-" + c.path + "-box-factor", where + ": box " + "xyz"[d] + " = " + g(boxnm[d]) + " nm for " + g(f.len[d]) + " A (UnitConverter: " + g(f.len[d] * a2nm) + ")", cas);
    }
    for (int a = 0; a < 2; a++) {
      Bead *b = top.getBead(a);
      bool haspos = c.pos != "---";
      if (b->HasPos() != haspos || b->HasVel() != (c.vel != 0) || b->HasF() != (c.frc != 0))
        return failo("lammpsdump-" + c.path + "-has-flags", where + ": atom " + std::to_string(a + 1) + " HasPos/HasVel/HasF = " + std::to_string(b->HasPos()) + std::to_string(b->HasVel()) + std::to_string(b->HasF()), cas);
      for (int d = 0; d < 3; d++) {
        if (haspos) {
          char fl = c.pos[d];
          double got = b->getPos()[d];
          double absA = f.lo[d] + f.frac[a][d] * f.len[d];
          bool ok;
          std::string want;
          if (fl == 's') {  // fraction of the box of the same frame; the origin of the box may or may not be added
            double w1 = f.frac[a][d] * boxnm[d], w2 = absA * a2nm;
            ok = close(got, w1) || close(got, w2);
            want = g(f.frac[a][d]) + " x box " + g(boxnm[d]) + " nm = " + g(w1);
          } else {
            ok = close(got, absA * a2nm);
            want = g(absA) + " A x " + g(a2nm) + " = " + g(absA * a2nm);
          }
          if (!ok) return failo("lammpsdump-" + c.path + "-position-" + (fl == 's' ? "scaled" : fl == 'u' ? "unwrapped" : "unscaled") + "-factor",
                                where + ": atom " + std::to_string(a + 1) + " " + "xyz"[d] + (fl == 's' ? "s" : fl == 'u' ? "u" : "") + " read as " + g(got) + " nm, expected " + want + " nm", cas);
        }
        if (c.vel) {
          double got = b->getVel()[d], v = f.vel[a][d];
          if (!close(got, v * v1) && !close(got, v * v2))
            return failo("lammpsdump-" + c.path + "-velocity-factor", where + ": atom " + std::to_string(a + 1) + " v" + "xyz"[d] + " = " + g(v) + " read as " + g(got) + ", expected " + g(v * v1) + " (A/ps) or " + g(v * v2) + " (A/fs) nm/ps", cas);
        }
        if (c.frc) {  // either calorie is accepted here; the disagreement between the places is the 'cross' finding
          double got = b->getF()[d], v = f.frc[a][d];
          if (!agree4(got, v * ref::cal_th / a2nm) && !agree4(got, v * ref::cal_IT / a2nm))
            return failo("lammpsdump-" + c.path + "-force-factor", where + ": atom " + std::to_string(a + 1) + " f" + "xyz"[d] + " = " + g(v) + " kcal/mol/A read as " + g(got) + ", expected " + g(v * ref::cal_th / a2nm) + " kJ/mol/nm", cas);
        }
      }
    }
  }
  o.extra = "pos " + c.pos + (c.vel ? " vel" : "") + (c.frc ? " force" : "") + " via " + c.path + ": all factors right";
  o.cls = bsx::fnv("ld" + c.path + c.pos + std::to_string(c.vel) + std::to_string(c.frc));
  return o;
}

// ---------------------------------------------------------------- places that encode the same quantity
struct Place { std::string name; std::function<double()> value; };
struct Quantity { std::string name, text; std::vector<Place> places; };
static double lammps_factor(const char *which) {
  Lammps L = read_lammps();
  if (!L.ok) throw std::runtime_error("lammps dump reader: " + L.err);
  const double *v = !strcmp(which, "pos") ? L.pos : !strcmp(which, "box") ? L.box : !strcmp(which, "vel") ? L.vel : L.frc;
  if (v[0] != v[1] && std::fabs(v[0] / v[1] - 1) > 1e-12) throw std::runtime_error(std::string("lammps dump reader applies different factors to the components of ") + which);
  if (v[0] != v[2] && std::fabs(v[0] / v[2] - 1) > 1e-12) throw std::runtime_error(std::string("lammps dump reader applies different factors to the components of ") + which);
  return v[0];
}
static std::vector<Quantity> quantities() {
  static UnitConverter uc;
  static Elements el;
  std::vector<Quantity> Q;
  Q.push_back({"ang2bohr", "bohr per angstrom", {
      {"UnitConverter.Distance", [] { return uc.convert(angstroms, bohr); }},
      {"conv::ang2bohr", [] { return conv::ang2bohr; }},
      {"1/conv::bohr2ang", [] { return 1.0 / conv::bohr2ang; }},
      {"conv::nm2bohr/10", [] { return conv::nm2bohr / 10.0; }},
      {"0.1/conv::bohr2nm", [] { return 0.1 / conv::bohr2nm; }},
      {"Elements::getCovRad(bohr/ang)", [] { return el.getCovRad("C", "bohr") / el.getCovRad("C", "ang"); }}}});
  Q.push_back({"ang2nm", "nanometers per angstrom", {
      {"UnitConverter.Distance", [] { return uc.convert(angstroms, nanometers); }},
      {"conv::ang2nm", [] { return conv::ang2nm; }},
      {"1/conv::nm2ang", [] { return 1.0 / conv::nm2ang; }},
      {"Elements::getCovRad(nm/ang)", [] { return el.getCovRad("C", "nm") / el.getCovRad("C", "ang"); }},
      {"LAMMPSDumpReader.position", [] { return lammps_factor("pos"); }},
      {"LAMMPSDumpReader.box", [] { return lammps_factor("box"); }}}});
  Q.push_back({"hrt2ev", "electron volts per hartree", {
      {"UnitConverter.Energy", [] { return uc.convert(hartrees, electron_volts); }},
      {"UnitConverter.MolarEnergy", [] { return uc.convert(hartrees_per_mole, electron_volts_per_mole); }},
      {"conv::hrt2ev", [] { return conv::hrt2ev; }},
      {"1/conv::ev2hrt", [] { return 1.0 / conv::ev2hrt; }}}});
  Q.push_back({"kcal2kj", "kilojoules per kilocalorie", {
      {"UnitConverter.Energy", [] { return uc.convert(kilocalories, kilojoules); }},
      {"UnitConverter.MolarEnergy", [] { return uc.convert(kilocalories_per_mole, kilojoules_per_mole); }},
      {"conv::kcal2kj", [] { return conv::kcal2kj; }},
      {"1/conv::kj2kcal", [] { return 1.0 / conv::kj2kcal; }}}});
  Q.push_back({"kcalmolang2kjmolnm", "kJ/(mol nm) per kcal/(mol angstrom)", {
      {"UnitConverter.Force", [] { return uc.convert(kilocalories_per_angstrom, kilojoules_per_nanometer); }},
      {"UnitConverter.MolarForce", [] { return uc.convert(kilocalories_per_mole_angstrom, kilojoules_per_mole_nanometer); }},
      {"LAMMPSDumpReader.force", [] { return lammps_factor("frc"); }}}});
  Q.push_back({"e_coulomb", "coulombs per elementary charge = joules per electron volt", {
      {"UnitConverter.Charge", [] { return uc.convert(e, coulombs); }},
      {"UnitConverter.Energy", [] { return uc.convert(electron_volts, joules); }},
      {"UnitConverter.MolarEnergy", [] { return uc.convert(electron_volts_per_mole, joules_per_mole); }}}});
  Q.push_back({"amu_kg", "kilograms per atomic mass unit", {
      {"UnitConverter.Mass(atomic_mass_units)", [] { return uc.convert(atomic_mass_units, kilograms); }},
      {"UnitConverter.Mass(grams_per_mole)", [] { return uc.convert(grams_per_mole, kilograms); }},
      {"UnitConverter.Mass(grams)", [] { return uc.convert(atomic_mass_units, grams) * 1e-3; }},
      {"UnitConverter.Mass(attograms)", [] { return uc.convert(atomic_mass_units, attograms) * 1e-21; }},
      {"UnitConverter.Mass(femtograms)", [] { return uc.convert(atomic_mass_units, femtograms) * 1e-18; }},
      {"UnitConverter.Mass(picograms)", [] { return uc.convert(atomic_mass_units, picograms) * 1e-15; }}}});
  return Q;
}

// conv:: constants against CODATA-2018 (allowed reference values)
struct Const { std::string name; double value; std::vector<double> refs; std::string text; };
static std::vector<Const> constants() {
  return {
      {"Pi", conv::Pi, {M_PI}, "pi"},
      {"kB", conv::kB, {ref::kB_JK / ref::e_C}, "Boltzmann constant eV/K"},
      {"hbar", conv::hbar, {ref::hbar_Js / ref::e_C}, "reduced Planck constant eV s"},
      {"bohr2nm", conv::bohr2nm, {ref::bohr_m / 1e-9}, "nm per bohr"},
      {"nm2bohr", conv::nm2bohr, {1e-9 / ref::bohr_m}, "bohr per nm"},
      {"ang2bohr", conv::ang2bohr, {1e-10 / ref::bohr_m}, "bohr per angstrom"},
      {"bohr2ang", conv::bohr2ang, {ref::bohr_m / 1e-10}, "angstrom per bohr"},
      {"nm2ang", conv::nm2ang, {10.0}, "angstrom per nm"},
      {"ang2nm", conv::ang2nm, {0.1}, "nm per angstrom"},
      {"hrt2ev", conv::hrt2ev, {ref::hartree_J / ref::e_C}, "eV per hartree"},
      {"ev2hrt", conv::ev2hrt, {ref::e_C / ref::hartree_J}, "hartree per eV"},
      {"ev2kj_per_mol", conv::ev2kj_per_mol, {ref::e_C * ref::NA / 1e3}, "kJ/mol per eV"},
      {"kcal2kj", conv::kcal2kj, {ref::cal_th, ref::cal_IT}, "kJ per kcal (thermochemical or IT calorie)"},
      {"kj2kcal", conv::kj2kcal, {1 / ref::cal_th, 1 / ref::cal_IT}, "kcal per kJ (thermochemical or IT calorie)"},
  };
}

// ---------------------------------------------------------------- elements reference
static const char *PT[] = {"",   "H",  "He", "Li", "Be", "B",  "C",  "N",  "O",  "F",  "Ne", "Na", "Mg", "Al", "Si", "P",  "S",  "Cl", "Ar", "K",
                           "Ca", "Sc", "Ti", "V",  "Cr", "Mn", "Fe", "Co", "Ni", "Cu", "Zn", "Ga", "Ge", "As", "Se", "Br", "Kr", "Rb", "Sr", "Y",
                           "Zr", "Nb", "Mo", "Tc", "Ru", "Rh", "Pd", "Ag", "Cd", "In", "Sn", "Sb", "Te", "I",  "Xe", "Cs", "Ba", "La", "Ce", "Pr",
                           "Nd", "Pm", "Sm", "Eu", "Gd", "Tb", "Dy", "Ho", "Er", "Tm", "Yb", "Lu", "Hf", "Ta", "W",  "Re", "Os", "Ir", "Pt", "Au",
                           "Hg", "Tl", "Pb", "Bi", "Po", "At", "Rn", "Fr", "Ra", "Ac", "Th", "Pa", "U",  "Np", "Pu", "Am", "Cm", "Bk", "Cf", "Es",
                           "Fm", "Md", "No", "Lr", "Rf", "Db", "Sg", "Bh", "Hs", "Mt", "Ds", "Rg", "Cn", "Nh", "Fl", "Mc", "Lv", "Ts", "Og"};
// IUPAC abridged standard atomic weights (mass number of the longest lived isotope for Tc, Pm, Po, At, Rn)
static const double AW[] = {0,      1.008,  4.0026, 6.94,   9.0122, 10.81,  12.011, 14.007, 15.999, 18.998, 20.180, 22.990, 24.305, 26.982, 28.085,
                            30.974, 32.06,  35.45,  39.948, 39.098, 40.078, 44.956, 47.867, 50.942, 51.996, 54.938, 55.845, 58.933, 58.693, 63.546,
                            65.38,  69.723, 72.630, 74.922, 78.971, 79.904, 83.798, 85.468, 87.62,  88.906, 91.224, 92.906, 95.95,  98,     101.07,
                            102.91, 106.42, 107.87, 112.41, 114.82, 118.71, 121.76, 127.60, 126.90, 131.29, 132.91, 137.33, 138.91, 140.12, 140.91,
                            144.24, 145,    150.36, 151.96, 157.25, 158.93, 162.50, 164.93, 167.26, 168.93, 173.05, 174.97, 178.49, 180.95, 183.84,
                            186.21, 190.23, 192.22, 195.08, 196.97, 200.59, 204.38, 207.2,  208.98, 209,    210,    222};
static int refZ(const std::string &s) {
  for (int z = 1; z <= 118; z++) if (s == PT[z]) return z;
  return 0;
}
struct ElemTables { std::vector<std::string> symbols, fullnames; };
static ElemTables elem_tables() {
  Elements el;
  el.FillMass(); el.FillNucCrg(); el.FillEleNum(); el.FillEleName(); el.FillEleFull(); el.FillEleShort(); el.FillCovRad();
  std::set<std::string> s;
  for (auto &kv : el.Mass_) s.insert(kv.first);
  for (auto &kv : el.NucCrg_) s.insert(kv.first);
  for (auto &kv : el.EleNum_) s.insert(kv.first);
  for (auto &kv : el.EleFull_) s.insert(kv.first);
  for (auto &kv : el.CovRad_) s.insert(kv.first);
  for (auto &kv : el.EleName_) s.insert(kv.second);
  ElemTables T;
  // ordered by atomic number (unknown symbols last), simplest first
  std::vector<std::pair<int, std::string>> o;
  for (auto &x : s) o.push_back({refZ(x) ? refZ(x) : 1000, x});
  std::sort(o.begin(), o.end());
  for (auto &x : o) T.symbols.push_back(x.second);
  for (auto &kv : el.EleShort_) T.fullnames.push_back(kv.first);
  return T;
}

// ---------------------------------------------------------------- one case
static Outcome failo(const std::string &key, const std::string &what, const std::string &cas) {
  Outcome o; o.ok = false; o.key = key; o.what = what + "  [" + cas + "]";
  return o;
}

static Outcome run_case(const std::string &cas) {
  Outcome o;
  auto m = bsx::kvs(cas);
  std::string kind = cas.substr(0, cas.find(';'));
  static std::vector<Dim> D = dims();
  try {
    if (kind == "rt") {  // there and back
      const Dim &d = dim(D, m["dim"]);
      int a = atoi(m["a"].c_str()), b = atoi(m["b"].c_str());
      double f = d.conv(a, b), h = d.conv(b, a);
      if (a == b && f != 1.0) return failo("identity-" + d.name, d.unit[a] + " -> " + d.unit[a] + " = " + g(f) + " instead of 1", cas);
      if (!(f > 0) || !std::isfinite(f)) return failo("factor-not-positive-" + d.name, d.unit[a] + " -> " + d.unit[b] + " = " + g(f), cas);
      if (std::fabs(f * h - 1.0) > 4 * DBL_EPSILON)
        return failo("roundtrip-" + d.name, d.unit[a] + " -> " + d.unit[b] + " -> " + d.unit[a] + " = " + bsx::fmt(f * h) + " instead of 1", cas);
      o.extra = "1 " + d.unit[a] + " = " + g(f) + " " + d.unit[b] + ", back x" + g(h);
      if (a != b) o.cls = bsx::fnv(d.name + g(f));
      return o;
    }
    if (kind == "tr") {  // transitivity
      const Dim &d = dim(D, m["dim"]);
      int a = atoi(m["a"].c_str()), b = atoi(m["b"].c_str()), c = atoi(m["c"].c_str());
      double ab = d.conv(a, b), bc = d.conv(b, c), ac = d.conv(a, c);
      if (std::fabs(ab * bc / ac - 1.0) > 8 * DBL_EPSILON)
        return failo("transitivity-" + d.name, d.unit[a] + "->" + d.unit[b] + "->" + d.unit[c] + " = " + bsx::fmt(ab * bc) + " but " + d.unit[a] + "->" + d.unit[c] + " = " + bsx::fmt(ac), cas);
      o.extra = d.unit[a] + "->" + d.unit[b] + "->" + d.unit[c];
      if (a != b && b != c && a != c) o.cls = bsx::fnv(d.name + "t" + g(ab) + g(bc));
      return o;
    }
    if (kind == "si") {  // against SI / CODATA
      const Dim &d = dim(D, m["dim"]);
      int a = atoi(m["a"].c_str()), b = atoi(m["b"].c_str());
      double f = d.conv(a, b), r = d.si[a] / d.si[b];
      bool ok = agree4(f, r);
      if (!ok && !d.si_alt.empty()) ok = agree4(f, d.si_alt[a] / d.si_alt[b]);
      if (!ok) return failo("si-value-" + d.name + ":" + d.unit[a] + "->" + d.unit[b], "1 " + d.unit[a] + " = " + g(f) + " " + d.unit[b] + " but SI/CODATA-2018 gives " + g(r), cas);
      // the table entry itself: units per base unit, base = the unit whose entry is 1
      o.extra = "1 " + d.unit[a] + " = " + g(f) + " " + d.unit[b] + " (reference " + g(r) + ", rel. dev. " + g(f / r - 1) + ")";
      if (a != b) o.cls = bsx::fnv(d.name + "s" + g(r));
      return o;
    }
    if (kind == "tab") {  // table entry is positive and is the conversion from the base unit
      const Dim &d = dim(D, m["dim"]);
      int a = atoi(m["a"].c_str());
      int base = -1;
      for (size_t k = 0; k < d.unit.size(); k++) if (d.table((int)k) == 1.0 && base < 0) base = (int)k;
      if (base < 0) return failo("table-no-base-unit-" + d.name, "no unit with table value 1", cas);
      double t = d.table(a);
      if (!(t > 0)) return failo("table-entry-not-positive-" + d.name, d.unit[a] + " has table value " + g(t), cas);
      if (std::fabs(t / d.conv(base, a) - 1.0) > 4 * DBL_EPSILON) return failo("table-vs-convert-" + d.name, d.unit[a] + ": table " + g(t) + " but convert(base) " + g(d.conv(base, a)), cas);
      double r = d.si[base] / d.si[a];
      bool ok = agree4(t, r);
      if (!ok && !d.si_alt.empty()) ok = agree4(t, d.si_alt[base] / d.si_alt[a]);
      if (!ok) return failo("si-table-" + d.name + ":" + d.unit[a], d.unit[a] + " per " + d.unit[base] + " = " + g(t) + " but SI/CODATA-2018 gives " + g(r), cas);
      o.extra = d.unit[a] + " per " + d.unit[base] + " = " + g(t);
      o.cls = bsx::fnv(d.name + "T" + g(t));
      return o;
    }
    if (kind == "der") {  // derived = quotient of base conversions
      for (auto &v : derived()) {
        if (v.kind != m["kind"]) continue;
        const Dim &d = dim(D, v.kind), &dn = dim(D, v.num), &dd = dim(D, v.den);
        int a = atoi(m["a"].c_str()), b = atoi(m["b"].c_str());
        double f = d.conv(a, b);
        double q = dn.conv(v.parts[a].first, v.parts[b].first) / dd.conv(v.parts[a].second, v.parts[b].second);
        if (std::fabs(f / q - 1.0) > 16 * DBL_EPSILON)
          return failo("derived-" + v.kind + ":" + d.unit[a] + "->" + d.unit[b],
                       d.unit[a] + " -> " + d.unit[b] + " = " + bsx::fmt(f) + " but (" + dn.unit[v.parts[a].first] + "->" + dn.unit[v.parts[b].first] + ")/(" +
                           dd.unit[v.parts[a].second] + "->" + dd.unit[v.parts[b].second] + ") = " + bsx::fmt(q), cas);
        o.extra = d.unit[a] + " -> " + d.unit[b] + " = " + g(f) + " = quotient " + g(q);
        if (a != b) o.cls = bsx::fnv(v.kind + "d" + g(q));
        return o;
      }
      return failo("bad-case", "unknown derived kind", cas);
    }
    if (kind == "csgunits") {
      votca::csg::CsgUnits u;
      UnitConverter uc;
      std::string c = m["chk"];
      if (c == "members") {
        if (u.distance_unit != nanometers || u.mass_unit != atomic_mass_units || u.time_unit != picoseconds || u.charge_unit != e || u.energy_unit != kilojoules_per_mole)
          return failo("csgunits-base-units", "csg base units are not nm, amu, ps, e, kJ/mol (the units the file readers convert into)", cas);
        o.extra = "nm amu ps e kJ/mol"; return o;
      }
      if (c == "velocity") {
        // 1 velocity_unit must be 1 distance_unit / 1 time_unit
        double f = uc.convert(u.velocity_unit, nanometers_per_picosecond);
        double q = uc.convert(u.distance_unit, nanometers) / uc.convert(u.time_unit, picoseconds);
        if (std::fabs(f / q - 1) > 16 * DBL_EPSILON) return failo("csgunits-velocity-not-distance-per-time", "velocity unit = " + g(f) + " nm/ps but distance/time unit = " + g(q) + " nm/ps", cas);
        o.extra = "velocity unit = distance unit / time unit"; o.cls = bsx::fnv(std::string("cv")); return o;
      }
      if (c == "force") {
        double f = uc.convert(u.force_unit, kilojoules_per_mole_nanometer);
        double q = uc.convert(u.energy_unit, kilojoules_per_mole) / uc.convert(u.distance_unit, nanometers);
        if (std::fabs(f / q - 1) > 16 * DBL_EPSILON) return failo("csgunits-force-not-energy-per-distance", "force unit = " + g(f) + " kJ/mol/nm but energy/distance unit = " + g(q), cas);
        o.extra = "force unit = energy unit / distance unit"; o.cls = bsx::fnv(std::string("cf")); return o;
      }
      return failo("bad-case", "unknown csgunits check", cas);
    }
    if (kind == "const") {
      for (auto &c : constants()) {
        if (c.name != m["name"]) continue;
        bool ok = false;
        for (double r : c.refs) ok |= (c.name == "Pi" ? c.value == r : agree4(c.value, r));
        if (!ok) return failo("codata-conv::" + c.name, "conv::" + c.name + " = " + g(c.value) + " (" + c.text + ") but CODATA-2018/SI gives " + g(c.refs[0]), cas);
        o.extra = "conv::" + c.name + " = " + g(c.value) + ", reference " + g(c.refs[0]) + " (rel. dev. " + g(c.value / c.refs[0] - 1) + ")";
        o.cls = bsx::fnv("c" + c.name);
        return o;
      }
      return failo("bad-case", "unknown constant", cas);
    }
    if (kind == "cross") {
      for (auto &q : quantities()) {
        if (q.name != m["q"]) continue;
        size_t i = (size_t)atoi(m["i"].c_str()), j = (size_t)atoi(m["j"].c_str());
        double x, y;
        try { x = q.places[i].value(); y = q.places[j].value(); } catch (const std::exception &e) {
          return failo("cross-" + q.name + "-unreadable", e.what(), cas);
        }
        if (!agree4(x, y) || !agree4(y, x))
          return failo("cross-" + q.name + ":" + q.places[i].name + "~" + q.places[j].name,
                       q.text + ": " + q.places[i].name + " says " + g(x) + " but " + q.places[j].name + " says " + g(y) + " (rel. diff. " + g(x / y - 1) + ", more than half a unit in the 4th significant digit)", cas);
        o.extra = q.text + ": " + q.places[i].name + " = " + g(x) + ", " + q.places[j].name + " = " + g(y) + " (rel. diff. " + g(x / y - 1) + ")";
        o.cls = bsx::fnv("x" + q.name + q.places[i].name + q.places[j].name);
        return o;
      }
      return failo("bad-case", "unknown quantity", cas);
    }
    if (kind == "ldump") {
      LdCfg c{m["path"], m["pos"], atoi(m["vel"].c_str()), atoi(m["frc"].c_str()), atoi(m["extra"].c_str()), atoi(m["perm"].c_str()), atoi(m["idpos"].c_str()), atoi(m["rev"].c_str()), atoi(m["box"].c_str())};
      if (c.pos.size() != 3 || (c.path != "top" && c.path != "trj") || c.perm < 0 || c.perm > 5 || c.idpos < 0 || c.idpos > 2) return failo("bad-case", "bad ldump case", cas);
      return ldump_case(c);
    }
    if (kind == "lammpsvel") {
      // velocities: the dump does not say the time unit. A/ps -> nm/ps is 0.1 (metal units), A/fs -> nm/ps is 100 (real units)
      double v = lammps_factor("vel");
      UnitConverter uc;
      double a1 = uc.convert(angstroms_per_picosecond, nanometers_per_picosecond), a2 = uc.convert(angstroms_per_femtosecond, nanometers_per_picosecond);
      if (!agree4(v, a1) && !agree4(v, a2)) return failo("lammpsdumpreader-velocity-factor", "velocity factor " + g(v) + " is neither A/ps->nm/ps (" + g(a1) + ") nor A/fs->nm/ps (" + g(a2) + ")", cas);
      o.extra = "LAMMPS dump velocity factor " + g(v); o.cls = bsx::fnv(std::string("lv")); return o;
    }
    if (kind == "elem") {
      Elements el;
      std::string s = m["sym"], c = m["chk"];
      int z = refZ(s);
      if (!z) return failo("element-unknown-symbol-" + s, "'" + s + "' appears as an element symbol in the tables but is not one", cas);
      if (c == "number") {
        long n, q; std::string back;
        try { n = (long)el.getEleNum(s); q = (long)el.getNucCrg(s); back = el.getEleName(n); } catch (const std::exception &e) { return failo("element-number-" + s, std::string("lookup failed: ") + e.what(), cas); }
        if (n != z || q != z || back != s)
          return failo("element-number-" + s, s + ": getEleNum=" + std::to_string(n) + " getNucCrg=" + std::to_string(q) + " getEleName(getEleNum)=" + back + ", atomic number is " + std::to_string(z), cas);
        o.extra = s + " Z=" + std::to_string(n); o.cls = bsx::fnv("n" + s); return o;
      }
      if (c == "mass") {
        double w; std::string closest;
        try { w = el.getMass(s); closest = el.getEleShortClosestInMass(w, 0.01); } catch (const std::exception &e) { return failo("element-mass-" + s, std::string("lookup failed: ") + e.what(), cas); }
        if (!(w > 0)) return failo("element-mass-" + s, s + ": mass " + g(w), cas);
        if (z <= 86 && !agree(w, AW[z], 3)) return failo("element-mass-" + s, s + ": mass " + g(w) + " but the IUPAC standard atomic weight is " + g(AW[z]), cas);
        if (closest != s) return failo("element-mass-lookup-" + s, "getEleShortClosestInMass(getMass(" + s + ")) = " + closest, cas);
        // tolerance ladder (seed8-C20): a tabulated mass is associated with its element at EVERY tolerance >= 0 (distance 0), and the
        // yes/no answer isMassAssociatedWithElement agrees with "getEleShortClosestInMass does not throw" for every (mass, tolerance),
        // in particular for masses about one tolerance away from the table value
        for (double tol : {0.01, 1e-9, 0.0, 0.125, 0.5})
          for (double off : {0.0, tol, -tol, 2 * tol}) {
            double mq = w + off;
            bool assoc = el.isMassAssociatedWithElement(mq, tol), found = true;
            std::string nm;
            try { nm = el.getEleShortClosestInMass(mq, tol); } catch (const std::exception &) { found = false; }
            if (off == 0.0 && (!assoc || !found || nm != s))
              return failo("element-mass-exact-not-associated-" + s, s + ": mass " + g(w) + " queried with tolerance " + g(tol) + ": isMassAssociatedWithElement=" + std::to_string(assoc) +
                           ", getEleShortClosestInMass " + (found ? "= " + nm : std::string("throws")), cas);
            if (assoc != found)
              return failo("element-mass-association-disagrees-" + s, "mass " + g(mq) + " (" + s + " " + (off < 0 ? "-" : "+") + " " + g(std::fabs(off)) + "), tolerance " + g(tol) +
                           ": isMassAssociatedWithElement=" + std::to_string(assoc) + " but getEleShortClosestInMass " + (found ? "returns " + nm : std::string("throws")), cas);
          }
        o.extra = s + " mass " + g(w) + " (IUPAC " + g(z <= 86 ? AW[z] : 0) + ")"; o.cls = bsx::fnv("m" + s); return o;
      }
      if (c == "order") {  // masses increase with Z except the three known inversions
        el.FillEleName();
        double w = el.getMass(s);
        for (int z2 = z + 1; z2 <= 118; z2++) {
          if (!el.EleName_.count(z2)) continue;
          std::string s2 = el.EleName_.at(z2);
          double w2 = el.getMass(s2);
          bool inversion = (s == "Ar" && s2 == "K") || (s == "Co" && s2 == "Ni") || (s == "Te" && s2 == "I");
          if ((w2 > w) == inversion) return failo("element-mass-order-" + s, s + " (" + g(w) + ") and " + s2 + " (" + g(w2) + ") are ordered " + (inversion ? "normally but Ar/K, Co/Ni, Te/I are inverted in nature" : "the wrong way round"), cas);
          o.extra = s + " " + g(w) + (inversion ? " > " : " < ") + s2 + " " + g(w2); o.cls = bsx::fnv("o" + s);
          break;
        }
        return o;
      }
      if (c == "name") {  // symbol -> full name -> symbol
        std::string full, back;
        try { full = el.getEleFull(s); } catch (const std::exception &e) { return failo("element-name-" + s, "getEleFull(" + s + ") failed", cas); }
        if (!el.isEleShort(s) || !el.isElement(s)) return failo("element-name-" + s, "isEleShort/isElement(" + s + ") is false", cas);
        try { back = el.getEleShort(full); } catch (const std::exception &e) {
          return failo("element-name-" + s, "getEleFull(" + s + ") = " + full + " but the full-name table has no entry " + full + " (the two name tables spell it differently)", cas);
        }
        if (back != s) return failo("element-name-" + s, "getEleFull(" + s + ") = " + full + " but getEleShort(" + full + ") = " + back, cas);
        if (!el.isEleFull(full)) return failo("element-name-" + s, "isEleFull(" + full + ") is false", cas);
        o.extra = s + " <-> " + full; o.cls = bsx::fnv("f" + s); return o;
      }
      if (c == "covrad") {
        double a = el.getCovRad(s, "ang"), b = el.getCovRad(s, "bohr"), n = el.getCovRad(s, "nm");
        if (!(a > 0) || std::fabs(b / a / conv::ang2bohr - 1) > 4 * DBL_EPSILON || std::fabs(n / a / conv::ang2nm - 1) > 4 * DBL_EPSILON)
          return failo("element-covrad-units-" + s, s + ": " + g(a) + " ang, " + g(b) + " bohr, " + g(n) + " nm", cas);
        o.extra = s + " r_cov " + g(a) + " ang"; o.cls = bsx::fnv("r" + s); return o;
      }
      return failo("bad-case", "unknown element check", cas);
    }
    if (kind == "elemfull") {  // full name -> symbol -> full name
      Elements el;
      std::string F = m["name"], sh, back;
      try { sh = el.getEleShort(F); } catch (const std::exception &e) { return failo("element-fullname-" + F, "getEleShort(" + F + ") failed", cas); }
      if (!refZ(sh)) return failo("element-fullname-" + F, "getEleShort(" + F + ") = " + sh + " which is not an element symbol of the tables' range", cas);
      try { back = el.getEleFull(sh); } catch (const std::exception &e) {
        return failo("element-fullname-" + F, "getEleShort(" + F + ") = " + sh + " but there is no element " + sh + " in the symbol tables", cas);
      }
      if (back != F) return failo("element-fullname-" + F, "getEleShort(" + F + ") = " + sh + " but getEleFull(" + sh + ") = " + back, cas);
      o.extra = F + " <-> " + sh; o.cls = bsx::fnv("F" + F); return o;
    }
  } catch (const std::exception &e) {
    return failo("exception-" + kind, std::string("unexpected exception: ") + e.what(), cas);
  }
  return failo("bad-case", "unknown case", cas);
}

int main(int argc, char **argv) {
  bsx::Args a = bsx::parse(argc, argv);
  if (a.has_case) {
    Outcome o;
    bsx::contained(0, 1, [&](long long) { return run_case(a.cas); }, [&](long long, const Outcome &r) { o = r; }, 30);
    if (o.ok) { printf("case holds\n"); return 0; }
    printf("case FAILS: key=%s %s\n", o.key.c_str(), o.what.c_str());
    return 3;
  }
  bsx::Report R;
  R.property = "C20"; R.part = "units"; R.tier = a.tier;
  R.max_samples = 12;
  std::vector<std::string> cases;
  std::vector<Dim> D = dims();
  for (auto &d : D) {
    int n = (int)d.unit.size();
    for (int i = 0; i < n; i++) cases.push_back("tab;dim=" + d.name + ";a=" + std::to_string(i));
    for (int i = 0; i < n; i++) for (int j = 0; j < n; j++) cases.push_back("rt;dim=" + d.name + ";a=" + std::to_string(i) + ";b=" + std::to_string(j));
    for (int i = 0; i < n; i++) for (int j = 0; j < n; j++) cases.push_back("si;dim=" + d.name + ";a=" + std::to_string(i) + ";b=" + std::to_string(j));
    for (int i = 0; i < n; i++) for (int j = 0; j < n; j++) for (int k = 0; k < n; k++)
      cases.push_back("tr;dim=" + d.name + ";a=" + std::to_string(i) + ";b=" + std::to_string(j) + ";c=" + std::to_string(k));
  }
  for (auto &v : derived()) {
    int n = (int)v.parts.size();
    for (int i = 0; i < n; i++) for (int j = 0; j < n; j++) cases.push_back("der;kind=" + v.kind + ";a=" + std::to_string(i) + ";b=" + std::to_string(j));
  }
  for (const char *c : {"members", "velocity", "force"}) cases.push_back(std::string("csgunits;chk=") + c);
  for (auto &c : constants()) cases.push_back("const;name=" + c.name);
  for (auto &q : quantities())
    for (size_t i = 0; i < q.places.size(); i++) for (size_t j = i + 1; j < q.places.size(); j++)
      cases.push_back("cross;q=" + q.name + ";i=" + std::to_string(i) + ";j=" + std::to_string(j));
  cases.push_back("lammpsvel;x=1");
  {  // LAMMPS dump reader: every accepted column flavour
    bool thorough = a.tier == "thorough";
    std::vector<std::string> uniform = {"---", "xxx", "uuu", "sss"}, mixed;
    for (char x : std::string("xus")) for (char y : std::string("xus")) for (char z : std::string("xus")) {
      std::string p{x, y, z};
      if (p != "xxx" && p != "uuu" && p != "sss") mixed.push_back(p);
    }
    for (const char *path : {"top", "trj"}) {
      if (!thorough) {
        for (auto &p : uniform) for (int v = 0; v < 2; v++) for (int f = 0; f < 2; f++) for (int ex = 0; ex < 3; ex++) {
          for (int perm = 0; perm < 6; perm++) cases.push_back(ldstr({path, p, v, f, ex, perm, 0, 0, 0}));
          cases.push_back(ldstr({path, p, v, f, ex, 0, 1, 0, 0}));
          cases.push_back(ldstr({path, p, v, f, ex, 0, 2, 1, 0}));
        }
        for (auto &p : mixed) cases.push_back(ldstr({path, p, 1, 1, 1, 0, 0, 0, 0}));
        for (auto &p : uniform) cases.push_back(ldstr({path, p, 1, 1, 3, 3, 1, 1, 1}));
      } else {
        std::vector<std::string> all = uniform;
        all.insert(all.end(), mixed.begin(), mixed.end());
        for (auto &p : all) for (int v = 0; v < 2; v++) for (int f = 0; f < 2; f++) for (int ex = 0; ex < 4; ex++)
          for (int perm = 0; perm < 6; perm++) for (int idpos = 0; idpos < 3; idpos++) for (int rev = 0; rev < 2; rev++) for (int box = 0; box < 2; box++)
            cases.push_back(ldstr({path, p, v, f, ex, perm, idpos, rev, box}));
      }
    }
  }
  ElemTables T = elem_tables();
  for (auto &s : T.symbols) for (const char *c : {"number", "mass", "order", "name", "covrad"}) cases.push_back("elem;sym=" + s + ";chk=" + c);
  for (auto &F : T.fullnames) cases.push_back("elemfull;name=" + F + ";chk=name");

  R.rule = "complete enumeration: every table entry, every ordered pair (there-and-back within 4 ulp, value against SI/CODATA-2018 to 4 significant digits) and every ordered "
           "triple (transitivity within 8 ulp) of all 9 UnitConverter enums; every pair of derived units (velocity, force, molar force) against the quotient of the base "
           "conversions; CsgUnits defaults; every tools::conv constant against CODATA-2018; every unordered pair of places that encode the same quantity (UnitConverter tables, "
           "conv::, Elements::getCovRad units, LAMMPS dump reader factors read back from a one-atom dump file) to 4 significant digits; LAMMPS dump reader, every accepted column flavour: "
           "position axes each unscaled x / unwrapped xu / scaled xs (uniform and all 27 mixtures) or absent, velocity and force columns present/absent, extra columns (type, mol, q), "
           "the 6 orders of the column groups, id column first/middle/last, axis order inside a group, box with zero / non-zero origin (quick: a covering subset, thorough: the full product), "
           "two atoms with ids out of order, through ReadTopology and through ReadTopology+Open/FirstFrame/NextFrame over two frames with different values and a different box: every length = "
           "value x UnitConverter(A->nm), scaled coordinate = fraction x box of the SAME frame, box, velocity (A/ps or A/fs), force (kcal/mol/A, either calorie), HasPos/HasVel/HasF, time step; "
           "every element symbol found in any "
           "Elements table x {atomic number = nuclear charge = position in the periodic table, mass positive / IUPAC to 3 digits / mass->symbol lookup, mass order, "
           "symbol<->full name, covalent radius units} and every full name x {full name<->symbol}. distinct = distinct (dimension, factor) / (quantity, places) / (element, check) outcomes";
  std::vector<long long> mineidx;
  for (long long i = 0; i < (long long)cases.size(); i++) if (a.mine(i)) mineidx.push_back(i);
  bsx::contained(
      0, (long long)mineidx.size(), [&](long long k) { return run_case(cases[mineidx[k]]); },
      [&](long long k, const Outcome &o) {
        const std::string &cas = cases[mineidx[k]];
        std::string kind = cas.substr(0, cas.find(';'));
        R.eval(); R.counters[kind + "_cases"]++;
        if (!o.ok) { R.fail(o.key == "fatal" ? "crash-" + kind : o.key, o.what + (o.key == "fatal" ? "  [" + cas + "]" : ""), cas); return; }
        if (o.cls) R.cls(o.cls);
        bool take = (kind == "cross" && R.counters["s_cross"]++ < 3) || (kind == "const" && R.counters["s_const"]++ < 2) || (kind == "si" && (k % 97) == 13 && R.counters["s_si"]++ < 3) ||
                    (kind == "der" && (k % 17) == 5 && R.counters["s_der"]++ < 2) || (kind == "elem" && (k % 61) == 7 && R.counters["s_elem"]++ < 2) || (kind == "ldump" && (k % 41) == 3 && R.counters["s_ld"]++ < 2);
        if (take) R.sample(cas + " : " + o.extra);
      }, 30);
  for (const char *c : {"s_cross", "s_const", "s_si", "s_der", "s_elem", "s_ld"}) R.counters.erase(c);
  R.assumptions = {"'agree to 4 significant digits' = differ by at most half a unit of the 4th significant digit of the reference",
                   "the kilocalorie may be thermochemical (4.184 kJ) or International-Table (4.1868 kJ) when compared with SI alone; places inside the library must agree with each other",
                   "electron_volts_per_mole / hartrees_per_mole are read literally (1 eV per mole of particles = 1.602e-19 J/mol), as the table encodes them",
                   "LAMMPS dump velocities: the file does not state its time unit; A/ps (factor 0.1) and A/fs (factor 100) are both accepted",
                   "LAMMPS scaled coordinates: fraction x box length of the same frame; whether the box origin (xlo) is added is not asserted (both accepted); forces in the column-flavour cases accept either calorie (the disagreement between places is the cross-kcal finding)",
                   "element masses are compared with IUPAC abridged standard atomic weights to 3 significant digits only (DESIGN C20); element NAMES are only required to be consistent between the two name tables, spelling is not checked against a dictionary",
                   "reference constants: CODATA 2018 (e, N_A, k_B, h exact; a0 = 5.29177210903e-11 m; E_h = 4.3597447222071e-18 J; u = 1.66053906660e-27 kg)"};
  if (!R.write(a.out)) { fprintf(stderr, "cannot write %s\n", a.out.c_str()); return 2; }
  return 0;
}
