// C08 (part tab) — tables (flags, error column, comments), IMC matrices, dS vectors and index
// files written by the library are read back unchanged by the library.
// Families (all values derived from the integers of the case string):
//   tab  Table::Save/Load and operator<< / operator>>
//   mat  imcio_write_matrix / imcio_read_matrix (all shapes, non-symmetric, optional sub-selection list)
//   ds   imcio_write_dS -> Table::Load
//   idx  imcio_write_index / imcio_read_index
#include <cfloat>
#include <fstream>
#include <iostream>
#include <list>
#include <sstream>
#include <stdexcept>

#include "bsx.h"
#include <votca/csg/imcio.h>
#include <votca/tools/rangeparser.h>
#include <votca/tools/table.h>

using namespace votca;
using votca::Index;
using votca::tools::Table;

static double sigtol(double v, int digits) {  // half a unit of the last of `digits` significant digits
  if (v == 0) return 1e-300;
  return 0.5 * std::pow(10.0, std::floor(std::log10(std::fabs(v))) - (digits - 1)) * (1 + 1e-6) + 16 * DBL_EPSILON * std::fabs(v);
}

struct Fails {
  std::vector<std::pair<std::string, std::string>> v;
  void add(const std::string &k, const std::string &w) {
    for (auto &p : v) if (p.first == k) return;
    v.push_back({k, w});
  }
};

static const double XA[7] = {0, 1, -1.5, 0.1234567891, 1.23456789012e-7, 9.87654321098e12, -3.3333333333333e-5};
static const double EA[4] = {0, 0.5, 1.234567891e-3, 12345.6789};
static const char FA[4] = {'i', 'o', 'u', '\0'};

// ---------------------------------------------------------------- tab
// n rows, p value pattern, fl flag tuple (base 4), err, cm comment kind, via 0 file / 1 stream
static void run_tab(std::map<std::string, std::string> &m, Fails &F, std::string &sig) {
  int n = atoi(m["n"].c_str()), p = atoi(m["p"].c_str()), fl = atoi(m["fl"].c_str()), err = atoi(m["err"].c_str()),
      cm = atoi(m["cm"].c_str()), via = atoi(m["via"].c_str());
  Table t;
  t.SetHasYErr(err);
  t.resize(n);
  std::vector<char> flags;
  for (int i = 0, q = fl; i < n; i++, q /= 4) flags.push_back(FA[q % 4]);
  for (int i = 0; i < n; i++) {
    double x = XA[(p + i) % 7], y = XA[(p + 2 * i + 3) % 7], e = EA[(p + i + 1) % 4];
    if (err) t.set(i, x, y, flags[i], e);
    else t.set(i, x, y, flags[i]);
  }
  if (cm == 1) t.set_comment("one line");
  if (cm == 2) t.set_comment("first line\nsecond line # with hash\\nthird");
  Table r;
  std::string text;
  if (via == 0) {
    t.Save("t.tab");
    std::ifstream in("t.tab");
    std::stringstream ss; ss << in.rdbuf(); text = ss.str();
    r.Load("t.tab");
  } else {
    std::stringstream ss;
    ss << t;
    text = ss.str();
    ss >> r;
  }
  if (r.size() != n) { F.add("table-size", "wrote " + std::to_string(n) + " rows, read " + std::to_string(r.size())); return; }
  for (int i = 0; i < n; i++) {
    if (!(std::fabs(r.x(i) - t.x(i)) <= sigtol(t.x(i), 10))) F.add("table-x", "row " + std::to_string(i) + " x read " + bsx::fmt(r.x(i)) + " written " + bsx::fmt(t.x(i)));
    if (!(std::fabs(r.y(i) - t.y(i)) <= sigtol(t.y(i), 10))) F.add("table-y", "row " + std::to_string(i) + " y read " + bsx::fmt(r.y(i)) + " written " + bsx::fmt(t.y(i)));
    char fw = flags[i], fr = r.flags(i);
    bool okf = (fw == '\0') ? (fr == 'i' || fr == '\0' || fr == ' ') : (fr == fw);  // an unset flag may come back as the default 'i'
    if (!okf) F.add("table-flag", "row " + std::to_string(i) + " flag read '" + std::string(1, fr) + "' written '" + std::string(1, fw ? fw : '0') + "'");
  }
  if (err && n > 0) {
    std::string row0;
    for (auto &l : bsx::split(text, '\n'))
      if (!l.empty() && l[0] != '#') { row0 = l; break; }
    if (!r.GetHasYErr() || r.yerr().size() != n) {
      F.add("table-yerr-not-read-back", "table written with error column (first row '" + row0 + "') comes back with GetHasYErr()=" +
                                            (r.GetHasYErr() ? "1" : "0") + " and " + std::to_string(r.yerr().size()) + " error values");
    } else {
      for (int i = 0; i < n; i++) {
        double e = EA[(p + i + 1) % 4];
        if (!(std::fabs(r.yerr(i) - e) <= sigtol(e, 10)))
          F.add("table-yerr-value", "row " + std::to_string(i) + " error read " + bsx::fmt(r.yerr(i)) + " written " + bsx::fmt(e));
      }
    }
  }
  std::string fs;
  for (int i = 0; i < n; i++) fs += r.flags(i) ? r.flags(i) : '0';
  sig = std::to_string(n) + ":" + fs + ":" + (r.GetHasYErr() ? "E" : "-");
}

// ---------------------------------------------------------------- mat
static Eigen::MatrixXd matof(int r, int c, int p) {
  Eigen::MatrixXd M(r, c);
  for (int i = 0; i < r; i++)
    for (int j = 0; j < c; j++) {
      if (p == 0) M(i, j) = 1 + i * c + j;                                  // pairwise distinct, ascending row-wise
      else if (p == 1) M(i, j) = ((i + j) % 2 ? -1 : 1) * (1.2345678 * (i + 1) + 0.001 * (j + 1)) * std::pow(10.0, 2 * j - 3 * i);  // non-symmetric, signs, magnitudes
      else M(i, j) = 1 + (i + 1) * (j + 1) + 0.5 * (i + j);                 // symmetric for square shapes
    }
  return M;
}
static std::vector<std::list<Index>> sublists(int n) {
  std::vector<std::list<Index>> v;
  v.push_back({});  // = nullptr
  if (n >= 1) v.push_back({0});
  if (n >= 2) { v.push_back({1, 0}); v.push_back({0, 1}); }
  if (n >= 3) { v.push_back({0, 2}); v.push_back({2, 0, 1}); }
  return v;
}
static void run_mat(std::map<std::string, std::string> &m, Fails &F, std::string &sig) {
  int r = atoi(m["r"].c_str()), c = atoi(m["c"].c_str()), p = atoi(m["p"].c_str()), li = atoi(m["li"].c_str());
  Eigen::MatrixXd M = matof(r, c, p);
  Eigen::MatrixXd E = M;
  std::list<Index> lst;
  if (li > 0) {
    lst = sublists(std::min(r, c))[li];
    E.resize(lst.size(), lst.size());
    int a = 0;
    for (Index i : lst) { int b = 0; for (Index j : lst) { E(a, b) = M(i, j); b++; } a++; }
  }
  csg::imcio_write_matrix("m.imc", M, li > 0 ? &lst : nullptr);
  Eigen::MatrixXd R = csg::imcio_read_matrix("m.imc");
  if (R.rows() != E.rows() || R.cols() != E.cols()) {
    F.add("imc-matrix-shape", "wrote " + std::to_string(E.rows()) + "x" + std::to_string(E.cols()) + ", read " + std::to_string(R.rows()) + "x" + std::to_string(R.cols()));
    return;
  }
  auto close = [&](const Eigen::MatrixXd &A, const Eigen::MatrixXd &B) {
    for (Index i = 0; i < A.rows(); i++)
      for (Index j = 0; j < A.cols(); j++)
        if (!(std::fabs(A(i, j) - B(i, j)) <= sigtol(B(i, j), 8))) return false;
    return true;
  };
  if (!close(R, E)) {
    // the row-wise text taken as column-major storage?
    Eigen::MatrixXd Et = E.transpose();  // column-major storage of Et == row-major sequence of E
    Eigen::MatrixXd S = Eigen::Map<Eigen::MatrixXd>(Et.data(), E.rows(), E.cols());
    std::ostringstream o;
    o << "written (" << E.rows() << "x" << E.cols() << ") row 0 = " << E.row(0) << " ; read row 0 = " << R.row(0);
    if (close(R, S)) F.add("imc-matrix-read-column-major", std::string("row-wise file mapped column-major (") + (E.rows() == E.cols() ? "transposed" : "scrambled") + "): " + o.str());
    else F.add("imc-matrix-mismatch", o.str());
  }
  std::ostringstream s; s << R.rows() << "x" << R.cols() << ":" << R(0, 0) << ":" << R(R.rows() - 1, 0);
  sig = s.str();
}

// ---------------------------------------------------------------- ds
static void run_ds(std::map<std::string, std::string> &m, Fails &F, std::string &sig) {
  int n = atoi(m["n"].c_str()), p = atoi(m["p"].c_str()), li = atoi(m["li"].c_str());
  Table t;
  t.resize(n);
  for (int i = 0; i < n; i++) t.set(i, XA[(p + i) % 7], XA[(p + 2 * i + 3) % 7], 'i');
  std::list<Index> lst;
  std::vector<int> rows;
  if (li > 0) { lst = sublists(n)[li]; for (Index i : lst) rows.push_back((int)i); }
  else for (int i = 0; i < n; i++) rows.push_back(i);
  csg::imcio_write_dS("d.imc", t, li > 0 ? &lst : nullptr);
  Table r;
  r.Load("d.imc");
  if (r.size() != (Index)rows.size()) { F.add("imc-dS-size", "wrote " + std::to_string(rows.size()) + " rows, read " + std::to_string(r.size())); return; }
  for (size_t k = 0; k < rows.size(); k++) {
    int i = rows[k];
    if (!(std::fabs(r.x(k) - t.x(i)) <= sigtol(t.x(i), 8))) F.add("imc-dS-x", "row " + std::to_string(k) + " x read " + bsx::fmt(r.x(k)) + " written " + bsx::fmt(t.x(i)));
    if (!(std::fabs(r.y(k) - t.y(i)) <= sigtol(t.y(i), 8))) F.add("imc-dS-y", "row " + std::to_string(k) + " y read " + bsx::fmt(r.y(k)) + " written " + bsx::fmt(t.y(i)));
  }
  sig = std::to_string(r.size());
}

// ---------------------------------------------------------------- idx
struct RSpec { std::vector<std::array<int, 3>> blocks; };  // begin, end, stride
static const std::vector<RSpec> &rspecs() {
  static std::vector<RSpec> v = {{{{1, 10, 1}}}, {{{11, 20, 1}}}, {{{1, 9, 2}}}, {{{5, 5, 1}}}, {{{1, 3, 1}, {7, 9, 1}}}, {{{21, 41, 5}}}};
  return v;
}
static void run_idx(std::map<std::string, std::string> &m, Fails &F, std::string &sig) {
  static const char *NAMES[3] = {"A-A", "CG-CG", "bond1"};
  int k = atoi(m["k"].c_str()), q = atoi(m["q"].c_str());
  std::vector<std::pair<std::string, tools::RangeParser>> w;
  std::vector<std::vector<Index>> ref;
  for (int i = 0, qq = q; i < k; i++, qq /= 6) {
    const RSpec &s = rspecs()[qq % 6];
    tools::RangeParser rp;
    std::vector<Index> e;
    for (auto &b : s.blocks) {
      rp.Add(b[0], b[1], b[2]);
      for (int v = b[0]; v <= b[1]; v += b[2]) e.push_back(v);
    }
    w.push_back({NAMES[i], rp});
    ref.push_back(e);
  }
  csg::imcio_write_index("i.idx", w);
  auto r = csg::imcio_read_index("i.idx");
  if ((int)r.size() != k) { F.add("imc-index-count", "wrote " + std::to_string(k) + " ranges, read " + std::to_string(r.size())); return; }
  for (int i = 0; i < k; i++) {
    if (r[i].first != NAMES[i]) F.add("imc-index-name", "range " + std::to_string(i) + " name read '" + r[i].first + "' written '" + NAMES[i] + "'");
    std::vector<Index> g;
    for (Index v : r[i].second) { g.push_back(v); if (g.size() > 1000) break; }
    if (g != ref[i]) {
      std::string a, b;
      for (Index v : g) a += std::to_string(v) + " ";
      for (Index v : ref[i]) b += std::to_string(v) + " ";
      F.add("imc-index-range", "range " + std::to_string(i) + " read {" + a + "} written {" + b + "}");
    }
    sig += std::to_string(g.size()) + ",";
  }
}

// ---------------------------------------------------------------- reuse histories
// base tables: 0 empty, 1 two rows no errors, 2 two rows with errors, 3 three rows with errors + unset flags, 4 one row no errors
static void base_table(Table &t, int k) {
  static const int N[5] = {0, 2, 2, 3, 1}, E[5] = {0, 0, 1, 1, 0};
  static const char *FL[5] = {"", "io", "ui", "\0\0\0", "\0"};
  t.SetHasYErr(E[k]);
  t.resize(N[k]);
  for (int i = 0; i < N[k]; i++) {
    double x = XA[(k + i) % 7], y = XA[(2 * k + 2 * i + 3) % 7], e = EA[(k + i + 1) % 4];
    if (E[k]) t.set(i, x, y, FL[k][i], e);
    else t.set(i, x, y, FL[k][i]);
  }
}
static std::string table_state(Table &t) {  // everything a user can observe
  std::ostringstream o;
  o << "n=" << t.size() << " yerr=" << (t.GetHasYErr() ? 1 : 0) << " nyerr=" << (t.GetHasYErr() ? t.yerr().size() : 0) << " |";
  for (Index i = 0; i < t.size(); i++) {
    o << " " << bsx::hexd(t.x(i)) << "," << bsx::hexd(t.y(i)) << "," << (t.flags(i) ? t.flags(i) : '0');
    if (t.GetHasYErr() && i < t.yerr().size()) o << "," << bsx::hexd(t.yerr(i));
  }
  std::ostringstream sv;
  sv << t;
  o << " | saved: " << sv.str();
  return o.str();
}
// fam=tre: ONE Table object: first = Load(base a) [op=0] or push_back of a's rows [op=1] or Load(a) then push_back [op=2]; then Load(base b).
// operator>> starts with clear(): the second Load REPLACES the content, so the object must be indistinguishable from a fresh Table that loaded b.
static void run_tre(std::map<std::string, std::string> &m, Fails &F, std::string &sig) {
  int a = atoi(m["a"].c_str()), b = atoi(m["b"].c_str()), op = atoi(m["op"].c_str()), via = atoi(m["via"].c_str());
  Table ta, tb;
  base_table(ta, a);
  base_table(tb, b);
  std::string texta, textb;
  { std::stringstream s; s << ta; texta = s.str(); }
  { std::stringstream s; s << tb; textb = s.str(); }
  if (via == 0) { ta.Save("a.tab"); tb.Save("b.tab"); }
  auto load = [&](Table &t, const std::string &fn, const std::string &text) {
    if (via == 0) t.Load(fn);
    else { std::stringstream s(text); s >> t; }
  };
  Table fresh, used;
  load(fresh, "b.tab", textb);
  if (op == 0 || op == 2) load(used, "a.tab", texta);
  if (op == 1 || op == 2) for (Index i = 0; i < ta.size(); i++) used.push_back(ta.x(i), ta.y(i), 'o');
  load(used, "b.tab", textb);
  std::string sf = table_state(fresh), su = table_state(used);
  if (sf != su) {
    bool rows_equal = sf.substr(sf.find('|'), sf.find(" | saved") - sf.find('|')) == su.substr(su.find('|'), su.find(" | saved") - su.find('|'));
    std::string key = used.size() != fresh.size() ? "table-reuse-rows-not-replaced"
                      : (used.GetHasYErr() != fresh.GetHasYErr() ? "table-reuse-yerr-flag-stale" : (rows_equal ? "table-reuse-saved-text" : "table-reuse-values"));
    F.add(key, "Table that had " + std::string(op == 1 ? "rows pushed" : "loaded '" + texta.substr(0, texta.find('\n')) + "...'") + " then loads '" +
                   textb.substr(0, textb.find('\n')) + "...': state {" + su.substr(0, 160) + "} but a fresh Table gives {" + sf.substr(0, 160) + "}");
  }
  sig = std::to_string(used.size()) + (used.GetHasYErr() ? "E" : "-");
}
// fam=mre: imcio_read_matrix / imcio_read_index / Table::Load of a dS file called twice in a row on different files (no object, but file-scope state would show)
static void run_mre(std::map<std::string, std::string> &m, Fails &F, std::string &sig) {
  static const int R[4] = {1, 2, 3, 2}, C[4] = {1, 3, 2, 2};
  int a = atoi(m["a"].c_str()), b = atoi(m["b"].c_str());
  Eigen::MatrixXd A = matof(R[a], C[a], 1), B = matof(R[b], C[b], 0);
  csg::imcio_write_matrix("a.imc", A, nullptr);
  csg::imcio_write_matrix("b.imc", B, nullptr);
  Eigen::MatrixXd RA = csg::imcio_read_matrix("a.imc"), RB = csg::imcio_read_matrix("b.imc");
  for (int w = 0; w < 2; w++) {
    const Eigen::MatrixXd &E = w ? B : A, &G = w ? RB : RA;
    bool ok = G.rows() == E.rows() && G.cols() == E.cols();
    for (Index i = 0; ok && i < E.rows(); i++)
      for (Index j = 0; j < E.cols(); j++)
        if (!(std::fabs(G(i, j) - E(i, j)) <= sigtol(E(i, j), 8))) ok = false;
    if (!ok) F.add(w ? "imc-matrix-second-read" : "imc-matrix-first-read", "matrix " + std::to_string(E.rows()) + "x" + std::to_string(E.cols()) + " read back differently when two files are read in a row");
  }
  // index files
  std::vector<std::pair<std::string, tools::RangeParser>> wa, wb;
  for (int i = 0; i <= a % 3; i++) { tools::RangeParser rp; rp.Add(1 + i, 10 + i, 1 + (a + i) % 2); wa.push_back({"A" + std::to_string(i), rp}); }
  for (int i = 0; i <= b % 3; i++) { tools::RangeParser rp; rp.Add(2 + i, 9 + i, 1 + (b + i) % 3); wb.push_back({"B" + std::to_string(i), rp}); }
  csg::imcio_write_index("a.idx", wa);
  csg::imcio_write_index("b.idx", wb);
  auto ra = csg::imcio_read_index("a.idx"), rb = csg::imcio_read_index("b.idx");
  auto expand = [](tools::RangeParser &rp) { std::string s; int n = 0; for (Index v : rp) { s += std::to_string(v) + " "; if (++n > 100) break; } return s; };
  if (rb.size() != wb.size()) F.add("imc-index-second-read", "second index file: wrote " + std::to_string(wb.size()) + " ranges, read " + std::to_string(rb.size()));
  else
    for (size_t i = 0; i < wb.size(); i++)
      if (rb[i].first != wb[i].first || expand(rb[i].second) != expand(wb[i].second))
        F.add("imc-index-second-read", "range " + std::to_string(i) + " of the second file read '" + rb[i].first + "' {" + expand(rb[i].second) + "} written '" + wb[i].first + "' {" + expand(wb[i].second) + "}");
  if (ra.size() != wa.size()) F.add("imc-index-first-read", "first index file: wrote " + std::to_string(wa.size()) + ", read " + std::to_string(ra.size()));
  sig = std::to_string(RB.rows()) + "x" + std::to_string(RB.cols()) + ":" + std::to_string(rb.size());
}

// ---------------------------------------------------------------- special values and blank flags (fam=tsp)
// value alphabet for y and yerr: every printed form the writer can produce, incl. the ones that start with a letter
static const char *VN[9] = {"fin", "-0", "denorm", "1e308", "inf", "-inf", "nan", "-nan", "0.1"};
static double vval(int i) {
  switch (i) {
    case 0: return 1.5;
    case 1: return -0.0;
    case 2: return 4.9406564584124654e-324;  // smallest denormal, prints 4.940656458e-324
    case 3: return 1e308;
    case 4: return INFINITY;
    case 5: return -INFINITY;
    case 6: return std::fabs(std::nan(""));
    case 7: return -std::fabs(std::nan(""));
    default: return 0.1;
  }
}
// flags: the three defined letters, blank ' ', '\0' (what resize / push_back(x,y) leave), and another letter the writer emits as is
static const char TF[6] = {'i', 'o', 'u', ' ', '\0', 'x'};
static const char *TFN[6] = {"i", "o", "u", "space", "nul", "other"};
struct SRow { int y, e, f; };
static const SRow PARTNER[4] = {{0, 8, 0}, {4, 6, 3}, {1, 4, 4}, {6, 5, 1}};  // (1.5,0.1,'i') (inf,nan,' ') (-0,inf,'\0') (nan,-inf,'o')
static bool same_double(double a, double b) {
  if (std::isnan(a) || std::isnan(b)) return std::isnan(a) && std::isnan(b);
  return std::memcmp(&a, &b, sizeof a) == 0;  // bitwise: keeps -0 and denormals apart
}
// err: error column; n rows: row 0 = (y,e,f); p = -1 single row, 9 second row alike, 0..3 second row = PARTNER[p] (mixed rows); ord=1: partner first
static void run_tsp(std::map<std::string, std::string> &m, Fails &F, std::string &sig) {
  int err = atoi(m["err"].c_str()), p = atoi(m["p"].c_str()), via = atoi(m["via"].c_str()), ord = atoi(m["ord"].c_str());
  SRow r0{atoi(m["y"].c_str()), atoi(m["e"].c_str()), atoi(m["f"].c_str())};
  std::vector<SRow> rows{r0};
  if (p == 9) rows.push_back(r0);
  else if (p >= 0) { if (ord) rows.insert(rows.begin(), PARTNER[p]); else rows.push_back(PARTNER[p]); }
  static const double XS[3] = {0.0, 0.1, -2.5};
  Table t;
  t.SetHasYErr(err);
  t.resize((Index)rows.size());
  for (size_t i = 0; i < rows.size(); i++) {
    if (err) t.set((Index)i, XS[i], vval(rows[i].y), TF[rows[i].f], vval(rows[i].e));
    else t.set((Index)i, XS[i], vval(rows[i].y), TF[rows[i].f]);
  }
  Table r;
  std::string text;
  auto rowcls = [&](size_t i) {  // the part of the row that decides how its tail is tokenised
    return std::string("yerr=") + (err ? VN[rows[i].e] : "none") + ",flag=" + TFN[rows[i].f];
  };
  auto ycls = [&](size_t i) { return std::string("y=") + VN[rows[i].y] + ",yerr=" + (err ? "yes" : "none") + ",flag=" + TFN[rows[i].f]; };
  try {
    if (via == 0) {
      t.Save("s.tab");
      std::ifstream in("s.tab");
      std::stringstream ss; ss << in.rdbuf(); text = ss.str();
      r.Load("s.tab");
    } else {
      std::stringstream ss;
      ss << t;
      text = ss.str();
      ss >> r;
    }
  } catch (const std::exception &e) {
    // which row class makes the reader give up: the first row holding a denormal, else row 0
    size_t bad = 0;
    for (size_t i = 0; i < rows.size(); i++) if (rows[i].y == 2 || (err && rows[i].e == 2)) { bad = i; break; }
    bool den = rows[bad].y == 2 || (err && rows[bad].e == 2);
    F.add(std::string("table-special:read-throws:") + (den ? "denormal" : rowcls(bad)), "reading back '" + text.substr(0, text.find('\n')) + "' threw: " + std::string(e.what()).substr(0, 80));
    sig = "EXC";
    return;
  }
  std::string line0 = text.substr(0, text.find('\n'));
  if (r.size() != (Index)rows.size()) { F.add("table-special:size:" + rowcls(0), "wrote " + std::to_string(rows.size()) + " rows ('" + line0 + "' ...), read " + std::to_string(r.size())); return; }
  bool haserr = r.GetHasYErr() && r.yerr().size() == r.size();
  for (size_t i = 0; i < rows.size(); i++) {
    std::string ln = bsx::split(text, '\n')[i];
    std::string ctx = "row " + std::to_string(i) + " written as '" + ln + "'";
    if (!same_double(r.x((Index)i), XS[i])) F.add("table-special:x:" + rowcls(i), ctx + ": x read " + bsx::fmt(r.x((Index)i)));
    if (!same_double(r.y((Index)i), vval(rows[i].y))) F.add("table-special:y:" + ycls(i), ctx + ": y read " + bsx::fmt(r.y((Index)i)) + " written " + bsx::fmt(vval(rows[i].y)));
    char fw = TF[rows[i].f], fr = r.flags((Index)i);
    bool okf = true;
    if (fw == 'i' || fw == 'o' || fw == 'u') okf = fr == fw;                 // a written flag comes back unchanged
    else if (fw == ' ' || fw == '\0') okf = fr == 'i' || fr == ' ' || fr == '\0';  // no flag column is written: the reader's default 'i' (or blank) is all the format can say
    // any other letter: the reader knows i/o/u only; what it returns is not specified (left out)
    if (!okf) F.add("table-special:flag:" + rowcls(i), ctx + ": flag read '" + std::string(1, fr ? fr : '0') + "'");
    if (err) {
      if (!haserr) F.add("table-special:yerr-column-lost:" + rowcls(i), ctx + ": table comes back without error column (GetHasYErr()=" + (r.GetHasYErr() ? "1" : "0") + ")");
      else if (!same_double(r.yerr((Index)i), vval(rows[i].e)))
        F.add("table-special:yerr:" + rowcls(i), ctx + ": error read " + bsx::fmt(r.yerr((Index)i)) + " written " + bsx::fmt(vval(rows[i].e)));
    } else if (r.GetHasYErr()) {
      F.add("table-special:yerr-column-invented:" + rowcls(i), ctx + ": table without error column comes back with one");
    }
  }
  std::string fs;
  for (Index i = 0; i < r.size(); i++) fs += r.flags(i) ? r.flags(i) : '0';
  sig = std::to_string(r.size()) + ":" + fs + ":" + (r.GetHasYErr() ? "E" : "-") + ":" + line0;
}

static std::vector<std::pair<std::string, std::string>> g_last;
static bsx::Outcome run_case(const std::string &cas) {
  bsx::Outcome o;
  auto m = bsx::kvs(cas);
  Fails F;
  std::string sig, fam = m["fam"];
  try {
    if (fam == "tab") run_tab(m, F, sig);
    else if (fam == "mat") run_mat(m, F, sig);
    else if (fam == "ds") run_ds(m, F, sig);
    else if (fam == "idx") run_idx(m, F, sig);
    else if (fam == "tre") run_tre(m, F, sig);
    else if (fam == "tsp") run_tsp(m, F, sig);
    else if (fam == "mre") run_mre(m, F, sig);
    else throw std::runtime_error("unknown family");
  } catch (const std::exception &e) {
    F.add(fam + "-unexpected-exception", std::string("exception: ") + e.what());
  }
  std::string chk = m.count("chk") ? m["chk"] : "", keys;
  for (auto &p : F.v) {
    if (!chk.empty() && p.first != chk) continue;
    o.ok = false;
    if (o.key.empty()) { o.key = p.first; o.what = p.second; }
    o.extra += p.first + "\x1d" + p.second + "\x1c";
    keys += p.first + ",";
  }
  o.cls = bsx::fnv(fam + "|" + sig + "|" + keys);
  if (o.extra.empty()) o.extra = "sig=" + sig;
  return o;
}
static void parse_fails(const std::string &extra, std::vector<std::pair<std::string, std::string>> &out) {
  for (auto &rec : bsx::split(extra, '\x1c')) {
    auto p = rec.find('\x1d');
    if (p == std::string::npos) continue;
    out.push_back({rec.substr(0, p), rec.substr(p + 1)});
  }
}

int main(int argc, char **argv) {
  bsx::Args a = bsx::parse(argc, argv);
  std::cout.rdbuf(nullptr);  // imcio reports "written <file>" on std::cout
  if (a.has_case) {
    bsx::Outcome o;
    bsx::contained(0, 1, [&](long long) { return run_case(a.cas); }, [&](long long, const bsx::Outcome &r) { o = r; });
    if (o.ok) { printf("case holds\n"); return 0; }
    std::vector<std::pair<std::string, std::string>> fl;
    parse_fails(o.extra, fl);
    if (fl.empty()) fl.push_back({o.key, o.what});
    for (auto &p : fl) printf("case FAILS: key=%s %s\n", p.first.c_str(), p.second.c_str());
    return 3;
  }
  bool thorough = a.tier == "thorough";
  bsx::Report R;
  R.property = "C08"; R.part = "tab"; R.tier = a.tier;
  int maxn = thorough ? 4 : 3, maxr = thorough ? 4 : 3, maxc = thorough ? 5 : 4;
  R.rule = "tables: rows 0.." + std::to_string(maxn) + " x 7 cyclic value patterns over {0,1,-1.5,0.1234567891,1.23456789012e-7,9.87654321098e12,-3.3333333333333e-5} "
           "x every flag tuple over {i,o,u,unset} x error column on/off x comment {none, one line, multi-line with '#'} x {Save/Load, operator<< / >>}; "
           "IMC matrices: every shape 1x1.." + std::to_string(maxr) + "x" + std::to_string(maxc) + " x {ascending distinct, non-symmetric signed magnitudes, symmetric} x sub-selection lists {none,{0},{1,0},{0,1},{0,2},{2,0,1}}; "
           "dS vectors: rows 1.." + std::to_string(maxn) + " x patterns x lists; index files: every ordered tuple of 1..3 ranges over 6 range shapes (plain, strided, single, two blocks). "
           "special values: y and yerr over {1.5, -0, smallest denormal, 1e308, inf, -inf, nan, -nan, 0.1} in every column x flags {i, o, u, ' ', NUL, other letter 'x'} x error column on/off, "
           "one row, two alike rows, mixed with 4 partner rows; read back bitwise (or both NaN), written i/o/u flags unchanged, blank flags may return as the default 'i', presence of the error column unchanged, no exception; "
           "reuse histories: ONE Table object that loaded / had pushed / loaded+pushed base table a then loads base table b (5 base tables: empty, 2 rows, 2 rows+errors, 3 rows+errors+unset flags, 1 row; all 25 ordered pairs x {file, stream}) "
           "must be indistinguishable (rows, flags, GetHasYErr, errors, saved text) from a fresh Table that loaded b (operator>> clears first = replace, not append); imcio_read_matrix / imcio_read_index on two files in a row (16 ordered pairs). "
           "Oracle: read == written to half a unit of the last printed digit (10 digits tables, 8 digits imc), flags equal (unset may return as default 'i'), names and expanded index lists equal. "
           "distinct_nontrivial = distinct (family, read-back signature, failure-key set)";
  std::vector<std::string> all;
  for (int n = 0; n <= maxn; n++) {
    int nfl = 1;
    for (int i = 0; i < n; i++) nfl *= 4;
    for (int p = 0; p < 7; p++)
      for (int fl = 0; fl < nfl; fl++)
        for (int err = 0; err < 2; err++)
          for (int cm = 0; cm < 3; cm++)
            for (int via = 0; via < 2; via++)
            {
              std::ostringstream o;
              o << "fam=tab;n=" << n << ";p=" << p << ";fl=" << fl << ";err=" << err << ";cm=" << cm << ";via=" << via;
              all.push_back(o.str());
            }
  }
  for (int r = 1; r <= maxr; r++)
    for (int c = 1; c <= maxc; c++)
      for (int p = 0; p < 3; p++) {
        int nl = (int)sublists(std::min(r, c)).size();
        for (int li = 0; li < nl; li++) {
          std::ostringstream o;
          o << "fam=mat;r=" << r << ";c=" << c << ";p=" << p << ";li=" << li;
          all.push_back(o.str());
        }
      }
  for (int n = 1; n <= maxn; n++)
    for (int p = 0; p < 7; p++)
      for (int li = 0; li < (int)sublists(n).size(); li++) {
        std::ostringstream o;
        o << "fam=ds;n=" << n << ";p=" << p << ";li=" << li;
        all.push_back(o.str());
      }
  for (int k = 1; k <= 3; k++) {
    int nq = 1;
    for (int i = 0; i < k; i++) nq *= 6;
    for (int q = 0; q < nq; q++) {
      std::ostringstream o;
      o << "fam=idx;k=" << k << ";q=" << q;
      all.push_back(o.str());
    }
  }
  // special values x blank flags: single row and two alike rows over the full product, mixed rows with 4 partner rows (both orders in thorough)
  for (int err = 0; err < 2; err++)
    for (int y = 0; y < 9; y++)
      for (int e = 0; e < (err ? 9 : 1); e++)
        for (int f = 0; f < 6; f++)
          for (int p : {-1, 9, 0, 1, 2, 3})
            for (int ord = 0; ord < ((p >= 0 && p < 9 && thorough) ? 2 : 1); ord++)
              for (int via = 0; via < ((p >= 0 && p < 9 && !thorough) ? 1 : 2); via++) {
                std::ostringstream o;
                o << "fam=tsp;err=" << err << ";y=" << y << ";e=" << e << ";f=" << f << ";p=" << p << ";ord=" << ord << ";via=" << (p >= 0 && p < 9 && !thorough ? 1 : via);
                all.push_back(o.str());
              }
  // reuse histories
  for (int a = 0; a < 5; a++)
    for (int b = 0; b < 5; b++)
      for (int op = 0; op < 3; op++)
        for (int via = 0; via < 2; via++) {
          std::ostringstream o;
          o << "fam=tre;a=" << a << ";b=" << b << ";op=" << op << ";via=" << via;
          all.push_back(o.str());
        }
  for (int a = 0; a < 4; a++)
    for (int b = 0; b < 4; b++) {
      std::ostringstream o;
      o << "fam=mre;a=" << a << ";b=" << b;
      all.push_back(o.str());
    }
  std::vector<long long> mine;
  for (long long i = 0; i < (long long)all.size(); i++) if (a.mine(i)) mine.push_back(i);
  bsx::contained(
      0, (long long)mine.size(), [&](long long k) { return run_case(all[mine[k]]); },
      [&](long long k, const bsx::Outcome &o) {
        const std::string &cas = all[mine[k]];
        R.eval();
        R.counters[cas.substr(4, 3)]++;
        R.cls(o.cls);
        if (o.ok) { if ((mine[k] % 401) == 0) R.sample(cas + " -> holds (" + o.extra + ")"); return; }
        std::vector<std::pair<std::string, std::string>> fl;
        parse_fails(o.extra, fl);
        if (fl.empty()) fl.push_back({o.key == "fatal" ? cas.substr(4, 3) + "-crash" : o.key, o.what});
        for (auto &p : fl) R.fail(p.first, p.second + "  [" + cas + "]", cas + ";chk=" + p.first);
      });
  if (!a.out.empty()) R.write(a.out);
  return 0;
}
