// C11_drv — thin batch driver around the REAL votca::tools::OptionsHandler / Property
// (libvotca_tools built from $VERIF_REPO).  It contains no oracle: harness/C11_opts.py
// generates the user option trees, predicts the outcome with an independent reference
// interpreter of the description format and compares with what this driver prints.
//
// Protocol (stdin -> stdout), one record per case:
//   "CASE <defaults_dir> <calcname> <additional choices, comma separated or -> <nbytes>\n" + nbytes of user XML
// answer, one line per case:
//   "OK <json tree>"      resolved options returned by ProcessUserInput
//   "ERR <json string>"   what() of the exception thrown
// The user XML is written to ./u.xml (cwd is a private scratch dir) and read with
// Property::LoadFromXML, exactly as XtpApplication does with the user's option file.
//   "DESC <defaults_dir> <calcname>\n"  -> "OK <json tree>" of CalculatorOptions(calcname)
#include <votca/tools/optionshandler.h>
#include <votca/tools/property.h>

#include <unistd.h>

#include <cstdio>
#include <fstream>
#include <iostream>
#include <sstream>
#include <string>

#include "bsx.h"

using votca::tools::OptionsHandler;
using votca::tools::Property;

static void dump(const Property &p, std::string &o) {
  o += "{\"n\":\"" + bsx::jesc(p.name()) + "\",\"v\":\"" + bsx::jesc(p.value()) + "\",\"a\":{";
  bool first = true;
  for (auto it = p.firstAttribute(); it != p.lastAttribute(); ++it) {
    if (it->first == "help") continue;  // bulky, irrelevant
    if (!first) o += ",";
    first = false;
    o += "\"" + bsx::jesc(it->first) + "\":\"" + bsx::jesc(it->second) + "\"";
  }
  o += "},\"c\":[";
  first = true;
  for (const Property &c : p) {
    if (!first) o += ",";
    first = false;
    dump(c, o);
  }
  o += "]}";
}

int main(int, char **) {
  std::ios::sync_with_stdio(false);
  std::string line;
  while (std::getline(std::cin, line)) {
    std::istringstream is(line);
    std::string cmd, dir, calc, extra;
    is >> cmd >> dir >> calc;
    std::string out;
    try {
      if (cmd == "DESC") {
        OptionsHandler h(dir);
        Property r = h.CalculatorOptions(calc);
        out = "OK ";
        dump(r, out);
      } else if (cmd == "CASE") {
        size_t n = 0;
        is >> extra >> n;
        std::string xml(n, '\0');
        std::cin.read(&xml[0], (std::streamsize)n);
        {
          ::unlink("u.xml");  // fresh file (truncate-and-rewrite makes ext4 flush on close)
          std::ofstream f("u.xml", std::ios::binary | std::ios::trunc);
          f << xml;
        }
        Property user;
        user.LoadFromXML("u.xml");
        OptionsHandler h(dir);
        if (extra != "-") h.setAdditionalChoices(bsx::split(extra, ','));
        Property r = h.ProcessUserInput(user, calc);
        out = "OK ";
        dump(r, out);
      } else {
        out = "ERR \"bad command\"";
      }
    } catch (const std::exception &e) {
      out = "ERR \"" + bsx::jesc(e.what()) + "\"";
    }
    out += "\n";
    fwrite(out.data(), 1, out.size(), stdout);
    fflush(stdout);
  }
  return 0;
}
