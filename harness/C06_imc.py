#!/usr/bin/env python3
"""C06 (part imc) — csg_imc_solve returns for every matrix A, vector b and regularisation
r>0 the solution of (A^T A + r I) x = -A^T b and splits it into the per-interaction
tables named in the index file.

The BUILT executable csg_imc_solve is run on generated group matrix (.gmc), update vector
(.imc) and index (.idx) files.  The space below is enumerated completely (no sampling):

  N=2 : every A in {-1,0,1,2}^(2x2) x b-set x r in {0.1,1,1000} x every index split
  N=3 : every A in {0,1}^(3x3) (quick) / additionally every A in {-1,0,1}^(3x3) (thorough)
  N=4 : every upper and every lower triangular A in {0,1}^(4x4) (thorough), three interactions
Index splits include contiguous ranges, single rows, comma lists ("1,3") and strides
("1:2:3"), i.e. 1, 2 and 3 interactions per file.

Oracle: the linear system is solved in exact rational arithmetic (fractions.Fraction,
Gauss-Jordan) from the numbers written to the input files; every *.dpot.imc written must
exist, carry exactly the rows of its index range with the x column of the .imc file, the
y column equal to the exact solution to the 10 printed digits, and flag i.
"""
import os, shutil, subprocess, sys, itertools
from fractions import Fraction as Fr

sys.path.insert(0, os.path.join(os.environ.get("VERIF_ROOT", "/verif"), "lib"))
import pybsx  # noqa: E402

S4 = [0, 1, -1, 2]
T3 = [0, 1, -1]
U2 = [0, 1]
RS = ["0.1", "1", "1000"]

# index splits: list of (name, range string, [1-based rows])
SPLITS = {
    2: [[("I1", "1:2", [1, 2])],
        [("I1", "1", [1]), ("I2", "2:2", [2])]],
    3: [[("I1", "1:3", [1, 2, 3])],
        [("I1", "1", [1]), ("I2", "2:3", [2, 3])],
        [("I1", "1:2", [1, 2]), ("I2", "3", [3])],
        [("I1", "1", [1]), ("I2", "2", [2]), ("I3", "3:3", [3])],
        [("I1", "1,3", [1, 3]), ("I2", "2", [2])],
        [("I1", "1:2:3", [1, 3]), ("I2", "2:2", [2])]],
    4: [[("I1", "1:2", [1, 2]), ("I2", "3", [3]), ("I3", "4", [4])]],
}
XGRID = ["0.5", "0.75", "1.25", "2"]  # x column of the .imc table (exact binary fractions)


def solve_exact(A, b, r):
    """x with (A^T A + r I) x = -A^T b, exact rationals."""
    n = len(A)
    M = [[sum(Fr(A[k][i]) * A[k][j] for k in range(n)) + (r if i == j else 0) for j in range(n)] for i in range(n)]
    rhs = [-sum(Fr(A[k][i]) * b[k] for k in range(n)) for i in range(n)]
    aug = [M[i] + [rhs[i]] for i in range(n)]
    for c in range(n):
        p = next(i for i in range(c, n) if aug[i][c] != 0)  # SPD: never fails
        aug[c], aug[p] = aug[p], aug[c]
        pv = aug[c][c]
        aug[c] = [v / pv for v in aug[c]]
        for i in range(n):
            if i != c and aug[i][c] != 0:
                f = aug[i][c]
                aug[i] = [vi - f * vc for vi, vc in zip(aug[i], aug[c])]
    return [aug[i][n] for i in range(n)]


def case_string(A, b, r, si):
    n = len(A)
    return "N=%d;A=%s;b=%s;r=%s;split=%d" % (n, ",".join(str(v) for row in A for v in row), ",".join(map(str, b)), r, si)


def parse_case(s):
    kv = dict(p.split("=", 1) for p in s.split(";"))
    n = int(kv["N"])
    flat = [int(v) for v in kv["A"].split(",")]
    A = [flat[i * n:(i + 1) * n] for i in range(n)]
    b = [int(v) for v in kv["b"].split(",")]
    return A, b, kv["r"], int(kv["split"])


def transpose(A):
    return [list(c) for c in zip(*A)]


def read_table(path):
    rows = []
    for line in open(path):
        line = line.split("#")[0].strip()
        if not line:
            continue
        t = line.split()
        rows.append((float(t[0]), float(t[1]), t[2] if len(t) > 2 else ""))
    return rows


def close(y, ref, abstol):
    return abs(y - float(ref)) <= 2e-9 * abs(float(ref)) + abstol


def run_case(A, b, r, si, exe):
    """returns (ok, key, what, cls)"""
    n = len(A)
    split = SPLITS[n][si]
    wd = "imc_case"
    shutil.rmtree(wd, ignore_errors=True)
    os.makedirs(wd)
    with open(os.path.join(wd, "g.gmc"), "w") as f:
        for row in A:
            f.write(" ".join(str(v) for v in row) + "\n")
    with open(os.path.join(wd, "g.imc"), "w") as f:
        for i in range(n):
            f.write("%s %d i\n" % (XGRID[i], b[i]))
    with open(os.path.join(wd, "g.idx"), "w") as f:
        for name, rng, rows in split:
            f.write("%s %s\n" % (name, rng))
    p = subprocess.run([exe, "-i", "g.imc", "-g", "g.gmc", "-n", "g.idx", "-r", r], cwd=wd, stdout=subprocess.PIPE,
                       stderr=subprocess.STDOUT, timeout=120)
    out = p.stdout.decode(errors="replace")
    if p.returncode != 0:
        return False, "imc-solve-exit-status", "csg_imc_solve exited with %d: %s" % (p.returncode, out[-300:].replace("\n", " | ")), None
    rr = Fr(r)
    xs = solve_exact(A, b, rr)
    atb = max(abs(sum(A[k][i] * b[k] for k in range(n))) for i in range(n))
    abstol = 1e-11 * max(float(atb), 1.0) / float(rr)
    # files
    expected_files = sorted(name + ".dpot.imc" for name, _, _ in split)
    got_files = sorted(f for f in os.listdir(wd) if f.endswith(".dpot.imc"))
    if got_files != expected_files:
        return False, "imc-split-files", "tables written %s, index file names %s" % (got_files, expected_files), None
    got = {}
    for name, rng, rows in split:
        tab = read_table(os.path.join(wd, name + ".dpot.imc"))
        if len(tab) != len(rows):
            return False, "imc-split-rows", "%s.dpot.imc has %d rows, index range %s has %d" % (name, len(tab), rng, len(rows)), None
        for (x, y, flag), row in zip(tab, rows):
            if abs(x - float(XGRID[row - 1])) > 1e-9 or flag != "i":
                return False, "imc-split-rows", "%s.dpot.imc row for index %d has x=%r flag=%r, expected x=%s flag=i" % (
                    name, row, x, flag, XGRID[row - 1]), None
            got[row] = y
    bad = [i for i in range(n) if (i + 1) in got and not close(got[i + 1], xs[i], abstol)]
    if bad:
        gv = [got.get(i + 1) for i in range(n)]
        what = "A=%s b=%s r=%s: written x=%s, exact solution of (A^T A+rI)x=-A^T b is %s" % (A, b, r, gv, [float(v) for v in xs])
        At = transpose(A)
        if At != A:
            xt = solve_exact(At, b, rr)
            if all(close(got[i + 1], xt[i], abstol) for i in range(n) if (i + 1) in got):
                return False, "imcio-read-matrix-transposed", what + "; the output equals the solution for the TRANSPOSED matrix " \
                    "(imcio_read_matrix maps the row-major file data column-major)", None
        xneg = [-v for v in xs]
        if all(close(got[i + 1], xneg[i], abstol) for i in range(n) if (i + 1) in got):
            return False, "imc-solve-sign", what + "; the output is the NEGATIVE of the solution", None
        return False, "imc-solve-wrong-solution-" + ("nonsym" if At != A else "sym"), what, None
    cls = (n, si, tuple((v > 0) - (v < 0) for v in xs))
    return True, "", "x=%s" % [float(v) for v in xs], cls


def enumerate_cases(tier):
    thorough = tier == "thorough"
    # N = 2
    b2 = [(1, 0), (0, 1), (2, -1)] if not thorough else [b for b in itertools.product([0, 2, -1], repeat=2) if any(b)]
    for flat in itertools.product(S4, repeat=4):
        A = [list(flat[0:2]), list(flat[2:4])]
        for b in b2:
            for r in RS:
                for si in range(len(SPLITS[2])):
                    yield A, list(b), r, si
    # N = 3 over {0,1}
    b3 = [(1, 2, -1)] if not thorough else [(1, 2, -1), (1, 0, 0), (0, -1, 2)]
    r3 = ["1"] if not thorough else RS
    for flat in itertools.product(U2, repeat=9):
        A = [list(flat[0:3]), list(flat[3:6]), list(flat[6:9])]
        for b in b3:
            for r in r3:
                for si in range(len(SPLITS[3])):
                    yield A, list(b), r, si
    if thorough:
        for flat in itertools.product(T3, repeat=9):
            if all(v in (0, 1) for v in flat):
                continue  # done above
            A = [list(flat[0:3]), list(flat[3:6]), list(flat[6:9])]
            yield A, [1, 2, -1], "0.1", 3
        seen = set()
        for flat in itertools.product(U2, repeat=10):   # all upper and all lower triangular 0/1 matrices
            it = iter(flat)
            U = [[next(it) if j >= i else 0 for j in range(4)] for i in range(4)]
            for A in (U, transpose(U)):
                key = tuple(map(tuple, A))
                if key not in seen:
                    seen.add(key)
                    yield [list(r) for r in A], [1, -1, 2, 1], "1", 0


def main():
    a = pybsx.parse()
    exe = pybsx.exe("csg_imc_solve")
    if a.case:
        A, b, r, si = parse_case(a.case)
        ok, key, what, cls = run_case(A, b, r, si, exe)
        if ok:
            print("case holds:", what)
            return 0
        print("case FAILS: key=%s %s" % (key, what))
        return 3
    R = pybsx.Report("C06", "imc", a.tier)
    R.rule = ("csg_imc_solve executable on generated .gmc/.imc/.idx files: N=2 every A in {-1,0,1,2}^(2x2) x b-set x r in {0.1,1,1000} x "
              "both index splits; N=3 every A in {0,1}^(3x3) x b-set x r-set x 6 index splits (ranges, single rows, comma list, stride; "
              "1..3 interactions)" + ("; N=3 every other A in {-1,0,1}^(3x3); N=4 every upper/lower triangular A in {0,1}^(4x4) with 3 interactions"
                                      if a.tier == "thorough" else "") +
              ". Oracle: exact rational solution of (A^T A + r I)x = -A^T b from the file contents; each <name>.dpot.imc must hold exactly "
              "the rows of its index range (x column of the .imc file, flag i) with y equal to the solution to the printed 10 digits. "
              "distinct_nontrivial = distinct (N, split, sign pattern of the exact solution)")
    for i, (A, b, r, si) in enumerate(enumerate_cases(a.tier)):
        if not a.mine(i):
            continue
        R.eval()
        ok, key, what, cls = run_case(A, b, r, si, exe)
        cs = case_string(A, b, r, si)
        if not ok:
            R.fail(key, what, cs)
            R.count("A_nonsymmetric_failed" if transpose(A) != A else "A_symmetric_failed")
        else:
            R.cls(cls)
            R.count("A_nonsymmetric_ok" if transpose(A) != A else "A_symmetric_ok")
            if R.evaluations % 97 == 5:
                R.sample(cs + " -> " + what)
    shutil.rmtree("imc_case", ignore_errors=True)
    R.write(a.out)
    return 0


if __name__ == "__main__":
    sys.exit(main())
