#!/usr/bin/env python3
"""C06 (part imc) — csg_imc_solve returns for every matrix A, vector b and regularisation
r>0 the solution of (A^T A + r I) x = -A^T b and splits it into the per-interaction
tables named in the index file.

The BUILT executable csg_imc_solve is run on generated group matrix (.gmc), update vector
(.imc) and index (.idx) files.  The space below is enumerated completely (no sampling):

  N=2 : every A in {-1,0,1,2}^(2x2) x b-set x r in {0.1,1,1000} x every index split
  N=3 : every A in {0,1}^(3x3) (quick) / additionally every A in {-1,0,1}^(3x3) (thorough)
  N=4 : every upper and every lower triangular A in {0,1}^(4x4) (thorough), three interactions
Index splits include contiguous ranges, single rows, comma lists ("1,3") and strides
("1:2:3"), i.e. 1, 2 and 3 interactions per file.

Oracle: the linear system is solved in exact rational arithmetic (fractions.Fraction,
Gauss-Jordan) from the numbers written to the input files; every *.dpot.imc written must
exist, carry exactly the rows of its index range with the x column of the .imc file, the
y column equal to the exact solution to the 10 printed digits, and flag i.
"""
import os, shutil, subprocess, sys, itertools
from fractions import Fraction as Fr

sys.path.insert(0, os.path.join(os.environ.get("VERIF_ROOT", "/verif"), "lib"))
import pybsx  # noqa: E402

S4 = [0, 1, -1, 2]
T3 = [0, 1, -1]
U2 = [0, 1]
RS = ["0.1", "1", "1000"]

# index splits: list of (name, range string, [1-based rows])
SPLITS = {
    2: [[("I1", "1:2", [1, 2])],
        [("I1", "1", [1]), ("I2", "2:2", [2])]],
    3: [[("I1", "1:3", [1, 2, 3])],
        [("I1", "1", [1]), ("I2", "2:3", [2, 3])],
        [("I1", "1:2", [1, 2]), ("I2", "3", [3])],
        [("I1", "1", [1]), ("I2", "2", [2]), ("I3", "3:3", [3])],
        [("I1", "1,3", [1, 3]), ("I2", "2", [2])],
        [("I1", "1:2:3", [1, 3]), ("I2", "2:2", [2])]],
    4: [[("I1", "1:2", [1, 2]), ("I2", "3", [3]), ("I3", "4", [4])]],
}
XGRID_SMALL = ["0.5", "0.75", "1.25", "2"]  # x column of the .imc table (exact binary fractions)


def solve_exact(A, b, r):
    """x with (A^T A + r I) x = -A^T b, exact rationals."""
    n = len(A)
    M = [[sum(Fr(A[k][i]) * A[k][j] for k in range(n)) + (r if i == j else 0) for j in range(n)] for i in range(n)]
    rhs = [-sum(Fr(A[k][i]) * b[k] for k in range(n)) for i in range(n)]
    aug = [M[i] + [rhs[i]] for i in range(n)]
    for c in range(n):
        p = next(i for i in range(c, n) if aug[i][c] != 0)  # SPD: never fails
        aug[c], aug[p] = aug[p], aug[c]
        pv = aug[c][c]
        aug[c] = [v / pv for v in aug[c]]
        for i in range(n):
            if i != c and aug[i][c] != 0:
                f = aug[i][c]
                aug[i] = [vi - f * vc for vi, vc in zip(aug[i], aug[c])]
    return [aug[i][n] for i in range(n)]


def case_string(A, b, r, si):
    n = len(A)
    return "N=%d;A=%s;b=%s;r=%s;split=%d" % (n, ",".join(str(v) for row in A for v in row), ",".join(map(str, b)), r, si)


def parse_case(s):
    kv = dict(p.split("=", 1) for p in s.split(";"))
    n = int(kv["N"])
    flat = [int(v) for v in kv["A"].split(",")]
    A = [flat[i * n:(i + 1) * n] for i in range(n)]
    b = [int(v) for v in kv["b"].split(",")]
    return A, b, kv["r"], int(kv["split"])


def transpose(A):
    return [list(c) for c in zip(*A)]


def read_table(path):
    rows = []
    for line in open(path):
        line = line.split("#")[0].strip()
        if not line:
            continue
        t = line.split()
        rows.append((float(t[0]), float(t[1]), t[2] if len(t) > 2 else ""))
    return rows


def close(y, ref, abstol):
    return abs(y - float(ref)) <= 2e-9 * abs(float(ref)) + abstol


def run_case(A, b, r, si, exe, split=None, idxtext=None, xgrid=None, xs=None, ns=None):
    """returns (ok, key, what, cls).  split/idxtext/xgrid given: index-layout family (the index file text is written verbatim)."""
    n = len(A)
    layout_family = split is not None
    if split is None:
        split = SPLITS[n][si]
    XGRID = xgrid or XGRID_SMALL
    wd = "imc_case"
    shutil.rmtree(wd, ignore_errors=True)
    os.makedirs(wd)
    with open(os.path.join(wd, "g.gmc"), "w") as f:
        for row in A:
            f.write(" ".join(repr(v) if isinstance(v, float) else str(v) for v in row) + "\n")
    with open(os.path.join(wd, "g.imc"), "w") as f:
        for i in range(n):
            f.write("%s %s i\n" % (XGRID[i], repr(b[i]) if isinstance(b[i], float) else "%d" % b[i]))
    with open(os.path.join(wd, "g.idx"), "wb") as f:
        if idxtext is not None:
            f.write(idxtext.encode())
        else:
            for name, rng, rows in split:
                f.write(("%s %s\n" % (name, rng)).encode())
    p = subprocess.run([exe, "-i", "g.imc", "-g", "g.gmc", "-n", "g.idx", "-r", r], cwd=wd, stdout=subprocess.PIPE,
                       stderr=subprocess.STDOUT, timeout=120)
    out = p.stdout.decode(errors="replace")
    if p.returncode != 0:
        key = "imc-index-legal-layout-rejected" if layout_family else "imc-solve-exit-status"
        return False, key, "csg_imc_solve exited with %d%s: %s" % (
            p.returncode, " on index file %r" % idxtext if layout_family else "", out[-300:].replace("\n", " | ")), None
    rr = Fr(r)
    if ns is not None and not ns["judge"]:
        xs = [None] * n          # values not judged (r = 0 is outside the statement / too ill-conditioned for IEEE double)
    elif xs is None:
        xs = solve_exact(A, b, rr)
    if ns is None:
        atb = max(abs(sum(A[k][i] * b[k] for k in range(n))) for i in range(n))
        abstol = 1e-11 * max(float(atb), 1.0) / float(rr)
    elif ns["judge"]:
        abstol = ns["tol_rel"] * max(abs(float(v)) for v in xs)
    # files
    expected_files = sorted(name + ".dpot.imc" for name, _, _ in split)
    got_files = sorted(f for f in os.listdir(wd) if f.endswith(".dpot.imc"))
    if got_files != expected_files:
        return False, "imc-split-files", "tables written %s, index file names %s" % (got_files, expected_files), None
    got = {}
    for name, rng, rows in split:
        tab = read_table(os.path.join(wd, name + ".dpot.imc"))
        if len(tab) != len(rows):
            return False, "imc-split-rows", "%s.dpot.imc has %d rows, index range %s has %d%s" % (
                name, len(tab), rng, len(rows), " (index file %r)" % idxtext if layout_family else ""), None
        for (x, y, flag), row in zip(tab, rows):
            if abs(x - float(XGRID[row - 1])) > 1e-9 or flag != "i":
                return False, "imc-split-rows", "%s.dpot.imc row for index %d has x=%r flag=%r, expected x=%s flag=i" % (
                    name, row, x, flag, XGRID[row - 1]), None
            got[row] = y
    if ns is not None and not ns["judge"]:
        return True, "", "tables present, values not judged", ("ns-notjudged", n)
    bad = [i for i in range(n) if (i + 1) in got and not close(got[i + 1], xs[i], abstol)]
    if ns is not None:
        xm = max(abs(float(v)) for v in xs)
        ns["ratio"] = max(abs(got[i + 1] - float(xs[i])) / (2e-9 * abs(float(xs[i])) + abstol) for i in range(n) if (i + 1) in got)
        if bad:
            return False, "imc-nearsingular-wrong-solution", (
                "A=%s b=%s r=%s (smallest singular value %s, cond(A^T A+rI)~%.2g): written x=%s, exact solution of (A^T A+rI)x=-A^T b is %s "
                "(tolerance %.2g of max|x|)" % (A, b, r, ns["sigma"], ns["kappa"], [got.get(i + 1) for i in range(n)],
                                               [float(v) for v in xs], ns["tol_rel"])), None
        return True, "", "x=%s (error/tolerance %.2g, cond %.2g)" % ([float(v) for v in xs], ns["ratio"], ns["kappa"]), \
            ("ns", n, ns["sigma"], r)
    if bad:
        gv = [got.get(i + 1) for i in range(n)]
        what = "A=%s b=%s r=%s: written x=%s, exact solution of (A^T A+rI)x=-A^T b is %s" % (A, b, r, gv, [float(v) for v in xs])
        if layout_family:
            return False, "imc-split-values", what + " (index file %r)" % idxtext, None
        At = transpose(A)
        if At != A:
            xt = solve_exact(At, b, rr)
            if all(close(got[i + 1], xt[i], abstol) for i in range(n) if (i + 1) in got):
                return False, "imcio-read-matrix-transposed", what + "; the output equals the solution for the TRANSPOSED matrix " \
                    "(imcio_read_matrix maps the row-major file data column-major)", None
        xneg = [-v for v in xs]
        if all(close(got[i + 1], xneg[i], abstol) for i in range(n) if (i + 1) in got):
            return False, "imc-solve-sign", what + "; the output is the NEGATIVE of the solution", None
        return False, "imc-solve-wrong-solution-" + ("nonsym" if At != A else "sym"), what, None
    cls = (n, si, tuple((v > 0) - (v < 0) for v in xs))
    if layout_family:
        return True, "", "tables " + ", ".join("%s=rows %s" % (nme, rows) for nme, _, rows in split), cls
    return True, "", "x=%s" % [float(v) for v in xs], cls


# ----------------------------------------------------------------------------- nearly rank-deficient family
# A = U diag(d) V^T with exactly orthogonal rational U, V (Cayley transforms of small integer skew matrices), d = (3,2[,1],sigma),
# every entry then rounded to the nearest double (that double is what is written, read and used by the exact reference);
# b = U c with c_N = component along the small left singular vector.
SIGMAS = ["1e-5", "3e-7", "1e-7", "1e-8"]
RS_NS = ["0", "1e-12", "1e-9", "1e-6", "1e-3", "1"]
SKEW = {3: [(1, 2, -1), (2, -1, 1), (1, 1, 3), (-1, 2, 2), (3, 1, -2), (1, -2, 1)],
        4: [(1, 0, 2, -1, 1, 0), (0, 1, -1, 2, 0, 1), (1, 1, 0, 0, -1, 2), (2, -1, 1, 0, 1, 1)]}
CVEC = [(1, -1, 2, 3), (2, 1, -3, -2)]


def matmul(X, Y):
    return [[sum(X[i][k] * Y[k][j] for k in range(len(Y))) for j in range(len(Y[0]))] for i in range(len(X))]


def inverse(M):
    n = len(M)
    aug = [[Fr(v) for v in M[i]] + [Fr(int(i == j)) for j in range(n)] for i in range(n)]
    for c in range(n):
        p = next(i for i in range(c, n) if aug[i][c] != 0)
        aug[c], aug[p] = aug[p], aug[c]
        pv = aug[c][c]
        aug[c] = [v / pv for v in aug[c]]
        for i in range(n):
            if i != c and aug[i][c] != 0:
                f = aug[i][c]
                aug[i] = [vi - f * vc for vi, vc in zip(aug[i], aug[c])]
    return [row[n:] for row in aug]


def cayley(n, params):
    S = [[Fr(0)] * n for _ in range(n)]
    it = iter(params)
    for i in range(n):
        for j in range(i + 1, n):
            v = Fr(next(it))
            S[i][j], S[j][i] = v, -v
    I = [[Fr(int(i == j)) for j in range(n)] for i in range(n)]
    Q = matmul([[I[i][j] - S[i][j] for j in range(n)] for i in range(n)], inverse([[I[i][j] + S[i][j] for j in range(n)] for i in range(n)]))
    assert matmul(Q, transpose(Q)) == I, "Cayley transform not orthogonal"
    return Q


_ns_cache = {}


def near_singular(n, iu, iv, sigma, ic):
    key = (n, iu, iv, sigma, ic)
    if key not in _ns_cache:
        U, V = cayley(n, SKEW[n][iu]), cayley(n, SKEW[n][iv])
        d = [Fr(3), Fr(2), Fr(1)][:n - 1] + [Fr(sigma)]
        A = matmul([[U[i][k] * d[k] for k in range(n)] for i in range(n)], transpose(V))
        b = [sum(U[i][k] * CVEC[ic][k] for k in range(n)) for i in range(n)]
        _ns_cache[key] = ([[float(v) for v in row] for row in A], [float(v) for v in b])
    return _ns_cache[key]


def run_ns_case(n, iu, iv, sigma, r, ic, exe):
    A, b = near_singular(n, iu, iv, sigma, ic)
    rr, s2 = Fr(r), Fr(sigma) ** 2
    kappa = float((9 + rr) / (s2 + rr))
    tol_rel = 2e-13 * kappa          # ~1000 eps cond(A^T A + r I): forward error bound of the eigen-decomposition inverse
    ns = dict(sigma=sigma, kappa=kappa, tol_rel=tol_rel, judge=(rr > 0 and tol_rel <= 0.3), ratio=0.0)
    Af = [[Fr(v) for v in row] for row in A]     # exactly the doubles that are written and read
    bf = [Fr(v) for v in b]
    xs = solve_exact(Af, bf, rr) if ns["judge"] else None
    si = 1 if n == 3 else 0
    ok, key, what, cls = run_case(A, b, r, si, exe, xs=xs, ns=ns)
    return ok, key, what, cls, ns


def ns_string(n, iu, iv, sigma, r, ic):
    return "fam=ns;N=%d;U=%d;V=%d;sig=%s;r=%s;c=%d" % (n, iu, iv, sigma, r, ic)


def parse_ns(s):
    kv = dict(p.split("=", 1) for p in s.split(";"))
    return int(kv["N"]), int(kv["U"]), int(kv["V"]), kv["sig"], kv["r"], int(kv["c"])


def enumerate_ns_cases(tier):
    thorough = tier == "thorough"
    for n in (3, 4):
        k = len(SKEW[n])
        pairs = [(i, j) for i in range(k) for j in range(k) if i != j] if thorough else [(2 * i, 2 * i + 1) for i in range(k // 2)]
        for (iu, iv) in pairs:
            for sigma in SIGMAS:
                for r in RS_NS:
                    for ic in (0, 1):
                        yield n, iu, iv, sigma, r, ic


# ----------------------------------------------------------------------------- index-file layout family (N = 12)
N12 = 12
XGRID12 = [repr(0.25 * (i + 1)) for i in range(N12)]
MATS12 = [[[((7 * i + 3 * j + i * j) % 5) - 2 for j in range(N12)] for i in range(N12)],
          [[(1 + (i + 2 * j) % 3) if j >= i else (-1 if j == i - 1 else (2 if (i - j) % 5 == 0 else 0)) for j in range(N12)] for i in range(N12)]]
B12 = [((5 * i) % 7) - 3 for i in range(N12)]
# index structures: list of (name, [blocks]) ; rows follow from the blocks
STRUCTS12 = [
    [("AA", ["1:4", "9:12"]), ("BB", ["5:8"])],                                   # one interaction owns two blocks around the other
    [("AA", ["1:2", "5:6", "9:10"]), ("BB", ["3:4", "7:8", "11:12"])],           # three blocks each, interleaved
    [("AA", ["1", "3", "12"]), ("BB", ["2", "4:11"])],                            # single rows
    [("AA", ["1:2:11"]), ("BB", ["2:2:12"])],                                     # strided, interleaved row by row
    [("AA", ["1:3", "7"]), ("BB", ["4:6", "8:9"]), ("CC", ["10:12"])],            # three interactions
    [("AA", ["1:2:5", "8:12"]), ("BB", ["2", "4", "6:7"])],                       # strided block + block ; rows + block
    [("AA", ["1:2", "6", "11:12"])],                                              # three blocks, rows 3-5 and 7-10 unassigned
    [("AA", ["1:6"]), ("BB", ["7:12"])],                                          # baseline: one contiguous block each
]
SEPS = [",", ", ", " ,", " , "]


def rows_of(blocks):
    rows = []
    for bl in blocks:
        t = [int(v) for v in bl.split(":")]
        if len(t) == 1:
            rows.append(t[0])
        elif len(t) == 2:
            rows += list(range(t[0], t[1] + 1))
        else:
            rows += list(range(t[0], t[2] + 1, t[1]))
    return rows


def ncommas(S):
    return sum(len(blocks) - 1 for _, blocks in STRUCTS12[S])


def render_index(S, lay):
    """index file text for structure S; lay: dict(sep=str of digits per comma, ns, lead, trail, colon, eol, cmt).
    Every layout produced here is accepted by the UNCHANGED reader (imcio_read_index: strip #/@ comments, trim, split at the
    first blank, RangeParser strips blanks; tools::getline drops CR).  Not legal there and therefore not generated: tab as
    separator, blank or comment-only lines."""
    out, k = "", 0
    eol = "\r\n" if lay["eol"] == "crlf" else "\n"
    for name, blocks in STRUCTS12[S]:
        bl = [b.replace(":", " : ") for b in blocks] if lay["colon"] else list(blocks)
        rng = bl[0]
        for b in bl[1:]:
            rng += SEPS[int(lay["sep"][k])] + b
            k += 1
        out += " " * lay["lead"] + name + " " * lay["ns"] + rng + " " * lay["trail"] + (" # rows of " + name if lay["cmt"] else "") + eol
    return out


def lay_string(M, S, lay):
    return "fam=idx;M=%d;S=%d;sep=%s;ns=%d;lead=%d;trail=%d;colon=%d;eol=%s;cmt=%d" % (
        M, S, lay["sep"] or "-", lay["ns"], lay["lead"], lay["trail"], lay["colon"], lay["eol"], lay["cmt"])


def parse_lay(s):
    kv = dict(p.split("=", 1) for p in s.split(";"))
    lay = dict(sep="" if kv["sep"] == "-" else kv["sep"], ns=int(kv["ns"]), lead=int(kv["lead"]), trail=int(kv["trail"]),
               colon=int(kv["colon"]), eol=kv["eol"], cmt=int(kv["cmt"]))
    return int(kv["M"]), int(kv["S"]), lay


_xs12 = {}


def run_layout_case(M, S, lay, exe):
    if M not in _xs12:
        _xs12[M] = solve_exact(MATS12[M], B12, Fr(1))
    split = [(name, ",".join(blocks), rows_of(blocks)) for name, blocks in STRUCTS12[S]]
    ok, key, what, cls = run_case(MATS12[M], B12, "1", S, exe, split=split, idxtext=render_index(S, lay), xgrid=XGRID12, xs=_xs12[M])
    if ok:
        cls = ("idx", S, lay["sep"], lay["ns"] > 1, lay["lead"] > 0, lay["trail"] > 0, lay["colon"], lay["eol"], lay["cmt"])
    return ok, key, what, cls


def enumerate_layout_cases(tier):
    base = dict(ns=1, lead=0, trail=0, colon=0, eol="lf", cmt=0)
    for M in (0, 1):
        for S in range(len(STRUCTS12)):
            k = ncommas(S)
            named = [dict(base, sep="0" * k), dict(base, sep="1" * k), dict(base, sep="2" * k), dict(base, sep="3" * k),
                     dict(base, sep="0" * k, ns=4), dict(base, sep="0" * k, trail=3), dict(base, sep="0" * k, lead=2),
                     dict(base, sep="0" * k, eol="crlf"), dict(base, sep="0" * k, colon=1), dict(base, sep="0" * k, cmt=1),
                     dict(sep="3" * k, ns=3, lead=1, trail=2, colon=1, eol="crlf", cmt=1)]
            for lay in named:
                yield M, S, lay
    if tier == "thorough":   # every per-comma assignment of the four comma layouts x name separator x line end x trailing blanks
        for S in range(len(STRUCTS12)):
            k = ncommas(S)
            for seps in itertools.product("0123", repeat=k):
                for ns in (1, 3):
                    for eol in ("lf", "crlf"):
                        for trail in (0, 2):
                            yield 0, S, dict(sep="".join(seps), ns=ns, lead=0, trail=trail, colon=0, eol=eol, cmt=0)


def enumerate_cases(tier):
    thorough = tier == "thorough"
    # N = 2
    b2 = [(1, 0), (0, 1), (2, -1)] if not thorough else [b for b in itertools.product([0, 2, -1], repeat=2) if any(b)]
    for flat in itertools.product(S4, repeat=4):
        A = [list(flat[0:2]), list(flat[2:4])]
        for b in b2:
            for r in RS:
                for si in range(len(SPLITS[2])):
                    yield A, list(b), r, si
    # N = 3 over {0,1}
    b3 = [(1, 2, -1)] if not thorough else [(1, 2, -1), (1, 0, 0), (0, -1, 2)]
    r3 = ["1"] if not thorough else RS
    for flat in itertools.product(U2, repeat=9):
        A = [list(flat[0:3]), list(flat[3:6]), list(flat[6:9])]
        for b in b3:
            for r in r3:
                for si in range(len(SPLITS[3])):
                    yield A, list(b), r, si
    if thorough:
        for flat in itertools.product(T3, repeat=9):
            if all(v in (0, 1) for v in flat):
                continue  # done above
            A = [list(flat[0:3]), list(flat[3:6]), list(flat[6:9])]
            yield A, [1, 2, -1], "0.1", 3
        seen = set()
        for flat in itertools.product(U2, repeat=10):   # all upper and all lower triangular 0/1 matrices
            it = iter(flat)
            U = [[next(it) if j >= i else 0 for j in range(4)] for i in range(4)]
            for A in (U, transpose(U)):
                key = tuple(map(tuple, A))
                if key not in seen:
                    seen.add(key)
                    yield [list(r) for r in A], [1, -1, 2, 1], "1", 0


def main():
    a = pybsx.parse()
    exe = pybsx.exe("csg_imc_solve")
    if a.case:
        if a.case.startswith("fam=ns"):
            ok, key, what, cls, ns = run_ns_case(*parse_ns(a.case), exe)
        elif a.case.startswith("fam=idx"):
            M, S, lay = parse_lay(a.case)
            print("index file: %r" % render_index(S, lay))
            ok, key, what, cls = run_layout_case(M, S, lay, exe)
        else:
            A, b, r, si = parse_case(a.case)
            ok, key, what, cls = run_case(A, b, r, si, exe)
        if ok:
            print("case holds:", what)
            return 0
        print("case FAILS: key=%s %s" % (key, what))
        return 3
    R = pybsx.Report("C06", "imc", a.tier)
    R.rule = ("csg_imc_solve executable on generated .gmc/.imc/.idx files: N=2 every A in {-1,0,1,2}^(2x2) x b-set x r in {0.1,1,1000} x "
              "both index splits; N=3 every A in {0,1}^(3x3) x b-set x r-set x 6 index splits (ranges, single rows, comma list, stride; "
              "1..3 interactions)" + ("; N=3 every other A in {-1,0,1}^(3x3); N=4 every upper/lower triangular A in {0,1}^(4x4) with 3 interactions"
                                      if a.tier == "thorough" else "") +
              "; index-file layout family: N=12, 2 fixed non-symmetric integer matrices x 8 index structures (an interaction owning 1..3 "
              "non-contiguous blocks, interleaved between two interactions, single rows, strided blocks, 3 interactions, unassigned rows) x "
              "11 whitespace layouts legal for the unchanged reader (no blanks; blank after / before / on both sides of every comma; "
              "several blanks after the name; leading blanks; trailing blanks; CRLF; blanks around ':'; trailing # comment; all combined)" +
              ("; plus every per-comma assignment of the four comma layouts x name separator {1,3 blanks} x {LF,CRLF} x trailing blanks {0,2}"
               if a.tier == "thorough" else "") +
              " (tab separators and blank/comment-only lines are rejected by the unchanged reader and not asserted)"
              "; nearly rank-deficient family: A = U diag(3,2[,1],sigma) V^T (N=3,4) with exactly orthogonal rational U,V (Cayley transforms of "
              "integer skew matrices; " + ("all ordered pairs" if a.tier == "thorough" else "3+2 pairs") + "), entries rounded to doubles, sigma "
              "in {1e-5,3e-7,1e-7,1e-8}, b = U c with c_N in {3,-2} along the small left singular vector, r in {0,1e-12,1e-9,1e-6,1e-3,1}; "
              "judged for r>0 against the exact rational solution for the doubles in the file within 2e-13*cond(A^T A+rI) of max|x| "
              "(cond=(9+r)/(sigma^2+r)); cases with 2e-13*cond > 0.3 (r=1e-12 with sigma<=3e-7) and r=0 (outside the statement) only have "
              "their table structure checked"
              ". Oracle: exact rational solution of (A^T A + r I)x = -A^T b from the file contents; each <name>.dpot.imc must hold exactly "
              "the rows of its index range (x column of the .imc file, flag i) with y equal to the solution to the printed 10 digits. "
              "distinct_nontrivial = distinct (N, split, sign pattern of the exact solution)")
    for i, (A, b, r, si) in enumerate(enumerate_cases(a.tier)):
        if not a.mine(i):
            continue
        R.eval()
        ok, key, what, cls = run_case(A, b, r, si, exe)
        cs = case_string(A, b, r, si)
        if not ok:
            R.fail(key, what, cs)
            R.count("A_nonsymmetric_failed" if transpose(A) != A else "A_symmetric_failed")
        else:
            R.cls(cls)
            R.count("A_nonsymmetric_ok" if transpose(A) != A else "A_symmetric_ok")
            if R.evaluations % 97 == 5:
                R.sample(cs + " -> " + what)
    base = i + 1
    for j, (M, S, lay) in enumerate(enumerate_layout_cases(a.tier)):
        if not a.mine(base + j):
            continue
        R.eval()
        ok, key, what, cls = run_layout_case(M, S, lay, exe)
        cs = lay_string(M, S, lay)
        if not ok:
            R.fail(key, what, cs)
            R.count("index_layout_failed")
        else:
            R.cls(cls)
            R.count("index_layout_ok")
            if j % 41 == 7:
                R.sample(cs + " (%r) -> %s" % (render_index(S, lay), what))
    base += j + 1
    worst = 0.0
    for j, c in enumerate(enumerate_ns_cases(a.tier)):
        if not a.mine(base + j):
            continue
        R.eval()
        ok, key, what, cls, ns = run_ns_case(*c, exe)
        cs = ns_string(*c)
        if not ok:
            R.fail(key, what, cs)
            R.count("nearsingular_failed")
        else:
            R.cls(cls)
            R.count("nearsingular_judged_ok" if ns["judge"] else
                    ("nearsingular_r0_values_not_judged" if c[4] == "0" else "nearsingular_too_ill_conditioned_not_judged"))
            worst = max(worst, ns["ratio"])
            if j % 37 == 9:
                R.sample(cs + " -> " + what)
    shutil.rmtree("imc_case", ignore_errors=True)
    R.write(a.out)
    return 0


if __name__ == "__main__":
    sys.exit(main())
