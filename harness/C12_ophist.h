// C12_ophist.h — operation histories on ONE spline object (shared by C12_spline.cc and C07_deriv.cc).
//
// Every public mutator of Spline / CubicSpline / AkimaSpline / LinSpline is an operation:
//   B0 B1     setBC(splineNormal / splinePeriodic)          b0 b1   setBCInt(0 / 1)
//   I1..I4    Interpolate(data set k)   (2 data sets on grid GA = (0,.5,1,1.5,2), 2 on GB = (0,.5,1.5,2))
//   G1F1 G1F2 G2F1 G2F2   GenerateGrid(0,2,0.5 | 0,2,1) followed by Fit(fit data 1|2)        (cubic, linear)
//   F1 F2     Fit(fit data k) on whatever grid the object currently has                      (cubic, linear)
//   S1 S2     CubicSpline::setSplineData(f_k, f2_k) on the current grid                      (cubic)
//   XA XB     getX() = GA | GB (direct grid write) followed by setSplineData(f_1, f2_1)      (cubic, as csg_fmatch does)
// and every evaluation entry point is a probe (it must not change what the object reports):
//   PC PD     scalar Calculate / CalculateDerivative on the probe points
//   PVC PVD   the vector-valued overloads        PP  Print(stream, 0.25)
//   PM        CubicSpline::AddToFitMatrix (value, value+derivative, vector form) and AddBCToFitMatrix   (cubic)
// A reference model tracks what the object SHOULD represent (boundary mode, grid, last data operation).
// Oracle after a step: the object reached through the history reports bit-identically (value and
// derivative, scalar and vector overloads, on knots, knots +-1e-9 and quarter points) what a FRESH
// object reports that was given only the boundary mode, grid and data of the last data operation.
// (setBC after the data operation does not count: boundaries only act inside Interpolate / Fit.)
// AkimaSpline::Fit (throws "not implemented") and splineDerivativeZero (Interpolate throws) are not operations.
#pragma once
#include <cstring>
#include <functional>
#include <sstream>

#include "C12_sets.h"

namespace oph {
using c12::Vec;
using votca::Index;
using namespace votca::tools;

inline const Vec &GA() { static const Vec g{0, 0.5, 1, 1.5, 2}; return g; }
inline const Vec &GB() { static const Vec g{0, 0.5, 1.5, 2}; return g; }
struct XY { Vec x, y; };
inline const XY &interp_data(int k) {  // k = 1..4; all with y0 = yN so that they are legal periodic data too
  static const XY D[4] = {{GA(), {0, 1, -1, 2, 0}}, {GA(), {2, 2, -1, 0, 2}}, {GB(), {-1, 2, 0, -1}}, {GB(), {1, 0, 0.5, 1}}};
  return D[k - 1];
}
inline const XY &fit_data(int k) {  // k = 1..2; 17 abscissae on [0,2], two or more inside every interval of every grid used
  static XY E[2];
  static bool init = false;
  if (!init) {
    const double A[4] = {0.0, 1.0, -1.0, 2.0};
    for (int i = 0; i <= 16; i++) {
      double x = 0.125 * i;
      E[0].x.push_back(x); E[0].y.push_back(A[(3 * i + i / 4) % 4]);
      E[1].x.push_back(x); E[1].y.push_back(x * x - 1.0 + (i % 3 == 0 ? 0.5 : 0.0));
    }
    init = true;
  }
  return E[k - 1];
}
inline void set_data(int k, size_t n, Vec &f, Vec &f2) {  // setSplineData payloads for a grid of n knots
  const double A[4] = {0.0, 1.0, -1.0, 2.0};
  f.assign(n, 0); f2.assign(n, 0);
  for (size_t i = 0; i < n; i++) {
    if (k == 1) { f[i] = A[(i * 3 + 1) % 4]; f2[i] = 0.5 * A[(i + 2) % 4]; }
    else { f[i] = 1 + 0.5 * double(i); f2[i] = (i % 2) ? -1.0 : 1.0; }
  }
}

struct Model {
  int bc = 0;          // boundary mode now in force
  Vec grid;            // knots the object should have
  enum Kind { NONE, INTERP, FIT, SET } kind = NONE;
  int k = 0, bc_at = 0;  // data index and boundary mode of the last data operation
  std::string last = "none";
};

inline std::vector<std::string> alphabet(const std::string &type) {
  std::vector<std::string> a = {"B0", "B1", "b0", "b1", "I1", "I2", "I3", "I4"};
  if (type != "akima") for (const char *s : {"G1F1", "G1F2", "G2F1", "G2F2", "F1", "F2"}) a.push_back(s);
  if (type == "cubic") for (const char *s : {"S1", "S2", "XA", "XB"}) a.push_back(s);
  // rejected operations (seed8-C12, "state after a reported error"): a call the class reports as an error must leave the object as it was
  for (const char *s : {"RM", "RS"}) a.push_back(s);
  if (type != "akima") a.push_back("RF");
  for (const char *s : {"PC", "PD", "PVC", "PVD", "PP"}) a.push_back(s);
  if (type == "cubic") a.push_back("PM");
  return a;
}
inline Vec probes(const Vec &x) {
  Vec r;
  for (size_t i = 0; i < x.size(); i++) {
    r.push_back(x[i]);
    if (i > 0) r.push_back(x[i] - 1e-9);
    if (i + 1 < x.size()) {
      double h = x[i + 1] - x[i];
      r.push_back(x[i] + 1e-9); r.push_back(x[i] + 0.25 * h); r.push_back(x[i] + 0.5 * h); r.push_back(x[i] + 0.75 * h);
    }
  }
  return r;
}
inline Vec generated(double mn, double mx, double h) {  // the knots GenerateGrid makes (scratch object)
  LinSpline s;
  s.GenerateGrid(mn, mx, h);
  Vec g;
  for (Index i = 0; i < s.getX().size(); i++) g.push_back(s.getX()[i]);
  return g;
}

// apply one operation to the object and to the model; false = not applicable in this state (history is not enumerated)
inline bool apply(const std::string &op, const std::string &type, Spline &sp, Model &m) {
  auto *cub = dynamic_cast<CubicSpline *>(&sp);
  if (op == "B0" || op == "B1") { m.bc = op[1] - '0'; sp.setBC(m.bc ? Spline::splinePeriodic : Spline::splineNormal); return true; }
  if (op == "b0" || op == "b1") { m.bc = op[1] - '0'; sp.setBCInt(m.bc); return true; }
  if (op[0] == 'R') {  // RM: Interpolate with x/y of different sizes; RS: Interpolate with one point fewer than the type needs; RF: Fit with x/y of different sizes
    bool threw = false;
    try {
      if (op == "RM") { Vec x{0, 1, 2, 3, 4}, y{1, 2, 3, 4}; sp.Interpolate(c12::eig(x), c12::eig(y)); }
      else if (op == "RS") { Vec x, y; for (int i = 0; i + 1 < c12::minknots(type); i++) { x.push_back(3 + i); y.push_back(7 - 2 * i); } sp.Interpolate(c12::eig(x), c12::eig(y)); }
      else { Vec x{0, 0.5, 1, 1.5, 2}, y{1, 2}; sp.Fit(c12::eig(x), c12::eig(y)); }
    } catch (const std::exception &) { threw = true; }
    return threw;  // the model does not change; a call that is accepted is not a rejected operation (history not enumerated)
  }
  if (op[0] == 'I') {
    int k = op[1] - '0';
    if ((int)interp_data(k).x.size() < c12::minknots(type)) return false;
    sp.Interpolate(c12::eig(interp_data(k).x), c12::eig(interp_data(k).y));
    m.grid = interp_data(k).x; m.kind = Model::INTERP; m.k = k; m.bc_at = m.bc; m.last = "Interpolate";
    return true;
  }
  if (op[0] == 'G') {
    int g = op[1] - '0', k = op[3] - '0';
    sp.GenerateGrid(0, 2, g == 1 ? 0.5 : 1.0);
    sp.Fit(c12::eig(fit_data(k).x), c12::eig(fit_data(k).y));
    m.grid = generated(0, 2, g == 1 ? 0.5 : 1.0); m.kind = Model::FIT; m.k = k; m.bc_at = m.bc; m.last = "GenerateGrid+Fit";
    return true;
  }
  if (op[0] == 'F') {
    if (m.grid.empty()) return false;
    int k = op[1] - '0';
    sp.Fit(c12::eig(fit_data(k).x), c12::eig(fit_data(k).y));
    m.kind = Model::FIT; m.k = k; m.bc_at = m.bc; m.last = "Fit";
    return true;
  }
  if (op[0] == 'S') {
    if (!cub || m.grid.empty()) return false;
    Vec f, f2; set_data(op[1] - '0', m.grid.size(), f, f2);
    cub->setSplineData(c12::eig(f), c12::eig(f2));
    m.kind = Model::SET; m.k = op[1] - '0'; m.bc_at = m.bc; m.last = "setSplineData";
    return true;
  }
  if (op[0] == 'X') {
    if (!cub) return false;
    const Vec &g = op[1] == 'A' ? GA() : GB();
    sp.getX() = c12::eig(g);
    Vec f, f2; set_data(1, g.size(), f, f2);
    cub->setSplineData(c12::eig(f), c12::eig(f2));
    m.grid = g; m.kind = Model::SET; m.k = 1; m.bc_at = m.bc; m.last = "getX+setSplineData";
    return true;
  }
  // probes: need an object that holds data
  if (m.kind == Model::NONE) return false;
  Vec P = probes(m.grid);
  if (op == "PC") { for (double r : P) (void)sp.Calculate(r); return true; }
  if (op == "PD") { for (double r : P) (void)sp.CalculateDerivative(r); return true; }
  if (op == "PVC") { (void)sp.Calculate(c12::eig(P)); return true; }
  if (op == "PVD") { (void)sp.CalculateDerivative(c12::eig(P)); return true; }
  if (op == "PP") { std::ostringstream o; sp.Print(o, 0.25); return true; }
  if (op == "PM") {
    if (!cub) return false;
    Index n = (Index)m.grid.size();
    Eigen::MatrixXd M = Eigen::MatrixXd::Zero(8, 2 * n), B = Eigen::MatrixXd::Zero(n, 2 * n);
    cub->AddToFitMatrix(M, 0.7, 0, 0, 1.0);
    cub->AddToFitMatrix(M, 1.3, 1, 0, 1.0, 2.0);
    Eigen::VectorXd xs(3); xs << 0.1, 1.0, 1.9;
    cub->AddToFitMatrix(M, xs, 2, 0);
    cub->AddBCToFitMatrix(B, 0, 0);
    return true;
  }
  throw std::runtime_error("harness: unknown operation " + op);
}

// a fresh object that was given only what the last data operation used
inline std::unique_ptr<Spline> fresh(const std::string &type, const Model &m) {
  auto sp = c12::make(type, m.bc_at == 1);
  if (m.kind == Model::INTERP) sp->Interpolate(c12::eig(interp_data(m.k).x), c12::eig(interp_data(m.k).y));
  else if (m.kind == Model::FIT) { sp->getX() = c12::eig(m.grid); sp->Fit(c12::eig(fit_data(m.k).x), c12::eig(fit_data(m.k).y)); }
  else if (m.kind == Model::SET) {
    sp->getX() = c12::eig(m.grid);
    Vec f, f2; set_data(m.k, m.grid.size(), f, f2);
    dynamic_cast<CubicSpline &>(*sp).setSplineData(c12::eig(f), c12::eig(f2));
  }
  return sp;
}
inline bool same_bits(double a, double b) { return std::memcmp(&a, &b, sizeof a) == 0 || (a != a && b != b); }

// differential oracle; fail(key suffix, what).  Returns a signature of the state for the vacuity guard.
inline std::string compare_with_fresh(const std::string &type, Spline &sp, const Model &m, long long &checks,
                                      const std::function<void(const std::string &, const std::string &)> &fail) {
  std::string sig;
  // knots
  checks++;
  bool gridok = (size_t)sp.getX().size() == m.grid.size();
  for (size_t i = 0; gridok && i < m.grid.size(); i++) gridok = same_bits(sp.getX()[(Index)i], m.grid[i]);
  if (!gridok) { fail("grid-differs-from-model", "object has " + std::to_string(sp.getX().size()) + " knots, expected " + c12::show(m.grid)); return sig; }
  if (m.kind == Model::NONE) return sig;
  auto fr = fresh(type, m);
  Vec P = probes(m.grid);
  Eigen::VectorXd vc = sp.Calculate(c12::eig(P)), vd = sp.CalculateDerivative(c12::eig(P));
  for (size_t q = 0; q < P.size(); q++) {
    double v = sp.Calculate(P[q]), d = sp.CalculateDerivative(P[q]);
    double fv = fr->Calculate(P[q]), fd = fr->CalculateDerivative(P[q]);
    checks += 4;
    if (!same_bits(v, fv)) fail("value-differs-from-fresh", "Calculate(" + bsx::fmt(P[q]) + ")=" + bsx::fmt(v) + " but a fresh object with the same data gives " + bsx::fmt(fv));
    if (!same_bits(d, fd)) fail("derivative-differs-from-fresh", "CalculateDerivative(" + bsx::fmt(P[q]) + ")=" + bsx::fmt(d) + " but a fresh object with the same data gives " + bsx::fmt(fd));
    if (!same_bits(vc[(Index)q], v)) fail("vector-Calculate-differs-from-scalar", "Calculate(vector)[" + std::to_string(q) + "]=" + bsx::fmt(vc[(Index)q]) + " but Calculate(" + bsx::fmt(P[q]) + ")=" + bsx::fmt(v));
    if (!same_bits(vd[(Index)q], d)) fail("vector-CalculateDerivative-differs-from-scalar", "CalculateDerivative(vector)[" + std::to_string(q) + "]=" + bsx::fmt(vd[(Index)q]) + " but scalar " + bsx::fmt(d));
    if (q % 6 == 4) { char b[48]; snprintf(b, sizeof b, "%.5g,%.5g;", v, d); sig += b; }
  }
  return sig;
}

// all valid histories of exactly `len` operations (validity is decided by apply on a scratch object)
inline void histories(const std::string &type, int len, const std::function<void(const std::string &)> &emit) {
  std::vector<std::string> A = alphabet(type);
  std::vector<int> idx(len, 0), radix(len, (int)A.size());
  do {
    auto sp = c12::make(type, false);
    Model m;
    bool ok = true;
    std::string s;
    // idx[0] is the fastest digit of bsx::next; read the history from the last digit so that it varies slowest first
    for (int p = len - 1; p >= 0 && ok; p--) {
      const std::string &op = A[idx[p]];
      try { ok = apply(op, type, *sp, m); } catch (...) { ok = true; /* keep it: the case run reports the exception */ }
      s += (s.empty() ? "" : ",") + op;
    }
    if (ok && m.kind != Model::NONE) emit(s);
  } while (bsx::next(idx, radix));
}
}  // namespace oph
