#!/usr/bin/env python3
"""C06 (part fmatch) — if the reference forces of a trajectory are generated exactly from
pair, bond, angle and dihedral force functions that are representable on the chosen spline
grid, csg_fmatch reproduces those force functions within fitting tolerance, for both the
constrained and the plain least-squares variant and independent of the block split.

The BUILT executable csg_fmatch is run (--no-map) on generated inputs:
  topol.xml   XML topology (molecules, bonded section)
  traj.dlph   DL_POLY HISTORY trajectory with forces (keytrj 2), orthorhombic (imcon 2) or
              triclinic (imcon 3) cell; 4 frames
  settings.xml  cg.fmatch.{constrainedLS,frames_per_block}, cg.bonded / cg.non-bonded with
              fmatch.{min,max,step,out_step}, cg.nbsearch
Every interaction gets its own force function F(var) inside the spline space of its fit
grid (a straight line or a natural cubic spline through fixed knot values, second
derivatives from an independent tridiagonal solve in exact rationals).  The reference force
on bead i is  f_i = sum over interactions F(var) * d var / d r_i  (F = -dU/dvar), with the
standard closed-form gradients of distance, angle and IUPAC dihedral (self-tested against
central differences at start-up), minimum image by fractional reduction + brute force over the 27 neighbouring images, and
non-bonded pairs = all pairs of the two bead types closer than fmatch.max that do not share a
bonded interaction (the exclusion convention of the topology).

Configurations are deterministic lattices (no random numbers): clusters of beads on a coarse
site grid (so that different clusters never interact), internal coordinates on a regular
lattice over the fit range with a frame dependent offset; the generator VERIFIES that in
every single frame every spline interval of every interaction is sampled at >= 2 interior
points and that no pair / bonded variable falls outside [min,max) (otherwise the case is
a harness error, not a finding).  Oracle: every written <name>.force table = F on the output
grid within 1e-6 (constrained) / 1e-5 (plain) of max|F|, with the full output grid present.
"""
import math, os, shutil, subprocess, sys
from fractions import Fraction as Fr

sys.path.insert(0, os.path.join(os.environ.get("VERIF_ROOT", "/verif"), "lib"))
import pybsx  # noqa: E402

# ----------------------------------------------------------------------------- vectors
def add(a, b): return (a[0] + b[0], a[1] + b[1], a[2] + b[2])
def sub(a, b): return (a[0] - b[0], a[1] - b[1], a[2] - b[2])
def mul(a, s): return (a[0] * s, a[1] * s, a[2] * s)
def dot(a, b): return a[0] * b[0] + a[1] * b[1] + a[2] * b[2]
def cross(a, b): return (a[1] * b[2] - a[2] * b[1], a[2] * b[0] - a[0] * b[2], a[0] * b[1] - a[1] * b[0])
def norm(a): return math.sqrt(dot(a, a))


def rotation(q):
    """q-th member of a fixed list of rotations (Rodrigues formula)."""
    axes = [(1, 2, 3), (-2, 1, 2), (3, -1, 1), (1, 1, -2), (2, 3, -1), (-1, 3, 2), (1, -3, 2), (2, -1, -3), (0, 1, 1), (1, 0, -1), (1, 1, 1)]
    ax = axes[q % len(axes)]
    n = norm(ax)
    k = (ax[0] / n, ax[1] / n, ax[2] / n)
    th = 0.7 + 0.9 * (q // len(axes)) + 0.37 * (q % 7)
    c, s = math.cos(th), math.sin(th)

    def rot(v):
        kv = cross(k, v)
        kd = dot(k, v)
        return add(add(mul(v, c), mul(kv, s)), mul(k, kd * (1 - c)))
    return rot


# ----------------------------------------------------------------------------- reference force functions
class RefFunc:
    """natural cubic spline (or straight line) on the fit grid, evaluated with the textbook
    (Numerical Recipes) form  A y_i + B y_i+1 + ((A^3-A) y''_i + (B^3-B) y''_i+1) h^2/6."""

    def __init__(self, gmin, gmax, step, kind, variant):
        self.gmin, self.gmax, self.step = Fr(gmin), Fr(gmax), Fr(step)
        n = int((self.gmax - self.gmin) / self.step + Fr(1, 2)) + 1
        self.x = [self.gmin + i * self.step for i in range(n - 1)] + [self.gmax]
        pats = [[30, -10, 22, 5, -18, 12, 4, -7, 15, -3, 9, 2], [-12, 25, 3, -20, 14, 6, -9, 18, -4, 11, -15, 7],
                [8, 16, -22, 10, -5, 21, -13, 2, 17, -8, 5, 12], [-25, 4, 13, -6, 19, -11, 3, 20, -14, 6, -2, 9]]
        if kind == "line":
            a, b = [(40, -55), (-15, 70), (22, 35), (-30, -45)][variant % 4]
            self.y = [Fr(a) + Fr(b) * (xi - self.gmin) / (self.gmax - self.gmin) for xi in self.x]
        else:
            p = pats[variant % 4]
            self.y = [Fr(p[i % len(p)]) for i in range(n)]
        self.y2 = self._natural_second_derivatives()
        self.xf = [float(v) for v in self.x]
        self.yf = [float(v) for v in self.y]
        self.y2f = [float(v) for v in self.y2]
        self.scale = max(abs(v) for v in self.yf)
        self.kind = kind

    def _natural_second_derivatives(self):
        n = len(self.x)
        if n <= 2:
            return [Fr(0)] * n
        # tridiagonal system for the interior second derivatives, exact rationals (Thomas algorithm)
        m = n - 2
        a, b, c, d = [Fr(0)] * m, [Fr(0)] * m, [Fr(0)] * m, [Fr(0)] * m
        for k in range(m):
            i = k + 1
            h0, h1 = self.x[i] - self.x[i - 1], self.x[i + 1] - self.x[i]
            a[k], b[k], c[k] = h0 / 6, (h0 + h1) / 3, h1 / 6
            d[k] = (self.y[i + 1] - self.y[i]) / h1 - (self.y[i] - self.y[i - 1]) / h0
        for k in range(1, m):
            w = a[k] / b[k - 1]
            b[k] -= w * c[k - 1]
            d[k] -= w * d[k - 1]
        sol = [Fr(0)] * m
        sol[m - 1] = d[m - 1] / b[m - 1]
        for k in range(m - 2, -1, -1):
            sol[k] = (d[k] - c[k] * sol[k + 1]) / b[k]
        return [Fr(0)] + sol + [Fr(0)]

    def interval(self, v):
        n = len(self.xf)
        i = 0
        while i < n - 2 and v >= self.xf[i + 1]:
            i += 1
        return i

    def __call__(self, v):
        i = self.interval(v)
        h = self.xf[i + 1] - self.xf[i]
        A = (self.xf[i + 1] - v) / h
        B = 1.0 - A
        return A * self.yf[i] + B * self.yf[i + 1] + ((A ** 3 - A) * self.y2f[i] + (B ** 3 - B) * self.y2f[i + 1]) * h * h / 6.0


# ----------------------------------------------------------------------------- internal coordinates and gradients
def grad_dist(ri, rj):
    """r = |rj - ri| ; returns r, (dr/dri, dr/drj)"""
    d = sub(rj, ri)
    r = norm(d)
    u = mul(d, 1.0 / r)
    return r, (mul(u, -1.0), u)


def angle_and_grad(d10, d12):
    """angle at bead 1 between d10 = r0-r1 and d12 = r2-r1."""
    n1, n2 = norm(d10), norm(d12)
    c = dot(d10, d12) / (n1 * n2)
    th = math.acos(max(-1.0, min(1.0, c)))
    s = math.sin(th)
    g0 = mul(sub(mul(d12, 1.0 / (n1 * n2)), mul(d10, c / (n1 * n1))), -1.0 / s)
    g2 = mul(sub(mul(d10, 1.0 / (n1 * n2)), mul(d12, c / (n2 * n2))), -1.0 / s)
    g1 = mul(add(g0, g2), -1.0)
    return th, (g0, g1, g2)


def dihedral_and_grad(b1, b2, b3):
    """IUPAC dihedral of r0..r3 with b1=r1-r0, b2=r2-r1, b3=r3-r2 (Blondel & Karplus gradients)."""
    n1, n2 = cross(b1, b2), cross(b2, b3)
    phi = math.atan2(norm(b2) * dot(b1, n2), dot(n1, n2))
    F, G, H = mul(b1, -1.0), mul(b2, -1.0), b3          # F=r0-r1, G=r1-r2, H=r3-r2
    A, B = cross(F, G), cross(H, G)
    A2, B2, g = dot(A, A), dot(B, B), norm(G)
    g0 = mul(A, -g / A2)
    g3 = mul(B, g / B2)
    t1 = mul(A, dot(F, G) / (A2 * g))
    t2 = mul(B, dot(H, G) / (B2 * g))
    g1 = add(sub(mul(A, g / A2), mul(B, 0.0)), sub(t1, t2))
    g2 = add(mul(B, -g / B2), sub(t2, t1))
    return phi, (g0, g1, g2, g3)


def iangle_grad_as_coded(d10, d12):
    """Transcription of the CURRENT IAngle::Grad of interaction.h (cases 0 and 2 deviate from the
    true gradient); only used to attribute an angle failure to exactly that defect."""
    v1, v2 = d10, d12
    n1, n2 = norm(v1), norm(v2)
    dd = dot(v1, v2)
    ap = 1.0 / math.sqrt(1 - dd * dd / (n1 * n1 * n2 * n2))
    g0 = mul(add(mul(v2, -1.0 / (n1 * n2)), mul(v1, dd / (n1 * n1 * n2 * n2))), ap)
    g1 = mul(sub(mul(add(v1, v2), 1.0 / (n1 * n2)), mul(add(mul(v1, n2 * n2), mul(v2, n1 * n1)), dd / (n1 ** 3 * n2 ** 3))), ap)
    g2 = add(mul(v1, -ap / (n1 * n2)), mul(v2, dd / (n1 * n2 ** 3)))
    return (g0, g1, g2)


def selftest():
    """closed-form gradients vs central differences of the variable itself."""
    pts = [(0.11, 0.02, -0.05), (0.43, 0.13, 0.08), (0.52, 0.47, -0.11), (0.83, 0.55, 0.21)]
    h = 1e-6

    def num(fun, k, c):
        p = [list(x) for x in pts]
        p[k][c] += h
        a = fun(p)
        p[k][c] -= 2 * h
        b = fun(p)
        return (a - b) / (2 * h)
    fa = lambda p: angle_and_grad(sub(p[0], p[1]), sub(p[2], p[1]))[0]
    fd = lambda p: dihedral_and_grad(sub(p[1], p[0]), sub(p[2], p[1]), sub(p[3], p[2]))[0]
    ga = angle_and_grad(sub(pts[0], pts[1]), sub(pts[2], pts[1]))[1]
    gd = dihedral_and_grad(sub(pts[1], pts[0]), sub(pts[2], pts[1]), sub(pts[3], pts[2]))[1]
    for k in range(3):
        for c in range(3):
            assert abs(num(fa, k, c) - ga[k][c]) < 1e-6, ("angle gradient self-test", k, c)
    for k in range(4):
        for c in range(3):
            assert abs(num(fd, k, c) - gd[k][c]) < 1e-6, ("dihedral gradient self-test", k, c, num(fd, k, c), gd[k][c])


# ----------------------------------------------------------------------------- systems
GRIDS = {  # per variable kind: list of (min, max, step) as decimal strings; index 0 dyadic, index 1 decimal
    "nb": [("0.3125", "0.5", "0.03125"), ("0.3", "0.54", "0.04")],
    "bond": [("0.25", "0.4375", "0.03125"), ("0.26", "0.44", "0.03")],
    "angle": [("1", "2.5", "0.25"), ("1.1", "2.3", "0.2")],
    "dihedral": [("-2.5", "2.5", "0.625"), ("-2.4", "2.4", "0.6")],
}
# grids of the "different grid per interaction" mixes (nb3d, bond2, angle2): per interaction its own (min,max,step)
GRIDS_D = {
    "A-A": [("0.3125", "0.4375", "0.03125"), ("0.3", "0.42", "0.04")],      # SHORT cut-off
    "A-B": [("0.34375", "0.5625", "0.03125"), ("0.33", "0.57", "0.04")],    # LONG cut-off
    "B-B": [("0.3125", "0.5", "0.0625"), ("0.32", "0.5", "0.06")],          # medium cut-off, coarser step
    "bond1": GRIDS["bond"], "bond2": [("0.3125", "0.5", "0.0625"), ("0.3", "0.54", "0.06")],
    "ang1": GRIDS["angle"], "ang2": [("1.25", "2.75", "0.5"), ("1.2", "2.6", "0.35")],
}
OUTDIV = [1, 2]  # out_step = step / OUTDIV[grid variant]
PHI = [0.23, 0.41, 0.67, 0.89]
NFRAMES = 4


def lattice_values(gmin, gmax, N, frame, shift):
    """N values regularly spread over (gmin,gmax), offset depends on the frame."""
    d = (gmax - gmin) / N
    return [gmin + (k + PHI[(frame + shift) % 4]) * d for k in range(N)]


def perm(N, frame, a):
    """a fixed permutation of range(N) (multiplicative, a coprime to N)"""
    return [(a * k + 3 * frame + 1) % N for k in range(N)]


class System:
    def __init__(self):
        self.molecules = []      # (name, [(beadname, type)], nmols)
        self.bonded = []         # (kind, group name, [bead name tuples within molecule 'name'], molname)
        self.inter = []          # (kind, group, tuple of global bead ids)
        self.nb = []             # (name, type1, type2)
        self.types = []          # per bead
        self.mol = []            # per bead: molecule id
        self.frames = []         # per frame: list of positions (nm)
        self.site_of = []        # per bead: cluster id (for placing)


def place_clusters(clusters, frame, box, spacing, nside):
    """clusters: list of lists of local coordinates; returns flat positions, one site per cluster."""
    pos = []
    off = [(-0.45, 0.3, -0.2), (0.25, -0.5, 0.4), (-0.1, -0.35, -0.6), (0.5, 0.15, 0.3)][frame]
    for ci, cl in enumerate(clusters):
        s = (ci % nside, (ci // nside) % nside, ci // (nside * nside))
        assert s[2] < nside, "too many clusters for the site grid"
        base = (s[0] * spacing + off[0], s[1] * spacing + off[1], s[2] * spacing + off[2])
        c = (sum(p[0] for p in cl) / len(cl), sum(p[1] for p in cl) / len(cl), sum(p[2] for p in cl) / len(cl))
        for p in cl:
            pos.append(add(sub(p, c), base))
    return pos


def wrap(pos, box):
    """wrap into the cell spanned by the columns a,b,c (lower-triangular convention a=(ax,0,0), b=(bx,by,0), c=(cx,cy,cz))."""
    a, b, c = box
    out = []
    for p in pos:
        k = math.floor(p[2] / c[2]); p = sub(p, mul(c, k))
        k = math.floor(p[1] / b[1]); p = sub(p, mul(b, k))
        k = math.floor(p[0] / a[0]); p = sub(p, mul(a, k))
        out.append(p)
    return out


def reduce_image(d, box):
    """subtract the lattice vector given by rounding the fractional coordinates of d"""
    a, b, c = box
    f2 = d[2] / c[2]
    f1 = (d[1] - f2 * c[1]) / b[1]
    f0 = (d[0] - f1 * b[0] - f2 * c[0]) / a[0]
    k0, k1, k2 = round(f0), round(f1), round(f2)
    return (d[0] - k0 * a[0] - k1 * b[0] - k2 * c[0], d[1] - k1 * b[1] - k2 * c[1], d[2] - k2 * c[2])


def min_image(d, box):
    """shortest image of d: brute force over the 27 neighbours of the reduced vector"""
    d = reduce_image(d, box)
    best, bn = d, dot(d, d)
    a, b, c = box
    for i in (-1, 0, 1):
        for j in (-1, 0, 1):
            for k in (-1, 0, 1):
                e = (d[0] + i * a[0] + j * b[0] + k * c[0], d[1] + i * a[1] + j * b[1] + k * c[1], d[2] + i * a[2] + j * b[2] + k * c[2])
                n = dot(e, e)
                if n < bn:
                    best, bn = e, n
    return best


def triangle(d1, d2, d3):
    x = (d1 * d1 + d2 * d2 - d3 * d3) / (2 * d1)
    y = math.sqrt(d2 * d2 - x * x)
    return [(0.0, 0.0, 0.0), (d1, 0.0, 0.0), (x, y, 0.0)]


def trimer(l1, l2, th):
    return [(l1, 0.0, 0.0), (0.0, 0.0, 0.0), (l2 * math.cos(th), l2 * math.sin(th), 0.0)]


def tetramer(l1, l2, l3, t1, t2, phi):
    b1, b2 = (0.0, 0.0, 0.0), (l2, 0.0, 0.0)
    b0 = (l1 * math.cos(t1), l1 * math.sin(t1), 0.0)
    b3 = add(b2, (-l3 * math.cos(t2), l3 * math.sin(t2) * math.cos(phi), l3 * math.sin(t2) * math.sin(phi)))
    pts = [b0, b1, b2, b3]
    got = dihedral_and_grad(sub(b1, b0), sub(b2, b1), sub(b3, b2))[0]
    if abs(got - phi) > 1e-9:  # opposite handedness of the construction: mirror
        b3 = add(b2, (-l3 * math.cos(t2), l3 * math.sin(t2) * math.cos(phi), -l3 * math.sin(t2) * math.sin(phi)))
        pts = [b0, b1, b2, b3]
    return pts


def build(mix, gridv, cfg):
    """returns System with frames; grids per interaction in S.grid[name] = (min,max,step) strings, S.kind[name]"""
    S = System()
    S.grid, S.kind = {}, {}
    g = lambda kind: GRIDS[kind][gridv]
    fl = lambda t: tuple(float(v) for v in t)
    clusters_per_frame = []
    if mix == "nb1":
        nt = 8
        S.molecules = [("MA", [("A1", "A")], 3 * nt)]
        S.nb = [("A-A", "A", "A")]
        S.grid["A-A"], S.kind["A-A"] = g("nb"), "nb"
        lo, hi, _ = fl(g("nb"))
        for f in range(NFRAMES):
            v = lattice_values(lo, hi, 3 * nt, f, cfg)
            p = perm(3 * nt, f, 7)
            cl = []
            for t in range(nt):
                R = rotation(t + 5 * f + 11 * cfg)
                cl.append([R(x) for x in triangle(v[p[t]], v[p[t + nt]], v[p[t + 2 * nt]])])
            clusters_per_frame.append(cl)
        order = None
    elif mix == "nb2":
        nt = 12
        # topology order: all A beads, then all B beads. cluster t<nt: A,A,B ; t>=nt: A,B,B
        S.molecules = [("MA", [("A1", "A")], 3 * nt), ("MB", [("B1", "B")], 3 * nt)]
        S.nb = [("A-A", "A", "A"), ("A-B", "A", "B"), ("B-B", "B", "B")]
        for nme in ("A-A", "A-B", "B-B"):
            S.grid[nme], S.kind[nme] = g("nb"), "nb"
        lo, hi, _ = fl(g("nb"))
        for f in range(NFRAMES):
            vaa = lattice_values(lo, hi, nt, f, cfg)
            vbb = lattice_values(lo, hi, nt, f, cfg + 1)
            vab = lattice_values(lo, hi, 4 * nt, f, cfg + 2)
            paa, pbb, pab = perm(nt, f, 5), perm(nt, f, 7), perm(4 * nt, f, 11)
            cl = []
            for t in range(nt):      # A A B : d1 = AA, d2 = |p0 p2| = AB, d3 = |p1 p2| = AB
                R = rotation(t + 3 * f + 7 * cfg)
                cl.append([R(x) for x in triangle(vaa[paa[t]], vab[pab[2 * t]], vab[pab[2 * t + 1]])])
            for t in range(nt):      # A B B : d1 = AB, d2 = AB, d3 = BB
                R = rotation(t + 3 * f + 7 * cfg + 4)
                cl.append([R(x) for x in triangle(vab[pab[2 * nt + 2 * t]], vab[pab[2 * nt + 2 * t + 1]], vbb[pbb[t]])])
            clusters_per_frame.append(cl)
        # bead order within clusters -> topology order
        order = []
        for t in range(nt):
            order += [(t, 0), (t, 1)]
        for t in range(nt):
            order += [(nt + t, 0)]
        for t in range(nt):
            order += [(t, 2)]
        for t in range(nt):
            order += [(nt + t, 1), (nt + t, 2)]
    elif mix == "bond":
        nm = 14
        S.molecules = [("DIM", [("a", "A"), ("b", "A")], nm)]
        S.bonded = [("bond", "bond", ["DIM:a DIM:b"])]
        S.grid["bond"], S.kind["bond"] = g("bond"), "bond"
        lo, hi, _ = fl(g("bond"))
        for f in range(NFRAMES):
            v = lattice_values(lo, hi, nm, f, cfg)
            p = perm(nm, f, 5)
            clusters_per_frame.append([[rotation(t + 5 * f + 3 * cfg)(x) for x in [(0.0, 0.0, 0.0), (v[p[t]], 0.0, 0.0)]] for t in range(nm)])
        order = None
    elif mix == "angle":
        nm = 14
        S.molecules = [("TRI", [("a", "A"), ("b", "A"), ("c", "A")], nm)]
        S.bonded = [("angle", "angle", ["TRI:a TRI:b TRI:c"])]
        S.grid["angle"], S.kind["angle"] = g("angle"), "angle"
        lo, hi, _ = fl(g("angle"))
        for f in range(NFRAMES):
            v = lattice_values(lo, hi, nm, f, cfg)
            p = perm(nm, f, 3)
            cl = []
            for t in range(nm):
                l1 = 0.27 + 0.011 * ((3 * t + f) % 9)
                l2 = 0.41 - 0.013 * ((5 * t + 2 * f + cfg) % 8)
                cl.append([rotation(t + 4 * f + 5 * cfg)(x) for x in trimer(l1, l2, v[p[t]])])
            clusters_per_frame.append(cl)
        order = None
    elif mix == "dihedral":
        nm = 18
        S.molecules = [("TET", [("a", "A"), ("b", "A"), ("c", "A"), ("d", "A")], nm)]
        S.bonded = [("dihedral", "dihedral", ["TET:a TET:b TET:c TET:d"])]
        S.grid["dihedral"], S.kind["dihedral"] = g("dihedral"), "dihedral"
        lo, hi, _ = fl(g("dihedral"))
        for f in range(NFRAMES):
            v = lattice_values(lo, hi, nm, f, cfg)
            p = perm(nm, f, 5)
            cl = []
            for t in range(nm):
                l1 = 0.27 + 0.011 * ((3 * t + f) % 9)
                l2 = 0.33 + 0.007 * ((2 * t + f) % 5)
                l3 = 0.41 - 0.013 * ((5 * t + 2 * f + cfg) % 8)
                t1 = 1.7 + 0.06 * ((t + f) % 7)
                t2 = 2.1 - 0.05 * ((2 * t + f + cfg) % 6)
                cl.append([rotation(t + 4 * f + 5 * cfg)(x) for x in tetramer(l1, l2, l3, t1, t2, v[p[t]])])
            clusters_per_frame.append(cl)
        order = None
    elif mix == "bond+angle+nb":
        nm = 14
        # cluster: trimer a-b-c plus three single-bead solvent molecules next to b, a and c
        S.molecules = [("TRI", [("a", "A"), ("b", "A"), ("c", "A")], nm), ("SOL", [("s", "A")], 3 * nm)]
        S.bonded = [("bond", "bond", ["TRI:a TRI:b", "TRI:b TRI:c"]), ("angle", "angle", ["TRI:a TRI:b TRI:c"])]
        S.nb = [("A-A", "A", "A")]
        S.grid["bond"], S.kind["bond"] = g("bond"), "bond"
        S.grid["angle"], S.kind["angle"] = g("angle"), "angle"
        S.grid["A-A"], S.kind["A-A"] = g("nb"), "nb"
        blo, bhi, _ = fl(g("bond"))
        alo, ahi, _ = fl(g("angle"))
        nlo, nhi, _ = fl(g("nb"))
        for f in range(NFRAMES):
            vb = lattice_values(blo, bhi, 2 * nm, f, cfg)
            va = lattice_values(alo, ahi, nm, f, cfg + 1)
            vn = lattice_values(nlo, nhi, 3 * nm, f, cfg + 2)
            pb, pa, pn = perm(2 * nm, f, 5), perm(nm, f, 3), perm(3 * nm, f, 5)
            cl = []
            for t in range(nm):
                l1, l2, th = vb[pb[t]], vb[pb[nm + t]], va[pa[t]]
                a, b, c = trimer(l1, l2, th)
                ua, uc = mul(a, 1.0 / l1), mul(c, 1.0 / l2)
                bis = add(ua, uc)
                bis = mul(bis, 1.0 / norm(bis))
                s1 = mul(bis, -vn[pn[t]])                       # next to b, opposite to the bisector
                s2 = add(a, mul(ua, vn[pn[nm + t]]))            # beyond a
                s3 = add(c, mul(uc, vn[pn[2 * nm + t]]))        # beyond c
                R = rotation(t + 4 * f + 5 * cfg)
                cl.append([R(x) for x in (a, b, c, s1, s2, s3)])
            clusters_per_frame.append(cl)
        order = [(t, k) for t in range(nm) for k in range(3)] + [(t, k) for t in range(nm) for k in (3, 4, 5)]
    elif mix in ("nb3d-LS", "nb3d-SL"):
        # three pair interactions with DIFFERENT (min,max,step); LS: the long cut-off (A-B) comes first in the options
        # file, SL: the short one (A-A) first.  Besides the in-range samples there are A-A and B-B pairs BETWEEN their own
        # cut-off and the long A-B cut-off: a cut-off (or grid) carried over from another interaction changes the pair set.
        nin, ngap = 10, 4
        nt = nin + ngap
        gd = lambda nme: GRIDS_D[nme][gridv]
        S.molecules = [("MA", [("A1", "A")], 3 * nt), ("MB", [("B1", "B")], 3 * nt)]
        names = ("A-B", "B-B", "A-A") if mix.endswith("LS") else ("A-A", "B-B", "A-B")
        S.nb = [(nme, nme[0], nme[2]) for nme in names]
        for nme in names:
            S.grid[nme], S.kind[nme] = gd(nme), "nb"
        (alo, ahi, _), (mlo, mhi, _), (blo, bhi, _) = fl(gd("A-A")), fl(gd("A-B")), fl(gd("B-B"))
        S.gap_pairs_expected = {"A-A": (ahi, mhi, ngap), "B-B": (bhi, mhi, ngap)}
        for f in range(NFRAMES):
            vaa = lattice_values(alo, ahi, nin, f, cfg) + lattice_values(ahi + 0.012, mhi - 0.012, ngap, f, cfg + 1)
            vbb = lattice_values(blo, bhi, nin, f, cfg + 1) + lattice_values(bhi + 0.012, mhi - 0.012, ngap, f, cfg + 2)
            vab = lattice_values(mlo, mhi, 4 * nt, f, cfg + 2)
            paa, pbb, pab = perm(nt, f, 5), perm(nt, f, 3), perm(4 * nt, f, 11)
            cl = []
            for t in range(nt):      # A A B
                R = rotation(t + 3 * f + 7 * cfg)
                cl.append([R(x) for x in triangle(vaa[paa[t]], vab[pab[2 * t]], vab[pab[2 * t + 1]])])
            for t in range(nt):      # A B B
                R = rotation(t + 3 * f + 7 * cfg + 4)
                cl.append([R(x) for x in triangle(vab[pab[2 * nt + 2 * t]], vab[pab[2 * nt + 2 * t + 1]], vbb[pbb[t]])])
            clusters_per_frame.append(cl)
        order = []
        for t in range(nt):
            order += [(t, 0), (t, 1)]
        for t in range(nt):
            order += [(nt + t, 0)]
        for t in range(nt):
            order += [(t, 2)]
        for t in range(nt):
            order += [(nt + t, 1), (nt + t, 2)]
    elif mix in ("bond2-LS", "bond2-SL"):
        # two bond groups with different grids in one molecule a-b-c (bond2 has the larger range)
        nm = 14
        gd = lambda nme: GRIDS_D[nme][gridv]
        S.molecules = [("TRI", [("a", "A"), ("b", "A"), ("c", "A")], nm)]
        groups = [("bond", "bond1", ["TRI:a TRI:b"]), ("bond", "bond2", ["TRI:b TRI:c"])]
        S.bonded = groups[::-1] if mix.endswith("LS") else groups
        for nme in ("bond1", "bond2"):
            S.grid[nme], S.kind[nme] = gd(nme), "bond"
        (lo1, hi1, _), (lo2, hi2, _) = fl(gd("bond1")), fl(gd("bond2"))
        for f in range(NFRAMES):
            v1, v2 = lattice_values(lo1, hi1, nm, f, cfg), lattice_values(lo2, hi2, nm, f, cfg + 1)
            p1, p2 = perm(nm, f, 5), perm(nm, f, 3)
            cl = []
            for t in range(nm):
                th = 1.2 + 0.17 * ((2 * t + f + cfg) % 8)
                cl.append([rotation(t + 4 * f + 5 * cfg)(x) for x in trimer(v1[p1[t]], v2[p2[t]], th)])
            clusters_per_frame.append(cl)
        order = None
    elif mix in ("angle2-LS", "angle2-SL"):
        # two angle groups with different grids in one molecule a-b-c-d (ang2 has the larger upper end)
        nm = 14
        gd = lambda nme: GRIDS_D[nme][gridv]
        S.molecules = [("TET", [("a", "A"), ("b", "A"), ("c", "A"), ("d", "A")], nm)]
        groups = [("angle", "ang1", ["TET:a TET:b TET:c"]), ("angle", "ang2", ["TET:b TET:c TET:d"])]
        S.bonded = groups[::-1] if mix.endswith("LS") else groups
        for nme in ("ang1", "ang2"):
            S.grid[nme], S.kind[nme] = gd(nme), "angle"
        (lo1, hi1, _), (lo2, hi2, _) = fl(gd("ang1")), fl(gd("ang2"))
        for f in range(NFRAMES):
            v1, v2 = lattice_values(lo1, hi1, nm, f, cfg), lattice_values(lo2, hi2, nm, f, cfg + 1)
            p1, p2 = perm(nm, f, 3), perm(nm, f, 5)
            cl = []
            for t in range(nm):
                l1 = 0.27 + 0.011 * ((3 * t + f) % 9)
                l2 = 0.33 + 0.007 * ((2 * t + f) % 5)
                l3 = 0.41 - 0.013 * ((5 * t + 2 * f + cfg) % 8)
                ph = 0.6 + 0.25 * ((t + f + cfg) % 9)
                cl.append([rotation(t + 4 * f + 5 * cfg)(x) for x in tetramer(l1, l2, l3, v1[p1[t]], v2[p2[t]], ph)])
            clusters_per_frame.append(cl)
        order = None
    elif mix in ("xt-AB", "xt-BA"):
        # bonded molecules + CROSS-TYPE pair interaction A-B declared as <type1>A<type2>B (xt-AB) or <type1>B<type2>A (xt-BA),
        # plus A-A.  Molecules in both bead-id orders w.r.t. the type order: dimers a(A)-b(B) and b(B)-a(A), trimers A-B-A and
        # B-A-B (bonds + angle => 1-2 and 1-3 pairs excluded).  All bond lengths (and part of the 1-3 distances) lie INSIDE the
        # pair cut-off, so whether the exclusion is honoured decides the pair set.  Pair samples come from single-bead solvent
        # molecules SA/SB placed next to the molecule beads and from SA triangles.
        nd, ntr, ntri = 4, 4, 6          # per orientation: dimers, trimers ; solvent triangles
        S.molecules = [("DAB", [("a", "A"), ("b", "B")], nd), ("DBA", [("b", "B"), ("a", "A")], nd),
                       ("ABA", [("a", "A"), ("b", "B"), ("c", "A")], ntr), ("BAB", [("a", "B"), ("b", "A"), ("c", "B")], ntr),
                       ("SA", [("s", "A")], 2 * nd + ntr + 2 * ntr + 3 * ntri), ("SB", [("s", "B")], 2 * nd + 2 * ntr + ntr)]
        S.bonded = [("bond", "bond", ["DAB:a DAB:b", "DBA:b DBA:a", "ABA:a ABA:b", "ABA:b ABA:c", "BAB:a BAB:b", "BAB:b BAB:c"]),
                    ("angle", "angle", ["ABA:a ABA:b ABA:c", "BAB:a BAB:b BAB:c"])]
        S.nb = [("A-B", "A", "B") if mix == "xt-AB" else ("A-B", "B", "A"), ("A-A", "A", "A")]
        S.grid["bond"], S.kind["bond"] = g("bond"), "bond"
        S.grid["angle"], S.kind["angle"] = GRIDS_D["ang2"][gridv], "angle"
        S.grid["A-B"], S.kind["A-B"] = g("nb"), "nb"
        S.grid["A-A"], S.kind["A-A"] = g("nb"), "nb"
        S.excluded_inside_cutoff_expected = 2 * nd + 4 * ntr      # every bond of every molecule
        blo, bhi, _ = fl(g("bond"))
        alo, ahi, _ = fl(GRIDS_D["ang2"][gridv])
        nlo, nhi, _ = fl(g("nb"))
        nbond, nang, ncross = 2 * nd + 4 * ntr, 2 * ntr, 4 * nd + 6 * ntr
        for f in range(NFRAMES):
            vb = lattice_values(blo, bhi, nbond, f, cfg)
            va = lattice_values(alo, ahi, nang, f, cfg + 1)
            vx = lattice_values(nlo, nhi, ncross, f, cfg + 2)
            vaa = lattice_values(nlo, nhi, 3 * ntri, f, cfg + 3)
            px, paa = perm(ncross, f, 7), perm(3 * ntri, f, 5)
            # explicit bond / angle assignment: the A-B-A trimer with the smallest angle gets two short bonds, so that in every
            # frame at least one excluded 1-3 (A-A) pair lies inside the A-A cut-off
            TB = [1, 4, 7, 22, 10, 19, 13, 16, 2, 23, 5, 20, 8, 17, 11, 14]     # bond value indices of the trimer slots
            DB = [0, 3, 6, 9, 12, 15, 18, 21]                                    # ... of the dimers
            assert nbond == 24 and nang == 8
            ix = 0
            cl = []
            for t in range(2 * nd):          # dimers: [first bead, second bead, solvent beyond first, solvent beyond second]
                l = vb[DB[(t + 3 * f) % 8]]
                p0, p1 = (0.0, 0.0, 0.0), (l, 0.0, 0.0)
                s0 = (-vx[px[ix]], 0.0, 0.0); ix += 1
                s1 = (l + vx[px[ix]], 0.0, 0.0); ix += 1
                R = rotation(t + 4 * f + 5 * cfg)
                cl.append([R(x) for x in (p0, p1, s0, s1)])
            for t in range(2 * ntr):         # trimers: [a, b, c, solvent next to b, solvent beyond a, solvent beyond c]
                k = 2 * ((t + f) % ntr) if t < ntr else 2 * ((t + f) % ntr) + 1     # A-B-A: even angle indices, B-A-B: odd
                slot = 0 if k == 0 else 1 + (k - 1 + f) % 7
                l1, l2, th = vb[TB[2 * slot]], vb[TB[2 * slot + 1]], va[k]
                a, b, c = trimer(l1, l2, th)
                ua, uc = mul(a, 1.0 / l1), mul(c, 1.0 / l2)
                bis = add(ua, uc)
                bis = mul(bis, 1.0 / norm(bis))
                s1 = mul(bis, -vx[px[ix]]); ix += 1
                s2 = add(a, mul(ua, vx[px[ix]])); ix += 1
                s3 = add(c, mul(uc, vx[px[ix]])); ix += 1
                R = rotation(t + 4 * f + 5 * cfg + 3)
                cl.append([R(x) for x in (a, b, c, s1, s2, s3)])
            for t in range(ntri):            # SA triangles
                R = rotation(t + 5 * f + 11 * cfg)
                cl.append([R(x) for x in triangle(vaa[paa[t]], vaa[paa[t + ntri]], vaa[paa[t + 2 * ntri]])])
            clusters_per_frame.append(cl)
        # topology order: DAB, DBA, ABA, BAB molecules, then all SA, then all SB single-bead molecules
        order = []
        for t in range(2 * nd):
            order += [(t, 0), (t, 1)]
        for t in range(2 * ntr):
            order += [(2 * nd + t, 0), (2 * nd + t, 1), (2 * nd + t, 2)]
        sa, sb = [], []
        for t in range(nd):                  # DAB a(A)-b(B): beyond a -> SB, beyond b -> SA
            sb.append((t, 2)); sa.append((t, 3))
        for t in range(nd, 2 * nd):          # DBA b(B)-a(A): beyond b -> SA, beyond a -> SB
            sa.append((t, 2)); sb.append((t, 3))
        for t in range(ntr):                 # A-B-A: next to b -> SA, beyond the A ends -> SB
            c_ = 2 * nd + t
            sa.append((c_, 3)); sb += [(c_, 4), (c_, 5)]
        for t in range(ntr, 2 * ntr):        # B-A-B: next to a -> SB, beyond the B ends -> SA
            c_ = 2 * nd + t
            sb.append((c_, 3)); sa += [(c_, 4), (c_, 5)]
        for t in range(ntri):
            c_ = 2 * nd + 2 * ntr + t
            sa += [(c_, 0), (c_, 1), (c_, 2)]
        order += sa + sb
    else:
        raise ValueError(mix)
    S.clusters_per_frame = clusters_per_frame
    S.order = order
    return S


def boxes(name, nside, spacing):
    L = nside * spacing
    if name == "ortho":
        return ((L, 0.0, 0.0), (0.0, L + 0.3, 0.0), (0.0, 0.0, L + 0.7))
    return ((L, 0.0, 0.0), (0.35, L + 0.3, 0.0), (-0.45, 0.6, L + 0.7))


def finalize(S, boxname):
    """positions per frame in topology order (rounded the way they are written), bead tables, interactions."""
    ncl = len(S.clusters_per_frame[0])
    nside = 2
    while nside ** 3 < ncl:
        nside += 1
    rmax = 0.0
    for cls_ in S.clusters_per_frame:
        for cl in cls_:
            c = (sum(p[0] for p in cl) / len(cl), sum(p[1] for p in cl) / len(cl), sum(p[2] for p in cl) / len(cl))
            rmax = max(rmax, max(norm(sub(p, c)) for p in cl))
    spacing = math.ceil((2 * rmax + 0.9) * 10) / 10.0   # neighbouring clusters stay > 0.9 nm apart
    S.box = boxes(boxname, nside, spacing)
    # beads / molecules in topology order
    S.types, S.mol, S.beadname = [], [], []
    S.inter = []
    molid = 0
    first_of = {}
    for (mname, beads, nmols) in S.molecules:
        first_of[mname] = []
        for m in range(nmols):
            first_of[mname].append(len(S.types))
            for (bn, bt) in beads:
                S.types.append(bt)
                S.mol.append(molid)
                S.beadname.append(bn)
            molid += 1
    for (kind, group, lists) in S.bonded:
        for spec in lists:
            toks = spec.split()
            mname = toks[0].split(":")[0]
            names = [t.split(":")[1] for t in toks]
            bnames = [b[0] for b in dict((m[0], m[1]) for m in S.molecules)[mname]]
            for start in first_of[mname]:
                S.inter.append((kind, group, tuple(start + bnames.index(nm) for nm in names)))
    S.frames = []
    for f in range(NFRAMES):
        flat = place_clusters(S.clusters_per_frame[f], f, S.box, spacing, nside)
        # cluster-major -> topology order
        idx, k = {}, 0
        for ci, cl in enumerate(S.clusters_per_frame[f]):
            for bi in range(len(cl)):
                idx[(ci, bi)] = k
                k += 1
        if S.order is None:
            pos = flat
        else:
            pos = [flat[idx[o]] for o in S.order]
        assert len(pos) == len(S.types), (len(pos), len(S.types))
        pos = wrap(pos, S.box)
        # what is written: Angstrom with 6 decimals; what the reader makes of it: 0.1 * value
        txt = [tuple("%.6f" % (10.0 * c) for c in p) for p in pos]
        S.frames.append((txt, [tuple(0.1 * float(c) for c in t) for t in txt]))
    # exclusions: beads sharing a bonded interaction
    S.excl = set()
    for (_, _, ids) in S.inter:
        for i in ids:
            for j in ids:
                if i != j:
                    S.excl.add((i, j))


def forces(S, funcs, angle_as_coded=False):
    """per frame forces (kJ/mol/nm) and the sampled values per interaction; raises AssertionError if the
    configuration leaves the domain the case is meant to cover."""
    out = []
    samples = []
    for (txt, pos) in S.frames:
        n = len(pos)
        F = [[0.0, 0.0, 0.0] for _ in range(n)]
        smp = dict((name, []) for name in S.grid)
        gap, excl_inside = {}, {}
        longest = max([float(S.grid[nme][1]) for (nme, _, _) in S.nb] + [0.0])

        def addf(i, g, s):
            F[i][0] += g[0] * s; F[i][1] += g[1] * s; F[i][2] += g[2] * s
        for (kind, group, ids) in S.inter:
            fn = funcs[group]
            if kind == "bond":
                d = min_image(sub(pos[ids[1]], pos[ids[0]]), S.box)
                r = norm(d)
                u = mul(d, 1.0 / r)
                var, grads = r, (mul(u, -1.0), u)
            elif kind == "angle":
                d10 = min_image(sub(pos[ids[0]], pos[ids[1]]), S.box)
                d12 = min_image(sub(pos[ids[2]], pos[ids[1]]), S.box)
                var, grads = angle_and_grad(d10, d12)
                if angle_as_coded:
                    grads = iangle_grad_as_coded(d10, d12)
            else:
                b1 = min_image(sub(pos[ids[1]], pos[ids[0]]), S.box)
                b2 = min_image(sub(pos[ids[2]], pos[ids[1]]), S.box)
                b3 = min_image(sub(pos[ids[3]], pos[ids[2]]), S.box)
                var, grads = dihedral_and_grad(b1, b2, b3)
            smp[group].append(var)
            fv = fn(var)
            for i, gr in zip(ids, grads):
                addf(i, gr, fv)
        for (name, t1, t2) in S.nb:
            fn = funcs[name]
            gmin, gmax = float(S.grid[name][0]), float(S.grid[name][1])
            for i in range(n):
                for j in range(i + 1, n):
                    if not ((S.types[i] == t1 and S.types[j] == t2) or (S.types[i] == t2 and S.types[j] == t1)):
                        continue
                    d0 = reduce_image(sub(pos[j], pos[i]), S.box)
                    # an image closer than 0.8 nm has fractional coordinates < 0.5, i.e. it IS the reduced vector
                    if dot(d0, d0) > 0.64:
                        continue
                    d = min_image(d0, S.box)
                    r = norm(d)
                    if (i, j) in S.excl and S.mol[i] == S.mol[j]:
                        if r < gmax - 1e-3:
                            excl_inside[name] = excl_inside.get(name, 0) + 1   # the exclusion decides the pair set
                        continue
                    if r >= gmax:
                        assert r > gmax + 2e-5, "pair distance %.7f on the cutoff" % r
                        if r < longest - 1e-3:
                            gap[name] = gap.get(name, 0) + 1
                        continue
                    assert r > gmin + 1e-4, "pair distance %g below the fit range of %s" % (r, name)
                    smp[name].append(r)
                    fv = fn(r)
                    u = mul(d, 1.0 / r)
                    addf(i, u, -fv)   # d r / d r_i = -u
                    addf(j, u, fv)
        for nme, (lo_, hi_, cnt_) in getattr(S, "gap_pairs_expected", {}).items():
            assert gap.get(nme, 0) >= cnt_, "only %d %s pairs between its cut-off and the longest cut-off" % (gap.get(nme, 0), nme)
        if hasattr(S, "excluded_inside_cutoff_expected"):
            assert excl_inside.get("A-B", 0) >= S.excluded_inside_cutoff_expected, \
                "only %d excluded A-B pairs inside the cut-off" % excl_inside.get("A-B", 0)
            assert excl_inside.get("A-A", 0) >= 1, "no excluded A-A (1-3) pair inside the cut-off"
        out.append(F)
        samples.append(smp)
    return out, samples


def check_coverage(S, funcs, samples):
    for f, smp in enumerate(samples):
        for name, vals in smp.items():
            fn = funcs[name]
            cnt = [0] * (len(fn.xf) - 1)
            for v in vals:
                assert fn.xf[0] + 1e-4 < v < fn.xf[-1] - 1e-4, "sample %g of %s outside the fit range (frame %d)" % (v, name, f)
                i = fn.interval(v)
                if min(v - fn.xf[i], fn.xf[i + 1] - v) > 1e-3 * (fn.xf[i + 1] - fn.xf[i]):
                    cnt[i] += 1
            assert min(cnt) >= 2, "interval of %s sampled %s times in frame %d" % (name, cnt, f)


# ----------------------------------------------------------------------------- files
def write_inputs(S, F, wd, cls, fpb, gridv, nbsearch):
    with open(os.path.join(wd, "topol.xml"), "w") as f:
        f.write("<topology>\n <molecules>\n")
        for (mname, beads, nmols) in S.molecules:
            f.write('  <molecule name="%s" nmols="%d" nbeads="%d">\n' % (mname, nmols, len(beads)))
            for (bn, bt) in beads:
                f.write('   <bead name="%s" type="%s" mass="1.0" q="0.0"/>\n' % (bn, bt))
            f.write("  </molecule>\n")
        f.write(" </molecules>\n")
        if S.bonded:
            f.write(" <bonded>\n")
            for (kind, group, lists) in S.bonded:
                f.write("  <%s>\n   <name>%s</name>\n   <beads>\n" % (kind, group))
                for spec in lists:
                    f.write("    %s\n" % spec)
                f.write("   </beads>\n  </%s>\n" % kind)
            f.write(" </bonded>\n")
        f.write("</topology>\n")
    with open(os.path.join(wd, "settings.xml"), "w") as f:
        f.write("<cg>\n <fmatch>\n  <constrainedLS>%s</constrainedLS>\n  <frames_per_block>%d</frames_per_block>\n </fmatch>\n" %
                ("true" if cls else "false", fpb))
        if nbsearch:
            f.write(" <nbsearch>%s</nbsearch>\n" % nbsearch)

        def fm(name):
            gmin, gmax, step = S.grid[name]
            ostep = Fr(step) / OUTDIV[gridv]
            return ("  <fmatch>\n   <min>%s</min>\n   <max>%s</max>\n   <step>%s</step>\n   <out_step>%s</out_step>\n  </fmatch>\n" %
                    (gmin, gmax, step, repr(float(ostep))))
        for (kind, group, lists) in S.bonded:
            f.write(" <bonded>\n  <name>%s</name>\n%s </bonded>\n" % (group, fm(group)))
        for (name, t1, t2) in S.nb:
            f.write(" <non-bonded>\n  <name>%s</name>\n  <type1>%s</type1>\n  <type2>%s</type2>\n%s </non-bonded>\n" % (name, t1, t2, fm(name)))
        f.write("</cg>\n")
    tri = any(abs(S.box[i][j]) > 0 for i in range(3) for j in range(3) if i != j)
    imcon = 3 if tri else 2
    n = len(S.types)
    with open(os.path.join(wd, "traj.dlph"), "w") as f:
        f.write("generated by C06_fmatch\n")
        f.write("%10d%10d%10d\n" % (2, imcon, n))
        for fr, (txt, pos) in enumerate(S.frames):
            f.write("timestep %9d %9d %1d %1d %s %s\n" % (fr, n, 2, imcon, "0.001", repr(fr * 0.001)))
            for v in S.box:       # one cell vector per line
                f.write("%s %s %s\n" % tuple("%.6f" % (10.0 * c) for c in v))
            for i in range(n):
                f.write("%-8s %9d 1.0 0.0\n" % (S.beadname[i], i + 1))
                f.write("%s %s %s\n" % txt[i])
                f.write("0.0 0.0 0.0\n")
                # DL_POLY force unit 10 J/mol/A: the reader multiplies by 0.1 -> kJ/mol/nm
                f.write("%s %s %s\n" % tuple(repr(10.0 * c) for c in F[fr][i]))


def read_force_table(path):
    rows = []
    for line in open(path):
        line = line.split("#")[0].strip()
        if not line:
            continue
        t = line.split()
        rows.append((float(t[0]), float(t[1])))
    return rows


def run_fmatch(wd, exe):
    p = subprocess.run([exe, "--top", "topol.xml", "--trj", "traj.dlph", "--options", "settings.xml", "--no-map"], cwd=wd,
                       stdout=subprocess.PIPE, stderr=subprocess.STDOUT, timeout=600)
    return p.returncode, p.stdout.decode(errors="replace")


def compare(S, funcs, wd, cls, gridv):
    """returns list of (name, worst relative deviation, detail) for tables that deviate; and the signature"""
    bad, sig = [], []
    tol = 1e-6 if cls else 1e-5
    for name in S.grid:
        fn = funcs[name]
        path = os.path.join(wd, name + ".force")
        if not os.path.exists(path):
            bad.append((name, "missing", "no table %s.force written" % name))
            continue
        rows = read_force_table(path)
        ostep = float(Fr(S.grid[name][2]) / OUTDIV[gridv])
        nexp = int(round((fn.xf[-1] - fn.xf[0]) / ostep)) + 1
        if not (nexp - 1 <= len(rows) <= nexp):   # the last point may fall to the truncation in num_outgrid
            bad.append((name, "rows", "%s.force has %d rows, output grid has %d points" % (name, len(rows), nexp)))
            continue
        worst, wd_ = 0.0, ""
        for k, (x, y) in enumerate(rows):
            xe = fn.xf[0] + k * ostep
            if abs(x - xe) > 1e-8:
                bad.append((name, "grid", "%s.force row %d has x=%r, expected %r" % (name, k, x, xe)))
                worst = None
                break
            e = fn(min(x, fn.xf[-1]))
            dev = abs(y - e) / fn.scale
            if not (dev <= worst):   # also catches nan
                worst, wd_ = dev, "%s.force at x=%g: written %.10g, generating function %.10g" % (name, x, y, e)
        if worst is None:
            continue
        sig.append((name, len(rows)))
        _worst[0] = max(_worst[0], worst) if worst == worst else float("inf")
        if not (worst <= tol):
            bad.append((name, worst, wd_ + " (deviation %.3g of max|F|=%.4g, tolerance %g)" % (worst, fn.scale, tol)))
    return bad, sig


_worst = [0.0]   # largest deviation/max|F| seen in tables of the last compare()


def make_funcs(S, funckind, variant):
    funcs = {}
    for k, name in enumerate(sorted(S.grid)):
        gmin, gmax, step = S.grid[name]
        funcs[name] = RefFunc(gmin, gmax, step, funckind, variant + k)
    return funcs


_cache = {}


def run_case(c, exe, verbose=False):
    """c: dict(mix, cls, fpb, box, grid, func, cfg, nbs).  returns (ok, key, what, cls)"""
    wd = "fm_case"
    shutil.rmtree(wd, ignore_errors=True)
    os.makedirs(wd)
    key = (c["mix"], c["grid"], c["cfg"], c["box"], c["func"])
    if _cache.get("key") != key:   # the system does not depend on cls / fpb / nbsearch
        _cache.clear()
        S = build(c["mix"], c["grid"], c["cfg"])
        finalize(S, c["box"])
        funcs = make_funcs(S, c["func"], c["cfg"])
        F, samples = forces(S, funcs)
        check_coverage(S, funcs, samples)
        _cache.update(key=key, val=(S, funcs, F))
    S, funcs, F = _cache["val"]
    nbs = c["nbs"] if S.nb else ""
    write_inputs(S, F, wd, c["cls"], c["fpb"], c["grid"], nbs)
    rc, out = run_fmatch(wd, exe)
    if verbose:
        print(out[-1500:])
    if rc != 0:
        return False, "fmatch-exit-status-" + c["mix"], "csg_fmatch exited with %d: %s" % (rc, out[-400:].replace("\n", " | ")), None
    _worst[0] = 0.0
    bad, sig = compare(S, funcs, wd, c["cls"], c["grid"])
    if not bad:
        return True, "", "tables " + ", ".join("%s(%d rows)" % s for s in sig) + \
            " reproduce the generating functions (largest deviation %.2g of max|F|)" % _worst[0], \
            (c["mix"], c["cls"], c["func"], tuple(sig))
    what = "; ".join(b[2] for b in bad)
    has_angle = any(k == "angle" for k in S.kind.values())
    if has_angle:
        # attribute to the IAngle::Grad defect iff forces generated with the gradient AS CODED are reproduced
        F2, _ = forces(S, funcs, angle_as_coded=True)
        shutil.rmtree(wd, ignore_errors=True)
        os.makedirs(wd)
        write_inputs(S, F2, wd, c["cls"], c["fpb"], c["grid"], nbs)
        rc2, out2 = run_fmatch(wd, exe)
        if rc2 == 0:
            bad2, _ = compare(S, funcs, wd, c["cls"], c["grid"])
            if not bad2:
                return False, "fmatch-angle-iangle-grad", what + " -- the same case IS reproduced when the reference angle forces use " \
                    "IAngle::Grad as coded (wrong denominator for bead 0, second term outside acos' for bead 2): the angle rows of the " \
                    "design matrix are not the gradient of the angle", None
    kinds = sorted(set(S.kind[b[0]] for b in bad))
    return False, "fmatch-mismatch-" + c["mix"] + "-" + "+".join(kinds), what, None


MIXES = ["nb1", "nb2", "bond", "angle", "dihedral", "bond+angle+nb"]
# interactions of the same kind with DIFFERENT grids / cut-offs, both orders in the options file
MIXES_D = ["nb3d-LS", "nb3d-SL", "bond2-LS", "bond2-SL", "angle2-LS", "angle2-SL"]
# bonded molecules + cross-type pair interaction in both declaration orders (exclusions decide the pair set)
MIXES_X = ["xt-AB", "xt-BA"]


def case_string(c):
    return "mix=%(mix)s;cls=%(cls)d;fpb=%(fpb)d;box=%(box)s;grid=%(grid)d;func=%(func)s;cfg=%(cfg)d;nbs=%(nbs)s" % c


def parse_case(s):
    kv = dict(p.split("=", 1) for p in s.split(";"))
    return dict(mix=kv["mix"], cls=int(kv["cls"]), fpb=int(kv["fpb"]), box=kv["box"], grid=int(kv["grid"]), func=kv["func"],
                cfg=int(kv["cfg"]), nbs=kv["nbs"])


def enumerate_cases(tier):
    thorough = tier == "thorough"
    fpbs = [1, 2, 4] if not thorough else [1, 2, 3, 4]
    cfgs = [0] if not thorough else [0, 1, 2]
    for mix in MIXES + MIXES_D + MIXES_X:
        has_nb = "nb" in mix or mix in MIXES_X
        reduced = (mix in MIXES_D + MIXES_X) and not thorough      # quick: spline functions, triclinic cell, block sizes 1 and 4 only
        for cfg in cfgs:
            for func in (("spline",) if reduced else ("line", "spline")):
                for grid in (0, 1):
                    for box in (("tri",) if reduced else ("ortho", "tri")):
                        for nbs in (("simple", "grid") if has_nb else ("simple",)):
                            for cls in (1, 0):
                                for fpb in ((1, 4) if reduced else fpbs):
                                    yield dict(mix=mix, cls=cls, fpb=fpb, box=box, grid=grid, func=func, cfg=cfg, nbs=nbs)


def main():
    a = pybsx.parse()
    exe = pybsx.exe("csg_fmatch")
    selftest()
    if a.case:
        ok, key, what, cls = run_case(parse_case(a.case), exe, verbose=True)
        if ok:
            print("case holds:", what)
            return 0
        print("case FAILS: key=%s %s" % (key, what))
        return 3
    R = pybsx.Report("C06", "fmatch", a.tier)
    R.rule = ("csg_fmatch executable (--no-map, XML topology, DL_POLY HISTORY with forces) on the full product: interaction mix {non-bonded "
              "one type, non-bonded two types (A-A,A-B,B-B), bond, angle, dihedral, bond+angle+non-bonded} x generating functions {straight "
              "lines, natural cubic splines; a different one per interaction} x fit grid {dyadic with out_step=step, decimal with "
              "out_step=step/2} x cell {orthorhombic, triclinic} x nbsearch {simple, grid} x constrainedLS {true,false} x frames_per_block " +
              ("{1,2,3,4} x 3 configuration lattices" if a.tier == "thorough" else "{1,2,4}") +
              "; PLUS interactions of one kind with DIFFERENT (min,max,step) per interaction, each in both orders of the options file "
              "(larger range first / smaller first): three pair interactions A-A (short cut-off), A-B (long), B-B (medium, coarser step) "
              "with A-A and B-B pairs lying between their own and the long cut-off (verified per frame, none within 2e-5 nm of a cut-off), "
              "two bond groups, two angle groups; PLUS bonded molecules with a CROSS-TYPE pair interaction A-B declared in both orders "
              "(type1,type2 = A,B and B,A) next to A-A: dimers a(A)-b(B) and b(B)-a(A), trimers A-B-A and B-A-B (bonds + angle), all bond "
              "lengths and part of the 1-3 distances INSIDE the pair cut-off (verified per frame), so that honouring the exclusions decides "
              "the pair set; pair samples from single-bead solvent molecules" +
              (" (full product as above)" if a.tier == "thorough" else " (spline functions, triclinic cell, frames_per_block {1,4})") +
              "; all over 4-frame lattice configurations in which every frame samples every spline interval >= 2 times (verified). Oracle: "
              "every <name>.force table equals the generating function on the whole output grid within 1e-6 (constrained) / 1e-5 (plain) "
              "of max|F|. distinct_nontrivial = distinct (mix, LS variant, function family, tables written)")
    R.assumptions = ["fmatch: reference forces are computed in IEEE double from positions rounded to 1e-6 Angstrom exactly as the reader "
                     "sees them (relative error ~1e-15, far below the 1e-6 tolerance); bead pairs sharing a bonded interaction are "
                     "excluded from non-bonded pairs (topology convention); DL_POLY force unit: file value x 0.1 = kJ/mol/nm"]
    for i, c in enumerate(enumerate_cases(a.tier)):
        if not a.mine(i):
            continue
        R.eval()
        cs = case_string(c)
        try:
            ok, key, what, cls = run_case(c, exe)
        except AssertionError as e:
            ok, key, what, cls = False, "harness-configuration-outside-domain", "generator assertion: %s" % (e,), None
        if not ok:
            R.fail(key, what, cs)
            R.count("failed_" + c["mix"])
        else:
            R.cls(cls)
            R.count("ok_" + c["mix"])
            R.sample(cs + " -> " + what)
    shutil.rmtree("fm_case", ignore_errors=True)
    R.write(a.out)
    return 0


if __name__ == "__main__":
    sys.exit(main())
