// bsx.h — helpers shared by all bounded-scope exhaustive (E3) harnesses.
//
// A harness is a stand-alone executable:
//   harness --tier quick|thorough --out <result.json>     full enumeration
//   harness --case "<case string>"                        re-run ONE case; exit 0 = holds, 3 = fails
// It never decides the exit status of a check itself; it writes a result file
// that /verif/check turns into evidence, replay files and VIOLATION lines.
#pragma once
#include <chrono>
#include <cmath>
#include <cstdint>
#include <cstdio>
#include <cstdlib>
#include <cstring>
#include <functional>
#include <map>
#include <set>
#include <sstream>
#include <string>
#include <vector>

namespace bsx {

inline std::string jesc(const std::string &s) {
  std::string o;
  o.reserve(s.size() + 2);
  for (unsigned char c : s) {
    switch (c) {
      case '"': o += "\\\""; break;
      case '\\': o += "\\\\"; break;
      case '\n': o += "\\n"; break;
      case '\t': o += "\\t"; break;
      case '\r': o += "\\r"; break;
      default:
        if (c < 0x20 || c >= 0x7f) {
          char b[8];
          snprintf(b, sizeof b, "\\u%04x", c);
          o += b;
        } else
          o += (char)c;
    }
  }
  return o;
}

inline std::string fmt(double v) {
  char b[64];
  snprintf(b, sizeof b, "%.17g", v);
  return b;
}

inline uint64_t fnv(const void *p, size_t n, uint64_t h = 1469598103934665603ull) {
  const unsigned char *c = (const unsigned char *)p;
  for (size_t i = 0; i < n; i++) {
    h ^= c[i];
    h *= 1099511628211ull;
  }
  return h;
}
inline uint64_t fnv(const std::string &s, uint64_t h = 1469598103934665603ull) {
  return fnv(s.data(), s.size(), h);
}

struct Failure {
  std::string key;   // narrow class key, e.g. "periodic-negative-multiple-of-nbins"
  std::string what;  // one line, human readable
  std::string cas;   // case string accepted by --case
};

// Cases of the code under test that do not finish within their per-case time limit (see contained() below) are findings
// ("hang"), but a systematic hang must not eat the whole shard: after hang_limit() of them (or 240 s spent waiting for them) the remaining cases of all
// contained() calls of this process are skipped, counted, and reported as a cap of the run.
inline int &hang_limit() { static int v = 12; return v; }
inline long long &hangs() { static long long v = 0; return v; }
inline long long &skipped_after_hangs() { static long long v = 0; return v; }
inline long long &hang_seconds() { static long long v = 0; return v; }  // time spent waiting for cases that never finished
inline bool hang_budget_used() { return hangs() >= hang_limit() || hang_seconds() >= 240; }
struct Report {
  std::string property, part, tier = "quick";
  std::string rule;
  long long evaluations = 0;
  std::set<uint64_t> classes;  // distinct non-trivial outcome classes (hashed)
  std::vector<std::string> samples;
  std::vector<Failure> failures;
  std::map<std::string, long long> failcount;  // per key, all occurrences
  std::map<std::string, long long> counters;   // extra coverage counters
  std::vector<std::string> caps;               // caps that were hit
  std::vector<std::string> assumptions;
  bool exhaustive = true;
  long long states = -1, transitions = -1, traces = -1;
  size_t max_fail_per_key = 5, max_samples = 8;
  long long sample_every = 0;  // 0: first max_samples
  std::chrono::steady_clock::time_point t0 = std::chrono::steady_clock::now();
  double deadline_s = 1e18;

  double elapsed() const {
    return std::chrono::duration<double>(std::chrono::steady_clock::now() - t0).count();
  }
  bool out_of_time() const { return elapsed() > deadline_s; }
  void eval(long long n = 1) { evaluations += n; }
  void cls(uint64_t h) { classes.insert(h); }
  void cls(const std::string &s) { classes.insert(fnv(s)); }
  void sample(const std::string &s) {
    if (samples.size() < max_samples) samples.push_back(s);
  }
  void cap(const std::string &s) {
    exhaustive = false;
    for (auto &c : caps)
      if (c == s) return;
    caps.push_back(s);
  }
  void fail(const std::string &key, const std::string &what, const std::string &cas) {
    long long &n = failcount[key];
    n++;
    if ((size_t)n <= max_fail_per_key) failures.push_back({key, what, cas});
  }
  bool write(const std::string &path) const {
    if (skipped_after_hangs() > 0)
      const_cast<Report *>(this)->cap("enumeration stopped after " + std::to_string(hangs()) + " cases that did not finish within their time limit; " +
                                      std::to_string(skipped_after_hangs()) + " cases of this shard were not evaluated");
    FILE *f = fopen(path.c_str(), "w");
    if (!f) return false;
    fprintf(f, "{\n \"property\":\"%s\",\"part\":\"%s\",\"tier\":\"%s\",\n", jesc(property).c_str(),
            jesc(part).c_str(), jesc(tier).c_str());
    fprintf(f, " \"rule\":\"%s\",\n", jesc(rule).c_str());
    fprintf(f, " \"evaluations\":%lld,\"distinct_nontrivial\":%zu,\"exhaustive\":%s,\n", evaluations,
            classes.size(), exhaustive ? "true" : "false");
    if (states >= 0) fprintf(f, " \"states\":%lld,\"transitions\":%lld,\"traces\":%lld,\n", states, transitions, traces);
    fprintf(f, " \"wall_s\":%.3f,\n", elapsed());
    auto list = [&](const char *name, const std::vector<std::string> &v) {
      fprintf(f, " \"%s\":[", name);
      for (size_t i = 0; i < v.size(); i++) fprintf(f, "%s\"%s\"", i ? "," : "", jesc(v[i]).c_str());
      fprintf(f, "],\n");
    };
    fprintf(f, " \"class_hashes\":[");
    {
      size_t k = 0;
      for (uint64_t h : classes) {
        if (k >= 200000) break;
        fprintf(f, "%s\"%llx\"", k ? "," : "", (unsigned long long)h);
        k++;
      }
    }
    fprintf(f, "],\n");
    list("samples", samples);
    list("caps", caps);
    list("assumptions", assumptions);
    fprintf(f, " \"counters\":{");
    bool first = true;
    for (auto &kv : counters) {
      fprintf(f, "%s\"%s\":%lld", first ? "" : ",", jesc(kv.first).c_str(), kv.second);
      first = false;
    }
    fprintf(f, "},\n \"failcount\":{");
    first = true;
    for (auto &kv : failcount) {
      fprintf(f, "%s\"%s\":%lld", first ? "" : ",", jesc(kv.first).c_str(), kv.second);
      first = false;
    }
    fprintf(f, "},\n \"failures\":[");
    for (size_t i = 0; i < failures.size(); i++) {
      fprintf(f, "%s\n  {\"key\":\"%s\",\"what\":\"%s\",\"case\":\"%s\"}", i ? "," : "",
              jesc(failures[i].key).c_str(), jesc(failures[i].what).c_str(), jesc(failures[i].cas).c_str());
    }
    fprintf(f, "]\n}\n");
    fclose(f);
    return true;
  }
};

struct Args {
  std::string tier = "quick", out, cas;
  bool has_case = false;
  int jobs = 16;
  int shard = 0, nshards = 1;
  bool mine(long long i) const { return nshards <= 1 || (i % nshards) == shard; }
  std::map<std::string, std::string> kv;
};
inline Args parse(int argc, char **argv) {
  Args a;
  for (int i = 1; i < argc; i++) {
    std::string s = argv[i];
    auto next = [&]() -> std::string { return i + 1 < argc ? argv[++i] : ""; };
    if (s == "--tier") a.tier = next();
    else if (s == "--out") a.out = next();
    else if (s == "--case") { a.cas = next(); a.has_case = true; }
    else if (s == "--jobs") a.jobs = atoi(next().c_str());
    else if (s == "--shard") a.shard = atoi(next().c_str());
    else if (s == "--nshards") a.nshards = atoi(next().c_str());
    else if (s.rfind("--", 0) == 0) a.kv[s.substr(2)] = next();
  }
  return a;
}

// split "a;b;c" helpers for case strings
inline std::vector<std::string> split(const std::string &s, char d) {
  std::vector<std::string> r;
  std::string cur;
  for (char c : s) {
    if (c == d) { r.push_back(cur); cur.clear(); }
    else cur += c;
  }
  r.push_back(cur);
  return r;
}
inline std::map<std::string, std::string> kvs(const std::string &s, char d = ';') {
  std::map<std::string, std::string> m;
  for (auto &p : split(s, d)) {
    auto e = p.find('=');
    if (e != std::string::npos) m[p.substr(0, e)] = p.substr(e + 1);
  }
  return m;
}
// exact double <-> string (hex float) so replays are bit-identical
inline std::string hexd(double v) {
  char b[64];
  snprintf(b, sizeof b, "%a", v);
  return b;
}
inline double unhex(const std::string &s) { return strtod(s.c_str(), nullptr); }

// odometer over mixed radices; returns false when wrapped around
inline bool next(std::vector<int> &idx, const std::vector<int> &radix) {
  for (size_t i = 0; i < idx.size(); i++) {
    if (++idx[i] < radix[i]) return true;
    idx[i] = 0;
  }
  return false;
}

}  // namespace bsx

#include <signal.h>
#include <sys/wait.h>
#include <unistd.h>
namespace bsx {
// Outcome of one case evaluated inside a contained (forked) child.
struct Outcome {
  bool ok = true;
  uint64_t cls = 0;      // outcome class hash (0 = trivial, not counted)
  std::string key, what; // when !ok
  std::string extra;     // free text handed back to the parent (e.g. canonical state)
};
// Evaluate cases lo..hi-1 with fn(i) inside forked children, so that a fatal
// outcome (segfault, abort from an assertion, sanitizer exit) of the code under
// test is attributed to exactly the case that caused it: the child reports each
// finished case through a pipe; the first unreported case of a dead child is the
// crashing one; a new child continues after it.
template <class F, class G>
void contained(long long lo, long long hi, F fn, G on_result, int per_case_timeout_s = 120) {
  long long next_i = lo;
  if (hang_budget_used()) { skipped_after_hangs() += hi - lo; return; }
  while (next_i < hi) {
    int fd[2];
    if (pipe(fd) != 0) { perror("pipe"); exit(2); }
    fflush(stdout); fflush(stderr);
    pid_t pid = fork();
    if (pid == 0) {
      close(fd[0]);
      for (long long i = next_i; i < hi; i++) {
        alarm(per_case_timeout_s);
        Outcome o = fn(i);
        std::string line = std::to_string(i) + "\x1f" + (o.ok ? "1" : "0") + "\x1f" + std::to_string(o.cls) +
                           "\x1f" + o.key + "\x1f" + o.what + "\x1f" + o.extra + "\x1e";
        size_t off = 0;
        while (off < line.size()) {
          ssize_t w = ::write(fd[1], line.data() + off, line.size() - off);
          if (w <= 0) _exit(98);
          off += (size_t)w;
        }
      }
      _exit(0);
    }
    close(fd[1]);
    std::string buf;
    char tmp[65536];
    long long last_done = next_i - 1;
    for (;;) {
      ssize_t r = ::read(fd[0], tmp, sizeof tmp);
      if (r <= 0) break;
      buf.append(tmp, (size_t)r);
      size_t pos;
      while ((pos = buf.find('\x1e')) != std::string::npos) {
        std::string rec = buf.substr(0, pos);
        buf.erase(0, pos + 1);
        auto f = split(rec, '\x1f');
        if (f.size() < 6) continue;
        Outcome o;
        long long i = atoll(f[0].c_str());
        o.ok = f[1] == "1";
        o.cls = strtoull(f[2].c_str(), nullptr, 10);
        o.key = f[3]; o.what = f[4]; o.extra = f[5];
        last_done = i;
        on_result(i, o);
      }
    }
    close(fd[0]);
    int st = 0;
    waitpid(pid, &st, 0);
    if (WIFEXITED(st) && WEXITSTATUS(st) == 0 && last_done == hi - 1) return;
    // child died while evaluating case last_done+1
    long long bad = last_done + 1;
    if (bad >= hi) return;
    Outcome o;
    o.ok = false;
    o.key = "fatal";
    char b[128];
    if (WIFSIGNALED(st)) snprintf(b, sizeof b, "process killed by signal %d (%s)", WTERMSIG(st), strsignal(WTERMSIG(st)));
    else snprintf(b, sizeof b, "process exited with status %d", WEXITSTATUS(st));
    o.what = b;
    on_result(bad, o);
    next_i = bad + 1;
    if (WIFSIGNALED(st) && WTERMSIG(st) == SIGALRM) {
      ++hangs();
      hang_seconds() += per_case_timeout_s;
      if (hang_budget_used()) { skipped_after_hangs() += hi - next_i; return; }
    }
  }
}
}  // namespace bsx
