# Per-harness build settings.  <name>_SRCS: sources from /repo compiled INTO the harness
# (relative to /repo); <name>_FLAGS; <name>_LIBS; <name>_XTP=1 for xtp include dirs.
TOOLSSO := $(V)/tools/src/libtools/libvotca_tools.so
CSGSO   := $(V)/csg/src/libcsg/libvotca_csg.so
EIGEN_THROW := '-Deigen_assert(x)=do{if(!(x))throw std::runtime_error("eigen_assert failed: " \#x);}while(0)'
SAN := -fsanitize=address,undefined -fno-sanitize-recover=all -fno-omit-frame-pointer -g1

HARNESSES :=

include $(sort $(wildcard flags.d/*.mk))
