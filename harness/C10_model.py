#!/usr/bin/env python3
"""C10 / E2: TLA+ model of the shared job file protocol (models/JobFile.tla) checked exhaustively by TLC
(all interleavings of K processes and, in the crash instances, a crash of any process at any step), bound to
the implementation in both directions on the crash-free instances:
  impl  -> model : every execution of the real ProgObserver code under the controlled scheduler (all schedules
                   with <= k preemptions) is projected onto the abstract steps (lock, load, truncB, writeB, truncF,
                   writeF, unlock, exec, report) and walked through the dumped state graph (the model's internal
                   req/take steps are silent); executed jobs and the final job file must equal the model's.
  model -> impl  : maximal model paths (all, or an edge cover) are forced onto the real code by a scheduling oracle
                   that always runs a thread of the process whose step comes next; the run must produce exactly
                   that step sequence and the model's final file.
A conformance failure unbinds the model for that configuration (no violation is raised: the direct exploration
decides the property); only a failure of the model's own invariants is a failure of this part.
"""
import os, re, subprocess, sys, collections
sys.path.insert(0, os.path.join(os.environ.get("VERIF_ROOT", "/verif"), "lib"))
import pybsx

ROOT = os.environ.get("VERIF_ROOT", "/verif")
JOBS = os.path.join(pybsx.BUILD, "harness", "C10_jobs")
CLASS = {"ilock": "lock", "slock": "lock", "iload": "load", "sload": "load", "itruncB": "truncB", "struncB": "truncB",
         "iwriteB": "writeB", "swriteB": "writeB", "struncF": "truncF", "swriteF": "writeF", "iunlock": "unlock",
         "sunlock": "unlock", "exec": "exec", "report": "report"}
SILENT = {"req", "take"}


class Unbound(Exception):
    pass


def run_tlc(wd, k, j, c, excl, crash, dump, workers=4):
    os.makedirs(wd, exist_ok=True)
    open(os.path.join(wd, "JobFile.tla"), "w").write(open(os.path.join(ROOT, "models", "JobFile.tla")).read())
    open(os.path.join(wd, "JobFile.cfg"), "w").write(
        "CONSTANTS K = %d J = %d C = %d EXCL = %s CRASH = %s\nSPECIFICATION Spec\n"
        "INVARIANTS ExecOnce CompleteCopy Durable NoTornRead AtEnd\n" % (k, j, c, "TRUE" if excl else "FALSE", "TRUE" if crash else "FALSE"))
    cmd = ["tlc", "-workers", str(workers), "-metadir", os.path.join(wd, "meta")]
    if dump:
        cmd += ["-dump", "dot,actionlabels", os.path.join(wd, "g.dot")]
    cmd += ["JobFile.tla"]
    r = subprocess.run(cmd, cwd=wd, stdout=subprocess.PIPE, stderr=subprocess.STDOUT, timeout=1800)
    out = r.stdout.decode(errors="replace")
    ok = "Model checking completed. No error has been found." in out
    m = re.search(r"(\d+) states generated, (\d+) distinct states found", out)
    return ok, out, (int(m.group(2)) if m else 0), (int(m.group(1)) if m else 0)


NODE = re.compile(r'^(-?\d+) \[label="(.*?)"(,tooltip=|,style|\])')
EDGE = re.compile(r'^(-?\d+) -> (-?\d+) \[')


def conj(lab, name):
    m = re.search(name + r' = (.*?)(?:\\n/\\\\ |$)', lab)
    return m.group(1) if m else ""


def parse_graph(path):
    nodes, edges, init = {}, collections.defaultdict(list), None
    for line in open(path):
        m = EDGE.match(line)
        if m:
            a, b = m.group(1), m.group(2)
            if a != b:
                edges[a].append(b)
            continue
        m = NODE.match(line)
        if m:
            nid, lab = m.group(1), m.group(2)
            lm = re.search(r'last = <<(\d+), \\"(\w+)\\">>', lab)
            f = conj(lab, "file")
            fok = "ok |-> TRUE" in f
            recs = re.findall(r'\[([^\[\]]*st \|-> [^\[\]]*)\]', f)
            jobs = []
            for r in recs:
                st = re.search(r'st \|-> \\"(\w)\\"', r).group(1)
                h = int(re.search(r'h \|-> (\d+)', r).group(1))
                o = int(re.search(r'(?<![a-z])o \|-> (\d+)', r).group(1))
                jobs.append("%s:%d:%d" % (st, h, o))
            ex = sorted(set(re.findall(r'<<(\d+), (\d+)>>', conj(lab, "execLog"))))
            nodes[nid] = dict(last=(int(lm.group(1)), lm.group(2)), fileok=fok, jobs=jobs, execlog=["%s:%s" % e for e in ex])
            if "style = filled" in line and init is None:
                init = nid
    return nodes, edges, init


def parse_trace(line):
    d = dict(p.split("=", 1) for p in line.rstrip("\n").split("|"))
    steps = [(int(x.split(":")[0]), x.split(":")[1]) for x in d["abs"].split(",")] if d["abs"] else []
    ex = sorted(set(d["exec"].split(","))) if d["exec"] else []
    return int(d["verdict"]), steps, ex, d["final"].split(";"), d.get("msg", "")


def silent_closure(nodes, edges, cur, p):
    """states reachable from cur by silent steps of process p (req/take), including cur"""
    seen, stack = [cur], [cur]
    while stack:
        a = stack.pop()
        for b in edges[a]:
            if nodes[b]["last"][0] == p and nodes[b]["last"][1] in SILENT and b not in seen:
                seen.append(b); stack.append(b)
    return seen


def walk(nodes, edges, init, steps):
    cur = init
    for i, (p, kind) in enumerate(steps):
        cands = []
        for a in silent_closure(nodes, edges, cur, p):
            for b in edges[a]:
                l = nodes[b]["last"]
                if l[0] == p and CLASS.get(l[1]) == kind:
                    cands.append(b)
        cands = list(dict.fromkeys(cands))
        if len(cands) != 1:
            return False, "step %d (%d:%s): %d matching model edges" % (i, p, kind, len(cands)), cur
        cur = cands[0]
    # trailing silent steps of any process
    changed = True
    while changed:
        changed = False
        for b in edges[cur]:
            if nodes[b]["last"][1] in SILENT:
                cur = b; changed = True; break
    return True, "", cur


def all_paths(nodes, edges, init, cap):
    paths, stack = [], [(init, [init])]
    while stack:
        cur, p = stack.pop()
        if not edges[cur]:
            paths.append(p)
            if len(paths) > cap:
                return None
            continue
        for b in edges[cur]:
            stack.append((b, p + [b]))
    return paths


def edge_cover(nodes, edges, init, limit):
    uncovered = {(a, b) for a in edges for b in edges[a]}
    parent = {init: None}
    q = collections.deque([init])
    while q:
        a = q.popleft()
        for b in edges[a]:
            if b not in parent:
                parent[b] = a; q.append(b)
    paths = []
    while uncovered and len(paths) < limit:
        a, b = next(iter(uncovered))
        pre, x = [], a
        while x is not None:
            pre.append(x); x = parent[x]
        p = pre[::-1] + [b]
        cur = b
        while edges[cur]:
            nxt = [c for c in edges[cur] if (cur, c) in uncovered] or edges[cur]
            cur = nxt[0]; p.append(cur)
        for i in range(len(p) - 1):
            uncovered.discard((p[i], p[i + 1]))
        paths.append(p)
    return paths, len(uncovered)


def conform(R, wd, k, j, c, bound, pathcap):
    cfgname = "K=%d J=%d C=%d" % (k, j, c)
    implcfg = "K=%d;T=1;jobs=%d;cache=%d;maxjobs=-1;seed=0;restart=;crash=-1:-1;scan=0" % (k, j, c)
    ok, out, nstates, ngen = run_tlc(wd, k, j, c, True, False, True)
    if not ok:
        kind = "invariant" if "is violated" in out else ("deadlock" if "Deadlock reached" in out else "tlc-error")
        R.fail("model-" + kind, "TLC on %s: %s" % (cfgname, out[-800:].replace("\n", " / ")), "model;" + implcfg)
        return 0, 0, 0
    nodes, edges, init = parse_graph(os.path.join(wd, "g.dot"))
    nedges = sum(len(v) for v in edges.values())
    try:
        tr = os.path.join(wd, "impl.txt")
        subprocess.run([JOBS, "--dump-traces", implcfg, "--bound", str(bound), "--outfile", tr], check=True, cwd=wd,
                       stdout=subprocess.DEVNULL, stderr=subprocess.DEVNULL, timeout=600)
        n_impl = 0
        for line in open(tr):
            verdict, steps, ex, final, msg = parse_trace(line)
            n_impl += 1
            R.eval()
            if verdict != 1:
                raise Unbound("implementation execution ended with verdict %d %s" % (verdict, msg))
            okw, where, fin = walk(nodes, edges, init, steps)
            if not okw:
                raise Unbound("implementation step not in the model: " + where)
            if edges[fin]:
                raise Unbound("implementation finished but the model has further steps")
            if nodes[fin]["execlog"] != ex or nodes[fin]["jobs"] != final:
                raise Unbound("final state differs: impl exec %s file %s, model exec %s file %s" % (ex, final, nodes[fin]["execlog"], nodes[fin]["jobs"]))
            R.cls(("i2m", cfgname, tuple(ex), tuple(final)))
        paths = all_paths(nodes, edges, init, pathcap)
        mode, left = "all-paths", 0
        if paths is None:
            paths, left = edge_cover(nodes, edges, init, pathcap)
            mode = "edge-cover"
        af = os.path.join(wd, "abs.txt")
        with open(af, "w") as fh:
            for p in paths:
                fh.write(",".join("%d:%s" % (nodes[x]["last"][0], CLASS[nodes[x]["last"][1]]) for x in p[1:] if nodes[x]["last"][1] not in SILENT) + "\n")
        of = os.path.join(wd, "forced.txt")
        subprocess.run([JOBS, "--run-abs", implcfg, "--absfile", af, "--outfile", of], check=True, cwd=wd,
                       stdout=subprocess.DEVNULL, stderr=subprocess.DEVNULL, timeout=600)
        n_model = 0
        for p, line in zip(paths, open(of).read().splitlines()):
            verdict, steps, ex, final, msg = parse_trace(line)
            n_model += 1
            R.eval()
            want = [(nodes[x]["last"][0], CLASS[nodes[x]["last"][1]]) for x in p[1:] if nodes[x]["last"][1] not in SILENT]
            if verdict != 1:
                raise Unbound("forcing a model path onto the code ended with verdict %d (%s)" % (verdict, msg))
            if steps != want:
                raise Unbound("steps differ on a forced model path: model %s impl %s" % (want[:30], steps[:30]))
            if nodes[p[-1]]["execlog"] != ex or nodes[p[-1]]["jobs"] != final:
                raise Unbound("final state differs on a forced model path")
            R.cls(("m2i", cfgname, tuple(ex), tuple(final)))
    except subprocess.TimeoutExpired as e:
        R.count("configs_conformance_timed_out")
        R.cap("conformance run for %s exceeded its time limit: model not used as evidence for this configuration" % cfgname)
        return nstates, nedges, 0
    except Unbound as e:
        R.count("configs_model_not_bound")
        R.cap("model not bound to this tree for %s: %s" % (cfgname, str(e)[:300]))
        return nstates, nedges, 0
    R.count("model_states_conformance_instances", nstates)
    R.count("impl_traces_walked_through_model", n_impl)
    R.count("model_paths_forced_on_impl_" + mode, n_model)
    if left:
        R.count("model_edges_not_covered_by_forced_paths", left)
    if len(R.samples) < R.max_samples and paths:
        p = paths[0]
        R.sample("%s: %d states, %d edges, %s %d; first path: %s" % (cfgname, nstates, nedges, mode, len(paths),
                 " ".join("%d:%s" % nodes[x]["last"] for x in p[1:40])))
    return nstates, nedges, n_impl + n_model


def main():
    a = pybsx.parse()
    if a.case is not None:
        kv = dict(x.split("=", 1) for x in a.case.split(";") if "=" in x)
        R = pybsx.Report("C10", "model", "quick")
        ok, out, ns, ng = run_tlc(os.path.join(os.getcwd(), "case"), int(kv["K"]), int(kv["jobs"]), int(kv["cache"]), True, kv.get("mcrash") == "1", False)
        if not ok:
            print("case FAILS: model invariant/deadlock", out[-600:])
            return 3
        print("case holds")
        return 0
    R = pybsx.Report("C10", "model", a.tier)
    thorough = a.tier == "thorough"
    R.rule = ("TLA+ model models/JobFile.tla (abstract steps lock/load/truncB/writeB/truncF/writeF/unlock/exec/report per process, crash of any process at "
              "any step) checked by TLC over ALL interleavings with invariants: no job executed twice, job file or backup complete at every state, committed "
              "results never lost from the surviving copy, no torn read without a crash, final file = executors' results; the same model with the shared lock "
              "must FAIL (sanity); crash-free instances are bound to the code by projecting every implementation execution (<=k preemptions) onto the model and by "
              "forcing model paths onto the real code. distinct_nontrivial = distinct (direction/instance, executed-job assignment, final file)")
    work = []
    conf = [(1, 1, 1), (1, 2, 1), (2, 1, 1), (2, 2, 1), (2, 2, 2)] + ([(2, 3, 1), (2, 3, 2), (3, 1, 1), (3, 2, 1)] if thorough else [])
    for c in conf:
        work.append(("conf",) + c)
    crash = [(2, 2, 1), (2, 2, 2), (2, 3, 2)] + ([(3, 2, 1), (3, 3, 2), (2, 4, 2)] if thorough else [])
    for c in crash:
        work.append(("crash",) + c)
    work.append(("shared", 2, 2, 1))
    states = trans = traces = 0
    for i, w in enumerate(work):
        if not a.mine(i):
            continue
        wd = os.path.join(os.getcwd(), "w%d" % i)
        kind, k, j, c = w
        if kind == "conf":
            # preemption bound of the implementation executions walked through the model: 1 for two processes,
            # 0 for three (non-preemptive switches only; the forced model paths cover the rest)
            s, e, t = conform(R, wd, k, j, c, 1 if k == 2 else 0, 300 if not thorough else 1500)
            states += s; trans += e; traces += t
        elif kind == "crash":
            ok, out, ns, ng = run_tlc(wd, k, j, c, True, True, False, workers=8)
            R.eval()
            if not ok:
                knd = "invariant" if "is violated" in out else ("deadlock" if "Deadlock reached" in out else "tlc-error")
                R.fail("model-crash-" + knd, "TLC (with crashes) on K=%d J=%d C=%d: %s" % (k, j, c, out[-800:].replace("\n", " / ")),
                       "model;K=%d;jobs=%d;cache=%d;mcrash=1" % (k, j, c))
            else:
                R.cls(("crash-instance", k, j, c, ns))
                R.count("model_states_crash_instances", ns)
                states += ns; trans += ng
        else:
            ok, out, ns, ng = run_tlc(wd, k, j, c, False, False, False)
            R.eval()
            if ok:
                R.fail("model-sanity-shared-lock-not-detected", "the model with the shared lock satisfies all invariants: the model cannot see the defect it documents", "model;K=2;jobs=2;cache=1")
            else:
                R.cls(("shared-lock-instance-fails", re.search(r"Invariant (\w+) is violated", out).group(1) if re.search(r"Invariant (\w+) is violated", out) else "?"))
                R.count("shared_lock_instance_counterexample_found", 1)
    R.states, R.transitions, R.traces = states, trans, traces
    R.assumptions = ["model: one worker thread per process, no restart patterns, no maxjobs; crash = process crash"]
    R.write(a.out)
    return 0


if __name__ == "__main__":
    sys.exit(main())
